"""Translator anchors for fedjax/datasets/cifar100.py (C20): crop offsets of
preprocess_image_tff (centre and random), the argument guard, the random crop of
preprocess_image, and the standardisation expressions (symbolic over sqrt)."""
import ast
from lib.c20tr import A_forwarding, D, _T, _unsupported, _body, zdef, _first_assign

SRC = 'fedjax/datasets/cifar100.py'


def _find_if(stmts, pred):
  for s in stmts:
    if isinstance(s, ast.If) and pred(s.test):
      return s
  _unsupported('if statement not found')


def _tff(tree):
  T = _T()
  fd = T.find_def(tree, 'preprocess_image_tff')
  if [a.arg for a in fd.args.args] != ['image', 'crop_height', 'crop_width', 'distort']:
    _unsupported('preprocess_image_tff: parameters changed')
  b = _body(fd)
  out = []
  ctx = T.Ctx()
  env = {'crop_height': 'Z', 'crop_width': 'Z'}
  # guard: if <test>: raise ValueError
  g = b[0]
  if not (isinstance(g, ast.If) and len(g.body) == 1 and isinstance(g.body[0], ast.Raise) and not g.orelse):
    _unsupported('preprocess_image_tff: first statement is not the argument guard')
  t, _ = ctx.expr(g.test, env, 'bool')
  out.append(f'Definition crop_args_rejected (crop_height crop_width : Z) : bool := {t}.')
  d = _find_if(b, lambda t: isinstance(t, ast.Name) and t.id == 'distort')
  # centre crop (else branch)
  for nm, coq, par in (('height_offset', 'center_height_offset', 'crop_height'), ('width_offset', 'center_width_offset', 'crop_width')):
    s = _first_assign(d.orelse, nm)
    t, _ = ctx.expr(s.value, env, 'Z')
    out.append(zdef(coq, ['crop_height', 'crop_width'], t))
  sl = [s for s in d.orelse if isinstance(s, ast.Assign) and D(s.targets[0]) == 'image' and isinstance(s.value, ast.Subscript)]
  if len(sl) != 1 or not isinstance(sl[0].value.slice, ast.Tuple) or len(sl[0].value.slice.elts) != 4:
    _unsupported('preprocess_image_tff: centre crop slicing has an unexpected form')
  envc = dict(env, height_offset='Z', width_offset='Z')
  for ax, (k, nm) in enumerate(((1, 'h'), (2, 'w'))):
    e = sl[0].value.slice.elts[k]
    if not (isinstance(e, ast.Slice) and e.step is None and e.lower is not None and e.upper is not None):
      _unsupported('preprocess_image_tff: centre crop slice bound missing')
    lo, _ = ctx.expr(e.lower, envc, 'Z')
    hi, _ = ctx.expr(e.upper, envc, 'Z')
    out.append(zdef(f'center_{nm}_lo', ['crop_height', 'crop_width', 'height_offset', 'width_offset'], lo))
    out.append(zdef(f'center_{nm}_hi', ['crop_height', 'crop_width', 'height_offset', 'width_offset'], hi))
  for k in (0, 3):
    e = sl[0].value.slice.elts[k]
    if not (isinstance(e, ast.Slice) and e.lower is None and e.upper is None and e.step is None):
      _unsupported('preprocess_image_tff: centre crop touches the batch / channel axis')
  # random crop (then branch): per-axis scalar reading of the vector arithmetic
  body = d.body
  s = _first_assign(body, 'crop_shape')
  v = s.value
  ok = isinstance(v, ast.Call) and isinstance(v.func, ast.Attribute) and v.func.attr == 'astype' and \
      isinstance(v.func.value, ast.Call) and D(v.func.value.func) == 'np.array' and \
      isinstance(v.func.value.args[0], ast.Tuple) and len(v.func.value.args[0].elts) == 3
  if not ok:
    _unsupported('preprocess_image_tff: crop_shape is not np.array((h, w, c)).astype(..)')
  cs = [ctx.expr(x, env, 'Z')[0] for x in v.func.value.args[0].elts]
  out.append(f'Definition rand_crop_shape (crop_height crop_width : Z) : list Z := [{"; ".join(cs)}].')
  s = _first_assign(body, 'shape')   # np.array(image.shape).astype(np.int32)[1:]
  v = s.value
  ok = isinstance(v, ast.Subscript) and isinstance(v.slice, ast.Slice) and isinstance(v.slice.lower, ast.Constant) and \
      v.slice.lower.value == 1 and v.slice.upper is None
  if not ok:
    _unsupported('preprocess_image_tff: shape is not np.array(image.shape)...[1:]')
  venv = {'shape_k': 'Z', 'crop_k': 'Z', 'u_k': 'Z'}
  vctx = T.Ctx(names={'shape': 'shape_k', 'crop_shape': 'crop_k'})
  s = _first_assign(body, 'limit')
  lim, _ = vctx.expr(s.value, venv, 'Z')
  out.append(zdef('rand_limit', ['shape_k', 'crop_k'], lim))
  s = _first_assign(body, 'offset')   # np.random.uniform(high=.., size=..).astype(limit.dtype) % limit
  v = s.value
  ok = isinstance(v, ast.BinOp) and isinstance(v.op, ast.Mod) and D(v.right) == 'limit' and \
      isinstance(v.left, ast.Call) and isinstance(v.left.func, ast.Attribute) and v.left.func.attr == 'astype' and \
      isinstance(v.left.func.value, ast.Call) and D(v.left.func.value.func) == 'np.random.uniform'
  if not ok:
    _unsupported('preprocess_image_tff: offset is not uniform(..).astype(..) % limit')
  kw = {k.arg: k.value for k in v.left.func.value.keywords}
  if 'low' in kw or v.left.func.value.args:
    _unsupported('preprocess_image_tff: uniform draw has a lower bound / positional arguments')
  out.append(zdef('rand_offset', ['u_k', 'limit_k'], '(u_k mod limit_k)'))
  # begin_i, begin_j, _ = offset ; end_i, end_j, _ = offset + crop_shape
  tb = [s for s in body if isinstance(s, ast.Assign) and isinstance(s.targets[0], ast.Tuple)]
  if len(tb) != 2 or [D(x) for x in tb[0].targets[0].elts] != ['begin_i', 'begin_j', '_'] or \
      D(tb[0].value) != 'offset' or [D(x) for x in tb[1].targets[0].elts] != ['end_i', 'end_j', '_']:
    _unsupported('preprocess_image_tff: begin/end unpacking has an unexpected form')
  ectx = T.Ctx(names={'offset': 'offset_k', 'crop_shape': 'crop_k'})
  en, _ = ectx.expr(tb[1].value, {'offset_k': 'Z', 'crop_k': 'Z'}, 'Z')
  out.append(zdef('rand_end', ['offset_k', 'crop_k'], en))
  sl = [s for s in body if isinstance(s, ast.Assign) and D(s.targets[0]) == 'image' and isinstance(s.value, ast.Subscript)]
  if len(sl) != 1 or not isinstance(sl[0].value.slice, ast.Tuple) or len(sl[0].value.slice.elts) != 4:
    _unsupported('preprocess_image_tff: random crop slicing has an unexpected form')
  want = [(None, None), ('begin_i', 'end_i'), ('begin_j', 'end_j'), (None, None)]
  for e, (lo, hi) in zip(sl[0].value.slice.elts, want):
    got = (None if e.lower is None else D(e.lower), None if e.upper is None else D(e.upper))
    if not isinstance(e, ast.Slice) or e.step is not None or got != (lo, hi):
      _unsupported('preprocess_image_tff: random crop slices are not [:, begin_i:end_i, begin_j:end_j, :]')
  # standardisation (symbolic): num_pixels, mean/std axes, std floor, result
  rest = b[b.index(d) + 1:]

  def sym(e):
    if isinstance(e, ast.Name):
      if e.id in ('image', 'image_mean', 'image_std', 'image_adjusted_std', 'num_pixels'):
        return e.id
      _unsupported('standardisation: unknown name ' + e.id)
    if isinstance(e, ast.Constant) and isinstance(e.value, (int, float)) and float(e.value) == 1.0:
      return 'rone'
    if isinstance(e, ast.BinOp) and isinstance(e.op, ast.Div):
      return f'(rdiv {sym(e.left)} {sym(e.right)})'
    if isinstance(e, ast.BinOp) and isinstance(e.op, ast.Sub):
      return f'(rsub {sym(e.left)} {sym(e.right)})'
    if isinstance(e, ast.Call) and D(e.func) == 'np.maximum' and len(e.args) == 2 and not e.keywords:
      return f'(rmax {sym(e.args[0])} {sym(e.args[1])})'
    if isinstance(e, ast.Call) and D(e.func) == 'np.sqrt' and len(e.args) == 1 and not e.keywords:
      return f'(rsqrt {sym(e.args[0])})'
    _unsupported('standardisation: expression outside the symbolic subset: ' + ast.dump(e)[:120])

  def axes(call, fn):
    ok = isinstance(call, ast.Call) and D(call.func) == fn and len(call.args) == 1 and D(call.args[0]) == 'image'
    kw = {k.arg: k.value for k in call.keywords} if ok else {}
    ok = ok and set(kw) == {'axis', 'keepdims'} and isinstance(kw['axis'], ast.Tuple) and \
        isinstance(kw['keepdims'], ast.Constant) and kw['keepdims'].value is True
    if not ok:
      _unsupported(f'standardisation: {fn}(image, axis=(..), keepdims=True) expected')
    return sorted(ctx.expr(x, {}, 'Z')[0] for x in kw['axis'].elts)

  s = _first_assign(rest, 'num_pixels')
  v = s.value
  ok = isinstance(v, ast.Call) and D(v.func) == 'np.prod' and isinstance(v.args[0], ast.Subscript) and \
      D(v.args[0].value) == 'image.shape' and isinstance(v.args[0].slice, ast.Slice) and v.args[0].slice.upper is None
  if not ok:
    _unsupported('standardisation: num_pixels is not np.prod(image.shape[k:])')
  out.append(zdef('std_num_pixels_from_axis', [], ctx.expr(v.args[0].slice.lower, {}, 'Z')[0]))
  out.append(f'Definition std_mean_axes : list Z := [{"; ".join(axes(_first_assign(rest, "image_mean").value, "np.mean"))}].')
  out.append(f'Definition std_std_axes : list Z := [{"; ".join(axes(_first_assign(rest, "image_std").value, "np.std"))}].')
  out.append('Section Standardise.\nContext {R : Type} (rone : R) (rdiv rsub rmax : R -> R -> R) (rsqrt : R -> R).')
  out.append(f'Definition std_adjusted (image_std num_pixels : R) : R := {sym(_first_assign(rest, "image_adjusted_std").value)}.')
  r = [s for s in rest if isinstance(s, ast.Return)]
  if len(r) != 1:
    _unsupported('standardisation: expected one return')
  out.append(f'Definition std_result (image image_mean image_adjusted_std : R) : R := {sym(r[0].value)}.')
  out.append('End Standardise.')
  return '\n'.join(out)


def _plain(tree):
  """preprocess_image(is_train=True): pad, random offsets, 32-wide window."""
  T = _T()
  fd = T.find_def(tree, 'preprocess_image')
  b = _body(fd)
  t = _find_if(b, lambda t: isinstance(t, ast.Name) and t.id == 'is_train')
  ctx = T.Ctx()
  s = _first_assign(t.body, 'num_paddings')
  npad, _ = ctx.expr(s.value, {}, 'Z')
  out = [zdef('plain_num_paddings', [], npad)]
  tb = [s for s in t.body if isinstance(s, ast.Assign) and isinstance(s.targets[0], ast.Tuple)]
  ok = len(tb) == 1 and [D(x) for x in tb[0].targets[0].elts] == ['i', 'j'] and isinstance(tb[0].value, ast.Call) and \
      D(tb[0].value.func) == 'np.random.randint' and len(tb[0].value.args) == 1
  if not ok:
    _unsupported('preprocess_image: i, j = np.random.randint(<high>, size=[2]) expected')
  hi, _ = ctx.expr(tb[0].value.args[0], {'num_paddings': 'Z'}, 'Z')
  out.append(zdef('plain_rand_high', ['num_paddings'], hi))
  sl = [s for s in t.body if isinstance(s, ast.Assign) and D(s.targets[0]) == 'image' and isinstance(s.value, ast.Subscript)]
  if len(sl) != 1 or not isinstance(sl[0].value.slice, ast.Tuple) or len(sl[0].value.slice.elts) != 4:
    _unsupported('preprocess_image: crop slicing has an unexpected form')
  for k, v in ((1, 'i'), (2, 'j')):
    e = sl[0].value.slice.elts[k]
    if not (isinstance(e, ast.Slice) and D(e.lower) == v):
      _unsupported('preprocess_image: crop does not start at the drawn offset')
    en, _ = T.Ctx(names={v: 'off'}).expr(e.upper, {'off': 'Z'}, 'Z')
    out.append(zdef(f'plain_end_{v}', ['off'], en))
  return '\n'.join(out)


def _plain_norm(tree):
  """CIFAR100_PIXELS_MEAN / _INVERSE_STDDEV and the normalisation expression of preprocess_image, over Q
  (decimal literals are taken exactly as written)."""
  from fractions import Fraction
  T = _T()

  def arr_lits(e, what):
    ok = isinstance(e, ast.Call) and D(e.func) == 'np.array' and isinstance(e.args[0], ast.List) and \
        all(isinstance(x, ast.Constant) and isinstance(x.value, float) for x in e.args[0].elts)
    kw = {k.arg: D(k.value) for k in e.keywords} if ok else {}
    if not ok or kw != {'dtype': 'np.float32'} or len(e.args[0].elts) != 3:
      _unsupported(what + ': not np.array([a, b, c], dtype=np.float32)')
    out = []
    for x in e.args[0].elts:
      fr = Fraction(ast.get_source_segment(SRC_TEXT[0], x) or repr(x.value))
      out.append(f'({fr.numerator} # {fr.denominator})')
    return out
  mean = _first_assign(tree.body, 'CIFAR100_PIXELS_MEAN').value
  inv = _first_assign(tree.body, 'CIFAR100_PIXELS_INVERSE_STDDEV').value
  if not (isinstance(inv, ast.BinOp) and isinstance(inv.op, ast.Div) and isinstance(inv.left, ast.Constant) and inv.left.value == 1):
    _unsupported('CIFAR100_PIXELS_INVERSE_STDDEV is not 1 / np.array([...])')
  out = ['From Coq Require Import QArith.',
         f'Definition plain_mean : list Q := [{"; ".join(arr_lits(mean, "CIFAR100_PIXELS_MEAN"))}].',
         f'Definition plain_std : list Q := [{"; ".join(arr_lits(inv.right, "CIFAR100_PIXELS_INVERSE_STDDEV"))}].']
  fd = T.find_def(tree, 'preprocess_image')
  last = [s for s in _body(fd) if isinstance(s, ast.Assign) and D(s.targets[0]) == 'image' and not isinstance(s, ast.If)]
  if not last or not isinstance(_body(fd)[-1], ast.Return) or D(_body(fd)[-1].value) != 'image' or _body(fd)[-2] is not last[-1]:
    _unsupported('preprocess_image: does not end with image = <normalisation>; return image')

  def q(e):
    if isinstance(e, ast.BinOp) and type(e.op) in (ast.Sub, ast.Mult, ast.Div):
      return f'({q(e.left)} {"-" if isinstance(e.op, ast.Sub) else "*" if isinstance(e.op, ast.Mult) else "/"} {q(e.right)})'
    if isinstance(e, ast.Constant) and isinstance(e.value, int) and not isinstance(e.value, bool):
      return f'({e.value} # 1)'
    if ast.unparse(e) == 'image.astype(np.float32)':
      return 'v'
    if D(e) == 'CIFAR100_PIXELS_MEAN':
      return 'mean'
    if D(e) == 'CIFAR100_PIXELS_INVERSE_STDDEV':
      return '((1 # 1) / std)'
    _unsupported('preprocess_image: normalisation expression outside the subset: ' + ast.unparse(e)[:80])
  out.append(f'Definition plain_normalise (v mean std : Q) : Q := ({q(last[-1].value)})%Q.')
  return '\n'.join(out)


SRC_TEXT = [open(__import__('os').path.join(__import__('os').environ.get('VERIF_REPO', '/repo'), SRC)).read()]

MODULES = {
    'Gen_ds_cifar100_norm': {'src': SRC, 'items': [_plain_norm]},
    'Gen_ds_cifar100': {
        'src': SRC,
        'items': [_tff, _plain,
                  A_forwarding('preprocess_batch_tff', 'preprocess_image_tff', 'cifar_batch_tff_forwards'),
                  A_forwarding('preprocess_batch', 'preprocess_image', 'cifar_batch_forwards'),
                  A_forwarding('load_data', 'load_split', 'cifar_load_data_forwards')],
    },
}
