"""Translator anchor for fedjax/training/tasks.py (C20): the keyword arguments that
get_task passes to the packaged dataset / tokenizer / model constructors of the
language and CIFAR tasks (None = the callee's default is used)."""
import ast
from lib.c20tr import A_forwarding, D, _T, _unsupported

SRC = 'fedjax/training/tasks.py'


def _branch(fd, name):
  """Statements of the `if/elif name == '<name>':` branch of get_task."""
  for n in ast.walk(fd):
    if isinstance(n, ast.If) and isinstance(n.test, ast.Compare) and isinstance(n.test.left, ast.Name) and \
        n.test.left.id == 'name' and isinstance(n.test.comparators[0], ast.Constant) and n.test.comparators[0].value == name:
      return n.body
  _unsupported(f'get_task: branch {name} not found')


def _calls(stmts, suffix):
  T = _T()
  out = []
  for s in stmts:
    for n in ast.walk(s):
      if isinstance(n, ast.Call):
        try:
          d = D(n.func)
        except T.Unsupported:
          continue
        if d.endswith(suffix):
          out.append(n)
  return out


def _kw_int(call, kw, pos=None):
  """Integer literal passed for keyword kw (or positional index pos); 'None' when absent."""
  for k in call.keywords:
    if k.arg is None:
      _unsupported('get_task: **kwargs in a packaged constructor call')
    if k.arg == kw:
      if isinstance(k.value, ast.Constant) and isinstance(k.value.value, int):
        return f'(Some {k.value.value})'
      if isinstance(k.value, ast.Name):
        return ('name', k.value.id)
      _unsupported(f'get_task: {kw}= is not an integer literal')
  if pos is not None and len(call.args) > pos:
    a = call.args[pos]
    if isinstance(a, ast.Constant) and isinstance(a.value, int):
      return f'(Some {a.value})'
    if isinstance(a, ast.Name):
      return ('name', a.id)
    _unsupported(f'get_task: positional argument {pos} is not an integer literal')
  return 'None'


def _one(calls, what):
  if len(calls) != 1:
    _unsupported(f'get_task: expected exactly one call of {what}, found {len(calls)}')
  return calls[0]


def _tasks(tree):
  T = _T()
  fd = T.find_def(tree, 'get_task')
  out = []

  def odef(name, v):
    if isinstance(v, tuple):
      _unsupported(f'get_task: {name} is passed a variable')
    out.append(f'Definition {name} : option Z := {v}.')

  so = _branch(fd, 'STACKOVERFLOW_WORD')
  tok = _one(_calls(so, 'stackoverflow.StackoverflowTokenizer'), 'StackoverflowTokenizer')
  if any(k.arg == 'vocab' for k in tok.keywords) or tok.args:
    _unsupported('get_task: StackoverflowTokenizer is given an explicit vocabulary / positional arguments')
  odef('task_so_tok_default_vocab_size', _kw_int(tok, 'default_vocab_size'))
  odef('task_so_tok_num_oov_buckets', _kw_int(tok, 'num_oov_buckets'))
  mdl = _one(_calls(so, 'models.stackoverflow.create_lstm_model'), 'stackoverflow.create_lstm_model')
  odef('task_so_model_vocab_size', _kw_int(mdl, 'vocab_size', 0))
  pb = _calls(so, 'tokenizer.as_preprocess_batch')
  if len(pb) != 2:
    _unsupported('get_task: expected train and test as_preprocess_batch calls')
  lens = []
  for c in pb:
    v = _kw_int(c, 'max_length', 0)
    if isinstance(v, tuple):
      s = [x for x in so if isinstance(x, ast.Assign) and D(x.targets[0]) == v[1]]
      if len(s) != 1 or not (isinstance(s[0].value, ast.Constant) and isinstance(s[0].value.value, int)):
        _unsupported('get_task: max_length is not an integer literal')
      v = f'(Some {s[0].value.value})'
    lens.append(v)
  out.append(f'Definition task_so_train_max_length : option Z := {lens[0]}.')
  out.append(f'Definition task_so_test_max_length : option Z := {lens[1]}.')

  sh = _branch(fd, 'SHAKESPEARE_CHARACTER')
  ld = _one(_calls(sh, 'datasets.shakespeare.load_data'), 'shakespeare.load_data')
  odef('task_sh_sequence_length', _kw_int(ld, 'sequence_length', 0))
  mdl = _one(_calls(sh, 'models.shakespeare.create_lstm_model'), 'shakespeare.create_lstm_model')
  odef('task_sh_model_vocab_size', _kw_int(mdl, 'vocab_size', 0))

  cf = _branch(fd, 'CIFAR100_LOGISTIC')
  pbs = [n for s in cf for n in ast.walk(s) if isinstance(n, ast.Attribute) and n.attr in ('preprocess_batch_tff', 'preprocess_batch')
         and isinstance(n.value, ast.Attribute) and n.value.attr == 'cifar100']
  if len(pbs) != 2 or any(n.attr != 'preprocess_batch_tff' for n in pbs):
    _unsupported('get_task: CIFAR100_LOGISTIC does not preprocess train and test with preprocess_batch_tff (defaults)')
  if _calls(cf, 'functools.partial') or _calls(cf, 'partial'):
    _unsupported('get_task: CIFAR100_LOGISTIC binds preprocessing arguments')
  out.append('Definition task_cifar_uses_tff_defaults : bool := true.')

  def kw_bool(call, kw):
    for k in call.keywords:
      if k.arg == kw and isinstance(k.value, ast.Constant) and isinstance(k.value.value, bool):
        return 'true' if k.value.value else 'false'
    _unsupported(f'get_task: {kw}= must be passed as a literal True/False')

  for task, ctor in (('EMNIST_CONV', 'create_conv_model'), ('EMNIST_LOGISTIC', 'create_logistic_model'),
                     ('EMNIST_DENSE', 'create_dense_model')):
    br = _branch(fd, task)
    ld = _one(_calls(br, 'datasets.emnist.load_data'), 'emnist.load_data')
    md = [c for c in _calls(br, 'models.emnist.' + ctor)]
    if len(md) != 1 or len([c for s in br for c in ast.walk(s) if isinstance(c, ast.Call) and (D(c.func) or '').startswith('models.')]) != 1:
      _unsupported(f'get_task: {task} does not build exactly models.emnist.{ctor}')
    low = task.lower()
    out.append(f'Definition task_{low}_data_only_digits : bool := {kw_bool(ld, "only_digits")}.')
    out.append(f'Definition task_{low}_model_only_digits : bool := {kw_bool(md[0], "only_digits")}.')
  return '\n'.join(out)


def _cifar_model(tree):
  """_HAIKU_SAMPLE_BATCH['x'] shape of fedjax/models/cifar100.py"""
  T = _T()
  for s in tree.body:
    if isinstance(s, ast.Assign) and D(s.targets[0]) == '_HAIKU_SAMPLE_BATCH' and isinstance(s.value, ast.Dict):
      for k, v in zip(s.value.keys, s.value.values):
        if isinstance(k, ast.Constant) and k.value == 'x':
          if isinstance(v, ast.Call) and D(v.func) == 'np.zeros' and isinstance(v.args[0], ast.Tuple):
            dims = [str(x.value) for x in v.args[0].elts if isinstance(x, ast.Constant) and isinstance(x.value, int)]
            if len(dims) == len(v.args[0].elts):
              return f'Definition cifar_model_sample_shape : list Z := [{"; ".join(dims)}].'
  _unsupported('models/cifar100.py: _HAIKU_SAMPLE_BATCH x shape not found')


def _cifar_defaults(tree):
  from lib.c20tr import A_default
  return '\n'.join([A_default('preprocess_batch_tff', 'crop_height', 'cifar_default_crop_height')(tree),
                    A_default('preprocess_batch_tff', 'crop_width', 'cifar_default_crop_width')(tree)])


def _sh_default(tree):
  from lib.c20tr import A_default
  return A_default('load_data', 'sequence_length', 'sh_default_sequence_length')(tree)


MODULES = {
    'Gen_tasks': {'src': SRC, 'items': [_tasks, A_forwarding('get_task', 'load_data', 'tasks_forward_mode_and_cache_dir',
                                                             callee_params=['only_digits', 'sequence_length', 'mode', 'cache_dir'])]},
    'Gen_md_cifar100': {'src': 'fedjax/models/cifar100.py', 'items': [_cifar_model]},
    'Gen_ds_cifar100_defaults': {'src': 'fedjax/datasets/cifar100.py', 'items': [_cifar_defaults]},
    'Gen_ds_shakespeare_defaults': {'src': 'fedjax/datasets/shakespeare.py', 'items': [_sh_default]},
}
