"""Translator anchors for the mask / regulariser arithmetic of C06:
models.grad.scalar_loss, _evaluate_average_loss_step, _finalize_average_loss,
mime.create_grads_for_each_client.client_step, the server-gradient normalisation
of mime / mime_lite, agnostic_fed_avg.create_domain_metrics_for_each_client.client_step
and the fact that the packaged agnostic algorithm builds it without a regularizer."""
from lib.c06tr import A_maskfun, A_server_grads, A_no_regularizer_arg
from lib.mtr import A_no_hidden_inputs

PRE = ('From Coq Require Import QArith.\n'
       'From FV Require Import Common.CMonoid Common.NanQ gen.Gen_util gen.Gen_tree_util Model.C06_Prims.\n')
SAFE_DIV = {'util.safe_div': ('safe_div {0} {1}', ['Q', 'Q'], 'Q')}
TREE = {'tree_util.tree_add': ('tree_add {0} {1}', ['tree', 'tree'], 'tree'),
        'tree_util.tree_weight': ('tree_weight {0} {1}', ['tree', 'Q'], 'tree')}

MODULES = {
    'Gen_c06_models': {
        'src': 'fedjax/core/models.py',
        'preamble': PRE,
        'items': [
            A_no_hidden_inputs(allowed=('Model.__hash__',)),   # Model is id-hashed by design (documented in the class)
            A_maskfun('grad.scalar_loss', 'gen_scalar_loss', ['params', 'batch_example', 'rng'],
                      [('loss_vals', 'tree'), ('mask', 'otree'), ('reg', 'oQ')], ('expr', 'Q'), 'NanQ.t',
                      {'loss_fn': 'per_example_loss', 'batch': 'batch_example'}, SAFE_DIV),
            A_maskfun('_evaluate_average_loss_step', 'gen_avg_step',
                      ['per_example_loss', 'params', 'batch', 'rng', 'accum_loss', 'num_examples'],
                      [('loss_vals', 'tree'), ('mask', 'otree'), ('accum_loss', 'Q'), ('num_examples', 'Q')],
                      ('names', ['accum_loss', 'num_examples'], ['rng']), '(NanQ.t * NanQ.t)',
                      {'loss_fn': 'per_example_loss', 'batch': 'batch'}, SAFE_DIV),
            A_maskfun('_finalize_average_loss', 'gen_finalize_avg',
                      ['regularizer', 'params', 'accum_loss', 'num_examples'],
                      [('accum_loss', 'Q'), ('num_examples', 'Q'), ('reg', 'oQ')], ('expr', 'Q'), 'NanQ.t',
                      {'batch': '-'}, SAFE_DIV),
        ],
    },
    'Gen_c06_mime': {
        'src': 'fedjax/algorithms/mime.py',
        'preamble': PRE,
        'items': [
            A_no_hidden_inputs(),
            A_maskfun('create_grads_for_each_client.client_step', 'gen_mime_client_step', ['client_step_state', 'batch'],
                      [('grads', 'tree'), ('mask', 'tree'), ('st_grads_sum', 'tree'), ('st_num_sum', 'Q')],
                      ('dict', ['grads_sum', 'num_sum']), '(list NanQ.t * NanQ.t)',
                      {'grad_fn': 'grad_fn', 'batch': 'batch', 'state': 'client_step_state', 'mask_required': True}, TREE),
            A_server_grads('mime.apply', 'gen_mime_server_grads'),
        ],
    },
    'Gen_c06_mime_lite': {
        'src': 'fedjax/algorithms/mime_lite.py',
        'preamble': PRE,
        'items': [A_no_hidden_inputs(), A_server_grads('mime_lite.apply', 'gen_mime_lite_server_grads')],
    },
    'Gen_c06_agnostic': {
        'src': 'fedjax/algorithms/agnostic_fed_avg.py',
        'preamble': PRE,
        'items': [
            A_no_hidden_inputs(),
            A_maskfun('create_domain_metrics_for_each_client.client_step', 'gen_domain_step', ['step_state', 'batch'],
                      [('loss_vals', 'tree'), ('mask', 'tree'), ('ids', 'ids'), ('num_domains', 'nat'), ('reg', 'oQ'),
                       ('st_domain_loss', 'tree'), ('st_domain_num', 'tree')],
                      ('dict', ['domain_loss', 'domain_num']), '(list NanQ.t * list NanQ.t)',
                      {'loss_fn': 'per_example_loss', 'batch': 'batch', 'state': 'step_state', 'mask_required': True}),
            A_no_regularizer_arg('agnostic_federated_averaging', 'create_domain_metrics_for_each_client', 2),
        ],
    },
}
