"""Translator anchor for fedjax/aggregators/aggregator.py: mean_aggregator().apply (C07).
Structural, fail-closed: the nested `extract_params_and_weight` must unpack a 3-tuple
(client id, param, weight) and return a pair of two of the unpacked names; `apply` must be
`params_and_weights = map(extract_params_and_weight, <first parameter>)` followed by
`return tree_util.tree_mean(params_and_weights), <second parameter>`.  The emitted Gallina
uses the names of the source, so swapping param / weight, dropping clients or not
returning the state changes (or refuses) the translation."""
import ast
from translate import Unsupported, find_def, dotted

AG = 'fedjax/aggregators/aggregator.py'


def _strip_doc(body):
  return [s for s in body if not (isinstance(s, ast.Expr) and isinstance(s.value, ast.Constant))]


def emit_mean_aggregator(tree):
  ap = find_def(tree, 'mean_aggregator.apply')
  args = [a.arg for a in ap.args.args]
  if len(args) != 2 or ap.args.vararg or ap.args.kwarg or ap.args.kwonlyargs or ap.args.defaults:
    raise Unsupported('mean_aggregator.apply: parameters')
  clients, state = args
  body = _strip_doc(ap.body)
  if len(body) != 3 or not isinstance(body[0], ast.FunctionDef):
    raise Unsupported('mean_aggregator.apply: expected a nested def, one assignment, one return')
  ex = body[0]
  if [a.arg for a in ex.args.args] != [ex.args.args[0].arg] or ex.decorator_list:
    raise Unsupported('extract function: parameters')
  exarg = ex.args.args[0].arg
  exbody = _strip_doc(ex.body)
  if len(exbody) != 2 or not isinstance(exbody[0], ast.Assign) or not isinstance(exbody[1], ast.Return):
    raise Unsupported('extract function: body')
  tgt, val = exbody[0].targets, exbody[0].value
  if len(tgt) != 1 or not isinstance(tgt[0], ast.Tuple) or not all(isinstance(e, ast.Name) for e in tgt[0].elts) \
      or len(tgt[0].elts) != 3 or not (isinstance(val, ast.Name) and val.id == exarg):
    raise Unsupported('extract function: not a 3-tuple unpacking of its argument')
  names = [e.id for e in tgt[0].elts]
  if len(set(n for n in names if n != '_')) != len([n for n in names if n != '_']):
    raise Unsupported('extract function: repeated names')
  ret = exbody[1].value
  if not (isinstance(ret, ast.Tuple) and len(ret.elts) == 2 and all(isinstance(e, ast.Name) for e in ret.elts)):
    raise Unsupported('extract function: does not return a pair of names')
  rn = [e.id for e in ret.elts]
  # typing: the unpacked positions are (client id : I, pytree, weight : NanQ.t)
  ty = {names[0]: 'I', names[1]: 'tree', names[2]: 'Q'}
  if '_' in rn or any(n not in ty for n in rn) or [ty[n] for n in rn] != ['tree', 'Q']:
    raise Unsupported('extract function: must return (pytree, weight) from positions 1 and 2')
  asg, retn = body[1], body[2]
  if not (isinstance(asg, ast.Assign) and len(asg.targets) == 1 and isinstance(asg.targets[0], ast.Name)):
    raise Unsupported('apply: assignment')
  v = asg.value
  if not (isinstance(v, ast.Call) and dotted(v.func) == 'map' and not v.keywords and len(v.args) == 2 and
          isinstance(v.args[0], ast.Name) and v.args[0].id == ex.name and
          isinstance(v.args[1], ast.Name) and v.args[1].id == clients):
    raise Unsupported('apply: not map(<extract>, <clients>)')
  pw = asg.targets[0].id
  r = retn.value if isinstance(retn, ast.Return) else None
  if not (isinstance(r, ast.Tuple) and len(r.elts) == 2 and isinstance(r.elts[0], ast.Call) and
          dotted(r.elts[0].func) == 'tree_util.tree_mean' and not r.elts[0].keywords and len(r.elts[0].args) == 1 and
          isinstance(r.elts[0].args[0], ast.Name) and r.elts[0].args[0].id == pw and
          isinstance(r.elts[1], ast.Name) and r.elts[1].id == state):
    raise Unsupported('apply: not `return tree_util.tree_mean(<mapped>), <state>`')
  pat = ', '.join(names)
  return (f'Definition {ex.name} {{I : Type}} ({exarg} : I * list NanQ.t * NanQ.t) : list NanQ.t * NanQ.t :=\n'
          f"  let '({pat}) := {exarg} in ({rn[0]}, {rn[1]}).\n"
          f'Definition mean_aggregator_apply {{I S : Type}} ({clients} : list (I * list NanQ.t * NanQ.t)) ({state} : S)'
          f' : option (list NanQ.t) * S :=\n'
          f'  let {pw} := map {ex.name} {clients} in\n  (tree_mean {pw}, {state}).')


def emit_init_stateless(tree):
  """mean_aggregator.init returns MeanAggregatorState(), a dataclass without fields."""
  init = find_def(tree, 'mean_aggregator.init')
  b = _strip_doc(init.body)
  if len(b) != 1 or not (isinstance(b[0], ast.Return) and isinstance(b[0].value, ast.Call) and
                         dotted(b[0].value.func) == 'MeanAggregatorState' and not b[0].value.args and not b[0].value.keywords):
    raise Unsupported('mean_aggregator.init')
  cls = find_def(tree, 'MeanAggregatorState')
  if any(isinstance(s, (ast.AnnAssign, ast.Assign)) for s in cls.body):
    raise Unsupported('MeanAggregatorState has fields')
  return 'Definition mean_aggregator_init : unit := tt.'


MODULES = {
    'Gen_aggregator': {
        'src': AG,
        'preamble': ('From Coq Require Import QArith.\n'
                     'From FV Require Import Common.CMonoid Common.NanQ gen.Gen_tree_util.\n'),
        'items': [emit_mean_aggregator, emit_init_stateless],
    },
}
