"""Translator anchor for fedjax/datasets/emnist.py domain_id (C20)."""
import ast
from lib.c20tr import A_forwarding, A_no_process_dependence, D, _T, _unsupported

SRC = 'fedjax/datasets/emnist.py'


def _domain_id(tree):
  T = _T()

  class Cx(T.Ctx):
    """len(client_id) -> length; int(client_id[a:b]) -> decimal value of the byte slice."""

    def call(self, e, env):
      f = D(e.func)
      if f == 'len' and len(e.args) == 1 and D(e.args[0]) == 'client_id':
        return '(Z.of_nat (length client_id))', 'Z'
      if f == 'int' and len(e.args) == 1 and isinstance(e.args[0], ast.Subscript) and \
          D(e.args[0].value) == 'client_id' and isinstance(e.args[0].slice, ast.Slice) and \
          e.args[0].slice.step is None and e.args[0].slice.lower is not None and e.args[0].slice.upper is not None:
        a, _ = self.expr(e.args[0].slice.lower, env, 'Z')
        b, _ = self.expr(e.args[0].slice.upper, env, 'Z')
        if not (isinstance(e.args[0].slice.lower, ast.Constant) and isinstance(e.args[0].slice.upper, ast.Constant)
                and 0 <= e.args[0].slice.lower.value <= e.args[0].slice.upper.value):
          _unsupported('domain_id: slice bounds are not non-negative literals')
        return f'(py_int_ascii (py_slice client_id {a} {b}))', 'Z'
      return super().call(e, env)

  fd = T.find_def(tree, 'domain_id')
  if [a.arg for a in fd.args.args] != ['client_id']:
    _unsupported('domain_id: parameters changed')
  return T.emit_fun(fd.body, 'domain_id', [('client_id', 'list Z')], 'Z', Cx())


MODULES = {
    'Gen_ds_emnist': {
        'src': SRC,
        'preamble': ('(* int(b"dddd"): decimal value of ASCII digits (python also accepts signs, underscores and\n'
                     '   surrounding whitespace; well-formed client ids have digits only) *)\n'
                     'Definition py_int_ascii (s : list Z) : Z := fold_left (fun acc c => 10 * acc + (c - 48)) s 0.\n'),
        'items': [_domain_id, A_no_process_dependence('emnist_is_process_independent'),
                  A_forwarding('load_data', 'load_split', 'emnist_load_data_forwards')],
    },
}
