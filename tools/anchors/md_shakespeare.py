"""Translator anchors for fedjax/models/shakespeare.py (C20): the label ids the model's
loss, logits mask and metrics assume, as functions of vocab_size, and its default."""
from lib.c20tr import A_localconsts, A_default, A_metric_ids, A_train_loss

SRC = 'fedjax/models/shakespeare.py'
SPEC = [('pad', 'sh_pad'), ('bos', 'sh_bos'), ('eos', 'sh_eos'), ('oov', 'sh_oov'), ('full_vocab_size', 'sh_full_vocab_size')]

MODULES = {
    'Gen_md_shakespeare': {
        'src': SRC,
        'items': [
            A_default('create_lstm_model', 'vocab_size', 'sh_default_vocab_size'),
            A_localconsts('create_lstm_model', SPEC, ['vocab_size']),
            A_metric_ids('create_lstm_model', ['vocab_size'], SPEC, 'sh_'),
        ],
    },
    'Gen_md_shakespeare_loss': {
        'src': SRC,
        'preamble': 'From Coq Require Import QArith.\nFrom FV Require Import Common.QRow.\nLocal Open Scope Q_scope.\n',
        'items': [A_train_loss('create_lstm_model', 'sh_train_loss_row')],
    },
}
