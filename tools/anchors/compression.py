"""Translator anchors for fedjax/aggregators/compression.py (C11): the per-round bit
formulas of the four compression aggregators.

For every aggregator the statements assigning `new_bits` in the non-arithmetic path
must have the form
    total_num_params = tree_util.tree_size(aggregated_params)
    total_num_floats = <int expr in num_leaves(aggregated_params)>
    new_bits = [math.log2(<base>) *] <int expr> + <int expr>
and are emitted as  <name>_bits (num_levels total_num_params num_leaves : Z) : Z * Z * Z
= (base, a, b), meaning  new_bits = a * log2(base) + b  (base = 1, a = 0 when there is
no log2 term).  Also emitted: the clipping constant of terngrad_quantize as a rational
(numerator, denominator) and the PRNG plumbing facts the key model relies on (which
variable of `jax.random.split(...)` goes to the new state).  Fail-closed."""
import ast
from fractions import Fraction
from translate import Ctx, Unsupported, dotted, find_def
from lib.vfun import A_vfun, A_vloop_body

CP = 'fedjax/aggregators/compression.py'


def _apply_of(tree, qual):
  fd = find_def(tree, qual)
  for n in fd.body:
    if isinstance(n, ast.FunctionDef) and n.name == 'apply':
      return n
  raise Unsupported(f'{qual}: no nested apply()')


def _assigns(fn, name):
  """All assignments to `name` anywhere inside fn (excluding nested defs), in source order."""
  out = []

  def walk(stmts):
    for s in stmts:
      if isinstance(s, ast.FunctionDef):
        continue
      if isinstance(s, ast.Assign) and len(s.targets) == 1 and isinstance(s.targets[0], ast.Name) \
          and s.targets[0].id == name:
        out.append(s.value)
      for f in ('body', 'orelse'):
        if hasattr(s, f) and isinstance(getattr(s, f), list):
          walk(getattr(s, f))
  walk(fn.body)
  return out


def _const_num(e):
  return isinstance(e, ast.Constant) and isinstance(e.value, (int, float)) and not isinstance(e.value, bool)


def _num_leaves_call(ctx, e, env):
  if len(e.args) != 1 or e.keywords or not isinstance(e.args[0], ast.Name) or e.args[0].id != 'aggregated_params':
    raise Unsupported('num_leaves(...) of something other than aggregated_params')
  return 'num_leaves', 'Z'


def _tree_size_call(ctx, e, env):
  if len(e.args) != 1 or e.keywords or not isinstance(e.args[0], ast.Name) or e.args[0].id != 'aggregated_params':
    raise Unsupported('tree_size(...) of something other than aggregated_params')
  return 'total_num_params', 'Z'


def A_bits(qual, coqname):
  def emit(tree):
    ap = _apply_of(tree, qual)
    env = {'num_levels': 'Z', 'total_num_params': 'Z', 'num_leaves': 'Z'}
    ctx = Ctx(calls={'num_leaves': _num_leaves_call, 'tree_util.tree_size': _tree_size_call})
    tnp = _assigns(ap, 'total_num_params')
    if len(tnp) != 1 or ctx.expr(tnp[0], env, 'Z')[0] != 'total_num_params':
      raise Unsupported(f'{qual}: total_num_params is not tree_util.tree_size(aggregated_params)')
    tnf = _assigns(ap, 'total_num_floats')
    if len(tnf) != 1:
      raise Unsupported(f'{qual}: expected one assignment to total_num_floats')
    floats, _ = ctx.expr(tnf[0], env, 'Z')
    env2 = dict(env)
    env2['total_num_floats'] = 'Z'
    cands = [v for v in _assigns(ap, 'new_bits') if not _const_num(v)]
    # the arithmetic-coding branch computes `sum(total_bits) / len(total_bits) ...`: not a closed formula
    cands = [v for v in cands if not (isinstance(v, ast.IfExp))]
    if len(cands) != 1:
      raise Unsupported(f'{qual}: expected exactly one closed-form assignment to new_bits, found {len(cands)}')
    v = cands[0]
    if not (isinstance(v, ast.BinOp) and isinstance(v.op, ast.Add)):
      raise Unsupported(f'{qual}: new_bits is not a sum')
    left, right = v.left, v.right
    base, a = '1', '0'
    if isinstance(left, ast.BinOp) and isinstance(left.op, ast.Mult) and isinstance(left.left, ast.Call) \
        and dotted(left.left.func) == 'math.log2':
      lg = left.left
      if len(lg.args) != 1 or lg.keywords:
        raise Unsupported('math.log2 arity')
      base, _ = ctx.expr(lg.args[0], env2, 'Z')
      a, _ = ctx.expr(left.right, env2, 'Z')
      b, _ = ctx.expr(right, env2, 'Z')
    else:
      b, _ = ctx.expr(v, env2, 'Z')
    # the new state must add new_bits to the running counter
    ns = _assigns(ap, 'new_state')
    ok = (len(ns) == 1 and isinstance(ns[0], ast.Call) and dotted(ns[0].func) == 'CompressionState' and
          len(ns[0].args) == 2 and isinstance(ns[0].args[0], ast.BinOp) and isinstance(ns[0].args[0].op, ast.Add) and
          {ast.dump(ns[0].args[0].left), ast.dump(ns[0].args[0].right)} ==
          {ast.dump(ast.parse('aggregator_state.num_bits', mode='eval').body), ast.dump(ast.parse('new_bits', mode='eval').body)}
          and isinstance(ns[0].args[1], ast.Name) and ns[0].args[1].id == 'rng')
    if not ok:
      raise Unsupported(f'{qual}: new_state is not CompressionState(aggregator_state.num_bits + new_bits, rng)')
    return (f'Definition {coqname}_bits (num_levels : Z) (total_num_params : Z) (num_leaves : Z) : Z * Z * Z :=\n'
            f'  let total_num_floats := {floats} in\n  ({base}, {a}, {b}).')
  return emit


def A_clip_constant(coqname):
  """terngrad_quantize: v = jnp.where(jnp.abs(v) > C * sigma, C * sigma * jnp.sign(v), v)."""
  def emit(tree):
    fd = find_def(tree, 'terngrad_quantize')
    consts = []
    for s in fd.body:
      if isinstance(s, ast.Assign) and isinstance(s.value, ast.Call) and dotted(s.value.func) == 'jnp.where':
        for n in ast.walk(s.value):
          if isinstance(n, ast.BinOp) and isinstance(n.op, ast.Mult) and _const_num(n.left) and \
              isinstance(n.right, ast.Name) and n.right.id == 'sigma':
            consts.append(n.left.value)
    if len(consts) != 2 or consts[0] != consts[1]:
      raise Unsupported(f'terngrad_quantize: expected the same constant * sigma twice in the clipping where(), found {consts}')
    fr = Fraction(consts[0]) if isinstance(consts[0], int) else Fraction(*float(consts[0]).as_integer_ratio())
    return (f'Definition {coqname}_num : Z := {fr.numerator}.\n'
            f'Definition {coqname}_den : positive := {fr.denominator}.')
  return emit


KEYED = {'uniform_stochastic_quantize_pytree': ('quant', 2), 'terngrad_quantize_pytree': ('quant', 1),
         'walsh_hadamard.structured_rotation_pytree': ('rot', 1),
         'walsh_hadamard.inverse_structured_rotation_pytree': ('inv', 1)}


def A_keys(qual, coqname):
  """PRNG plumbing of one aggregator's apply(): which split index goes to the next state,
  which key seeds the per-client hk.PRNGSequence, and which key every keyed call inside
  quantize_params_and_weight receives.  Keys are paths (list nat) of jax.random.split indices
  relative to the state key `s`."""
  def emit(tree):
    ap = _apply_of(tree, qual)
    env, seqs, zips = {'aggregator_state.rng': 's'}, {}, {}
    client_seq = None
    handled = set()

    def path(e):
      d = dotted(e)
      if d not in env:
        raise Unsupported(f'{qual}: key expression {d} is not a known key')
      return env[d]
    for s in ap.body:
      if isinstance(s, ast.Assign) and len(s.targets) == 1:
        t, v = s.targets[0], s.value
        if isinstance(v, ast.Call):
          f = None
          try:
            f = dotted(v.func)
          except Unsupported:
            pass
          if f == 'jax.random.split':
            if not (isinstance(t, ast.Tuple) and len(t.elts) == 2 and all(isinstance(x, ast.Name) for x in t.elts)
                    and len(v.args) == 1 and not v.keywords):
              raise Unsupported(f'{qual}: jax.random.split not of the form `a, b = jax.random.split(k)`')
            src = path(v.args[0])
            env[t.elts[0].id] = f'({src} ++ [0%nat])'
            env[t.elts[1].id] = f'({src} ++ [1%nat])'
            handled.add(id(s))
          elif f == 'hk.PRNGSequence':
            if not (isinstance(t, ast.Name) and len(v.args) == 1 and not v.keywords):
              raise Unsupported(f'{qual}: hk.PRNGSequence form')
            seqs[t.id] = path(v.args[0])
            handled.add(id(s))
          elif f == 'zip' and isinstance(t, ast.Name) and len(v.args) == 2 and isinstance(v.args[1], ast.Name) \
              and v.args[1].id in seqs:
            if not (isinstance(v.args[0], ast.Name) and v.args[0].id == 'clients_params_and_weights'):
              raise Unsupported(f'{qual}: zip of something other than clients_params_and_weights')
            zips[t.id] = seqs[v.args[1].id]
            handled.add(id(s))
          elif f == 'itertools.starmap' and len(v.args) == 2 and isinstance(v.args[0], ast.Name) \
              and v.args[0].id == 'quantize_params_and_weight' and isinstance(v.args[1], ast.Name) and v.args[1].id in zips:
            if client_seq is not None:
              raise Unsupported(f'{qual}: quantize_params_and_weight mapped twice')
            client_seq = zips[v.args[1].id]
            handled.add(id(s))
    if client_seq is None:
      raise Unsupported(f'{qual}: no itertools.starmap(quantize_params_and_weight, zip(clients_params_and_weights, hk.PRNGSequence(k)))')
    # no other statement may bind a key name
    keynames = {k for k in env if '.' not in k} | set(seqs)
    for n in ast.walk(ap):
      if isinstance(n, ast.FunctionDef) and n is not ap:
        continue
    def binders(stmts):
      for s in stmts:
        if isinstance(s, ast.FunctionDef):
          continue
        if id(s) not in handled:
          for n in ast.walk(s):
            if isinstance(n, ast.Name) and isinstance(n.ctx, ast.Store) and n.id in keynames:
              raise Unsupported(f'{qual}: key variable {n.id} is bound by an unrecognised statement')
        for fld in ('body', 'orelse'):
          sub = getattr(s, fld, None)
          if isinstance(sub, list) and not isinstance(s, ast.FunctionDef) and id(s) not in handled:
            pass
    binders(ap.body)
    qd = [n for n in ap.body if isinstance(n, ast.FunctionDef) and n.name == 'quantize_params_and_weight']
    if len(qd) != 1 or [a.arg for a in qd[0].args.args][:1] != ['client_params_and_weight'] or len(qd[0].args.args) != 2:
      raise Unsupported(f'{qual}: quantize_params_and_weight(client_params_and_weight, key) not found')
    kname = qd[0].args.args[1].arg
    for n in ast.walk(qd[0]):
      if isinstance(n, ast.Name) and isinstance(n.ctx, ast.Store) and (n.id == kname or n.id in keynames):
        raise Unsupported(f'{qual}: quantize_params_and_weight rebinds a key variable')
    found = {}
    for n in ast.walk(qd[0]):
      if isinstance(n, ast.Call):
        try:
          f = dotted(n.func)
        except Unsupported:
          continue
        if f in KEYED:
          role, pos = KEYED[f]
          if n.keywords or len(n.args) <= pos or not isinstance(n.args[pos], ast.Name):
            raise Unsupported(f'{qual}: key argument of {f}')
          k = n.args[pos].id
          term = 'client' if k == kname else env.get(k)
          if term is None:
            raise Unsupported(f'{qual}: {f} receives unknown key {k}')
          if role in found:
            raise Unsupported(f'{qual}: two {role} calls')
          found[role] = term
        elif 'random' in f or f.endswith('PRNGSequence'):
          raise Unsupported(f'{qual}: unexpected PRNG call {f} inside quantize_params_and_weight')
    if ('rot' in found) != ('inv' in found) or not found:
      raise Unsupported(f'{qual}: keyed calls found: {sorted(found)}')
    ns = [s.value for s in ap.body if isinstance(s, ast.Assign) and len(s.targets) == 1 and
          isinstance(s.targets[0], ast.Name) and s.targets[0].id == 'new_state']
    if len(ns) != 1 or not (isinstance(ns[0], ast.Call) and len(ns[0].args) == 2 and isinstance(ns[0].args[1], ast.Name)
                            and ns[0].args[1].id in env):
      raise Unsupported(f'{qual}: new_state key')
    out = [f'Definition {coqname}_next_state (s : list nat) : list nat := {env[ns[0].args[1].id]}.',
           f'Definition {coqname}_client_key (s : list nat) (c : nat) : list nat := seq_key {client_seq} c.']
    for role in ('quant', 'rot', 'inv'):
      if role in found:
        body = f'{coqname}_client_key s c' if found[role] == 'client' else found[role]
        out.append(f'Definition {coqname}_{role}_key (s : list nat) (c : nat) : list nat := {body}.')
    return '\n'.join(out)
  return emit


def A_leaf_keys(qual, coqname, inner, keypos):
  """A *_pytree function: rngs = jax.random.split(rng, len(leaves)); for (l, r, ..) in zip(leaves, rngs, ..):
  inner(.., r, ..) -- leaf number l gets split index l of the function's key."""
  def emit(tree):
    fd = find_def(tree, qual)
    rn = [s.value for s in fd.body if isinstance(s, ast.Assign) and len(s.targets) == 1 and
          isinstance(s.targets[0], ast.Name) and s.targets[0].id == 'rngs']
    ok = (len(rn) == 1 and isinstance(rn[0], ast.Call) and dotted(rn[0].func) == 'jax.random.split' and
          len(rn[0].args) == 2 and not rn[0].keywords and isinstance(rn[0].args[0], ast.Name) and rn[0].args[0].id == 'rng'
          and isinstance(rn[0].args[1], ast.Call) and dotted(rn[0].args[1].func) == 'len' and
          isinstance(rn[0].args[1].args[0], ast.Name) and rn[0].args[1].args[0].id == 'leaves')
    if not ok:
      raise Unsupported(f'{qual}: rngs is not jax.random.split(rng, len(leaves))')
    loops = [s for s in fd.body if isinstance(s, ast.For)]
    if len(loops) != 1:
      raise Unsupported(f'{qual}: expected one loop')
    lp = loops[0]
    it = lp.iter
    ok = (isinstance(it, ast.Call) and dotted(it.func) == 'zip' and len(it.args) >= 2 and
          all(isinstance(a, ast.Name) for a in it.args) and it.args[0].id == 'leaves' and it.args[1].id == 'rngs' and
          isinstance(lp.target, ast.Tuple) and len(lp.target.elts) == len(it.args) and
          all(isinstance(x, ast.Name) for x in lp.target.elts))
    if not ok:
      raise Unsupported(f'{qual}: loop is not `for l, r, .. in zip(leaves, rngs, ..)`')
    lname, rname = lp.target.elts[0].id, lp.target.elts[1].id
    # the loop body must be straight-line code that calls `inner` once per leaf with that leaf's own key:
    # no branch, no lookup table / cache, no other call than `inner` and `<list>.append`
    for n in (m for st in lp.body for m in ast.walk(st)):
      if isinstance(n, (ast.If, ast.IfExp, ast.While, ast.For, ast.Try, ast.With, ast.Subscript, ast.Dict, ast.Set,
                        ast.ListComp, ast.DictComp, ast.SetComp, ast.GeneratorExp, ast.Lambda, ast.BoolOp, ast.Compare,
                        ast.Continue, ast.Break, ast.Return)):
        raise Unsupported(f'{qual}: the per-leaf loop contains {type(n).__name__} (conditional / cache / lookup); '
                          f'every leaf must be processed with its own key')
      if isinstance(n, ast.Call):
        okc = (isinstance(n.func, ast.Name) and n.func.id == inner) or \
              (isinstance(n.func, ast.Attribute) and n.func.attr == 'append' and isinstance(n.func.value, ast.Name))
        if not okc:
          raise Unsupported(f'{qual}: unexpected call inside the per-leaf loop')
    calls = [n for n in ast.walk(lp) if isinstance(n, ast.Call) and
             ((isinstance(n.func, ast.Name) and n.func.id == inner))]
    if len(calls) != 1 or calls[0].keywords or len(calls[0].args) <= keypos:
      raise Unsupported(f'{qual}: expected one call of {inner}')
    c = calls[0]
    if not (isinstance(c.args[0], ast.Name) and c.args[0].id == lname and isinstance(c.args[keypos], ast.Name)
            and c.args[keypos].id == rname):
      raise Unsupported(f'{qual}: {inner} is not called with (leaf, .., its own key, ..)')
    for n in ast.walk(fd):
      if isinstance(n, ast.Name) and isinstance(n.ctx, ast.Store) and n.id in ('rng',) :
        raise Unsupported(f'{qual}: rng rebound')
    return f'Definition {coqname}_leaf_key (k : list nat) (l : nat) : list nat := k ++ [l].'
  return emit


def A_no_hidden_state(coqname):
  """Fail-closed recogniser (WAVE5 item 4): nothing in the module may depend on object identity, hashing, wall-clock
  time, the environment or an unseeded generator."""
  def emit(tree):
    for n in ast.walk(tree):
      if isinstance(n, ast.Call) and isinstance(n.func, ast.Name) and n.func.id in ('id', 'hash'):
        raise Unsupported(f'call of {n.func.id}(): results would depend on object identity / PYTHONHASHSEED')
      if isinstance(n, ast.Attribute):
        try:
          d = dotted(n)
        except Unsupported:
          continue
        if d.startswith(('time.', 'os.environ', 'uuid.', 'random.', 'np.random.', 'numpy.random.', 'datetime.')):
          raise Unsupported(f'use of {d}: hidden state / nondeterminism')
      if isinstance(n, (ast.Import, ast.ImportFrom)):
        names = [a.name for a in n.names] + ([n.module] if isinstance(n, ast.ImportFrom) and n.module else [])
        if any(x in ('time', 'uuid', 'random', 'datetime') for x in names):
          raise Unsupported(f'import of {names}')
    return f'Definition {coqname} : bool := true.'
  return emit


MODULES = {
    'Gen_compression': {
        'src': CP,
        'preamble': 'From Coq Require Import QArith.\nFrom FV Require Import Common.CMonoid Common.NanQ Common.NanVec Common.KeyPath.\nLocal Open Scope Z_scope.\n',
        'items': [
            A_no_hidden_state('compression_no_hidden_state'),
            A_vfun('binary_stochastic_quantize', 'gen_bsq', ['v', 'rng', 'v_min', 'v_max'],
                   [('v', 'V'), ('rng', 'U'), ('v_min', 'optQ'), ('v_max', 'optQ')]),
            A_vfun('uniform_stochastic_quantize', 'gen_usq', ['v', 'num_levels', 'rng', 'v_min', 'v_max'],
                   [('v', 'V'), ('num_levels', 'Q'), ('rng', 'U'), ('v_min', 'optQ'), ('v_max', 'optQ')]),
            lambda tree: 'Section tern.\n(* jnp.std is not modelled (sqrt): a parameter *)\nVariable std : list NanQ.t -> NanQ.t.',
            A_vfun('terngrad_quantize', 'gen_tern', ['v', 'rng'], [('v', 'V'), ('rng', 'U')],
                   calls={'binary_stochastic_quantize': ('gen_bsq {0} {1} (Some {2}) (Some {3})', ['V', 'U', 'Q', 'Q'], 'V')}),
            lambda tree: 'End tern.',
            A_vloop_body('drive_pytree', 'gen_drive_leaf', 'leaf', 'V', 'new_leaves'),
            A_keys('uniform_stochastic_quantizer', 'usq_agg'),
            A_keys('rotated_uniform_stochastic_quantizer', 'rusq_agg'),
            A_keys('structured_drive_quantizer', 'drive_agg'),
            A_keys('terngrad_quantizer', 'tern_agg'),
            A_leaf_keys('uniform_stochastic_quantize_pytree', 'usq_pytree', 'uniform_stochastic_quantize', 2),
            A_leaf_keys('terngrad_quantize_pytree', 'tern_pytree', 'terngrad_quantize', 1),
            A_bits('uniform_stochastic_quantizer', 'usq'),
            A_bits('rotated_uniform_stochastic_quantizer', 'rusq'),
            A_bits('structured_drive_quantizer', 'drive'),
            A_bits('terngrad_quantizer', 'tern'),
            A_clip_constant('tern_clip'),
        ],
    },
}
