"""Translator anchors for fedjax/aggregators/compression.py (C11): the per-round bit
formulas of the four compression aggregators.

For every aggregator the statements assigning `new_bits` in the non-arithmetic path
must have the form
    total_num_params = tree_util.tree_size(aggregated_params)
    total_num_floats = <int expr in num_leaves(aggregated_params)>
    new_bits = [math.log2(<base>) *] <int expr> + <int expr>
and are emitted as  <name>_bits (num_levels total_num_params num_leaves : Z) : Z * Z * Z
= (base, a, b), meaning  new_bits = a * log2(base) + b  (base = 1, a = 0 when there is
no log2 term).  Also emitted: the clipping constant of terngrad_quantize as a rational
(numerator, denominator) and the PRNG plumbing facts the key model relies on (which
variable of `jax.random.split(...)` goes to the new state).  Fail-closed."""
import ast
from fractions import Fraction
from translate import Ctx, Unsupported, dotted, find_def

CP = 'fedjax/aggregators/compression.py'


def _apply_of(tree, qual):
  fd = find_def(tree, qual)
  for n in fd.body:
    if isinstance(n, ast.FunctionDef) and n.name == 'apply':
      return n
  raise Unsupported(f'{qual}: no nested apply()')


def _assigns(fn, name):
  """All assignments to `name` anywhere inside fn (excluding nested defs), in source order."""
  out = []

  def walk(stmts):
    for s in stmts:
      if isinstance(s, ast.FunctionDef):
        continue
      if isinstance(s, ast.Assign) and len(s.targets) == 1 and isinstance(s.targets[0], ast.Name) \
          and s.targets[0].id == name:
        out.append(s.value)
      for f in ('body', 'orelse'):
        if hasattr(s, f) and isinstance(getattr(s, f), list):
          walk(getattr(s, f))
  walk(fn.body)
  return out


def _const_num(e):
  return isinstance(e, ast.Constant) and isinstance(e.value, (int, float)) and not isinstance(e.value, bool)


def _num_leaves_call(ctx, e, env):
  if len(e.args) != 1 or e.keywords or not isinstance(e.args[0], ast.Name) or e.args[0].id != 'aggregated_params':
    raise Unsupported('num_leaves(...) of something other than aggregated_params')
  return 'num_leaves', 'Z'


def _tree_size_call(ctx, e, env):
  if len(e.args) != 1 or e.keywords or not isinstance(e.args[0], ast.Name) or e.args[0].id != 'aggregated_params':
    raise Unsupported('tree_size(...) of something other than aggregated_params')
  return 'total_num_params', 'Z'


def A_bits(qual, coqname):
  def emit(tree):
    ap = _apply_of(tree, qual)
    env = {'num_levels': 'Z', 'total_num_params': 'Z', 'num_leaves': 'Z'}
    ctx = Ctx(calls={'num_leaves': _num_leaves_call, 'tree_util.tree_size': _tree_size_call})
    tnp = _assigns(ap, 'total_num_params')
    if len(tnp) != 1 or ctx.expr(tnp[0], env, 'Z')[0] != 'total_num_params':
      raise Unsupported(f'{qual}: total_num_params is not tree_util.tree_size(aggregated_params)')
    tnf = _assigns(ap, 'total_num_floats')
    if len(tnf) != 1:
      raise Unsupported(f'{qual}: expected one assignment to total_num_floats')
    floats, _ = ctx.expr(tnf[0], env, 'Z')
    env2 = dict(env)
    env2['total_num_floats'] = 'Z'
    cands = [v for v in _assigns(ap, 'new_bits') if not _const_num(v)]
    # the arithmetic-coding branch computes `sum(total_bits) / len(total_bits) ...`: not a closed formula
    cands = [v for v in cands if not (isinstance(v, ast.IfExp))]
    if len(cands) != 1:
      raise Unsupported(f'{qual}: expected exactly one closed-form assignment to new_bits, found {len(cands)}')
    v = cands[0]
    if not (isinstance(v, ast.BinOp) and isinstance(v.op, ast.Add)):
      raise Unsupported(f'{qual}: new_bits is not a sum')
    left, right = v.left, v.right
    base, a = '1', '0'
    if isinstance(left, ast.BinOp) and isinstance(left.op, ast.Mult) and isinstance(left.left, ast.Call) \
        and dotted(left.left.func) == 'math.log2':
      lg = left.left
      if len(lg.args) != 1 or lg.keywords:
        raise Unsupported('math.log2 arity')
      base, _ = ctx.expr(lg.args[0], env2, 'Z')
      a, _ = ctx.expr(left.right, env2, 'Z')
      b, _ = ctx.expr(right, env2, 'Z')
    else:
      b, _ = ctx.expr(v, env2, 'Z')
    # the new state must add new_bits to the running counter
    ns = _assigns(ap, 'new_state')
    ok = (len(ns) == 1 and isinstance(ns[0], ast.Call) and dotted(ns[0].func) == 'CompressionState' and
          len(ns[0].args) == 2 and isinstance(ns[0].args[0], ast.BinOp) and isinstance(ns[0].args[0].op, ast.Add) and
          {ast.dump(ns[0].args[0].left), ast.dump(ns[0].args[0].right)} ==
          {ast.dump(ast.parse('aggregator_state.num_bits', mode='eval').body), ast.dump(ast.parse('new_bits', mode='eval').body)}
          and isinstance(ns[0].args[1], ast.Name) and ns[0].args[1].id == 'rng')
    if not ok:
      raise Unsupported(f'{qual}: new_state is not CompressionState(aggregator_state.num_bits + new_bits, rng)')
    return (f'Definition {coqname}_bits (num_levels : Z) (total_num_params : Z) (num_leaves : Z) : Z * Z * Z :=\n'
            f'  let total_num_floats := {floats} in\n  ({base}, {a}, {b}).')
  return emit


def A_clip_constant(coqname):
  """terngrad_quantize: v = jnp.where(jnp.abs(v) > C * sigma, C * sigma * jnp.sign(v), v)."""
  def emit(tree):
    fd = find_def(tree, 'terngrad_quantize')
    consts = []
    for s in fd.body:
      if isinstance(s, ast.Assign) and isinstance(s.value, ast.Call) and dotted(s.value.func) == 'jnp.where':
        for n in ast.walk(s.value):
          if isinstance(n, ast.BinOp) and isinstance(n.op, ast.Mult) and _const_num(n.left) and \
              isinstance(n.right, ast.Name) and n.right.id == 'sigma':
            consts.append(n.left.value)
    if len(consts) != 2 or consts[0] != consts[1]:
      raise Unsupported(f'terngrad_quantize: expected the same constant * sigma twice in the clipping where(), found {consts}')
    fr = Fraction(consts[0]) if isinstance(consts[0], int) else Fraction(*float(consts[0]).as_integer_ratio())
    return (f'Definition {coqname}_num : Z := {fr.numerator}.\n'
            f'Definition {coqname}_den : positive := {fr.denominator}.')
  return emit


MODULES = {
    'Gen_compression': {
        'src': CP,
        'items': [
            A_bits('uniform_stochastic_quantizer', 'usq'),
            A_bits('rotated_uniform_stochastic_quantizer', 'rusq'),
            A_bits('structured_drive_quantizer', 'drive'),
            A_bits('terngrad_quantizer', 'tern'),
            A_clip_constant('tern_clip'),
        ],
    },
}
