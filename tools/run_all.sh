#!/bin/bash
# Runs every claimed check (quick or $1 tier) on /repo sequentially; prints one line per property.
TIER=${1:-quick}
cd /verif
for P in $(python3 -c "import json;print(' '.join(c['property_id'] for c in json.load(open('MANIFEST.json'))['checks']))"); do
  S=$(date +%s)
  OUT=$(timeout 3600 ./check $P --tier $TIER 2>/dev/null | grep -e '^OK' -e '^VIOLATION' -e '^KNOWN' | cut -c1-150 | tr '\n' '|')
  echo "$P rc=$? $(( $(date +%s) - S ))s $OUT"
done
