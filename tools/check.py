#!/venv/bin/python
"""Single entry point:  check <Cxx> [--tier quick|thorough] [--seed N] [--replay path] | check --setup"""
import argparse
import importlib
import os
import subprocess
import sys

HERE = os.path.dirname(os.path.abspath(__file__))
sys.path.insert(0, HERE)
from lib import fw  # noqa: E402


def setup():
  with fw.CoqLock():
    st = fw.translate()
    fw.ensure_makefile()
    p = subprocess.run(['make', '-k', '-j', str(fw.NPROC)], cwd=fw.COQ)
  for m, e in st.items():
    if e is not None:
      print('translator:', m, e)
  # every check rebuilds and re-audits its own closure; a file that fails here is reported by its check
  return 0


def arm_deadline(prop, tier, seed):
  """Fail-closed: a check that does not terminate (e.g. the changed implementation loops inside
  native code where the per-case watchdog cannot reach it) reports the property as no longer shown
  to hold instead of staying silent.  Far above any run on the unchanged tree (quick <= ~2 min,
  thorough <= ~15 min)."""
  import threading
  limit = float(os.environ.get('VERIF_DEADLINE', '') or (2400 if tier == 'quick' else 7200))

  def fire():
    try:
      path = fw.write_replay(prop, {'kind': 'broken-tie', 'case': None, 'tier': tier, 'seed': seed,
                                    'broken': [{'kind': 'check-did-not-terminate', 'limit_s': limit}],
                                    'note': 'the check did not finish within its deadline; the property is no longer shown to hold'})
      print(f'VIOLATION property={prop} replay={path} no-failing-input-found', flush=True)
      try:
        import psutil
        for c in psutil.Process().children(recursive=True):
          c.kill()
      except Exception:  # pylint: disable=broad-except
        pass
    finally:
      os._exit(1)
  t = threading.Timer(limit, fire)
  t.daemon = True
  t.start()


def main():
  ap = argparse.ArgumentParser()
  ap.add_argument('prop', nargs='?')
  ap.add_argument('--tier', default=os.environ.get('VERIF_TIER', 'quick'))
  ap.add_argument('--seed', type=int, default=int(os.environ.get('VERIF_SEED', '0') or 0))
  ap.add_argument('--replay')
  ap.add_argument('--setup', action='store_true')
  a = ap.parse_args()
  if a.setup:
    sys.exit(setup())
  tier = a.tier if a.tier in ('quick', 'thorough') else 'quick'
  arm_deadline(a.prop, tier, a.seed)
  try:
    mod = importlib.import_module('harness.' + a.prop.lower())
    rc = fw.run_property(mod, tier, a.seed, a.replay)
  except Exception:   # the harness itself could not run against this tree: the tie is broken
    import traceback
    tb = traceback.format_exc()
    path = fw.write_replay(a.prop, {'kind': 'broken-tie', 'case': None, 'tier': tier, 'seed': a.seed,
                                    'broken': [{'kind': 'harness-crash', 'traceback': tb[-4000:]}],
                                    'note': 'the harness could not be run against this tree (import / API error); the property is no longer shown to hold'})
    sys.stderr.write(tb)
    print(f'VIOLATION property={a.prop} replay={path} no-failing-input-found', flush=True)
    rc = 1
  sys.exit(rc)


if __name__ == '__main__':
  main()
