"""Spike: fail-closed Python-ast -> Gallina translator for integer kernels.
Supports: def with int params, Assign (incl. tuple), If/elif/else, While, Return,
BinOp(+,-,*,//,%), Compare, BoolOp, min/max, names, int constants.
A function body is compiled to a Gallina expression of type `option Z` by
continuation-passing over the statement list; each `while` becomes a Fixpoint
with explicit fuel over the tuple of variables assigned in its body."""
import ast, sys, textwrap

class Unsupported(Exception): pass

BIN = {ast.Add: '+', ast.Sub: '-', ast.Mult: '*', ast.FloorDiv: '/', ast.Mod: 'mod'}
CMP = {ast.Lt: '<?', ast.LtE: '<=?', ast.Gt: '>?', ast.GtE: '>=?', ast.Eq: '=?'}

def expr(e):
    if isinstance(e, ast.Constant) and isinstance(e.value, int) and not isinstance(e.value, bool):
        return f'{e.value}' if e.value >= 0 else f'({e.value})'
    if isinstance(e, ast.Name): return e.id
    if isinstance(e, ast.BinOp) and type(e.op) in BIN:
        return f'({expr(e.left)} {BIN[type(e.op)]} {expr(e.right)})'
    if isinstance(e, ast.Call) and isinstance(e.func, ast.Name) and e.func.id in ('min', 'max') and len(e.args) == 2:
        return f'(Z.{e.func.id} {expr(e.args[0])} {expr(e.args[1])})'
    raise Unsupported(ast.dump(e))

def bexpr(e):
    if isinstance(e, ast.Compare) and len(e.ops) == 1:
        op = type(e.ops[0])
        if op is ast.NotEq: return f'(negb ({expr(e.left)} =? {expr(e.comparators[0])}))'
        if op in CMP: return f'({expr(e.left)} {CMP[op]} {expr(e.comparators[0])})'
    if isinstance(e, ast.BoolOp):
        j = ' && ' if isinstance(e.op, ast.And) else ' || '
        return '(' + j.join(bexpr(v) for v in e.values) + ')'
    if isinstance(e, ast.UnaryOp) and isinstance(e.op, ast.Not): return f'(negb {bexpr(e.operand)})'
    raise Unsupported(ast.dump(e))

def assigned(stmts):
    out = []
    for s in stmts:
        if isinstance(s, ast.Assign):
            t = s.targets[0]
            names = [x.id for x in t.elts] if isinstance(t, ast.Tuple) else [t.id]
            for n in names:
                if n not in out: out.append(n)
        elif isinstance(s, (ast.If, ast.While)):
            for n in assigned(s.body) + assigned(getattr(s, 'orelse', [])):
                if n not in out: out.append(n)
    return out

class Fn:
    def __init__(self, name): self.name, self.aux, self.nloops = name, [], 0
    def block(self, stmts, env, k):
        """Compile stmts; k(env) gives the continuation term when the block falls through."""
        if not stmts: return k(env)
        s, rest = stmts[0], stmts[1:]
        if isinstance(s, ast.Expr) and isinstance(s.value, ast.Constant): return self.block(rest, env, k)  # docstring
        if isinstance(s, ast.Return): return f'Some {expr(s.value)}'
        if isinstance(s, ast.Assign):
            t = s.targets[0]
            if isinstance(t, ast.Tuple):
                vals = [expr(v) for v in s.value.elts]
                tmp = [f"{n.id}'" for n in t.elts]
                inner = self.block(rest, env + [n.id for n in t.elts if n.id not in env], k)
                lets = ''.join(f'let {a} := {v} in ' for a, v in zip(tmp, vals))
                lets += ''.join(f'let {n.id} := {a} in ' for n, a in zip(t.elts, tmp))
                return lets + inner
            return f'let {t.id} := {expr(s.value)} in ' + self.block(rest, env + ([t.id] if t.id not in env else []), k)
        if isinstance(s, ast.If):
            # both branches continue with the rest (duplicated: kernels are tiny)
            then = self.block(s.body + rest, env, k)
            els = self.block(s.orelse + rest, env, k)
            return f'(if {bexpr(s.test)} then {then} else {els})'
        if isinstance(s, ast.While):
            self.nloops += 1
            loop = f'{self.name}_loop{self.nloops}'
            vs = assigned(s.body)
            free = [v for v in env if v not in vs]
            body = self.block(s.body, env, lambda e: f'{loop} fuel {" ".join(free + vs)}')
            after = self.block(rest, env, k)
            params = ' '.join(f'({v} : Z)' for v in free + vs)
            self.aux.append(
                f'Fixpoint {loop} (fuel : nat) {params} {{struct fuel}} : option Z :=\n'
                f'  match fuel with O => None | S fuel =>\n'
                f'  if {bexpr(s.test)} then {body}\n  else {after} end.')
            return f'{loop} {self.name}_fuel {" ".join(free + vs)}'
        raise Unsupported(ast.dump(s))

def translate(src, fname, fuel_expr):
    tree = ast.parse(textwrap.dedent(src))
    fd = next(n for n in ast.walk(tree) if isinstance(n, ast.FunctionDef) and n.name == fname)
    args = [a.arg for a in fd.args.args]
    f = Fn(fname.lstrip('_'))
    body = f.block(fd.body, list(args), lambda env: 'None')
    params = ' '.join(f'({a} : Z)' for a in args)
    out = [f'Section {f.name}_sec.', f'Variable {f.name}_fuel : nat.'] + f.aux + \
          [f'Definition {f.name} {params} : option Z :=\n  {body}.', f'End {f.name}_sec.']
    return '\n'.join(out)

if __name__ == '__main__':
    src = open('/repo/fedjax/core/client_datasets.py').read()
    print('From Coq Require Import ZArith Bool. Open Scope Z_scope.')
    print(translate(src, '_pick_final_batch_size', None))
    print('Eval vm_compute in (pick_final_batch_size 100 9 8 3, pick_final_batch_size 100 10 8 3, pick_final_batch_size 100 16 8 2, pick_final_batch_size 100 13 7 6).')
