From Coq Require Import ZArith List Lia Arith.
Import ListNotations.
Open Scope Z_scope.

Definition vadd (a b : list Z) := map (fun p => fst p + snd p) (combine a b).
Definition vsub (a b : list Z) := map (fun p => fst p - snd p) (combine a b).

Fixpoint wht (k : nat) (x : list Z) : list Z :=
  match k with
  | O => x
  | S k' => let h := Nat.pow 2 k' in
            let a := wht k' (firstn h x) in
            let b := wht k' (skipn h x) in
            vadd a b ++ vsub a b
  end.

(* chunk-level mixing by H_{2^j} *)
Definition madd (A B : list (list Z)) := map (fun p => vadd (fst p) (snd p)) (combine A B).
Definition msub (A B : list (list Z)) := map (fun p => vsub (fst p) (snd p)) (combine A B).
Fixpoint mix (j : nat) (cs : list (list Z)) : list (list Z) :=
  match j with
  | O => cs
  | S j' => let h := Nat.pow 2 j' in
            let A := mix j' (firstn h cs) in
            let B := mix j' (skipn h cs) in
            madd A B ++ msub A B
  end.

Fixpoint chunks (fuel : nat) (n : nat) (x : list Z) : list (list Z) :=
  match fuel with
  | O => []
  | S f => firstn n x :: chunks f n (skipn n x)
  end.
(* chunks c n x : c chunks of size n *)

Lemma vadd_length a b : length a = length b -> length (vadd a b) = length a.
Proof. intros H; unfold vadd; rewrite map_length, combine_length; lia. Qed.
Lemma vsub_length a b : length a = length b -> length (vsub a b) = length a.
Proof. intros H; unfold vsub; rewrite map_length, combine_length; lia. Qed.

Lemma wht_length k : forall x, length x = Nat.pow 2 k -> length (wht k x) = Nat.pow 2 k.
Proof.
  induction k as [|k IH]; intros x Hx; cbn [wht]; [exact Hx|].
  cbn [Nat.pow] in Hx.
  assert (Ha : length (firstn (2^k) x) = (2^k)%nat) by (rewrite firstn_length; lia).
  assert (Hb : length (skipn (2^k) x) = (2^k)%nat) by (rewrite skipn_length; lia).
  rewrite app_length, vadd_length, vsub_length; rewrite ?IH; auto. cbn [Nat.pow]; lia.
Qed.

Definition shaped (c n : nat) (A : list (list Z)) := length A = c /\ Forall (fun r => length r = n) A.

Lemma combine_app {A B} (l1 l1' : list A) : forall (l2 l2' : list B), length l1 = length l2 ->
  combine (l1 ++ l1') (l2 ++ l2') = combine l1 l2 ++ combine l1' l2'.
Proof.
  induction l1 as [|a l1 IH]; intros [|b l2] l2' H; cbn in *; try lia; [reflexivity|].
  f_equal. apply IH. lia.
Qed.

Lemma vadd_app a1 a2 b1 b2 : length a1 = length b1 ->
  vadd (a1 ++ a2) (b1 ++ b2) = vadd a1 b1 ++ vadd a2 b2.
Proof. intros H; unfold vadd. rewrite combine_app by assumption. apply map_app. Qed.
Lemma vsub_app a1 a2 b1 b2 : length a1 = length b1 ->
  vsub (a1 ++ a2) (b1 ++ b2) = vsub a1 b1 ++ vsub a2 b2.
Proof. intros H; unfold vsub. rewrite combine_app by assumption. apply map_app. Qed.

Lemma concat_length_shaped c n A : shaped c n A -> length (concat A) = (c * n)%nat.
Proof.
  revert c; induction A as [|r A IH]; intros c [Hl Hf]; cbn in *; [subst; reflexivity|].
  inversion Hf; subst. rewrite app_length. rewrite (IH (length A)); [lia|split; auto].
Qed.

Lemma concat_madd c n A B : shaped c n A -> shaped c n B ->
  concat (madd A B) = vadd (concat A) (concat B).
Proof.
  revert c B; induction A as [|r A IH]; intros c B [HlA HfA] [HlB HfB].
  - destruct B; simpl length in *; [reflexivity|lia].
  - destruct B as [|s B]; simpl length in *; [lia|].
    inversion HfA; inversion HfB; subst.
    change (concat (madd (r :: A) (s :: B))) with (vadd r s ++ concat (madd A B)).
    change (concat (r :: A)) with (r ++ concat A). change (concat (s :: B)) with (s ++ concat B).
    rewrite vadd_app by lia. f_equal. apply (IH (length A)); split; auto; lia.
Qed.
Lemma concat_msub c n A B : shaped c n A -> shaped c n B ->
  concat (msub A B) = vsub (concat A) (concat B).
Proof.
  revert c B; induction A as [|r A IH]; intros c B [HlA HfA] [HlB HfB].
  - destruct B; simpl length in *; [reflexivity|lia].
  - destruct B as [|s B]; simpl length in *; [lia|].
    inversion HfA; inversion HfB; subst.
    change (concat (msub (r :: A) (s :: B))) with (vsub r s ++ concat (msub A B)).
    change (concat (r :: A)) with (r ++ concat A). change (concat (s :: B)) with (s ++ concat B).
    rewrite vsub_app by lia. f_equal. apply (IH (length A)); split; auto; lia.
Qed.

Lemma madd_shaped c n A B : shaped c n A -> shaped c n B -> shaped c n (madd A B).
Proof.
  intros [HlA HfA] [HlB HfB]; split.
  - unfold madd; rewrite map_length, combine_length; lia.
  - unfold madd. apply Forall_forall. intros r Hr. apply in_map_iff in Hr.
    destruct Hr as [[a b] [<- Hin]]. cbn [fst snd].
    pose proof (in_combine_l _ _ _ _ Hin) as Ha. pose proof (in_combine_r _ _ _ _ Hin) as Hb.
    rewrite Forall_forall in HfA, HfB. rewrite vadd_length; [apply HfA; auto|].
    rewrite (HfA _ Ha), (HfB _ Hb); reflexivity.
Qed.
Lemma msub_shaped c n A B : shaped c n A -> shaped c n B -> shaped c n (msub A B).
Proof.
  intros [HlA HfA] [HlB HfB]; split.
  - unfold msub; rewrite map_length, combine_length; lia.
  - unfold msub. apply Forall_forall. intros r Hr. apply in_map_iff in Hr.
    destruct Hr as [[a b] [<- Hin]]. cbn [fst snd].
    pose proof (in_combine_l _ _ _ _ Hin) as Ha. pose proof (in_combine_r _ _ _ _ Hin) as Hb.
    rewrite Forall_forall in HfA, HfB. rewrite vsub_length; [apply HfA; auto|].
    rewrite (HfA _ Ha), (HfB _ Hb); reflexivity.
Qed.

Lemma Forall_firstn' {A} (P : A -> Prop) n : forall l, Forall P l -> Forall P (firstn n l).
Proof. induction n; intros l H; cbn; [constructor|]. destruct l; [constructor|]. inversion H; subst. constructor; auto. Qed.
Lemma Forall_skipn' {A} (P : A -> Prop) n : forall l, Forall P l -> Forall P (skipn n l).
Proof. induction n; intros l H; cbn; [assumption|]. destruct l; [constructor|]. inversion H; subst. auto. Qed.
Lemma shaped_firstn c1 c2 n A : shaped (c1 + c2) n A -> shaped c1 n (firstn c1 A).
Proof. intros [Hl Hf]; split; [rewrite firstn_length; lia| apply Forall_firstn'; auto]. Qed.
Lemma shaped_skipn c1 c2 n A : shaped (c1 + c2) n A -> shaped c2 n (skipn c1 A).
Proof. intros [Hl Hf]; split; [rewrite skipn_length; lia| apply Forall_skipn'; auto]. Qed.

Lemma mix_shaped j : forall n A, shaped (2^j) n A -> shaped (2^j) n (mix j A).
Proof.
  induction j as [|j IH]; intros n A H; cbn [mix]; [exact H|].
  cbn [Nat.pow] in H. replace (2 * 2^j)%nat with (2^j + 2^j)%nat in H by lia.
  pose proof (IH n _ (shaped_firstn _ _ _ _ H)) as HA.
  pose proof (IH n _ (shaped_skipn _ _ _ _ H)) as HB.
  destruct (madd_shaped _ _ _ _ HA HB) as [l1 f1]. destruct (msub_shaped _ _ _ _ HA HB) as [l2 f2].
  split; [rewrite app_length; cbn [Nat.pow]; lia | apply Forall_app; split; auto].
Qed.

Lemma chunks_shaped c n : forall x, length x = (c * n)%nat -> shaped c n (chunks c n x).
Proof.
  induction c as [|c IH]; intros x Hx; cbn [chunks]; [split; [reflexivity|constructor]|].
  destruct (IH (skipn n x)) as [Hl Hf]; [rewrite skipn_length; lia|].
  split; cbn; [lia|]. constructor; auto. rewrite firstn_length; lia.
Qed.

Lemma chunks_app c1 c2 n : forall x y, length x = (c1 * n)%nat ->
  chunks (c1 + c2) n (x ++ y) = chunks c1 n x ++ chunks c2 n y.
Proof.
  induction c1 as [|c1 IH]; intros x y Hx; cbn [chunks plus].
  - destruct x; cbn in *; [reflexivity|lia].
  - cbn [app]. rewrite firstn_app, skipn_app.
    replace (n - length x)%nat with 0%nat by lia. cbn [firstn skipn]. rewrite app_nil_r.
    f_equal. rewrite <- IH; [reflexivity|rewrite skipn_length; lia].
Qed.

Lemma concat_chunks c n : forall x, length x = (c * n)%nat -> concat (chunks c n x) = x.
Proof.
  induction c as [|c IH]; intros x Hx; cbn [chunks concat].
  - destruct x; cbn in *; [reflexivity|lia].
  - rewrite IH by (rewrite skipn_length; lia). apply firstn_skipn.
Qed.

(* main Kronecker lemma: H_{2^j} (x) H_{2^K} = H_{2^(j+K)} *)
Lemma kron_step K : forall j x, length x = (2^j * 2^K)%nat ->
  concat (mix j (map (wht K) (chunks (2^j) (2^K) x))) = wht (j + K) x.
Proof.
  induction j as [|j IH]; intros x Hx.
  - cbn [mix Nat.pow chunks map concat plus]. rewrite app_nil_r. f_equal.
    apply firstn_all2. cbn in Hx. lia.
  - set (h := (2^j * 2^K)%nat).
    assert (Hpow : (2 ^ (j + K) = h)%nat) by (unfold h; apply Nat.pow_add_r).
    assert (Hx' : length x = (h + h)%nat) by (unfold h; cbn [Nat.pow] in Hx; lia).
    assert (Hxa : length (firstn h x) = (2^j * 2^K)%nat) by (rewrite firstn_length; unfold h in *; lia).
    assert (Hxb : length (skipn h x) = (2^j * 2^K)%nat) by (rewrite skipn_length; unfold h in *; lia).
    assert (Hch : chunks (2 ^ S j) (2^K) x
                  = chunks (2^j) (2^K) (firstn h x) ++ chunks (2^j) (2^K) (skipn h x)).
    { replace (2 ^ S j)%nat with (2^j + 2^j)%nat by (cbn [Nat.pow]; lia).
      rewrite <- (firstn_skipn h x) at 1. apply chunks_app. exact Hxa. }
    rewrite Hch, map_app.
    assert (Sh : forall y, length y = (2^j * 2^K)%nat ->
                 shaped (2^j) (2^K) (map (wht K) (chunks (2^j) (2^K) y))).
    { intros y Hy. destruct (chunks_shaped _ _ _ Hy) as [Hl Hf]. split; [rewrite map_length; exact Hl|].
      apply Forall_map. eapply Forall_impl; [|exact Hf]. cbn beta. intros r Hr. apply wht_length; exact Hr. }
    pose proof (Sh _ Hxa) as [HlA _]. 
    cbn [mix].
    rewrite firstn_app, skipn_app, HlA, Nat.sub_diag. cbn [firstn skipn]. rewrite app_nil_r.
    rewrite firstn_all2 by lia. rewrite skipn_all2 by lia. cbn [app].
    pose proof (mix_shaped j _ _ (Sh _ Hxa)) as SA. pose proof (mix_shaped j _ _ (Sh _ Hxb)) as SB.
    rewrite concat_app, (concat_madd _ _ _ _ SA SB), (concat_msub _ _ _ _ SA SB).
    rewrite (IH _ Hxa), (IH _ Hxb).
    change (wht (S j + K) x) with (wht (S (j + K)) x). cbn [wht]. rewrite Hpow. reflexivity.
Qed.
Print Assumptions kron_step.
