From Coq Require Import List Lia Arith Permutation.
Import ListNotations.

Section Refill.
Variable shuf : nat -> list nat -> list nat.
Variable N : nat.
Hypothesis Npos : 1 <= N.
Hypothesis shuf_perm : forall k b, Permutation (shuf k b) b.

Record st := mk { buf : list nat; pos : nat; nsh : nat }.
Definition wf (s : st) := length (buf s) = N /\ pos s <= N.

(* the inner `while filled < desired_size` loop of ShuffleRepeatBatchView.__iter__ *)
Fixpoint fill (fuel need : nat) (s : st) (acc : list nat) : st * list nat :=
  match fuel with
  | O => (s, acc)
  | S f =>
    if need =? 0 then (s, acc) else
    let s1 := if N - pos s =? 0 then mk (shuf (nsh s) (buf s)) 0 (S (nsh s)) else s in
    let used := Nat.min (N - pos s1) need in
    fill f (need - used) (mk (buf s1) (pos s1 + used) (nsh s1))
         (acc ++ firstn used (skipn (pos s1) (buf s1)))
  end.

(* declarative future: rest of current window, then W freshly shuffled windows *)
Fixpoint windows (W k : nat) (b : list nat) : list (list nat) :=
  match W with O => [] | S W' => let b' := shuf k b in b' :: windows W' (S k) b' end.
Definition rem (s : st) (W : nat) := skipn (pos s) (buf s) ++ concat (windows W (nsh s) (buf s)).

Lemma shuf_length k b : length (shuf k b) = length b.
Proof. apply Permutation_length, shuf_perm. Qed.

Lemma firstn_split_add {A} (l : list A) a b : firstn (a + b) l = firstn a l ++ firstn b (skipn a l).
Proof.
  revert l; induction a as [|a IH]; intros l; cbn; [reflexivity|].
  destruct l; cbn; [now rewrite firstn_nil|]. now rewrite IH.
Qed.
Lemma skipn_skipn' {A} (l : list A) a b : skipn b (skipn a l) = skipn (a + b) l.
Proof. revert l; induction a as [|a IH]; intros l; cbn; [reflexivity|]. destruct l; cbn; [now rewrite skipn_nil|]. apply IH. Qed.

Lemma fill_spec : forall fuel need s acc W,
  need < fuel -> wf s -> need <= length (rem s W) ->
  exists s' W', fill fuel need s acc = (s', acc ++ firstn need (rem s W))
    /\ wf s' /\ W' <= W /\ rem s' W' = skipn need (rem s W).
Proof.
  induction fuel as [|f IH]; intros need s acc W Hfuel [Hlen Hpos] Hneed; [lia|].
  cbn [fill]. destruct (need =? 0) eqn:E0.
  - apply Nat.eqb_eq in E0; subst need. exists s, W. cbn [firstn skipn]. rewrite app_nil_r.
    repeat split; auto.
  - apply Nat.eqb_neq in E0.
    (* normalise to a state s1 with the same future and available > 0 *)
    assert (H1 : exists s1 W1, (if N - pos s =? 0 then mk (shuf (nsh s) (buf s)) 0 (S (nsh s)) else s) = s1
              /\ wf s1 /\ pos s1 < N /\ W1 <= W /\ rem s1 W1 = rem s W).
    { destruct (N - pos s =? 0) eqn:Ea.
      - apply Nat.eqb_eq in Ea. assert (pos s = N) by lia.
        destruct W as [|W1].
        + exfalso. unfold rem in Hneed. cbn [windows concat] in Hneed. rewrite app_nil_r, skipn_length in Hneed. lia.
        + exists (mk (shuf (nsh s) (buf s)) 0 (S (nsh s))), W1. split; [reflexivity|].
          split; [split; cbn; [rewrite shuf_length; exact Hlen|lia]|]. split; [cbn; lia|]. split; [lia|].
          unfold rem; cbn [buf pos nsh windows concat skipn].
          rewrite skipn_all2 by lia. reflexivity.
      - apply Nat.eqb_neq in Ea. exists s, W. repeat split; auto; lia. }
    destruct H1 as (s1 & W1 & -> & [Hlen1 Hpos1] & Hlt & HW1 & Hrem).
    set (used := Nat.min (N - pos s1) need).
    assert (Hu : 0 < used <= need /\ used <= N - pos s1) by (unfold used; lia).
    set (s2 := mk (buf s1) (pos s1 + used) (nsh s1)).
    assert (Hrem2 : rem s2 W1 = skipn used (rem s1 W1)).
    { unfold rem, s2; cbn [buf pos nsh]. rewrite skipn_app, skipn_skipn', skipn_length.
      replace (used - (length (buf s1) - pos s1)) with 0 by lia. reflexivity. }
    assert (Hfst : firstn used (skipn (pos s1) (buf s1)) = firstn used (rem s1 W1)).
    { unfold rem. rewrite firstn_app, skipn_length.
      replace (used - (length (buf s1) - pos s1)) with 0 by lia. cbn [firstn]. now rewrite app_nil_r. }
    destruct (IH (need - used) s2 (acc ++ firstn used (skipn (pos s1) (buf s1))) W1) as (s' & W' & Hf & Hwf & HW' & Hr).
    + lia.
    + split; cbn; [exact Hlen1|lia].
    + rewrite Hrem2, skipn_length, Hrem. lia.
    + exists s', W'. rewrite Hf. split; [|split; [exact Hwf|split; [lia|]]].
      * f_equal. rewrite <- app_assoc. f_equal. rewrite Hfst, Hrem2, Hrem.
        rewrite <- (firstn_split_add (rem s W) used (need - used)). f_equal. lia.
      * rewrite Hr, Hrem2, Hrem, skipn_skipn'. f_equal. lia.
Qed.

Lemma windows_perm W : forall k b, Forall (fun w => Permutation w b) (windows W k b).
Proof.
  induction W as [|W IH]; intros k b; cbn; constructor; [apply shuf_perm|].
  eapply Forall_impl; [|apply IH]. cbn. intros w Hw. etransitivity; [exact Hw|apply shuf_perm].
Qed.
End Refill.
Print Assumptions fill_spec.
