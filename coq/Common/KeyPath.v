(* JAX PRNG keys as paths of jax.random.split indices from a root key (DESIGN 3.3), and
   haiku's PRNGSequence.
   hk.PRNGSequence(k) (haiku/_src/base.py, default rng_reserve_size = 1): `next` does
   `new = split(key, 2); key = new[0]; return new[1]` whenever its buffer is empty, so the c-th
   key it yields is split(...split(k)[0]...)[1] with c leading zeros. *)
From Coq Require Import List.
Import ListNotations.

Definition seq_key (k : list nat) (c : nat) : list nat := k ++ repeat 0 c ++ [1].
