(* numpy array statements over abstract rows / index lists, as emitted by the
   translator for `pad_examples`, `BatchPreprocessor.__call__` (C03) and
   `ShuffleRepeatBatchView.__iter__` (C04)  (tools/anchors/client_datasets.py).

   Every partial numpy operation returns `option`: `None` stands for "numpy raises
   ValueError, or the situation is outside the modelled fragment (broadcasting of a
   one-row value, negative / clamped slice bounds)".  The proofs show `None` is never
   reached from the anchored code. *)
From Coq Require Import ZArith List Bool Lia Arith.
From FV Require Import Common.ListX Common.PySem.
Import ListNotations.
Local Open Scope Z_scope.

(* np.zeros((size,) + v.shape[1:], v.dtype): `size` rows, each the zero row of v's
   dtype and trailing shape;  np.zeros((n,), dtype=np.int32) with zero := 0%nat *)
Definition np_zeros {A} (zero : A) (size : Z) : list A := repeat zero (Z.to_nat size).

(* np.arange(n, dtype=np.int32) as a list of example indices *)
Definition np_arange (n : Z) : list nat := seq 0 (Z.to_nat n).

(* padded[:k] = v   (k >= 0; the target slice is clamped to the array, the value must
   have exactly as many rows as the target slice) *)
Definition np_assign_prefix {A} (padded : list A) (k : Z) (v : list A) : option (list A) :=
  if (0 <=? k) && (length v =? Nat.min (Z.to_nat k) (length padded))%nat
  then Some (v ++ skipn (Z.to_nat k) padded) else None.

(* l[a:b] = v   for 0 <= a <= b <= len l and len v = b - a *)
Definition np_set_slice {A} (l : list A) (a b : Z) (v : list A) : option (list A) :=
  if (0 <=? a) && (a <=? b) && (b <=? Z.of_nat (length l)) && (Z.of_nat (length v) =? b - a)
  then Some (firstn (Z.to_nat a) l ++ v ++ skipn (Z.to_nat b) l) else None.

(* a generator whose elements may raise: all elements, or None if one raised *)
Fixpoint sequence {X} (l : list (option X)) : option (list X) :=
  match l with
  | [] => Some []
  | x :: t => match x, sequence t with Some a, Some r => Some (a :: r) | _, _ => None end
  end.

(* result of running a generator function on explicit fuel:
   GDone out : the generator returned after yielding `out`;
   GMore out : the outer-loop fuel ran out after yielding `out` (the consumer stopped
               asking; only an infinite stream is observed this way);
   GErr      : an inner loop ran out of fuel or a numpy statement raised *)
Inductive gres (B : Type) := GDone (out : list B) | GMore (out : list B) | GErr.
Arguments GDone {B}.
Arguments GMore {B}.
Arguments GErr {B}.

(* ------------------------------------------------------------------ *)
Lemma range_f_seq : forall fuel a, range_f fuel a (a + Z.of_nat fuel) 1 = map (fun k => a + Z.of_nat k) (seq 0 fuel).
Proof.
  induction fuel as [|f IH]; intros a; [reflexivity|].
  cbn [range_f]. assert (a <? a + Z.of_nat (S f) = true) as -> by (apply Z.ltb_lt; lia).
  cbn [seq map]. f_equal; [lia|].
  replace (a + Z.of_nat (S f)) with ((a + 1) + Z.of_nat f) by lia. rewrite IH.
  rewrite <- seq_shift, map_map. apply map_ext. intros k. lia.
Qed.

Lemma py_range_seq n : py_range 0 n 1 = map Z.of_nat (seq 0 (Z.to_nat n)).
Proof.
  unfold py_range. rewrite Z.sub_0_r.
  destruct (Z.le_gt_cases 0 n) as [H|H].
  - pose proof (range_f_seq (Z.to_nat n) 0) as E. rewrite Z2Nat.id in E by exact H.
    cbn [Z.add] in E. rewrite E. apply map_ext. intros k. lia.
  - assert (Z.to_nat n = 0%nat) as -> by lia. reflexivity.
Qed.

Lemma map_ltb_seq : forall len s c, (s <= c)%nat -> (c <= s + len)%nat ->
  map (fun j => Z.of_nat j <? Z.of_nat c) (seq s len) = repeat true (c - s) ++ repeat false (s + len - c).
Proof.
  induction len as [|len IH]; intros s c H1 H2; cbn [seq map].
  - replace (c - s)%nat with 0%nat by lia. replace (s + 0 - c)%nat with 0%nat by lia. reflexivity.
  - destruct (Nat.eq_dec s c) as [->|Hne].
    + rewrite Nat.sub_diag. cbn [repeat app].
      assert (Z.of_nat c <? Z.of_nat c = false) as -> by (apply Z.ltb_ge; lia).
      replace (c + S len - c)%nat with (S len) by lia. cbn [repeat]. f_equal.
      rewrite <- (map_ext_in (fun _ => false)).
      * clear. generalize (S c). induction len; intros s; cbn; [reflexivity|]. now rewrite IHlen.
      * intros j Hj. apply in_seq in Hj. symmetry. apply Z.ltb_ge. lia.
    + assert (Z.of_nat s <? Z.of_nat c = true) as -> by (apply Z.ltb_lt; lia).
      rewrite IH by lia. replace (c - s)%nat with (S (c - S s)) by lia. cbn [repeat app].
      f_equal. f_equal. replace (S s + len - c)%nat with (s + S len - c)%nat by lia. reflexivity.
Qed.

(* the mask expression of pad_examples *)
Lemma arange_lt_mask n c : 0 <= c <= n ->
  map (fun j => j <? c) (py_range 0 n 1) = repeat true (Z.to_nat c) ++ repeat false (Z.to_nat n - Z.to_nat c).
Proof.
  intros H. rewrite py_range_seq, map_map.
  rewrite (map_ext _ (fun j => Z.of_nat j <? Z.of_nat (Z.to_nat c))) by (intros; now rewrite Z2Nat.id by lia).
  rewrite map_ltb_seq by lia. now rewrite Nat.sub_0_r.
Qed.

Lemma np_assign_prefix_zeros {A} (zero : A) (rows : list A) size : Z.of_nat (length rows) <= size ->
  np_assign_prefix (np_zeros zero size) (Z.of_nat (length rows)) rows
  = Some (rows ++ repeat zero (Z.to_nat size - length rows)).
Proof.
  intros H. unfold np_assign_prefix, np_zeros. rewrite repeat_length, Nat2Z.id.
  assert (0 <=? Z.of_nat (length rows) = true) as -> by (apply Z.leb_le; lia).
  rewrite Nat.min_l by lia. rewrite Nat.eqb_refl. cbn [andb]. do 2 f_equal.
  clear H. generalize (Z.to_nat size) as m. induction (length rows) as [|k IH]; intros m; cbn [skipn].
  - now rewrite Nat.sub_0_r.
  - destruct m as [|m]; cbn [repeat Nat.sub]; [reflexivity|apply IH].
Qed.

Lemma np_set_slice_app {A} (acc zs v : list A) : (length v <= length zs)%nat ->
  np_set_slice (acc ++ zs) (Z.of_nat (length acc)) (Z.of_nat (length acc) + Z.of_nat (length v)) v
  = Some ((acc ++ v) ++ skipn (length v) zs).
Proof.
  intros H. unfold np_set_slice. rewrite app_length.
  assert (0 <=? Z.of_nat (length acc) = true) as -> by (apply Z.leb_le; lia).
  assert (Z.of_nat (length acc) <=? Z.of_nat (length acc) + Z.of_nat (length v) = true) as -> by (apply Z.leb_le; lia).
  assert (Z.of_nat (length acc) + Z.of_nat (length v) <=? Z.of_nat (length acc + length zs) = true) as -> by (apply Z.leb_le; lia).
  assert (Z.of_nat (length v) =? Z.of_nat (length acc) + Z.of_nat (length v) - Z.of_nat (length acc) = true) as -> by (apply Z.eqb_eq; lia).
  cbn [andb]. f_equal. rewrite Nat2Z.id.
  replace (Z.to_nat (Z.of_nat (length acc) + Z.of_nat (length v))) with (length acc + length v)%nat by lia.
  rewrite firstn_app, Nat.sub_diag, firstn_all. cbn [firstn]. rewrite app_nil_r.
  rewrite skipn_app, skipn_all2 by lia. cbn [app].
  replace (length acc + length v - length acc)%nat with (length v) by lia.
  now rewrite <- app_assoc.
Qed.

Lemma sequence_map {X Y} (f : X -> option Y) (g : X -> Y) (l : list X) :
  (forall x, In x l -> f x = Some (g x)) -> sequence (map f l) = Some (map g l).
Proof.
  induction l as [|x l IH]; intros H; cbn [map sequence]; [reflexivity|].
  rewrite (H x) by (left; reflexivity). rewrite IH by (intros; apply H; right; assumption). reflexivity.
Qed.

Lemma sequence_flat_map {X Y} (f : X -> list (option Y)) (g : X -> list Y) (l : list X) :
  (forall x, In x l -> sequence (f x) = Some (g x)) -> sequence (flat_map f l) = Some (flat_map g l).
Proof.
  assert (Happ : forall (a b : list (option Y)) a' b', sequence a = Some a' -> sequence b = Some b' ->
                 sequence (a ++ b) = Some (a' ++ b')).
  { induction a as [|x a IHa]; intros b a' b' Ha Hb; cbn [sequence app] in *.
    - injection Ha as <-. exact Hb.
    - destruct x as [y|]; [|discriminate]. destruct (sequence a) as [r|] eqn:Er; [|discriminate].
      injection Ha as <-. rewrite (IHa b r b' eq_refl Hb). reflexivity. }
  induction l as [|x l IH]; intros H; cbn [flat_map sequence]; [reflexivity|].
  apply Happ; [apply H; left; reflexivity|apply IH; intros; apply H; right; assumption].
Qed.
