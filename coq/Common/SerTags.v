(* Tags that the translator emits for the structure of fedjax/core/serialization.py and of
   checkpoint.save_checkpoint (C16).  The generated tables (gen/Gen_serialization.v,
   gen/Gen_c16_checkpoint.v) are lists over these tags; Model/C16_Model.v interprets them. *)
From Coq Require Import ZArith List.

(* conditions of the isinstance chain of _msgpack_ext_pack *)
Inductive pack_test :=
| TestNdarrayObject        (* isinstance(x, np.ndarray) and x.dtype == object *)
| TestNdarrayOrJax         (* isinstance(x, (np.ndarray, jax.Array)) *)
| TestNpGeneric            (* isinstance(x, np.generic) *)
| TestComplex.             (* isinstance(x, complex) *)

(* payload builders of its branches *)
Inductive pack_enc :=
| EncBytesNdarray          (* _bytes_ndarray_to_bytes(x) *)
| EncNdarray               (* _ndarray_to_bytes(x) *)
| EncNdarrayOfAsarray      (* _ndarray_to_bytes(np.asarray(x)) *)
| EncComplexTuple.         (* msgpack.packb((x.real, x.imag)) *)

(* decoders of the branches of _msgpack_ext_unpack *)
Inductive unpack_dec :=
| DecNdarray               (* return _ndarray_from_bytes(data) *)
| DecComplex               (* t = msgpack.unpackb(data); return complex(t[0], t[1]) *)
| DecScalarOfNdarray       (* ar = _ndarray_from_bytes(data); return ar[()] *)
| DecObjectNdarray.        (* return _object_ndarray_from_bytes(data) *)

(* steps of _ndarray_to_bytes before the tuple is built, in source order *)
Inductive ntb_step :=
| StepJaxToNumpy                                   (* if isinstance(arr, jax.Array): arr = np.array(arr) *)
| StepReject (hasobject alignedstruct : bool)      (* if <flags or-ed>: raise ValueError *)
| StepToNative.                                    (* if not arr.dtype.isnative: arr = arr.astype(arr.dtype.newbyteorder('=')) *)

(* fields of the packed tuples *)
Inductive ser_field := FShape | FName | FBytesC (* arr.tobytes('C') / frombuffer + reshape(order='C') *) | FFlat.

(* file-system effects of save_checkpoint, in source order *)
Inductive ck_path := PTmp | PFinal.
Inductive ck_effect :=
| EffSaveState (p : ck_path)                       (* serialization.save_state(state, p) *)
| EffRename (src dst : ck_path) (overwrite : bool) (* tf.io.gfile.rename(src, dst, overwrite=..) *)
| EffRemoveAllButLastKeep.                         (* for path in _get_checkpoint_paths(base)[:-keep]: remove(path) *)

(* columns of the federated_data table (sqlite_federated_data.py) *)
Inductive db_col := ColId | ColData | ColCount.
