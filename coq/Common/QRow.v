(* Row reductions over Q used by the translated per-example training losses (C20). *)
From Coq Require Import ZArith QArith List.
Import ListNotations.
Local Open Scope Q_scope.

Definition Qsum (l : list Q) : Q := fold_right Qplus 0 l.
(* jnp.mean(x, axis=-1): sum over the row divided by the row length *)
Definition Qmean (l : list Q) : Q := Qsum l / inject_Z (Z.of_nat (length l)).
