(* Byte strings and their order.
   bytes := list N.  The order is lexicographic with a proper prefix smaller than
   its extensions: this is Python's order on `bytes` and SQLite's order on BLOBs
   (memcmp on the common prefix, then the shorter one first).
   Total-order lemmas, min/max, sortedness, insertion sort. *)
From Coq Require Import NArith List Bool Lia Sorted Permutation.
Import ListNotations.

Definition bytes := list N.

Fixpoint bcmp (a b : bytes) : comparison :=
  match a, b with
  | [], [] => Eq
  | [], _ :: _ => Lt
  | _ :: _, [] => Gt
  | x :: a', y :: b' =>
      match N.compare x y with
      | Eq => bcmp a' b'
      | c => c
      end
  end.

Definition bltb (a b : bytes) : bool := match bcmp a b with Lt => true | _ => false end.
Definition bleb (a b : bytes) : bool := match bcmp a b with Gt => false | _ => true end.
Definition beqb (a b : bytes) : bool := match bcmp a b with Eq => true | _ => false end.

(* Python's two-argument max / min: the first argument wins ties. *)
Definition bmax (a b : bytes) : bytes := if bltb a b then b else a.
Definition bmin (a b : bytes) : bytes := if bltb b a then b else a.

Lemma bcmp_refl a : bcmp a a = Eq.
Proof. induction a as [|x a IH]; cbn; [reflexivity|]. now rewrite N.compare_refl. Qed.

Lemma bcmp_eq a : forall b, bcmp a b = Eq -> a = b.
Proof.
  induction a as [|x a IH]; intros [|y b]; cbn; try congruence.
  destruct (N.compare x y) eqn:E; try congruence.
  apply N.compare_eq in E. intros H. apply IH in H. congruence.
Qed.

Lemma bcmp_eq_iff a b : bcmp a b = Eq <-> a = b.
Proof. split; [apply bcmp_eq|intros ->; apply bcmp_refl]. Qed.

Lemma bcmp_antisym a : forall b, bcmp b a = CompOpp (bcmp a b).
Proof.
  induction a as [|x a IH]; intros [|y b]; cbn; try reflexivity.
  rewrite (N.compare_antisym x y). destruct (N.compare x y); cbn; auto.
Qed.

Lemma bcmp_lt_trans a : forall b c, bcmp a b = Lt -> bcmp b c = Lt -> bcmp a c = Lt.
Proof.
  induction a as [|x a IH]; intros [|y b] [|z c]; cbn; try congruence.
  destruct (N.compare x y) eqn:E1; try congruence; destruct (N.compare y z) eqn:E2; try congruence.
  - apply N.compare_eq in E1, E2. subst. rewrite N.compare_refl. apply IH.
  - apply N.compare_eq in E1. subst. now rewrite E2.
  - apply N.compare_eq in E2. subst. now rewrite E1.
  - intros _ _. rewrite N.compare_lt_iff in *. assert (H : (x < z)%N) by lia.
    apply N.compare_lt_iff in H. now rewrite H.
Qed.

Lemma beqb_eq a b : beqb a b = true <-> a = b.
Proof.
  unfold beqb. rewrite <- bcmp_eq_iff. destruct (bcmp a b); split; congruence.
Qed.

Lemma beqb_refl a : beqb a a = true.
Proof. now apply beqb_eq. Qed.

Lemma beqb_neq a b : beqb a b = false <-> a <> b.
Proof.
  rewrite <- beqb_eq. destruct (beqb a b); split; congruence.
Qed.

Lemma bltb_irrefl a : bltb a a = false.
Proof. unfold bltb. now rewrite bcmp_refl. Qed.

Lemma bleb_refl a : bleb a a = true.
Proof. unfold bleb. now rewrite bcmp_refl. Qed.

Lemma bltb_trans a b c : bltb a b = true -> bltb b c = true -> bltb a c = true.
Proof.
  unfold bltb. destruct (bcmp a b) eqn:E1; try congruence. destruct (bcmp b c) eqn:E2; try congruence.
  now rewrite (bcmp_lt_trans a b c E1 E2).
Qed.

Lemma bltb_negb_bleb a b : bltb a b = negb (bleb b a).
Proof. unfold bltb, bleb. rewrite (bcmp_antisym a b). destruct (bcmp a b); reflexivity. Qed.

Lemma bleb_negb_bltb a b : bleb a b = negb (bltb b a).
Proof. rewrite bltb_negb_bleb. now rewrite negb_involutive. Qed.

Lemma bleb_total a b : bleb a b = true \/ bleb b a = true.
Proof. unfold bleb. rewrite (bcmp_antisym a b). destruct (bcmp a b); cbn; auto. Qed.

Lemma bleb_antisym a b : bleb a b = true -> bleb b a = true -> a = b.
Proof.
  unfold bleb. rewrite (bcmp_antisym a b). destruct (bcmp a b) eqn:E; cbn; try congruence.
  intros _ _. now apply bcmp_eq.
Qed.

Lemma bleb_lt_or_eq a b : bleb a b = true <-> bltb a b = true \/ a = b.
Proof.
  unfold bleb, bltb. destruct (bcmp a b) eqn:E; split; intros H; auto; try congruence.
  - right. now apply bcmp_eq.
  - destruct H as [H|H]; [congruence|]. subst. rewrite bcmp_refl in E. congruence.
Qed.

Lemma bltb_bleb a b : bltb a b = true -> bleb a b = true.
Proof. intros H. apply bleb_lt_or_eq. now left. Qed.

Lemma bleb_trans a b c : bleb a b = true -> bleb b c = true -> bleb a c = true.
Proof.
  rewrite !bleb_lt_or_eq. intros [H1| ->] [H2| ->]; auto. left. eapply bltb_trans; eauto.
Qed.

Lemma bleb_bltb_trans a b c : bleb a b = true -> bltb b c = true -> bltb a c = true.
Proof. rewrite bleb_lt_or_eq. intros [H1| ->] H2; auto. eapply bltb_trans; eauto. Qed.

Lemma bltb_bleb_trans a b c : bltb a b = true -> bleb b c = true -> bltb a c = true.
Proof. rewrite bleb_lt_or_eq. intros H1 [H2| <-]; auto. eapply bltb_trans; eauto. Qed.

(* trichotomy: exactly one of a < b, a = b, b < a *)
Lemma bytes_trichotomy a b :
  (bltb a b = true /\ a <> b /\ bltb b a = false) \/
  (bltb a b = false /\ a = b /\ bltb b a = false) \/
  (bltb a b = false /\ a <> b /\ bltb b a = true).
Proof.
  unfold bltb. rewrite (bcmp_antisym a b). destruct (bcmp a b) eqn:E; cbn.
  - right; left. repeat split. now apply bcmp_eq.
  - left. repeat split. intros ->. rewrite bcmp_refl in E. congruence.
  - right; right. repeat split. intros ->. rewrite bcmp_refl in E. congruence.
Qed.

(* the empty id is the least element *)
Lemma bleb_nil a : bleb [] a = true.
Proof. destruct a; reflexivity. Qed.

(* a proper prefix is strictly smaller than each of its extensions *)
Lemma bltb_prefix a x t : bltb a (a ++ x :: t) = true.
Proof.
  unfold bltb. induction a as [|y a IH]; cbn; [reflexivity|]. now rewrite N.compare_refl.
Qed.

(* appending a zero byte gives the immediate successor: nothing lies strictly between *)
Lemma bytes_succ_zero a c : bltb a c = true -> bltb c (a ++ [0%N]) = true -> False.
Proof.
  unfold bltb. revert c. induction a as [|y a IH]; intros [|z c]; cbn; try congruence.
  - destruct z; cbn; [destruct c; cbn; congruence|congruence].
  - rewrite (N.compare_antisym y z). destruct (N.compare y z) eqn:E; cbn; try congruence. apply IH.
Qed.

(* a common prefix does not influence the comparison *)
Lemma bcmp_app_prefix p a b : bcmp (p ++ a) (p ++ b) = bcmp a b.
Proof. induction p as [|x p IH]; cbn; [reflexivity|]. now rewrite N.compare_refl. Qed.

(* ---- max / min ---- *)
Lemma bmax_ub_l a b : bleb a (bmax a b) = true.
Proof. unfold bmax. destruct (bltb a b) eqn:E; [now apply bltb_bleb|apply bleb_refl]. Qed.

Lemma bmax_ub_r a b : bleb b (bmax a b) = true.
Proof.
  unfold bmax. destruct (bltb a b) eqn:E; [apply bleb_refl|].
  rewrite bleb_negb_bltb. now rewrite E.
Qed.

Lemma bmax_cases a b : bmax a b = a \/ bmax a b = b.
Proof. unfold bmax. destruct (bltb a b); auto. Qed.

Lemma bmin_lb_l a b : bleb (bmin a b) a = true.
Proof. unfold bmin. destruct (bltb b a) eqn:E; [now apply bltb_bleb|apply bleb_refl]. Qed.

Lemma bmin_lb_r a b : bleb (bmin a b) b = true.
Proof.
  unfold bmin. destruct (bltb b a) eqn:E; [apply bleb_refl|].
  rewrite bleb_negb_bltb. now rewrite E.
Qed.

Lemma bmin_cases a b : bmin a b = a \/ bmin a b = b.
Proof. unfold bmin. destruct (bltb b a); auto. Qed.

(* x is above both lower bounds iff it is above their max *)
Lemma bleb_bmax a b x : bleb (bmax a b) x = bleb a x && bleb b x.
Proof.
  unfold bmax. destruct (bltb a b) eqn:E.
  - destruct (bleb b x) eqn:F; [|now rewrite andb_false_r].
    rewrite andb_true_r. symmetry. apply bltb_bleb in E. eapply bleb_trans; eauto.
  - destruct (bleb a x) eqn:F; [|reflexivity]. cbn. symmetry.
    assert (G : bleb b a = true) by (rewrite bleb_negb_bltb; now rewrite E).
    eapply bleb_trans; eauto.
Qed.

(* x is below both strict upper bounds iff it is below their min *)
Lemma bltb_bmin a b x : bltb x (bmin a b) = bltb x a && bltb x b.
Proof.
  unfold bmin. destruct (bltb b a) eqn:E.
  - destruct (bltb x b) eqn:F; [|now rewrite andb_false_r].
    rewrite andb_true_r. symmetry. eapply bltb_trans; eauto.
  - destruct (bltb x a) eqn:F; [|reflexivity]. cbn. symmetry.
    assert (G : bleb a b = true) by (rewrite bleb_negb_bltb; now rewrite E).
    eapply bltb_bleb_trans; eauto.
Qed.

(* ---- membership ---- *)
Definition bmem (i : bytes) (l : list bytes) : bool := existsb (beqb i) l.

Lemma bmem_In i l : bmem i l = true <-> In i l.
Proof.
  unfold bmem. rewrite existsb_exists. split.
  - intros [x [H E]]. apply beqb_eq in E. now subst.
  - intros H. exists i. split; [assumption|apply beqb_refl].
Qed.

Lemma bmem_false i l : bmem i l = false <-> ~ In i l.
Proof. rewrite <- bmem_In. destruct (bmem i l); split; congruence. Qed.

(* ---- association lists keyed by bytes (python dict / table with a primary key) ---- *)
Fixpoint bassoc {V} (i : bytes) (t : list (bytes * V)) : option V :=
  match t with
  | [] => None
  | (k, v) :: t' => if beqb i k then Some v else bassoc i t'
  end.

Lemma bassoc_In {V} i (v : V) t : bassoc i t = Some v -> In (i, v) t.
Proof.
  induction t as [|[k w] t IH]; cbn; [congruence|].
  destruct (beqb i k) eqn:E.
  - apply beqb_eq in E. subst. intros H. injection H as ->. now left.
  - intros H. right. auto.
Qed.

Lemma bassoc_None {V} i (t : list (bytes * V)) : bassoc i t = None <-> ~ In i (map fst t).
Proof.
  induction t as [|[k w] t IH]; cbn; [tauto|].
  destruct (beqb i k) eqn:E.
  - apply beqb_eq in E. subst. split; [congruence|tauto].
  - apply beqb_neq in E. rewrite IH. split; [intros H [G|G]; [congruence|tauto]|tauto].
Qed.

Lemma bassoc_NoDup_In {V} i (v : V) t : NoDup (map fst t) -> In (i, v) t -> bassoc i t = Some v.
Proof.
  induction t as [|[k w] t IH]; cbn; [tauto|]. intros ND [H|H].
  - injection H as -> ->. now rewrite beqb_refl.
  - inversion ND as [|? ? Hk ND']; subst. destruct (beqb i k) eqn:E.
    + apply beqb_eq in E. subst. exfalso. apply Hk. apply in_map_iff. now exists (k, v).
    + auto.
Qed.

Lemma bassoc_filter {V} (p : bytes -> bool) i (t : list (bytes * V)) :
  bassoc i (filter (fun kv => p (fst kv)) t) = if p i then bassoc i t else None.
Proof.
  induction t as [|[k w] t IH]; cbn; [now destruct (p i)|].
  destruct (p k) eqn:Pk; cbn; destruct (beqb i k) eqn:E; try apply beqb_eq in E; subst.
  - now rewrite Pk.
  - apply IH.
  - rewrite Pk. rewrite IH. now rewrite Pk.
  - apply IH.
Qed.

(* ---- sortedness and insertion sort (python's sorted() on distinct ids) ---- *)
Fixpoint binsert (i : bytes) (l : list bytes) : list bytes :=
  match l with
  | [] => [i]
  | j :: l' => if bleb i j then i :: l else j :: binsert i l'
  end.

Fixpoint bsort (l : list bytes) : list bytes :=
  match l with
  | [] => []
  | i :: l' => binsert i (bsort l')
  end.

Definition bsorted (l : list bytes) : Prop := StronglySorted (fun a b => bleb a b = true) l.

Lemma binsert_perm i l : Permutation (i :: l) (binsert i l).
Proof.
  induction l as [|j l IH]; cbn; [reflexivity|]. destruct (bleb i j); [reflexivity|].
  rewrite perm_swap. now constructor.
Qed.

Lemma bsort_perm l : Permutation l (bsort l).
Proof.
  induction l as [|i l IH]; cbn; [reflexivity|].
  rewrite <- binsert_perm. now constructor.
Qed.

Lemma bsort_In i l : In i (bsort l) <-> In i l.
Proof. split; apply Permutation_in; [symmetry|]; apply bsort_perm. Qed.

Lemma bsort_length l : length (bsort l) = length l.
Proof. symmetry. apply Permutation_length, bsort_perm. Qed.

Lemma bsort_NoDup l : NoDup l -> NoDup (bsort l).
Proof. apply Permutation_NoDup, bsort_perm. Qed.

Lemma binsert_sorted i l : bsorted l -> bsorted (binsert i l).
Proof.
  unfold bsorted. induction 1 as [|j l S IH F]; cbn; [repeat constructor|].
  destruct (bleb i j) eqn:E.
  - constructor; [now constructor|]. constructor; [assumption|].
    eapply Forall_impl; [|exact F]. cbn. intros a H. eapply bleb_trans; eauto.
  - constructor; [assumption|].
    assert (G : bleb j i = true) by (destruct (bleb_total i j); congruence).
    rewrite Forall_forall in *. intros x Hx.
    apply (Permutation_in _ (Permutation_sym (binsert_perm i l))) in Hx. destruct Hx as [<-|Hx]; auto.
Qed.

Lemma bsort_sorted l : bsorted (bsort l).
Proof. induction l; cbn; [constructor|now apply binsert_sorted]. Qed.

Lemma binsert_sorted_id i l : bsorted (i :: l) -> binsert i l = i :: l.
Proof.
  intros S. inversion S as [|? ? _ F]; subst. destruct l as [|j l]; cbn; [reflexivity|].
  inversion F; subst. now rewrite H1.
Qed.

Lemma bsort_sorted_id l : bsorted l -> bsort l = l.
Proof.
  induction l as [|i l IH]; cbn; [reflexivity|]. intros S.
  inversion S; subst. rewrite IH by assumption. now apply binsert_sorted_id.
Qed.

Lemma bsorted_filter p l : bsorted l -> bsorted (filter p l).
Proof.
  unfold bsorted. induction 1 as [|i l S IH F]; cbn; [constructor|].
  destruct (p i); [|assumption]. constructor; [assumption|].
  rewrite Forall_forall in *. intros x Hx. apply filter_In in Hx. now apply F.
Qed.

(* sorting commutes with filtering *)
Lemma binsert_filter p i l : bsorted l ->
  filter p (binsert i l) = if p i then binsert i (filter p l) else filter p l.
Proof.
  induction l as [|j l IH]; intros S; cbn; [now destruct (p i)|].
  inversion S as [|? ? S' F]; subst.
  destruct (bleb i j) eqn:E; cbn.
  - destruct (p i) eqn:Pi, (p j) eqn:Pj; cbn; rewrite ?E; try reflexivity.
    (* i kept, j dropped: i is below everything that follows *)
    symmetry. apply binsert_sorted_id. constructor; [now apply bsorted_filter|].
    rewrite Forall_forall in *. intros x Hx. apply filter_In in Hx. destruct Hx as [Hx _].
    eapply bleb_trans; [exact E|now apply F].
  - rewrite IH by assumption. destruct (p i) eqn:Pi, (p j) eqn:Pj; cbn; rewrite ?E; reflexivity.
Qed.

Lemma bsort_filter p l : bsort (filter p l) = filter p (bsort l).
Proof.
  induction l as [|i l IH]; cbn; [reflexivity|].
  rewrite binsert_filter by apply bsort_sorted. destruct (p i); cbn; now rewrite IH.
Qed.

(* two sorted duplicate-free lists with the same elements are equal *)
Lemma bsorted_NoDup_unique l1 : forall l2, bsorted l1 -> bsorted l2 -> NoDup l1 -> NoDup l2 ->
  (forall x, In x l1 <-> In x l2) -> l1 = l2.
Proof.
  induction l1 as [|a l1 IH]; intros [|b l2] S1 S2 N1 N2 H.
  - reflexivity.
  - exfalso. apply (proj2 (H b)). now left.
  - exfalso. apply (proj1 (H a)). now left.
  - inversion S1 as [|? ? S1' F1]; inversion S2 as [|? ? S2' F2]; subst.
    inversion N1 as [|? ? A1 N1']; inversion N2 as [|? ? A2 N2']; subst.
    rewrite Forall_forall in F1, F2.
    assert (E : a = b).
    { destruct (proj1 (H a) (or_introl eq_refl)) as [->|Ha]; [reflexivity|].
      destruct (proj2 (H b) (or_introl eq_refl)) as [->|Hb]; [reflexivity|].
      apply bleb_antisym; [now apply F1|now apply F2]. }
    subst. f_equal. apply IH; auto. intros x. split; intros Hx.
    + destruct (proj1 (H x) (or_intror Hx)) as [->|G]; [contradiction|assumption].
    + destruct (proj2 (H x) (or_intror Hx)) as [->|G]; [contradiction|assumption].
Qed.

(* sorting is canonical on permutations of duplicate-free lists *)
Lemma bsort_perm_unique l1 l2 : NoDup l1 -> Permutation l1 l2 -> bsort l1 = bsort l2.
Proof.
  intros N P. apply bsorted_NoDup_unique; try apply bsort_sorted.
  - now apply bsort_NoDup.
  - apply bsort_NoDup. eapply Permutation_NoDup; eauto.
  - intros x. rewrite !bsort_In. split; apply Permutation_in; [assumption|now symmetry].
Qed.

(* ---- python set(ids) / dict restriction, used by the translated FederatedData code ---- *)
Fixpoint bdedup (l : list bytes) : list bytes :=          (* set(client_ids) as a duplicate-free list *)
  match l with
  | [] => []
  | i :: l' => if bmem i l' then bdedup l' else i :: bdedup l'
  end.

Fixpoint omap {A B} (f : A -> option B) (l : list A) : option (list B) :=
  match l with
  | [] => Some []
  | x :: l' => match f x, omap f l' with Some y, Some r => Some (y :: r) | _, _ => None end
  end.

(* {k: mapping[k] for k in ids}: None when some lookup raises KeyError *)
Definition brestrict {V} (t : list (bytes * V)) (ids : list bytes) : option (list (bytes * V)) :=
  omap (fun i => match bassoc i t with Some r => Some (i, r) | None => None end) ids.

Definition bisnil {A} (l : list A) : bool := match l with [] => true | _ => false end.
