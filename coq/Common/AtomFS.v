(* AtomFS -- a directory with atomic steps and crashes (DESIGN 3.4).  Shared by C09, C19.

   A directory maps names to contents; a content is either a complete file `Whole b`
   or `Torn` (a file that was created but whose writer never closed it: any prefix of
   the intended bytes may be on the disk).  The atomic steps are
     Create n      open n for writing, truncating it           (n becomes Torn)
     Complete n b  the writer of n closes it, having written b (n becomes Whole b)
     Rename a b    atomic rename with overwrite
     Remove a      unlink
     Glob          any read-only operation (listing, exists, open for reading)
   A crash is a truncation `firstn k` of the step list. *)
From Coq Require Import List Bool Arith Lia.
Import ListNotations.

Section AtomFS.
Context {N B : Type} (eqb : N -> N -> bool).
Hypothesis eqb_spec : forall a b, eqb a b = true <-> a = b.

Inductive content := Whole (b : B) | Torn.
Definition dir := list (N * content).

Inductive step := Create (n : N) | Complete (n : N) (b : B) | Rename (a b : N) | Remove (a : N) | Glob.

Fixpoint lookup (d : dir) (n : N) : option content :=
  match d with
  | [] => None
  | (m, c) :: d' => if eqb m n then Some c else lookup d' n
  end.

Definition del (n : N) (d : dir) : dir := filter (fun e => negb (eqb (fst e) n)) d.
Definition set (n : N) (c : content) (d : dir) : dir := (n, c) :: del n d.
Definition names (d : dir) : list N := map fst d.

Definition apply (d : dir) (s : step) : dir :=
  match s with
  | Create n => set n Torn d
  | Complete n b => set n (Whole b) d
  | Rename a b => match lookup d a with
                  | Some c => set b c (del a d)
                  | None => d
                  end
  | Remove a => del a d
  | Glob => d
  end.

Definition run (d : dir) (l : list step) : dir := fold_left apply l d.

(* a crashed script: only the first k steps happened *)
Definition crash (k : nat) (l : list step) : list step := firstn k l.

Lemma eqb_refl n : eqb n n = true.
Proof. now apply eqb_spec. Qed.

Lemma eqb_neq a b : a <> b -> eqb a b = false.
Proof. intros H. destruct (eqb a b) eqn:E; [apply eqb_spec in E; contradiction|reflexivity]. Qed.

Lemma eqb_false a b : eqb a b = false -> a <> b.
Proof. intros E H. subst. rewrite eqb_refl in E. discriminate. Qed.

Lemma lookup_del n m d : lookup (del n d) m = if eqb n m then None else lookup d m.
Proof.
  induction d as [|[k c] d IH]; cbn [del filter lookup fst].
  - destruct (eqb n m); reflexivity.
  - fold (del n d). destruct (eqb k n) eqn:Ekn; cbn [negb].
    + apply eqb_spec in Ekn. subst k. rewrite IH. destruct (eqb n m); reflexivity.
    + cbn [lookup]. rewrite IH. destruct (eqb k m) eqn:Ekm; [|reflexivity].
      apply eqb_spec in Ekm. subst k. destruct (eqb n m) eqn:Enm; [|reflexivity].
      apply eqb_spec in Enm. subst. rewrite eqb_refl in Ekn. discriminate.
Qed.

Lemma lookup_set n c m d : lookup (set n c d) m = if eqb n m then Some c else lookup d m.
Proof.
  unfold set. cbn [lookup]. destruct (eqb n m) eqn:E; [reflexivity|]. rewrite lookup_del, E. reflexivity.
Qed.

Lemma lookup_rename a b m d c : lookup d a = Some c ->
  lookup (apply d (Rename a b)) m = if eqb b m then Some c else if eqb a m then None else lookup d m.
Proof. intros H. cbn [apply]. rewrite H, lookup_set, lookup_del. reflexivity. Qed.

Lemma run_app d l1 l2 : run d (l1 ++ l2) = run (run d l1) l2.
Proof. apply fold_left_app. Qed.

Lemma lookup_In d n c : lookup d n = Some c -> In n (names d).
Proof.
  induction d as [|[k c'] d IH]; cbn [lookup names map fst]; [discriminate|].
  destruct (eqb k n) eqn:E; [apply eqb_spec in E; left; exact E|right; apply IH; assumption].
Qed.

Lemma In_lookup d n : In n (names d) -> exists c, lookup d n = Some c.
Proof.
  induction d as [|[k c'] d IH]; cbn [lookup names map fst]; [intros []|].
  intros [->|H]; [rewrite eqb_refl; eauto|]. destruct (eqb k n); eauto.
Qed.

Lemma names_del n d : names (del n d) = filter (fun m => negb (eqb m n)) (names d).
Proof.
  induction d as [|[k c] d IH]; cbn [del filter names map fst]; [reflexivity|].
  fold (del n d). destruct (eqb k n); cbn [negb names map fst]; [exact IH|]. f_equal. exact IH.
Qed.

Lemma NoDup_filter {A} (f : A -> bool) l : NoDup l -> NoDup (filter f l).
Proof.
  induction 1 as [|x l Hx _ IH]; cbn [filter]; [constructor|].
  destruct (f x); [constructor; [|exact IH]|exact IH]. intros H. apply filter_In in H. tauto.
Qed.

Lemma NoDup_del n d : NoDup (names d) -> NoDup (names (del n d)).
Proof. intros H. rewrite names_del. now apply NoDup_filter. Qed.

Lemma NoDup_set n c d : NoDup (names d) -> NoDup (names (set n c d)).
Proof.
  intros H. unfold set. cbn [names map fst]. constructor; [|now apply NoDup_del].
  fold (names (del n d)). rewrite names_del. intros HI. apply filter_In in HI. destruct HI as [_ HI].
  rewrite eqb_refl in HI. discriminate.
Qed.

Lemma NoDup_apply d s : NoDup (names d) -> NoDup (names (apply d s)).
Proof.
  intros H. destruct s; cbn [apply]; auto using NoDup_set, NoDup_del.
  destruct (lookup d a); auto using NoDup_set, NoDup_del.
Qed.

Lemma NoDup_run l : forall d, NoDup (names d) -> NoDup (names (run d l)).
Proof. induction l as [|s l IH]; intros d H; cbn [run fold_left]; [exact H|]. apply IH. now apply NoDup_apply. Qed.

(* ---- the rename discipline ------------------------------------------------ *)
(* `final` marks the names readers trust (checkpoint_########, the cache path). *)
Variable final : N -> bool.

Definition no_torn_final (d : dir) : Prop := forall n, final n = true -> lookup d n <> Some Torn.

(* a step is disciplined in directory d when it never opens a final name for writing
   and only renames complete files onto final names *)
Definition disciplined (d : dir) (s : step) : Prop :=
  match s with
  | Create n => final n = false
  | Rename a b => final b = true -> lookup d a <> Some Torn
  | Complete _ _ | Remove _ | Glob => True
  end.

Fixpoint disciplined_run (d : dir) (l : list step) : Prop :=
  match l with
  | [] => True
  | s :: l' => disciplined d s /\ disciplined_run (apply d s) l'
  end.

Lemma disciplined_step d s : no_torn_final d -> disciplined d s -> no_torn_final (apply d s).
Proof.
  intros Hd Hs n Hn. specialize (Hd n Hn). destruct s as [m|m b|a b| a|]; cbn [apply disciplined] in *.
  - rewrite lookup_set. destruct (eqb m n) eqn:E; [|exact Hd]. apply eqb_spec in E. subst. congruence.
  - rewrite lookup_set. destruct (eqb m n); [discriminate|exact Hd].
  - destruct (lookup d a) as [c|] eqn:Ea; [|exact Hd].
    rewrite lookup_set, lookup_del. destruct (eqb b n) eqn:E.
    + apply eqb_spec in E. subst b. intros Hc. injection Hc as ->. now apply Hs.
    + destruct (eqb a n); [discriminate|exact Hd].
  - rewrite lookup_del. destruct (eqb a n); [discriminate|exact Hd].
  - exact Hd.
Qed.

(* A name that is only ever written through rename-from-a-complete-file is never
   Torn, at any crash point. *)
Theorem tmp_then_rename_atomic : forall l d k,
  no_torn_final d -> disciplined_run d l -> no_torn_final (run d (crash k l)).
Proof.
  induction l as [|s l IH]; intros d k Hd Hl.
  - unfold crash. rewrite firstn_nil. exact Hd.
  - destruct k as [|k]; [exact Hd|]. unfold crash. cbn [firstn run fold_left].
    destruct Hl as [Hs Hl]. apply (IH (apply d s) k); [now apply disciplined_step|exact Hl].
Qed.

(* the canonical script: write a temporary, close it, rename it over the final name *)
Lemma write_tmp_rename_disciplined d t p b :
  final t = false -> disciplined_run d [Create t; Complete t b; Rename t p].
Proof.
  intros Ht. cbn [disciplined_run disciplined apply]. repeat split; [exact Ht|].
  intros _. rewrite lookup_set, eqb_refl. discriminate.
Qed.

(* ... and what it leaves when it runs to completion *)
Lemma write_tmp_rename_result d t p b m : t <> p ->
  lookup (run d [Create t; Complete t b; Rename t p]) m =
  if eqb p m then Some (Whole b) else if eqb t m then None else lookup d m.
Proof.
  intros Htp. cbn [run fold_left].
  rewrite (lookup_rename t p m _ (Whole b)) by (cbn [apply]; rewrite lookup_set, eqb_refl; reflexivity).
  destruct (eqb p m) eqn:Ep; [reflexivity|]. destruct (eqb t m) eqn:Et; [reflexivity|].
  cbn [apply]. rewrite !lookup_set, Et. reflexivity.
Qed.

(* appended: discipline of concatenated scripts *)
Lemma disciplined_run_app : forall l1 l2 d,
  disciplined_run d (l1 ++ l2) <-> disciplined_run d l1 /\ disciplined_run (run d l1) l2.
Proof.
  induction l1 as [|s l1 IH]; intros l2 d; cbn [app disciplined_run run fold_left]; [tauto|].
  fold (run (apply d s) l1). rewrite IH. tauto.
Qed.

End AtomFS.

Arguments Whole {B} b.
Arguments Torn {B}.
Arguments Create {N B} n.
Arguments Complete {N B} n b.
Arguments Rename {N B} a b.
Arguments Remove {N B} a.
Arguments Glob {N B}.
