(* Store.v -- a small store calculus for aliasing / mutation / donation arguments
   (C10; also usable by C02, C07).

   A store is a list of cells addressed by their index.  Array cells hold an
   immutable value and a `donated` flag (a donated array can no longer be read);
   dict / list cells are mutable containers of locations; record cells are frozen
   dataclasses / tuples.  A script is a straight-line list of commands over
   registers; loops over clients are unrolled by the (Gallina) script generators.

   Registers come in two syntactic classes: `ROwn k` may only ever be bound by a
   command that ALLOCATES (or by a move from another ROwn register), `RIn k` may be
   bound to anything.  A script is well formed (`wf_cmd` on every command, a plain
   boolean check) when every in-place command (DictSet, ListAppend, ListSet, the
   donation list of a Call) targets an ROwn register.  The frame theorem
   `exec_protects` shows that a well-formed script leaves every protected location
   (in particular: every location that existed before the call) untouched and
   undonated; `exec_simulation` (below) shows that its result is a function of the
   values reachable from its arguments. *)
From Coq Require Import ZArith List Bool Lia PeanoNat.
Import ListNotations.

(* ---- values ------------------------------------------------------------------ *)
Inductive val := VAtom (z : Z) | VApp (f : Z) (a : val) | VPair (a b : val) | VNil.

Fixpoint val_eqb (a b : val) : bool :=
  match a, b with
  | VAtom x, VAtom y => Z.eqb x y
  | VApp f x, VApp g y => Z.eqb f g && val_eqb x y
  | VPair a1 a2, VPair b1 b2 => val_eqb a1 b1 && val_eqb a2 b2
  | VNil, VNil => true
  | _, _ => false
  end.

Lemma val_eqb_eq a : forall b, val_eqb a b = true <-> a = b.
Proof.
  induction a; destruct b; cbn; try (split; [discriminate | congruence]).
  - rewrite Z.eqb_eq. split; congruence.
  - rewrite andb_true_iff, Z.eqb_eq, IHa. split; [intros [-> ->]; reflexivity | intros H; inversion H; auto].
  - rewrite andb_true_iff, IHa1, IHa2. split; [intros [-> ->]; reflexivity | intros H; inversion H; auto].
  - split; reflexivity.
Qed.

Fixpoint vlist (vs : list val) : val :=
  match vs with [] => VNil | v :: r => VPair v (vlist r) end.

Lemma vlist_inj a : forall b, vlist a = vlist b -> a = b.
Proof. induction a; destruct b; cbn; try congruence. intros H; inversion H. f_equal; auto. Qed.

(* ---- cells, stores ------------------------------------------------------------- *)
Inductive cell :=
| CArr (v : val) (donated : bool)
| CDict (kvs : list (Z * nat))
| CList (items : list nat)
| CRec (fields : list nat).

Definition store := list cell.

Fixpoint nat_list_eqb (a b : list nat) : bool :=
  match a, b with
  | [], [] => true
  | x :: a', y :: b' => Nat.eqb x y && nat_list_eqb a' b'
  | _, _ => false
  end.

Fixpoint kv_list_eqb (a b : list (Z * nat)) : bool :=
  match a, b with
  | [], [] => true
  | (k, x) :: a', (k', y) :: b' => Z.eqb k k' && Nat.eqb x y && kv_list_eqb a' b'
  | _, _ => false
  end.

Definition cell_eqb (a b : cell) : bool :=
  match a, b with
  | CArr v d, CArr v' d' => val_eqb v v' && Bool.eqb d d'
  | CDict k, CDict k' => kv_list_eqb k k'
  | CList l, CList l' => nat_list_eqb l l'
  | CRec l, CRec l' => nat_list_eqb l l'
  | _, _ => false
  end.

Fixpoint update {A} (l : list A) (i : nat) (x : A) : list A :=
  match l, i with
  | [], _ => []
  | _ :: r, O => x :: r
  | y :: r, S i' => y :: update r i' x
  end.

Lemma update_length {A} (l : list A) : forall i x, length (update l i x) = length l.
Proof. induction l; destruct i; cbn; auto. Qed.

Lemma nth_error_update_other {A} (l : list A) : forall i j x, i <> j -> nth_error (update l i x) j = nth_error l j.
Proof. induction l; destruct i, j; cbn; intros; auto; try congruence. Qed.

Lemma nth_error_update_same {A} (l : list A) : forall i x, i < length l -> nth_error (update l i x) i = Some x.
Proof. induction l; destruct i; cbn; intros; try lia; auto. apply IHl. lia. Qed.

Lemma nth_error_snoc_old {A} (l : list A) x j : j < length l -> nth_error (l ++ [x]) j = nth_error l j.
Proof. intros. apply nth_error_app1. exact H. Qed.

Lemma nth_error_snoc_new {A} (l : list A) x : nth_error (l ++ [x]) (length l) = Some x.
Proof. rewrite nth_error_app2, Nat.sub_diag by lia. reflexivity. Qed.

(* ---- registers, environments ----------------------------------------------------- *)
Inductive reg := RIn (k : nat) | ROwn (k : nat).

Definition reg_eqb (a b : reg) : bool :=
  match a, b with
  | RIn x, RIn y => Nat.eqb x y
  | ROwn x, ROwn y => Nat.eqb x y
  | _, _ => false
  end.

Lemma reg_eqb_eq a b : reg_eqb a b = true <-> a = b.
Proof. destruct a, b; cbn; rewrite ?Nat.eqb_eq; split; try congruence; intros H; inversion H; auto. Qed.

Definition is_own (r : reg) : bool := match r with ROwn _ => true | RIn _ => false end.

Definition env := list (reg * nat).

Fixpoint lookup (e : env) (r : reg) : option nat :=
  match e with
  | [] => None
  | (r', l) :: e' => if reg_eqb r r' then Some l else lookup e' r
  end.

Fixpoint mapM {A B} (f : A -> option B) (l : list A) : option (list B) :=
  match l with
  | [] => Some []
  | x :: r => match f x, mapM f r with Some y, Some ys => Some (y :: ys) | _, _ => None end
  end.

(* ---- dict helpers (association lists kept sorted by key) --------------------------- *)
Fixpoint dict_get (kvs : list (Z * nat)) (k : Z) : option nat :=
  match kvs with
  | [] => None
  | (k', v) :: r => if Z.eqb k k' then Some v else dict_get r k
  end.

Fixpoint dict_set (kvs : list (Z * nat)) (k : Z) (v : nat) : list (Z * nat) :=
  match kvs with
  | [] => [(k, v)]
  | (k', v') :: r => if Z.eqb k k' then (k, v) :: r
                     else if Z.ltb k k' then (k, v) :: (k', v') :: r
                     else (k', v') :: dict_set r k v
  end.

(* ---- commands ------------------------------------------------------------------------ *)
Inductive cmd :=
| Field (r src : reg) (i : nat)                    (* r := src.<field i>         (record / tuple) *)
| Index (r src : reg) (i : nat)                    (* r := src[i]                (list)           *)
| DictGet (r d : reg) (k : Z) (dflt : reg)         (* r := d.get(k, dflt)                         *)
| Call (r : reg) (f : Z) (args don : list reg)     (* r := f(args...): pure function of the array
                                                      values, result in a NEW array; the arrays in
                                                      `don` are donated (deleted) by the call      *)
| MkRec (r : reg) (fs : list reg)                  (* r := Record(fs...)          new frozen record *)
| DictNew (r : reg)                                (* r := {}                                      *)
| DictCopy (r d : reg)                             (* r := dict(d)                                 *)
| DictSet (d : reg) (k : Z) (v : reg)              (* d[k] = v                   IN PLACE          *)
| ListNew (r : reg)                                (* r := []                                      *)
| ListAppend (l v : reg)                           (* l.append(v)                IN PLACE          *)
| ListSet (l : reg) (i : nat) (v : reg)            (* l[i] = v                   IN PLACE          *)
| ListSliceApp (r l : reg) (from : nat) (v : reg)  (* r := l[from:] + [v]        new list          *)
| Move (r src : reg)                               (* r := src                   alias             *)
| ListOf (r : reg) (items : list reg)              (* r := [items...]  display / comprehension: new list  *)
| DictOf (r : reg) (kvs : list (Z * reg)).         (* r := {k: v ...}  display / comprehension / dict(pairs) *)

Definition wf_cmd (c : cmd) : bool :=
  match c with
  | Field r _ _ | Index r _ _ | DictGet r _ _ _ => negb (is_own r)
  | Call _ _ _ don => forallb is_own don
  | MkRec _ _ | DictNew _ | DictCopy _ _ | ListNew _ | ListSliceApp _ _ _ _ | ListOf _ _ | DictOf _ _ => true
  | DictSet d _ _ | ListAppend d _ | ListSet d _ _ => is_own d
  | Move r src => negb (is_own r) || is_own src
  end.

Definition wf_script (p : list cmd) : bool := forallb wf_cmd p.

(* ---- semantics --------------------------------------------------------------------------- *)
Definition arr_val (s : store) (l : nat) : option val :=
  match nth_error s l with Some (CArr v false) => Some v | _ => None end.

Definition donate1 (s : store) (l : nat) : option store :=
  match nth_error s l with Some (CArr v false) => Some (update s l (CArr v true)) | _ => None end.

Fixpoint donate_all (s : store) (ls : list nat) : option store :=
  match ls with
  | [] => Some s
  | l :: r => match donate1 s l with Some s' => donate_all s' r | None => None end
  end.

Record st := mkSt { sto : store; ven : env }.

Definition bind (σ : st) (r : reg) (l : nat) : st := mkSt (sto σ) ((r, l) :: ven σ).
Definition alloc (σ : st) (r : reg) (c : cell) : st := mkSt (sto σ ++ [c]) ((r, length (sto σ)) :: ven σ).

Definition exec1 (c : cmd) (σ : st) : option st :=
  let s := sto σ in let e := ven σ in
  match c with
  | Field r src i =>
      match lookup e src with Some l =>
        match nth_error s l with Some (CRec fs) =>
          match nth_error fs i with Some x => Some (bind σ r x) | None => None end
        | _ => None end
      | None => None end
  | Index r src i =>
      match lookup e src with Some l =>
        match nth_error s l with Some (CList fs) =>
          match nth_error fs i with Some x => Some (bind σ r x) | None => None end
        | _ => None end
      | None => None end
  | DictGet r d k dflt =>
      match lookup e d, lookup e dflt with Some l, Some dl =>
        match nth_error s l with Some (CDict kvs) =>
          Some (bind σ r (match dict_get kvs k with Some x => x | None => dl end))
        | _ => None end
      | _, _ => None end
  | Call r f args don =>
      match mapM (lookup e) args, mapM (lookup e) don with Some ls, Some dls =>
        match mapM (arr_val s) ls with Some vs =>
          match donate_all s dls with Some s1 =>
            Some (alloc (mkSt s1 e) r (CArr (VApp f (vlist vs)) false))
          | None => None end
        | None => None end
      | _, _ => None end
  | MkRec r fs =>
      match mapM (lookup e) fs with Some ls => Some (alloc σ r (CRec ls)) | None => None end
  | DictNew r => Some (alloc σ r (CDict []))
  | DictCopy r d =>
      match lookup e d with Some l =>
        match nth_error s l with Some (CDict kvs) => Some (alloc σ r (CDict kvs)) | _ => None end
      | None => None end
  | DictSet d k v =>
      match lookup e d, lookup e v with Some l, Some x =>
        match nth_error s l with Some (CDict kvs) => Some (mkSt (update s l (CDict (dict_set kvs k x))) e)
        | _ => None end
      | _, _ => None end
  | ListNew r => Some (alloc σ r (CList []))
  | ListAppend lr v =>
      match lookup e lr, lookup e v with Some l, Some x =>
        match nth_error s l with Some (CList items) => Some (mkSt (update s l (CList (items ++ [x]))) e)
        | _ => None end
      | _, _ => None end
  | ListSet lr i v =>
      match lookup e lr, lookup e v with Some l, Some x =>
        match nth_error s l with Some (CList items) =>
          if Nat.ltb i (length items) then Some (mkSt (update s l (CList (update items i x))) e) else None
        | _ => None end
      | _, _ => None end
  | ListSliceApp r lr from v =>
      match lookup e lr, lookup e v with Some l, Some x =>
        match nth_error s l with Some (CList items) => Some (alloc σ r (CList (skipn from items ++ [x])))
        | _ => None end
      | _, _ => None end
  | Move r src =>
      match lookup e src with Some l => Some (bind σ r l) | None => None end
  | ListOf r items =>
      match mapM (lookup e) items with Some ls => Some (alloc σ r (CList ls)) | None => None end
  | DictOf r kvs =>
      match mapM (lookup e) (map snd kvs) with
      | Some ls => Some (alloc σ r (CDict (fold_left (fun acc kv => dict_set acc (fst kv) (snd kv)) (combine (map fst kvs) ls) [])))
      | None => None end
  end.

Fixpoint exec (p : list cmd) (σ : st) : option st :=
  match p with
  | [] => Some σ
  | c :: p' => match exec1 c σ with Some σ' => exec p' σ' | None => None end
  end.

Lemma exec_app p q σ : exec (p ++ q) σ = match exec p σ with Some σ' => exec q σ' | None => None end.
Proof. revert σ; induction p; cbn; intros; auto. destruct (exec1 a σ); auto. Qed.

(* locations below `base` whose cell differs between two stores: the write-set.  The value
   held by an array cell can never change (the only command that rewrites an array cell is
   a donation, which keeps the value), so array cells are compared by their `donated` flag;
   comparing the values themselves would cost time exponential in the number of rounds
   (values are terms that mention the previous round's values several times). *)
Definition cell_same (a b : cell) : bool :=
  match a, b with
  | CArr _ d, CArr _ d' => Bool.eqb d d'
  | _, _ => cell_eqb a b
  end.

Definition written (base : nat) (s s' : store) : list nat :=
  filter (fun l => match nth_error s l, nth_error s' l with
                   | Some a, Some b => negb (cell_same a b)
                   | None, None => false
                   | _, _ => true end) (seq 0 base).

(* ---- frame theorem ---------------------------------------------------------------------------- *)
Section Protect.
Variable P : nat -> Prop.       (* the protected locations *)

Definition own_avoid (e : env) : Prop := forall k l, lookup e (ROwn k) = Some l -> ~ P l.
Definition covered (s : store) : Prop := forall l, P l -> l < length s.
Definition same_on (s s' : store) : Prop := forall l, P l -> nth_error s' l = nth_error s l.

Lemma own_avoid_bind e r l : own_avoid e -> (is_own r = true -> ~ P l) -> own_avoid ((r, l) :: e).
Proof.
  intros H Hl k l' E.
  change (lookup ((r, l) :: e) (ROwn k)) with (if reg_eqb (ROwn k) r then Some l else lookup e (ROwn k)) in E.
  destruct (reg_eqb (ROwn k) r) eqn:R.
  - injection E as E'. rewrite <- E'. apply Hl. apply reg_eqb_eq in R. rewrite <- R. reflexivity.
  - eapply H; eauto.
Qed.

Lemma donate1_protect s l s' : donate1 s l = Some s' -> ~ P l ->
  same_on s s' /\ length s' = length s.
Proof.
  unfold donate1. destruct (nth_error s l) as [[v [|]| | |]|] eqn:E; try discriminate.
  intros H; inversion H; subst. intros NP. split.
  - intros j Pj. apply nth_error_update_other. intros ->. contradiction.
  - apply update_length.
Qed.

Lemma donate_all_protect ls : forall s s', donate_all s ls = Some s' -> Forall (fun l => ~ P l) ls ->
  same_on s s' /\ length s' = length s.
Proof.
  induction ls; cbn; intros s s' H F.
  - inversion H; subst. split; [intros ? ?; reflexivity | reflexivity].
  - destruct (donate1 s a) eqn:D; try discriminate. inversion F; subst.
    destruct (donate1_protect _ _ _ D H2) as [A1 A2].
    destruct (IHls _ _ H H3) as [B1 B2]. split.
    + intros j Pj. rewrite B1, A1; auto.
    + lia.
Qed.

Lemma mapM_lookup_own e rs ls : mapM (lookup e) rs = Some ls -> forallb is_own rs = true ->
  own_avoid e -> Forall (fun l => ~ P l) ls.
Proof.
  revert ls; induction rs; cbn; intros ls H W OA.
  - inversion H; constructor.
  - destruct (lookup e a) eqn:L; try discriminate. destruct (mapM (lookup e) rs) eqn:M; try discriminate.
    inversion H; subst. apply andb_true_iff in W as [W1 W2]. constructor; auto.
    destruct a; try discriminate. eapply OA; eauto.
Qed.

Definition protects (σ σ' : st) : Prop :=
  same_on (sto σ) (sto σ') /\ own_avoid (ven σ') /\ length (sto σ) <= length (sto σ').

Lemma res_bind σ r x : own_avoid (ven σ) -> is_own r = false -> protects σ (bind σ r x).
Proof.
  intros OA R. split; [|split]; cbn; auto.
  - intros ? ?; reflexivity.
  - apply own_avoid_bind; auto. rewrite R; discriminate.
Qed.

Lemma res_alloc σ r c : covered (sto σ) -> own_avoid (ven σ) -> protects σ (alloc σ r c).
Proof.
  intros C OA. split; [|split]; cbn.
  - intros j Pj. apply nth_error_snoc_old. auto.
  - apply own_avoid_bind; auto. intros _ HP. apply C in HP. lia.
  - rewrite app_length. lia.
Qed.

Lemma res_update σ l c : own_avoid (ven σ) -> ~ P l -> protects σ (mkSt (update (sto σ) l c) (ven σ)).
Proof.
  intros OA NP. split; [|split]; cbn; auto.
  - intros j Pj. apply nth_error_update_other. intros ->; contradiction.
  - rewrite update_length. lia.
Qed.

Lemma exec1_protects c σ σ' : wf_cmd c = true -> exec1 c σ = Some σ' ->
  covered (sto σ) -> own_avoid (ven σ) -> protects σ σ'.
Proof.
  intros W E C OA.
  destruct c; cbn in E, W.
  - (* Field *) destruct (lookup (ven σ) src); try discriminate. destruct (nth_error (sto σ) n) as [[]|]; try discriminate.
    destruct (nth_error fields i); try discriminate. inversion E; subst. apply res_bind; auto.
    destruct r; auto; discriminate.
  - (* Index *) destruct (lookup (ven σ) src); try discriminate. destruct (nth_error (sto σ) n) as [[]|]; try discriminate.
    destruct (nth_error items i); try discriminate. inversion E; subst. apply res_bind; auto.
    destruct r; auto; discriminate.
  - (* DictGet *) destruct (lookup (ven σ) d); try discriminate. destruct (lookup (ven σ) dflt); try discriminate.
    destruct (nth_error (sto σ) n) as [[]|]; try discriminate. inversion E; subst. apply res_bind; auto.
    destruct r; auto; discriminate.
  - (* Call *) destruct (mapM (lookup (ven σ)) args); try discriminate.
    destruct (mapM (lookup (ven σ)) don) eqn:MD; try discriminate.
    destruct (mapM (arr_val (sto σ)) l); try discriminate.
    destruct (donate_all (sto σ) l0) eqn:DA; try discriminate. inversion E; subst.
    destruct (donate_all_protect _ _ _ DA (mapM_lookup_own _ _ _ MD W OA)) as [A1 A2].
    destruct (res_alloc (mkSt s (ven σ)) r (CArr (VApp f (vlist l1)) false)) as (B1 & B2 & B3); cbn.
    + intros j Pj. rewrite A2. auto.
    + exact OA.
    + split; [|split]; auto.
      * intros j Pj. rewrite (B1 j Pj). cbn. auto.
      * cbn in B3 |- *. lia.
  - (* MkRec *) destruct (mapM (lookup (ven σ)) fs); try discriminate. inversion E; subst. apply res_alloc; auto.
  - inversion E; subst. apply res_alloc; auto.
  - destruct (lookup (ven σ) d); try discriminate. destruct (nth_error (sto σ) n) as [[]|]; try discriminate.
    inversion E; subst. apply res_alloc; auto.
  - (* DictSet *) destruct (lookup (ven σ) d) eqn:L; try discriminate. destruct (lookup (ven σ) v); try discriminate.
    destruct (nth_error (sto σ) n) as [[]|]; try discriminate. inversion E; subst.
    destruct d; try discriminate. apply res_update; auto. eapply OA; eauto.
  - inversion E; subst. apply res_alloc; auto.
  - (* ListAppend *) destruct (lookup (ven σ) l) eqn:L; try discriminate. destruct (lookup (ven σ) v); try discriminate.
    destruct (nth_error (sto σ) n) as [[]|]; try discriminate. inversion E; subst.
    destruct l; try discriminate. apply res_update; auto. eapply OA; eauto.
  - (* ListSet *) destruct (lookup (ven σ) l) eqn:L; try discriminate. destruct (lookup (ven σ) v); try discriminate.
    destruct (nth_error (sto σ) n) as [[]|]; try discriminate. match type of E with (if ?b then _ else _) = _ => destruct b; try discriminate end.
    inversion E; subst. destruct l; try discriminate. apply res_update; auto. eapply OA; eauto.
  - (* ListSliceApp *) destruct (lookup (ven σ) l); try discriminate. destruct (lookup (ven σ) v); try discriminate.
    destruct (nth_error (sto σ) n) as [[]|]; try discriminate. inversion E; subst. apply res_alloc; auto.
  - (* Move *) destruct (lookup (ven σ) src) eqn:L; try discriminate. inversion E; subst.
    split; [|split]; cbn; auto.
    + intros ? ?; reflexivity.
    + apply own_avoid_bind; auto. intros O. rewrite O in W. cbn in W. destruct src; try discriminate. eapply OA; eauto.
  - (* ListOf *) destruct (mapM (lookup (ven σ)) items); try discriminate. inversion E; subst. apply res_alloc; auto.
  - (* DictOf *) destruct (mapM (lookup (ven σ)) (map snd kvs)); try discriminate. inversion E; subst. apply res_alloc; auto.
Qed.

Theorem exec_protects p : forall σ σ', wf_script p = true -> exec p σ = Some σ' ->
  covered (sto σ) -> own_avoid (ven σ) -> protects σ σ'.
Proof.
  induction p; cbn; intros σ σ' W E C OA.
  - inversion E; subst. split; [|split]; auto. intros ? ?; reflexivity.
  - apply andb_true_iff in W as [W1 W2]. destruct (exec1 a σ) as [σ1|] eqn:E1; try discriminate.
    destruct (exec1_protects _ _ _ W1 E1 C OA) as (A1 & A2 & A3).
    assert (C1 : covered (sto σ1)) by (intros l Pl; specialize (C l Pl); lia).
    destruct (IHp _ _ W2 E C1 A2) as (B1 & B2 & B3).
    split; [|split]; auto; try lia. intros l Pl. rewrite B1, A1; auto.
Qed.
End Protect.

(* the instance used by C10: everything that existed before the call *)
Corollary exec_frames p σ σ' :
  wf_script p = true -> exec p σ = Some σ' ->
  (forall k l, lookup (ven σ) (ROwn k) = Some l -> length (sto σ) <= l) ->
  (forall l, l < length (sto σ) -> nth_error (sto σ') l = nth_error (sto σ) l) /\ length (sto σ) <= length (sto σ').
Proof.
  intros W E OA.
  destruct (exec_protects (fun l => l < length (sto σ)) p σ σ' W E) as (A & _ & B).
  - intros l H; exact H.
  - intros k l L H. specialize (OA _ _ L). lia.
  - split; auto.
Qed.

Lemma cell_eqb_refl c : cell_eqb c c = true.
Proof.
  assert (N : forall l, nat_list_eqb l l = true) by (induction l; cbn; rewrite ?Nat.eqb_refl; auto).
  assert (K : forall l, kv_list_eqb l l = true).
  { induction l as [|[k x] l IH]; cbn; rewrite ?Z.eqb_refl, ?Nat.eqb_refl; auto. }
  destruct c; cbn; auto. rewrite (proj2 (val_eqb_eq v v) eq_refl). destruct donated; reflexivity.
Qed.

Lemma written_nil base s s' :
  (forall l, l < base -> nth_error s' l = nth_error s l) -> written base s s' = [].
Proof.
  intros H. unfold written.
  assert (G : forall idx, Forall (fun l => l < base) idx ->
     filter (fun l => match nth_error s l, nth_error s' l with
                   | Some a, Some b => negb (cell_same a b) | None, None => false | _, _ => true end) idx = []).
  { assert (SR : forall c, cell_same c c = true).
    { intros c. pose proof (cell_eqb_refl c) as Q. destruct c; cbn in *; auto. destruct donated; reflexivity. }
    induction idx; cbn; intros F; auto. inversion F; subst. rewrite (H _ H2).
    destruct (nth_error s a); cbn; rewrite ?SR; cbn; auto. }
  apply G. apply Forall_forall. intros x Hx. apply in_seq in Hx. lia.
Qed.

(* ---- registers that a script does not rebind keep their binding ------------------------------ *)
Definition binder (c : cmd) : option reg :=
  match c with
  | Field r _ _ | Index r _ _ | DictGet r _ _ _ | Call r _ _ _ | MkRec r _ | DictNew r | DictCopy r _
  | ListNew r | ListSliceApp r _ _ _ | Move r _ | ListOf r _ | DictOf r _ => Some r
  | DictSet _ _ _ | ListAppend _ _ | ListSet _ _ _ => None
  end.

Definition keeps (r : reg) (c : cmd) : bool :=
  match binder c with Some r' => negb (reg_eqb r r') | None => true end.

Lemma exec1_env c σ σ' : exec1 c σ = Some σ' ->
  ven σ' = ven σ \/ exists r l, binder c = Some r /\ ven σ' = (r, l) :: ven σ.
Proof.
  intros E. destruct c; cbn in E;
  repeat match type of E with
  | match ?x with _ => _ end = Some _ => destruct x; try discriminate
  | (if ?x then _ else _) = Some _ => destruct x; try discriminate
  | (let (_, _) := ?x in _) = Some _ => destruct x
  end; inversion E; subst; cbn; eauto.
Qed.

Lemma exec_keeps r p : forall σ σ', forallb (keeps r) p = true -> exec p σ = Some σ' ->
  lookup (ven σ') r = lookup (ven σ) r.
Proof.
  induction p as [|c p IH]; cbn; intros σ σ' K E; [inversion E; reflexivity|].
  apply andb_true_iff in K as [K1 K2]. destruct (exec1 c σ) as [σ1|] eqn:E1; try discriminate.
  rewrite (IH _ _ K2 E). destruct (exec1_env _ _ _ E1) as [->|(r' & l & B & ->)]; [reflexivity|].
  unfold keeps in K1. rewrite B in K1. cbn. apply negb_true_iff in K1. rewrite K1. reflexivity.
Qed.

Lemma keeps_app r p q : forallb (keeps r) p = true -> forallb (keeps r) q = true -> forallb (keeps r) (p ++ q) = true.
Proof. intros A B. rewrite forallb_app, A, B. reflexivity. Qed.

Lemma keeps_flat_map {A} r (f : A -> list cmd) l :
  (forall x, forallb (keeps r) (f x) = true) -> forallb (keeps r) (flat_map f l) = true.
Proof. intros H. induction l; cbn; [reflexivity|]. apply keeps_app; auto. Qed.

(* ---- effect skeletons ------------------------------------------------------------------------
   The container-level effects of a piece of Python code, in program order (loop bodies once):
   which dict / list objects are created (and whether as a copy / slice of an input container),
   which in-place writes happen and whether their target is an object created by this very
   call (`own`), which calls donate buffers and whether the donated operands are own.
   tools/anchors/c10_effects.py extracts this skeleton from the source of every apply();
   `shape` computes it for a script. *)
Inductive ecmd :=
| EAllocDict (copies_input : bool)
| EAllocList (from_input : bool)
| EDictSet (target_own : bool)
| EListAppend (target_own : bool)
| EListSet (target_own : bool)
| EDonate (args_own : list bool).

Definition ewf (e : ecmd) : bool :=
  match e with
  | EAllocDict _ | EAllocList _ => true
  | EDictSet o | EListAppend o | EListSet o => o
  | EDonate l => forallb (fun b => b) l
  end.

Definition shape (c : cmd) : list ecmd :=
  match c with
  | DictNew _ => [EAllocDict false]
  | DictCopy _ d => [EAllocDict (negb (is_own d))]
  | ListNew _ => [EAllocList false]
  | ListSliceApp _ l _ _ => [EAllocList (negb (is_own l))]
  | DictSet d _ _ => [EDictSet (is_own d)]
  | ListAppend l _ => [EListAppend (is_own l)]
  | ListSet l _ _ => [EListSet (is_own l)]
  | Call _ _ _ don => match don with [] => [] | _ => [EDonate (map is_own don)] end
  | ListOf _ _ => [EAllocList false]
  | DictOf _ _ => [EAllocDict false]
  | Field _ _ _ | Index _ _ _ | DictGet _ _ _ _ | MkRec _ _ | Move _ _ => []
  end.

Definition skeleton (p : list cmd) : list ecmd := flat_map shape p.

(* the container part of a skeleton: donations happen inside library code (for_each_client,
   tree_util), not in the text of apply(), and are tied separately *)
Definition no_donation (e : ecmd) : bool := match e with EDonate _ => false | _ => true end.
Definition container_skeleton (p : list cmd) : list ecmd := filter no_donation (skeleton p).

Lemma wf_script_skeleton p : wf_script p = true -> forallb ewf (skeleton p) = true.
Proof.
  unfold wf_script, skeleton. induction p as [|c p IH]; cbn; intros W; [reflexivity|].
  apply andb_true_iff in W as [W1 W2]. rewrite forallb_app, (IH W2), andb_true_r.
  destruct c; cbn in *; auto; try (rewrite W1; reflexivity).
  destruct don; cbn in *; auto. rewrite andb_true_r.
  apply andb_true_iff in W1 as [A B]. rewrite A. cbn. clear - B. induction don; cbn in *; auto.
  apply andb_true_iff in B as [B1 B2]. rewrite B1. auto.
Qed.

(* what is compared between the source and a script: allocations that are not copies of an input
   container are noise (displays passed as arguments, comprehensions ...); consecutive repetitions
   of the same effect are merged, so that the comparison does not depend on how often a loop body
   is unrolled or on both branches of an `if` being listed *)
Fixpoint bools_eqb (x y : list bool) : bool :=
  match x, y with [] , [] => true | a :: x', b :: y' => Bool.eqb a b && bools_eqb x' y' | _, _ => false end.

Definition ecmd_eqb (a b : ecmd) : bool :=
  match a, b with
  | EAllocDict x, EAllocDict y | EAllocList x, EAllocList y | EDictSet x, EDictSet y
  | EListAppend x, EListAppend y | EListSet x, EListSet y => Bool.eqb x y
  | EDonate x, EDonate y => bools_eqb x y
  | _, _ => false
  end.

Definition significant (e : ecmd) : bool :=
  match e with EAllocDict c | EAllocList c => c | _ => true end.

Fixpoint collapse (l : list ecmd) : list ecmd :=
  match l with
  | [] => []
  | a :: r => match collapse r with
              | b :: r' => if ecmd_eqb a b then b :: r' else a :: b :: r'
              | [] => [a]
              end
  end.

(* of the source text: everything significant, donations included *)
Definition essence (l : list ecmd) : list ecmd := collapse (filter significant l).
(* of a script: its own donations (library internals) are left out *)
Definition script_essence (p : list cmd) : list ecmd := essence (container_skeleton p).
