(* StoreSim.v -- the result of a well-formed script is a function of the VALUES
   reachable from its arguments.

   "Same value" for graph-shaped heaps is bisimilarity: a relation R between the
   locations of two stores is `consistent` when related locations hold cells of
   the same kind, arrays with the same value and flag, containers with the same
   keys / lengths and pointwise related contents.  `exec_simulation`: running a
   well-formed script from two configurations related by a consistent R0 either
   fails in both or yields configurations related by a consistent extension of R0
   (the k-th allocation of one run is related to the k-th allocation of the
   other).  Sharing inside the inputs may differ between the two sides (e.g. one
   side restored from a serialised copy): inputs are never written, so only their
   values matter. *)
From Coq Require Import ZArith List Bool Lia PeanoNat.
From FV Require Import Common.Store.
Import ListNotations.

Section Rel.
Variable R : nat -> nat -> Prop.

Definition kv_rel (a b : Z * nat) : Prop := fst a = fst b /\ R (snd a) (snd b).

Definition cell_rel (c1 c2 : cell) : Prop :=
  match c1, c2 with
  | CArr v d, CArr v' d' => v = v' /\ d = d'
  | CDict k1, CDict k2 => Forall2 kv_rel k1 k2
  | CList l1, CList l2 => Forall2 R l1 l2
  | CRec l1, CRec l2 => Forall2 R l1 l2
  | _, _ => False
  end.

Definition consistent (s1 s2 : store) : Prop :=
  forall l1 l2, R l1 l2 -> exists c1 c2, nth_error s1 l1 = Some c1 /\ nth_error s2 l2 = Some c2 /\ cell_rel c1 c2.

Definition bind_rel (a b : reg * nat) : Prop := fst a = fst b /\ R (snd a) (snd b).
Definition env_rel (e1 e2 : env) : Prop := Forall2 bind_rel e1 e2.

Lemma lookup_rel e1 e2 r : env_rel e1 e2 ->
  match lookup e1 r, lookup e2 r with
  | Some l1, Some l2 => R l1 l2
  | None, None => True
  | _, _ => False
  end.
Proof.
  induction 1 as [|[r1 l1] [r2 l2] e1 e2 [A B] _ IH]; cbn; auto. cbn in A, B. subst r2.
  destruct (reg_eqb r r1); auto.
Qed.

Lemma lookup_rel_some e1 e2 r l1 : env_rel e1 e2 -> lookup e1 r = Some l1 -> exists l2, lookup e2 r = Some l2 /\ R l1 l2.
Proof. intros H L. pose proof (lookup_rel e1 e2 r H) as P. rewrite L in P. destruct (lookup e2 r); [eauto | contradiction]. Qed.

Lemma mapM_lookup_rel e1 e2 rs : env_rel e1 e2 -> forall ls1, mapM (lookup e1) rs = Some ls1 ->
  exists ls2, mapM (lookup e2) rs = Some ls2 /\ Forall2 R ls1 ls2.
Proof.
  intros H. induction rs as [|r rs IH]; cbn; intros ls1 M.
  - inversion M. exists []. split; [reflexivity | constructor].
  - destruct (lookup e1 r) as [l1|] eqn:L; try discriminate. destruct (mapM (lookup e1) rs) as [t1|]; try discriminate.
    inversion M; subst. destruct (lookup_rel_some _ _ _ _ H L) as (l2 & L2 & Rl). destruct (IH _ eq_refl) as (t2 & M2 & F).
    exists (l2 :: t2). rewrite L2, M2. split; [reflexivity | constructor; assumption].
Qed.

Lemma arr_val_rel s1 s2 l1 l2 v : consistent s1 s2 -> R l1 l2 -> arr_val s1 l1 = Some v -> arr_val s2 l2 = Some v.
Proof.
  intros C Rl A. destruct (C _ _ Rl) as (c1 & c2 & N1 & N2 & CR). unfold arr_val in *. rewrite N1 in A. rewrite N2.
  destruct c1 as [v1 [|]| | |]; try discriminate. inversion A; subst.
  destruct c2; try contradiction. cbn in CR. destruct CR as [-> <-]. reflexivity.
Qed.

Lemma mapM_arr_rel s1 s2 : consistent s1 s2 -> forall ls1 ls2, Forall2 R ls1 ls2 -> forall vs,
  mapM (arr_val s1) ls1 = Some vs -> mapM (arr_val s2) ls2 = Some vs.
Proof.
  intros C. induction 1 as [|l1 l2 t1 t2 Rl _ IH]; cbn; intros vs M; [exact M|].
  destruct (arr_val s1 l1) eqn:A; try discriminate. destruct (mapM (arr_val s1) t1); try discriminate.
  inversion M; subst. rewrite (arr_val_rel _ _ _ _ _ C Rl A), (IH _ eq_refl). reflexivity.
Qed.

Lemma Forall2_nth_error {A B} (P : A -> B -> Prop) l1 l2 : Forall2 P l1 l2 -> forall i x1, nth_error l1 i = Some x1 ->
  exists x2, nth_error l2 i = Some x2 /\ P x1 x2.
Proof.
  induction 1; intros [|i] x1 N; cbn in *; try discriminate.
  - inversion N; subst. eauto.
  - eauto.
Qed.

Lemma dict_get_rel k1 k2 k : Forall2 kv_rel k1 k2 ->
  match dict_get k1 k, dict_get k2 k with
  | Some x1, Some x2 => R x1 x2
  | None, None => True
  | _, _ => False
  end.
Proof.
  induction 1 as [|[a x] [b y] t1 t2 [A B] _ IH]; cbn; auto. cbn in A, B. subst b. destruct (Z.eqb k a); auto.
Qed.

Lemma dict_set_rel k1 k2 k x1 x2 : Forall2 kv_rel k1 k2 -> R x1 x2 -> Forall2 kv_rel (dict_set k1 k x1) (dict_set k2 k x2).
Proof.
  intros F Rx. induction F as [|[a x] [b y] t1 t2 [A B] F IH]; cbn.
  - constructor; [split; auto | constructor].
  - cbn in A, B. subst b. destruct (Z.eqb k a).
    + constructor; [split; auto | assumption].
    + destruct (Z.ltb k a).
      * constructor; [split; auto|]. constructor; [split; auto | assumption].
      * constructor; [split; auto | assumption].
Qed.

Lemma dict_of_rel ks : forall ls1 ls2 acc1 acc2, Forall2 R ls1 ls2 -> Forall2 kv_rel acc1 acc2 ->
  Forall2 kv_rel (fold_left (fun acc kv => dict_set acc (fst kv) (snd kv)) (combine ks ls1) acc1)
                 (fold_left (fun acc kv => dict_set acc (fst kv) (snd kv)) (combine ks ls2) acc2).
Proof.
  induction ks as [|k ks IH]; intros ls1 ls2 acc1 acc2 F A; cbn; [exact A|].
  inversion F; subst; cbn; [exact A|]. apply IH; [assumption|]. apply dict_set_rel; assumption.
Qed.

Lemma Forall2_update {A B} (P : A -> B -> Prop) l1 l2 : Forall2 P l1 l2 -> forall i x1 x2, P x1 x2 ->
  Forall2 P (update l1 i x1) (update l2 i x2).
Proof. induction 1; intros [|i] x1 x2 Px; cbn; constructor; auto. Qed.

Lemma Forall2_skipn {A B} (P : A -> B -> Prop) l1 l2 : Forall2 P l1 l2 -> forall n, Forall2 P (skipn n l1) (skipn n l2).
Proof. induction 1; intros [|n]; cbn; auto; constructor; auto. Qed.
End Rel.

Lemma F2_length {A B} (P : A -> B -> Prop) l1 l2 : Forall2 P l1 l2 -> length l1 = length l2.
Proof. induction 1; cbn; auto. Qed.

Lemma Forall2_mono {A B} (P Q : A -> B -> Prop) l1 l2 : (forall a b, P a b -> Q a b) -> Forall2 P l1 l2 -> Forall2 Q l1 l2.
Proof. intros H. induction 1; constructor; auto. Qed.

Lemma cell_rel_mono (R R' : nat -> nat -> Prop) c1 c2 : (forall a b, R a b -> R' a b) -> cell_rel R c1 c2 -> cell_rel R' c1 c2.
Proof.
  intros H. destruct c1, c2; cbn; auto; apply Forall2_mono; auto.
  intros a b [A B]. split; auto.
Qed.

Lemma env_rel_mono (R R' : nat -> nat -> Prop) e1 e2 : (forall a b, R a b -> R' a b) -> env_rel R e1 e2 -> env_rel R' e1 e2.
Proof. intros H. apply Forall2_mono. intros a b [A B]. split; auto. Qed.

(* ---- the simulation ------------------------------------------------------------------------- *)
Section Sim.
Variables (b1 b2 : nat) (R0 : nat -> nat -> Prop).
Hypothesis R0_old : forall l1 l2, R0 l1 l2 -> l1 < b1 /\ l2 < b2.

(* related: related inputs, or the k-th allocations of the two runs *)
Definition Rc (n : nat) (l1 l2 : nat) : Prop := R0 l1 l2 \/ exists k, k < n /\ l1 = b1 + k /\ l2 = b2 + k.

Lemma Rc_mono n m l1 l2 : n <= m -> Rc n l1 l2 -> Rc m l1 l2.
Proof. intros L [H|(k & K & A & B)]; [left; exact H | right; exists k; repeat split; auto; lia]. Qed.

Lemma Rc_fresh_l n l1 l2 : Rc n l1 l2 -> b1 <= l1 -> exists k, k < n /\ l1 = b1 + k /\ l2 = b2 + k.
Proof. intros [H|H] L; [apply R0_old in H; lia | exact H]. Qed.

Lemma Rc_fresh_r n l1 l2 : Rc n l1 l2 -> b2 <= l2 -> exists k, k < n /\ l1 = b1 + k /\ l2 = b2 + k.
Proof. intros [H|H] L; [apply R0_old in H; lia | exact H]. Qed.

Record Inv (n : nat) (σ1 σ2 : st) : Prop := {
  inv_len1 : length (sto σ1) = b1 + n;
  inv_len2 : length (sto σ2) = b2 + n;
  inv_cons : consistent (Rc n) (sto σ1) (sto σ2);
  inv_env : env_rel (Rc n) (ven σ1) (ven σ2);
  inv_own : forall k l, lookup (ven σ1) (ROwn k) = Some l -> b1 <= l
}.

Lemma Inv_bind n σ1 σ2 r x1 x2 : Inv n σ1 σ2 -> Rc n x1 x2 -> (is_own r = true -> b1 <= x1) ->
  Inv n (bind σ1 r x1) (bind σ2 r x2).
Proof.
  intros [L1 L2 C E O] Rx Ow. constructor; [exact L1 | exact L2 | exact C | |].
  - constructor; [split; auto | exact E].
  - intros k l. change (ven (bind σ1 r x1)) with ((r, x1) :: ven σ1).
    change (lookup ((r, x1) :: ven σ1) (ROwn k)) with (if reg_eqb (ROwn k) r then Some x1 else lookup (ven σ1) (ROwn k)).
    destruct (reg_eqb (ROwn k) r) eqn:Q.
    + intros H. cbv iota in H. injection H as <-. apply Ow. apply reg_eqb_eq in Q. rewrite <- Q. reflexivity.
    + apply O.
Qed.

Lemma Inv_alloc n σ1 σ2 r c1 c2 : Inv n σ1 σ2 -> cell_rel (Rc (S n)) c1 c2 ->
  Inv (S n) (alloc σ1 r c1) (alloc σ2 r c2).
Proof.
  intros [L1 L2 C E O] CR. constructor.
  - cbn. rewrite app_length. cbn. lia.
  - cbn. rewrite app_length. cbn. lia.
  - cbn. intros l1 l2 Rl.
    assert (OLD : Rc n l1 l2 -> exists c1' c2', nth_error (sto σ1 ++ [c1]) l1 = Some c1' /\
                   nth_error (sto σ2 ++ [c2]) l2 = Some c2' /\ cell_rel (Rc (S n)) c1' c2').
    { intros Rn. destruct (C _ _ Rn) as (a & b & N1 & N2 & AB). exists a, b.
      rewrite !nth_error_snoc_old by (apply nth_error_Some; congruence). repeat split; auto.
      eapply cell_rel_mono; [|exact AB]. intros; eapply Rc_mono; [|eassumption]. lia. }
    destruct Rl as [H|(k & K & -> & ->)].
    + apply OLD. left. exact H.
    + destruct (Nat.eq_dec k n) as [->|NE].
      * exists c1, c2. rewrite <- L1, <- L2, !nth_error_snoc_new. auto.
      * apply OLD. right. exists k. repeat split; auto. lia.
  - cbn. constructor; [split; cbn; auto|].
    + right. exists n. repeat split; auto; lia.
    + eapply env_rel_mono; [|exact E]. intros; eapply Rc_mono; [|eassumption]. lia.
  - intros k l. change (ven (alloc σ1 r c1)) with ((r, length (sto σ1)) :: ven σ1).
    change (lookup ((r, length (sto σ1)) :: ven σ1) (ROwn k)) with (if reg_eqb (ROwn k) r then Some (length (sto σ1)) else lookup (ven σ1) (ROwn k)).
    destruct (reg_eqb (ROwn k) r).
    + intros H; cbv iota in H; injection H as <-. lia.
    + apply O.
Qed.

Lemma Inv_update n σ1 σ2 k c1 c2 : Inv n σ1 σ2 -> k < n -> cell_rel (Rc n) c1 c2 ->
  Inv n (mkSt (update (sto σ1) (b1 + k) c1) (ven σ1)) (mkSt (update (sto σ2) (b2 + k) c2) (ven σ2)).
Proof.
  intros [L1 L2 C E O] K CR. constructor; cbn; auto.
  - rewrite update_length. exact L1.
  - rewrite update_length. exact L2.
  - intros l1 l2 Rl. destruct (Nat.eq_dec l1 (b1 + k)) as [->|N1].
    + destruct (Rc_fresh_l _ _ _ Rl ltac:(lia)) as (k' & _ & A & ->). assert (k' = k) by lia. subst k'.
      exists c1, c2. rewrite !nth_error_update_same by lia. auto.
    + assert (N2 : l2 <> b2 + k).
      { intros ->. destruct (Rc_fresh_r _ _ _ Rl ltac:(lia)) as (k' & _ & A & B). assert (k' = k) by lia. subst. lia. }
      destruct (C _ _ Rl) as (a & b & M1 & M2 & AB). exists a, b.
      rewrite !nth_error_update_other by auto. auto.
Qed.

Lemma own_pair n σ1 σ2 r l1 l2 : Inv n σ1 σ2 -> is_own r = true -> lookup (ven σ1) r = Some l1 -> lookup (ven σ2) r = Some l2 ->
  exists k, k < n /\ l1 = b1 + k /\ l2 = b2 + k.
Proof.
  intros I Ow A B. pose proof (lookup_rel _ _ _ r (inv_env _ _ _ I)) as P. rewrite A, B in P.
  destruct r; try discriminate. apply (Rc_fresh_l _ _ _ P). eapply inv_own; eauto.
Qed.

Lemma donate_sim n σ1 σ2 : Inv n σ1 σ2 -> forall dls1 dls2 s1',
  Forall2 (fun l1 l2 => exists k, k < n /\ l1 = b1 + k /\ l2 = b2 + k) dls1 dls2 ->
  donate_all (sto σ1) dls1 = Some s1' ->
  exists s2', donate_all (sto σ2) dls2 = Some s2' /\ Inv n (mkSt s1' (ven σ1)) (mkSt s2' (ven σ2)).
Proof.
  intros I dls1 dls2 s1' F. revert σ1 σ2 I s1'. induction F as [|l1 l2 t1 t2 (k & K & -> & ->) _ IH]; intros σ1 σ2 I s1' D; cbn in *.
  - inversion D; subst. exists (sto σ2). split; [reflexivity|]. destruct σ1, σ2; exact I.
  - unfold donate1 in *. destruct (nth_error (sto σ1) (b1 + k)) as [[v [|]| | |]|] eqn:N1; try discriminate.
    assert (Rl : Rc n (b1 + k) (b2 + k)) by (right; exists k; auto).
    destruct (inv_cons _ _ _ I _ _ Rl) as (c1 & c2 & M1 & M2 & CR). rewrite N1 in M1. inversion M1; subst c1.
    destruct c2 as [v2 d2| | |]; try contradiction. cbn in CR. destruct CR as [<- <-]. rewrite M2.
    pose proof (Inv_update n σ1 σ2 k (CArr v true) (CArr v true) I K (conj eq_refl eq_refl)) as I'.
    destruct (IH _ _ I' _ D) as (s2' & D2 & I2). exists s2'. split; [exact D2 | exact I2].
Qed.

Lemma mapM_own_pairs n σ1 σ2 rs : Inv n σ1 σ2 -> forallb is_own rs = true -> forall ls1 ls2,
  mapM (lookup (ven σ1)) rs = Some ls1 -> mapM (lookup (ven σ2)) rs = Some ls2 ->
  Forall2 (fun l1 l2 => exists k, k < n /\ l1 = b1 + k /\ l2 = b2 + k) ls1 ls2.
Proof.
  intros I. induction rs as [|r rs IH]; cbn; intros W ls1 ls2 M1 M2.
  - inversion M1; inversion M2; constructor.
  - apply andb_true_iff in W as [W1 W2].
    destruct (lookup (ven σ1) r) eqn:A; try discriminate. destruct (mapM (lookup (ven σ1)) rs); try discriminate.
    destruct (lookup (ven σ2) r) eqn:B; try discriminate. destruct (mapM (lookup (ven σ2)) rs); try discriminate.
    inversion M1; inversion M2; subst. constructor; [eapply own_pair; eauto | apply IH; auto].
Qed.

Ltac inv_cell I Rl N1 :=
  let c1 := fresh "c1" in let c2 := fresh "c2" in let M1 := fresh "M1" in let M2 := fresh "M2" in let CR := fresh "CR" in
  destruct (inv_cons _ _ _ I _ _ Rl) as (c1 & c2 & M1 & M2 & CR); rewrite N1 in M1; inversion M1; subst c1;
  destruct c2; try contradiction; cbn in CR.

Lemma exec1_sim c n σ1 σ2 σ1' : wf_cmd c = true -> Inv n σ1 σ2 -> exec1 c σ1 = Some σ1' ->
  exists σ2' m, exec1 c σ2 = Some σ2' /\ Inv m σ1' σ2' /\ n <= m.
Proof.
  intros W I E. pose proof (inv_env _ _ _ I) as ER.
  destruct c; cbn in E, W |- *.
  - (* Field *)
    destruct (lookup (ven σ1) src) as [l1|] eqn:L1; try discriminate.
    destruct (lookup_rel_some _ _ _ _ _ ER L1) as (l2 & L2 & Rl). rewrite L2.
    destruct (nth_error (sto σ1) l1) as [[| | |fs1]|] eqn:N1; try discriminate.
    inv_cell I Rl N1. rewrite M2.
    destruct (nth_error fs1 i) as [x1|] eqn:X1; try discriminate.
    destruct (Forall2_nth_error _ _ _ CR _ _ X1) as (x2 & X2 & Rx). rewrite X2. inversion E; subst.
    exists (bind σ2 r x2), n. split; [reflexivity|]. split; [|lia]. apply Inv_bind; auto.
    intros O. rewrite O in W. discriminate.
  - (* Index *)
    destruct (lookup (ven σ1) src) as [l1|] eqn:L1; try discriminate.
    destruct (lookup_rel_some _ _ _ _ _ ER L1) as (l2 & L2 & Rl). rewrite L2.
    destruct (nth_error (sto σ1) l1) as [[| |fs1|]|] eqn:N1; try discriminate.
    inv_cell I Rl N1. rewrite M2.
    destruct (nth_error fs1 i) as [x1|] eqn:X1; try discriminate.
    destruct (Forall2_nth_error _ _ _ CR _ _ X1) as (x2 & X2 & Rx). rewrite X2. inversion E; subst.
    exists (bind σ2 r x2), n. split; [reflexivity|]. split; [|lia]. apply Inv_bind; auto.
    intros O. rewrite O in W. discriminate.
  - (* DictGet *)
    destruct (lookup (ven σ1) d) as [l1|] eqn:L1; try discriminate.
    destruct (lookup (ven σ1) dflt) as [d1|] eqn:D1; try discriminate.
    destruct (lookup_rel_some _ _ _ _ _ ER L1) as (l2 & L2 & Rl). rewrite L2.
    destruct (lookup_rel_some _ _ _ _ _ ER D1) as (d2 & D2 & Rd). rewrite D2.
    destruct (nth_error (sto σ1) l1) as [[|kvs1| |]|] eqn:N1; try discriminate.
    inv_cell I Rl N1. rewrite M2. inversion E; subst.
    eexists (bind σ2 r _), n. split; [reflexivity|]. split; [|lia]. apply Inv_bind; auto.
    + pose proof (dict_get_rel _ _ _ k CR) as G. destruct (dict_get kvs1 k), (dict_get kvs k); auto; contradiction.
    + intros O. rewrite O in W. discriminate.
  - (* Call *)
    destruct (mapM (lookup (ven σ1)) args) as [ls1|] eqn:A1; try discriminate.
    destruct (mapM (lookup (ven σ1)) don) as [dl1|] eqn:Dn1; try discriminate.
    destruct (mapM (arr_val (sto σ1)) ls1) as [vs|] eqn:V1; try discriminate.
    destruct (donate_all (sto σ1) dl1) as [s1'|] eqn:DA1; try discriminate. inversion E; subst.
    destruct (mapM_lookup_rel _ _ _ _ ER _ A1) as (ls2 & A2 & FA). rewrite A2.
    destruct (mapM_lookup_rel _ _ _ _ ER _ Dn1) as (dl2 & Dn2 & FD). rewrite Dn2.
    rewrite (mapM_arr_rel _ _ _ (inv_cons _ _ _ I) _ _ FA _ V1).
    destruct (donate_sim n σ1 σ2 I dl1 dl2 s1' (mapM_own_pairs n σ1 σ2 don I W _ _ Dn1 Dn2) DA1) as (s2' & DA2 & I2).
    rewrite DA2. eexists _, (S n). split; [reflexivity|]. split; [|lia].
    apply (Inv_alloc n (mkSt s1' (ven σ1)) (mkSt s2' (ven σ2))); [exact I2 | cbn; auto].
  - (* MkRec *)
    destruct (mapM (lookup (ven σ1)) fs) as [ls1|] eqn:A1; try discriminate. inversion E; subst.
    destruct (mapM_lookup_rel _ _ _ _ ER _ A1) as (ls2 & A2 & FA). rewrite A2.
    eexists _, (S n). split; [reflexivity|]. split; [|lia]. apply Inv_alloc; auto. cbn.
    eapply Forall2_mono; [|exact FA]. intros; eapply Rc_mono; [|eassumption]. lia.
  - (* DictNew *) inversion E; subst. eexists _, (S n). split; [reflexivity|]. split; [|lia]. apply Inv_alloc; auto. constructor.
  - (* DictCopy *)
    destruct (lookup (ven σ1) d) as [l1|] eqn:L1; try discriminate.
    destruct (lookup_rel_some _ _ _ _ _ ER L1) as (l2 & L2 & Rl). rewrite L2.
    destruct (nth_error (sto σ1) l1) as [[|kvs1| |]|] eqn:N1; try discriminate.
    inv_cell I Rl N1. rewrite M2. inversion E; subst.
    eexists _, (S n). split; [reflexivity|]. split; [|lia]. apply Inv_alloc; auto. cbn.
    eapply Forall2_mono; [|exact CR]. intros a b [A B]. split; auto. eapply Rc_mono; [|eassumption]. lia.
  - (* DictSet *)
    destruct (lookup (ven σ1) d) as [l1|] eqn:L1; try discriminate.
    destruct (lookup (ven σ1) v) as [x1|] eqn:X1; try discriminate.
    destruct (lookup_rel_some _ _ _ _ _ ER L1) as (l2 & L2 & Rl). rewrite L2.
    destruct (lookup_rel_some _ _ _ _ _ ER X1) as (x2 & X2 & Rx). rewrite X2.
    destruct (nth_error (sto σ1) l1) as [[|kvs1| |]|] eqn:N1; try discriminate.
    inv_cell I Rl N1. rewrite M2. inversion E; subst.
    destruct (own_pair n σ1 σ2 d l1 l2 I W L1 L2) as (j & J & -> & ->).
    eexists _, n. split; [reflexivity|]. split; [|lia].
    apply (Inv_update n σ1 σ2 j); auto. cbn. apply dict_set_rel; auto.
  - (* ListNew *) inversion E; subst. eexists _, (S n). split; [reflexivity|]. split; [|lia]. apply Inv_alloc; auto. constructor.
  - (* ListAppend *)
    destruct (lookup (ven σ1) l) as [l1|] eqn:L1; try discriminate.
    destruct (lookup (ven σ1) v) as [x1|] eqn:X1; try discriminate.
    destruct (lookup_rel_some _ _ _ _ _ ER L1) as (l2 & L2 & Rl). rewrite L2.
    destruct (lookup_rel_some _ _ _ _ _ ER X1) as (x2 & X2 & Rx). rewrite X2.
    destruct (nth_error (sto σ1) l1) as [[| |it1|]|] eqn:N1; try discriminate.
    inv_cell I Rl N1. rewrite M2. inversion E; subst.
    destruct (own_pair n σ1 σ2 l l1 l2 I W L1 L2) as (j & J & -> & ->).
    eexists _, n. split; [reflexivity|]. split; [|lia].
    apply (Inv_update n σ1 σ2 j); auto. cbn. apply Forall2_app; auto.
  - (* ListSet *)
    destruct (lookup (ven σ1) l) as [l1|] eqn:L1; try discriminate.
    destruct (lookup (ven σ1) v) as [x1|] eqn:X1; try discriminate.
    destruct (lookup_rel_some _ _ _ _ _ ER L1) as (l2 & L2 & Rl). rewrite L2.
    destruct (lookup_rel_some _ _ _ _ _ ER X1) as (x2 & X2 & Rx). rewrite X2.
    destruct (nth_error (sto σ1) l1) as [[| |it1|]|] eqn:N1; try discriminate.
    inv_cell I Rl N1. rewrite M2. rewrite <- (F2_length _ _ _ CR).
    match type of E with (if ?b then _ else _) = _ => destruct b; try discriminate end. inversion E; subst.
    destruct (own_pair n σ1 σ2 l l1 l2 I W L1 L2) as (j & J & -> & ->).
    eexists _, n. split; [reflexivity|]. split; [|lia].
    apply (Inv_update n σ1 σ2 j); auto. cbn. apply Forall2_update; auto.
  - (* ListSliceApp *)
    destruct (lookup (ven σ1) l) as [l1|] eqn:L1; try discriminate.
    destruct (lookup (ven σ1) v) as [x1|] eqn:X1; try discriminate.
    destruct (lookup_rel_some _ _ _ _ _ ER L1) as (l2 & L2 & Rl). rewrite L2.
    destruct (lookup_rel_some _ _ _ _ _ ER X1) as (x2 & X2 & Rx). rewrite X2.
    destruct (nth_error (sto σ1) l1) as [[| |it1|]|] eqn:N1; try discriminate.
    inv_cell I Rl N1. rewrite M2. inversion E; subst.
    eexists _, (S n). split; [reflexivity|]. split; [|lia]. apply Inv_alloc; auto. cbn.
    eapply Forall2_mono with (P := Rc n); [intros a b H; apply (Rc_mono n (S n)); [lia | exact H]|].
    apply Forall2_app; [apply Forall2_skipn; exact CR | auto].
  - (* Move *)
    destruct (lookup (ven σ1) src) as [l1|] eqn:L1; try discriminate.
    destruct (lookup_rel_some _ _ _ _ _ ER L1) as (l2 & L2 & Rl). rewrite L2. inversion E; subst.
    eexists _, n. split; [reflexivity|]. split; [|lia]. apply Inv_bind; auto.
    intros O. rewrite O in W. cbn in W. destruct src; try discriminate. eapply inv_own; eauto.
  - (* ListOf *)
    destruct (mapM (lookup (ven σ1)) items) as [ls1|] eqn:A1; try discriminate. inversion E; subst.
    destruct (mapM_lookup_rel _ _ _ _ ER _ A1) as (ls2 & A2 & FA). rewrite A2.
    eexists _, (S n). split; [reflexivity|]. split; [|lia]. apply Inv_alloc; auto. cbn.
    eapply Forall2_mono; [|exact FA]. intros; eapply Rc_mono; [|eassumption]. lia.
  - (* DictOf *)
    destruct (mapM (lookup (ven σ1)) (map snd kvs)) as [ls1|] eqn:A1; try discriminate. inversion E; subst.
    destruct (mapM_lookup_rel _ _ _ _ ER _ A1) as (ls2 & A2 & FA). rewrite A2.
    eexists _, (S n). split; [reflexivity|]. split; [|lia]. apply Inv_alloc; auto. cbn.
    apply dict_of_rel; [|constructor].
    eapply Forall2_mono; [|exact FA]. intros; eapply Rc_mono; [|eassumption]. lia.
Qed.

Lemma exec_sim p : forall n σ1 σ2 σ1', wf_script p = true -> Inv n σ1 σ2 -> exec p σ1 = Some σ1' ->
  exists σ2' m, exec p σ2 = Some σ2' /\ Inv m σ1' σ2' /\ n <= m.
Proof.
  induction p as [|c p IH]; cbn; intros n σ1 σ2 σ1' W I E.
  - inversion E; subst. exists σ2, n. auto.
  - apply andb_true_iff in W as [W1 W2]. destruct (exec1 c σ1) as [σa|] eqn:E1; try discriminate.
    destruct (exec1_sim c n σ1 σ2 σa W1 I E1) as (σb & m & E2 & I2 & L). rewrite E2.
    destruct (IH _ _ _ _ W2 I2 E) as (σ2' & m' & E3 & I3 & L3). exists σ2', m'. split; [exact E3 | split; [exact I3 | lia]].
Qed.
End Sim.

(* ---- statement without the bookkeeping --------------------------------------------------------- *)
Theorem exec_simulation p s1 s2 e1 e2 (R0 : nat -> nat -> Prop) σ1' :
  wf_script p = true -> consistent R0 s1 s2 -> env_rel R0 e1 e2 ->
  (forall k l, lookup e1 (ROwn k) = Some l -> False) ->
  exec p (mkSt s1 e1) = Some σ1' ->
  exists σ2' R', exec p (mkSt s2 e2) = Some σ2' /\ consistent R' (sto σ1') (sto σ2') /\
                 env_rel R' (ven σ1') (ven σ2') /\ (forall a b, R0 a b -> R' a b).
Proof.
  intros W C E O X.
  assert (OLD : forall l1 l2, R0 l1 l2 -> l1 < length s1 /\ l2 < length s2).
  { intros l1 l2 H. destruct (C _ _ H) as (c1 & c2 & N1 & N2 & _). split; apply nth_error_Some; congruence. }
  assert (I0 : Inv (length s1) (length s2) R0 0 (mkSt s1 e1) (mkSt s2 e2)).
  { constructor; cbn; auto.
    - intros l1 l2 [H|(k & K & _)]; [|lia]. destruct (C _ _ H) as (c1 & c2 & N1 & N2 & CR). exists c1, c2. repeat split; auto.
      eapply cell_rel_mono; [|exact CR]. intros; left; assumption.
    - eapply env_rel_mono; [|exact E]. intros; left; assumption.
    - intros k l H. exfalso. eapply O; eauto. }
  destruct (exec_sim _ _ R0 OLD p 0 _ _ _ W I0 X) as (σ2' & m & E2 & I2 & _).
  exists σ2', (Rc (length s1) (length s2) R0 m). split; [exact E2|]. split; [apply (inv_cons _ _ _ _ _ _ I2)|].
  split; [apply (inv_env _ _ _ _ _ _ I2) | intros; left; assumption].
Qed.
