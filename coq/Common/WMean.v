(* Weighted means of vectors: the batch form  (1/sum w_i) * sum w_i p_i  with the
   zero guard of tree_util.tree_inverse_weight, the running-accumulation form that
   tree_util.tree_mean executes, their agreement, and the order / hull / error
   properties.  A client is a pair (weight, params). *)
From Coq Require Import QArith Qminmax Qabs List Permutation Setoid Morphisms Lia Lqa Bool.
From FV Require Import Common.ListX Common.Batch Common.CMonoid Common.NanQ Common.QVec.
Import ListNotations.
Local Open Scope Q_scope.

Notation wclient := (Q * list Q)%type (only parsing).
Definition wp (c : wclient) : vec := vscale (fst c) (snd c).
Definition wtot (cl : list wclient) : Q := qsum (map fst cl).
Definition wsum (n : nat) (cl : list wclient) : vec := vsum n (map wp cl).

(* tree_inverse_weight:  (1. / weight) if weight > 0. else 0. *)
Definition inv_weight (w : Q) : Q := if Qltb 0 w then 1 / w else 0.

(* batch form *)
Definition wmean_batch (n : nat) (cl : list wclient) : vec := vscale (inv_weight (wtot cl)) (wsum n cl).

(* running form, as tree_mean: the first weighted tree becomes the accumulator,
   later ones are added to it, the weights are summed from 0, and the accumulator
   is scaled by inv_weight at the end; None for an empty input *)
Definition wmean_step (acc : option vec * Q) (c : wclient) : option vec * Q :=
  (Some (match fst acc with None => wp c | Some s => vadd s (wp c) end), snd acc + fst c).
Definition wmean_run (cl : list wclient) : option vec * Q := fold_left wmean_step cl (None, 0).
Definition wmean (cl : list wclient) : option vec :=
  option_map (vscale (inv_weight (snd (wmean_run cl)))) (fst (wmean_run cl)).

Definition wf_clients (n : nat) (cl : list wclient) : Prop := Forall (fun c => length (snd c) = n) cl.

(* ---- inv_weight ---- *)
#[global] Instance inv_weight_proper : Proper (Qeq ==> Qeq) inv_weight.
Proof.
  intros w w' E. unfold inv_weight. rewrite (Qltb_proper 0 0 (Qeq_refl 0) w w' E).
  destruct (Qltb 0 w'); [rewrite E|]; reflexivity.
Qed.

Lemma inv_weight_pos w : 0 < w -> inv_weight w == / w.
Proof. intros H. unfold inv_weight. apply Qltb_lt in H. rewrite H. field. apply Qltb_lt in H. lra. Qed.

Lemma inv_weight_nonpos w : w <= 0 -> inv_weight w = 0.
Proof. intros H. unfold inv_weight. apply Qltb_ge in H. rewrite H. reflexivity. Qed.

Lemma inv_weight_mul w : 0 < w -> inv_weight w * w == 1.
Proof. intros H. rewrite inv_weight_pos by exact H. field. lra. Qed.

Lemma inv_weight_nonneg w : 0 <= inv_weight w.
Proof.
  unfold inv_weight. destruct (Qltb 0 w) eqn:E; [|lra]. apply Qltb_lt in E.
  assert (0 < / w) by (apply Qinv_lt_0_compat; exact E). unfold Qdiv. lra.
Qed.

(* ---- lengths / well-formedness ---- *)
Lemma wp_length c : length (wp c) = length (snd c).
Proof. apply vscale_length. Qed.

Lemma wf_map_wp n cl : wf_clients n cl -> Forall (fun v => length v = n) (map wp cl).
Proof. intros H. apply Forall_map. eapply Forall_impl; [|exact H]. intros c Hc. rewrite wp_length. exact Hc. Qed.

Lemma wsum_length n cl : wf_clients n cl -> length (wsum n cl) = n.
Proof. intros H. apply vsum_length. apply wf_map_wp. exact H. Qed.

Lemma wmean_batch_length n cl : wf_clients n cl -> length (wmean_batch n cl) = n.
Proof. intros H. unfold wmean_batch. rewrite vscale_length. apply wsum_length. exact H. Qed.

(* coordinates *)
Definition wcoord (i : nat) (cl : list wclient) : Q := qsum (map (fun c => fst c * vnth i (snd c)) cl).

Lemma vnth_wsum n cl i : wf_clients n cl -> (i < n)%nat -> vnth i (wsum n cl) == wcoord i cl.
Proof.
  intros H Hi. unfold wsum, wcoord. rewrite vnth_vsum by (try apply wf_map_wp; assumption).
  rewrite map_map. apply qsum_map_ext. intros c _. apply vnth_vscale.
Qed.

Lemma vnth_wmean_batch n cl i : wf_clients n cl -> (i < n)%nat ->
  vnth i (wmean_batch n cl) == inv_weight (wtot cl) * wcoord i cl.
Proof.
  intros H Hi. unfold wmean_batch. rewrite vnth_vscale, vnth_wsum by assumption. reflexivity.
Qed.

(* ---- running form = batch form ---- *)
Lemma fold_left_Qplus l a : fold_left Qplus l a == a + qsum l.
Proof. revert a; induction l as [|x l IH]; intros a; cbn; [ring|]. rewrite IH. ring. Qed.

Lemma wmean_run_from rest s0 t0 :
  fold_left wmean_step rest (Some s0, t0) =
  (Some (fold_left vadd (map wp rest) s0), fold_left Qplus (map fst rest) t0).
Proof. revert s0 t0; induction rest as [|c rest IH]; intros s0 t0; cbn; [reflexivity|]. apply IH. Qed.

Lemma wmean_run_cons c rest :
  wmean_run (c :: rest) =
  (Some (fold_left vadd (map wp rest) (wp c)), fold_left Qplus (map fst rest) (0 + fst c)).
Proof. unfold wmean_run. cbn [fold_left wmean_step fst snd]. apply wmean_run_from. Qed.

Lemma wmean_run_weight cl : snd (wmean_run cl) == wtot cl.
Proof.
  destruct cl as [|c rest]; [reflexivity|]. rewrite wmean_run_cons. cbn [snd].
  rewrite fold_left_Qplus. unfold wtot. cbn. ring.
Qed.

Lemma wmean_nil : wmean [] = None.
Proof. reflexivity. Qed.

Lemma wmean_is_batch n cl : cl <> [] -> wf_clients n cl ->
  exists v, wmean cl = Some v /\ v =v= wmean_batch n cl.
Proof.
  intros Hne Hwf. destruct cl as [|c rest]; [congruence|].
  unfold wmean. pose proof (wmean_run_weight (c :: rest)) as Hw. rewrite wmean_run_cons in *. cbn [fst snd option_map] in *.
  eexists; split; [reflexivity|]. unfold wmean_batch. rewrite Hw.
  apply vscale_proper; [reflexivity|]. unfold wsum. cbn [map].
  pose proof (Forall_inv Hwf) as Hc. pose proof (Forall_inv_tail Hwf) as Hrest. cbn beta in Hc.
  apply (vsum_first n); [rewrite wp_length; exact Hc|apply wf_map_wp; exact Hrest].
Qed.

Lemma wmean_length n cl v : wf_clients n cl -> wmean cl = Some v -> length v = n.
Proof.
  intros Hwf H. destruct cl as [|c rest]; [discriminate|].
  destruct (wmean_is_batch n (c :: rest)) as [v' [H' E]]; [discriminate|exact Hwf|].
  rewrite H in H'. injection H' as <-. rewrite (veq_length _ _ E). apply wmean_batch_length. exact Hwf.
Qed.

(* ---- the definition: sum w_i p_i / sum w_i ---- *)
Lemma wmean_def n cl : wf_clients n cl -> 0 < wtot cl ->
  wmean_batch n cl =v= vscale (/ wtot cl) (wsum n cl) /\
  forall i, (i < n)%nat -> vnth i (wmean_batch n cl) == wcoord i cl / wtot cl.
Proof.
  intros Hwf Hpos. split.
  - unfold wmean_batch. rewrite inv_weight_pos by exact Hpos. reflexivity.
  - intros i Hi. rewrite vnth_wmean_batch by assumption. rewrite inv_weight_pos by exact Hpos. field. lra.
Qed.

(* total weight not positive: the zero vector (never a division by zero) *)
Lemma wmean_zero_total n cl : wf_clients n cl -> wtot cl <= 0 -> wmean_batch n cl =v= vzero n.
Proof.
  intros Hwf H. unfold wmean_batch. rewrite inv_weight_nonpos by exact H.
  rewrite vscale_0, wsum_length by exact Hwf. reflexivity.
Qed.

Lemma wtot_nonneg cl : Forall (fun c => 0 <= fst c) cl -> 0 <= wtot cl.
Proof. intros H. apply qsum_nonneg. apply Forall_map. exact H. Qed.

Lemma wtot_zero_all_zero cl : Forall (fun c => 0 <= fst c) cl -> wtot cl == 0 -> Forall (fun c => fst c == 0) cl.
Proof.
  intros H E. apply qsum_nonneg_zero in E; [|apply Forall_map; exact H].
  rewrite Forall_map in E. exact E.
Qed.

(* ---- order independence ---- *)
Lemma wtot_perm cl cl' : Permutation cl cl' -> wtot cl == wtot cl'.
Proof. intros H. apply qsum_perm. apply Permutation_map. exact H. Qed.

Lemma wsum_perm n cl cl' : Permutation cl cl' -> wf_clients n cl -> wsum n cl =v= wsum n cl'.
Proof. intros H Hwf. apply vsum_perm; [apply Permutation_map; exact H|apply wf_map_wp; exact Hwf]. Qed.

Lemma wmean_perm n cl cl' : Permutation cl cl' -> wf_clients n cl -> wmean_batch n cl =v= wmean_batch n cl'.
Proof.
  intros H Hwf. unfold wmean_batch. rewrite (wtot_perm _ _ H). rewrite (wsum_perm n _ _ H Hwf). reflexivity.
Qed.

Lemma wmean_run_perm n cl cl' v v' : Permutation cl cl' -> wf_clients n cl ->
  wmean cl = Some v -> wmean cl' = Some v' -> v =v= v'.
Proof.
  intros HP Hwf Hv Hv'.
  assert (Hwf' : wf_clients n cl') by (eapply Permutation_Forall; eassumption).
  destruct cl as [|c rest]; [discriminate|]. destruct cl' as [|c' rest']; [discriminate|].
  destruct (wmean_is_batch n (c :: rest)) as [u [Hu Eu]]; [discriminate|exact Hwf|].
  destruct (wmean_is_batch n (c' :: rest')) as [u' [Hu' Eu']]; [discriminate|exact Hwf'|].
  rewrite Hv in Hu; injection Hu as <-. rewrite Hv' in Hu'; injection Hu' as <-.
  rewrite Eu, Eu'. apply wmean_perm; assumption.
Qed.

(* ---- zero-weight clients are irrelevant (whatever their parameters) ---- *)
Definition nonzero_weight (c : wclient) : bool := negb (Qeq_bool (fst c) 0).

Lemma wtot_filter cl : wtot (filter nonzero_weight cl) == wtot cl.
Proof.
  unfold wtot. induction cl as [|c cl IH]; cbn [filter map qsum]; [reflexivity|].
  destruct (nonzero_weight c) eqn:E; cbn [map qsum]; rewrite IH; [reflexivity|].
  unfold nonzero_weight in E. apply negb_false_iff in E. apply Qeq_bool_iff in E. rewrite E. ring.
Qed.

Lemma wsum_filter n cl : wf_clients n cl -> wsum n (filter nonzero_weight cl) =v= wsum n cl.
Proof.
  intros Hwf. unfold wsum. induction Hwf as [|c cl Hc Hwf IH]; [reflexivity|].
  assert (Hf : wf_clients n (filter nonzero_weight cl)).
  { clear IH. induction Hwf; cbn; [constructor|]. destruct (nonzero_weight x); [constructor|]; assumption. }
  cbn [filter map]. rewrite (vsum_cons n (wp c)) by (try rewrite wp_length; try apply wf_map_wp; assumption).
  destruct (nonzero_weight c) eqn:E; cbn [map].
  - rewrite (vsum_cons n (wp c)) by (try rewrite wp_length; try apply wf_map_wp; assumption).
    rewrite IH. reflexivity.
  - unfold nonzero_weight in E. apply negb_false_iff in E. apply Qeq_bool_iff in E.
    rewrite IH. unfold wp at 2. rewrite E, vscale_0, Hc.
    pose proof (vadd_zero_l (vsum n (map wp cl))) as Z.
    rewrite vsum_length in Z by (apply wf_map_wp; exact Hwf). symmetry; exact Z.
Qed.

Lemma wmean_zero_weight_irrelevant n cl : wf_clients n cl ->
  wmean_batch n (filter nonzero_weight cl) =v= wmean_batch n cl.
Proof. intros Hwf. unfold wmean_batch. rewrite wtot_filter, (wsum_filter n cl Hwf). reflexivity. Qed.

(* inserting / deleting / changing a zero-weight client anywhere *)
Lemma wmean_zero_weight_insert n l1 l2 p : wf_clients n (l1 ++ l2) -> length p = n ->
  wmean_batch n (l1 ++ (0, p) :: l2) =v= wmean_batch n (l1 ++ l2).
Proof.
  intros Hwf Hp.
  assert (Hwf' : wf_clients n (l1 ++ (0, p) :: l2)).
  { apply Forall_app in Hwf. destruct Hwf. apply Forall_app; split; [assumption|constructor; assumption]. }
  rewrite <- (wmean_zero_weight_irrelevant n _ Hwf'), <- (wmean_zero_weight_irrelevant n _ Hwf).
  rewrite !filter_app. cbn [filter]. unfold nonzero_weight at 2. cbn [fst]. reflexivity.
Qed.

(* ---- hull: weights >= 0, total > 0  =>  lo <= wmean <= hi coordinatewise ---- *)
Lemma wcoord_bounds i cl lo hi :
  Forall (fun c => 0 <= fst c /\ lo <= vnth i (snd c) <= hi) cl ->
  lo * wtot cl <= wcoord i cl <= hi * wtot cl.
Proof.
  unfold wcoord, wtot. induction 1 as [|c cl [Hw [Hlo Hhi]] _ IH]; cbn; [lra|]. nra.
Qed.

Lemma wmean_hull n cl lo hi : wf_clients n cl -> length lo = n -> length hi = n ->
  Forall (fun c => 0 <= fst c /\ vle lo (snd c) /\ vle (snd c) hi) cl -> 0 < wtot cl ->
  vle lo (wmean_batch n cl) /\ vle (wmean_batch n cl) hi.
Proof.
  intros Hwf Hlo Hhi H Hpos.
  assert (B : forall i, (i < n)%nat -> vnth i lo <= vnth i (wmean_batch n cl) <= vnth i hi).
  { intros i Hi. rewrite (proj2 (wmean_def n cl Hwf Hpos) i Hi).
    assert (Hb : Forall (fun c => 0 <= fst c /\ vnth i lo <= vnth i (snd c) <= vnth i hi) cl).
    { rewrite Forall_forall in *. intros c Hc. destruct (H c Hc) as [Hw [H1 H2]]. split; [exact Hw|].
      apply vle_nth_iff in H1. apply vle_nth_iff in H2. destruct H1 as [L1 H1], H2 as [L2 H2].
      split; [apply H1; lia|apply H2; lia]. }
    pose proof (wcoord_bounds i cl _ _ Hb) as [B1 B2].
    split.
    - apply Qle_shift_div_l; [exact Hpos|exact B1].
    - apply Qle_shift_div_r; [exact Hpos|exact B2]. }
  split; apply vle_nth_iff; rewrite ?wmean_batch_length by exact Hwf; (split; [lia|]); intros i Hi; apply B; lia.
Qed.

(* coordinatewise minimum / maximum of a non-empty list of vectors *)
Definition vmins (v0 : vec) (vs : list vec) : vec := fold_left (map2 Qmin) vs v0.
Definition vmaxs (v0 : vec) (vs : list vec) : vec := fold_left (map2 Qmax) vs v0.

Lemma vmins_spec n vs : forall v0, length v0 = n -> Forall (fun v => length v = n) vs ->
  length (vmins v0 vs) = n /\ vle (vmins v0 vs) v0 /\ Forall (fun v => vle (vmins v0 vs) v) vs.
Proof.
  unfold vmins. induction vs as [|v vs IH]; intros v0 H0 Hvs; cbn [fold_left].
  - split; [exact H0|]. split; [|constructor]. apply vle_nth_iff. split; [reflexivity|]. intros; lra.
  - pose proof (Forall_inv Hvs) as Hv. pose proof (Forall_inv_tail Hvs) as Hvs'. cbn beta in Hv.
    assert (Hm : length (map2 Qmin v0 v) = n) by (apply map2_length_eq; congruence).
    destruct (IH (map2 Qmin v0 v) Hm Hvs') as [L [B1 B2]].
    assert (C : forall i, (i < n)%nat ->
               vnth i (map2 Qmin v0 v) <= vnth i v0 /\ vnth i (map2 Qmin v0 v) <= vnth i v).
    { intros i Hi. unfold vnth. rewrite (map2_nth Qmin v0 v i 0 0 0) by lia.
      split; [apply Q.le_min_l|apply Q.le_min_r]. }
    apply vle_nth_iff in B1. destruct B1 as [_ B1].
    split; [exact L|]. split; [|constructor; [|exact B2]].
    + apply vle_nth_iff. split; [lia|]. intros i Hi.
      assert (Hi' : (i < n)%nat) by lia.
      specialize (B1 i ltac:(lia)). destruct (C i Hi'). lra.
    + apply vle_nth_iff. split; [lia|]. intros i Hi.
      assert (Hi' : (i < n)%nat) by lia.
      specialize (B1 i ltac:(lia)). destruct (C i Hi'). lra.
Qed.

Lemma vmaxs_spec n vs : forall v0, length v0 = n -> Forall (fun v => length v = n) vs ->
  length (vmaxs v0 vs) = n /\ vle v0 (vmaxs v0 vs) /\ Forall (fun v => vle v (vmaxs v0 vs)) vs.
Proof.
  unfold vmaxs. induction vs as [|v vs IH]; intros v0 H0 Hvs; cbn [fold_left].
  - split; [exact H0|]. split; [|constructor]. apply vle_nth_iff. split; [reflexivity|]. intros; lra.
  - pose proof (Forall_inv Hvs) as Hv. pose proof (Forall_inv_tail Hvs) as Hvs'. cbn beta in Hv.
    assert (Hm : length (map2 Qmax v0 v) = n) by (apply map2_length_eq; congruence).
    destruct (IH (map2 Qmax v0 v) Hm Hvs') as [L [B1 B2]].
    assert (C : forall i, (i < n)%nat ->
               vnth i v0 <= vnth i (map2 Qmax v0 v) /\ vnth i v <= vnth i (map2 Qmax v0 v)).
    { intros i Hi. unfold vnth. rewrite (map2_nth Qmax v0 v i 0 0 0) by lia.
      split; [apply Q.le_max_l|apply Q.le_max_r]. }
    apply vle_nth_iff in B1. destruct B1 as [_ B1].
    split; [exact L|]. split; [|constructor; [|exact B2]].
    + apply vle_nth_iff. split; [lia|]. intros i Hi.
      assert (Hi' : (i < n)%nat) by lia.
      specialize (B1 i ltac:(lia)). destruct (C i Hi'). lra.
    + apply vle_nth_iff. split; [lia|]. intros i Hi.
      assert (Hi' : (i < n)%nat) by lia.
      specialize (B1 i ltac:(lia)). destruct (C i Hi'). lra.
Qed.

(* the weighted mean lies inside the coordinatewise [min, max] of the inputs *)
Lemma wmean_hull_minmax n c cl : wf_clients n (c :: cl) ->
  Forall (fun c => 0 <= fst c) (c :: cl) -> 0 < wtot (c :: cl) ->
  vle (vmins (snd c) (map snd cl)) (wmean_batch n (c :: cl)) /\
  vle (wmean_batch n (c :: cl)) (vmaxs (snd c) (map snd cl)).
Proof.
  intros Hwf Hw Hpos. inversion Hwf as [|? ? Hc Hcl]; subst.
  assert (Hs : Forall (fun v => length v = length (snd c)) (map snd cl)) by (apply Forall_map; exact Hcl).
  destruct (vmins_spec _ (map snd cl) (snd c) eq_refl Hs) as [L1 [A1 A2]].
  destruct (vmaxs_spec _ (map snd cl) (snd c) eq_refl Hs) as [L2 [B1 B2]].
  apply wmean_hull; try assumption.
  rewrite Forall_map in A2, B2.
  constructor.
  - inversion Hw; subst. tauto.
  - inversion Hw as [|? ? _ Hw']; subst. rewrite Forall_forall in *. intros x Hx. auto.
Qed.

(* ---- error bound: |wmean q - wmean p| <= max_i |q_i - p_i| coordinatewise ---- *)
Definition vclose (e : Q) : vec -> vec -> Prop := Forall2 (fun x y => Qabs (y - x) <= e).

Lemma vclose_nth_iff e a b :
  vclose e a b <-> (length a = length b /\ forall i, (i < length a)%nat -> Qabs (vnth i b - vnth i a) <= e).
Proof. apply (Forall2_nth_iff (fun x y => Qabs (y - x) <= e)). Qed.

Lemma wcoord_diff_bounds i e cl cl' :
  Forall2 (fun c c' => fst c == fst c' /\ 0 <= fst c /\ Qabs (vnth i (snd c') - vnth i (snd c)) <= e) cl cl' ->
  wtot cl == wtot cl' /\
  - (e * wtot cl) <= wcoord i cl' - wcoord i cl <= e * wtot cl.
Proof.
  unfold wcoord, wtot. induction 1 as [|c c' cl cl' [Ew [Hw Hd]] _ [IHw IH]]; cbn; [split; [reflexivity|lra]|].
  split; [rewrite Ew, IHw; reflexivity|]. rewrite <- Ew.
  apply Qabs_Qle_condition in Hd. nra.
Qed.

Lemma wmean_error_bound n e cl cl' : wf_clients n cl -> wf_clients n cl' -> 0 <= e ->
  Forall2 (fun c c' => fst c == fst c' /\ 0 <= fst c /\ vclose e (snd c) (snd c')) cl cl' ->
  vclose e (wmean_batch n cl) (wmean_batch n cl').
Proof.
  intros Hwf Hwf' He H. apply vclose_nth_iff. rewrite !wmean_batch_length by assumption. split; [reflexivity|].
  intros i Hi.
  assert (Hb : Forall2 (fun c c' => fst c == fst c' /\ 0 <= fst c /\
                                    Qabs (vnth i (snd c') - vnth i (snd c)) <= e) cl cl').
  { clear Hwf'. revert Hwf. induction H as [|c c' cl cl' [Ew [Hw Hd]] _ IH]; intros Hwf; constructor.
    - inversion Hwf; subst. split; [exact Ew|]. split; [exact Hw|].
      apply vclose_nth_iff in Hd. destruct Hd as [_ Hd]. apply Hd. lia.
    - apply IH. inversion Hwf; assumption. }
  destruct (wcoord_diff_bounds i e cl cl' Hb) as [EW [B1 B2]].
  rewrite !vnth_wmean_batch by assumption. rewrite <- EW.
  apply Qabs_Qle_condition.
  destruct (Qlt_le_dec 0 (wtot cl)) as [Hpos|Hnp].
  - pose proof (inv_weight_mul _ Hpos) as Hm. pose proof (inv_weight_nonneg (wtot cl)) as Hn.
    set (k := inv_weight (wtot cl)) in *. set (W := wtot cl) in *.
    set (d := wcoord i cl' - wcoord i cl) in *.
    assert (E1 : k * wcoord i cl' - k * wcoord i cl == k * d) by (unfold d; ring).
    rewrite E1. split; nra.
  - rewrite (inv_weight_nonpos _ Hnp). split; lra.
Qed.

(* ---------------- NanQ level: the same computation on possibly non-finite data ---------------- *)
Notation nvec := (list NanQ.t) (only parsing).
Definition vlift (v : vec) : nvec := map Some v.
Definition nq_vscale (c : NanQ.t) (v : nvec) : nvec := map (fun x => NanQ.mul x c) v.    (* l * weight *)
Definition nq_vadd : nvec -> nvec -> nvec := map2 NanQ.add.
Definition nq_inv_weight (w : NanQ.t) : NanQ.t :=
  NanQ.where_ (NanQ.gtb w NanQ.zero) (NanQ.div NanQ.one w) NanQ.zero.
Definition nveq : nvec -> nvec -> Prop := Forall2 NanQ.eq.
Definition all_finite (v : nvec) : bool := forallb NanQ.is_finite v.

Lemma nq_inv_weight_Some w : nq_inv_weight (Some w) = Some (inv_weight w).
Proof.
  unfold nq_inv_weight, inv_weight. cbn. destruct (Qltb 0 w) eqn:E; cbn; [|reflexivity].
  apply Qltb_lt in E. assert (N : ~ w == 0) by lra. apply Qeq_bool_false_iff in N. rewrite N. reflexivity.
Qed.

Lemma nq_vscale_lift c v : nveq (nq_vscale (Some c) (vlift v)) (vlift (vscale c v)).
Proof. induction v as [|x v IH]; cbn; constructor; [cbn; ring|exact IH]. Qed.

Lemma nq_vadd_lift a b : nq_vadd (vlift a) (vlift b) = vlift (vadd a b).
Proof. revert b; induction a as [|x a IH]; intros [|y b]; cbn; try reflexivity. f_equal. apply IH. Qed.

Lemma vlift_veq a b : a =v= b <-> nveq (vlift a) (vlift b).
Proof.
  split.
  - induction 1; cbn; constructor; assumption.
  - revert b; induction a as [|x a IH]; intros [|y b] H; cbn in *; inversion H; subst.
    + constructor.
    + constructor; [assumption|]. apply IH. assumption.
Qed.

Lemma nveq_lift_r u v : nveq u (vlift v) -> exists u', u = vlift u' /\ u' =v= v.
Proof.
  revert u; induction v as [|y v IH]; intros u H; inversion H as [|a b u0 v0 Ea Eu]; subst.
  - exists []. split; [reflexivity|constructor].
  - destruct (IH _ Eu) as [u' [-> E']]. destruct (NanQ.eq_Some_r _ _ Ea) as [x [-> Ex]].
    exists (x :: u'). split; [reflexivity|constructor; assumption].
Qed.

Lemma all_finite_lift v : all_finite (vlift v) = true.
Proof. induction v; cbn; auto. Qed.
