(* Python generator / cursor idioms as list combinators (used by the TRANSLATED FederatedData
   methods, gen/Gen_*federated_data.v).  A generator is modelled eagerly: the items it yields and
   how it ended.  These combinators are the translator's reading of the loop statements; they are
   part of the trusted base of the translator. *)
From Coq Require Import List Bool ZArith.
From FV Require Import Common.Bytes.
Import ListNotations.

Inductive res (A : Type) :=
| Val (a : A)
| KeyErr        (* KeyError *)
| Crash.        (* any other exception *)
Arguments Val {A}.
Arguments KeyErr {A}.
Arguments Crash {A}.

Inductive ending := Done | EKey | ECrash.
Definition stream (A : Type) := (list A * ending)%type.

(* for x in xs: yield item(x)       item(x) = (key, value) where computing the value may raise *)
Fixpoint for_yield {X K D} (item : X -> K * res D) (xs : list X) : stream (K * D) :=
  match xs with
  | [] => ([], Done)
  | x :: xs' =>
      match item x with
      | (k, Val d) => let (l, e) := for_yield item xs' in ((k, d) :: l, e)
      | (_, KeyErr) => ([], EKey)
      | (_, Crash) => ([], ECrash)
      end
  end.

(* for k, d in <another generator>: if raises(k): raise KeyError ; yield item(k, d) *)
Fixpoint for_raise_yield {K D Y} (raises : K -> bool) (item : K -> D -> Y) (l : list (K * D)) (e : ending) : stream Y :=
  match l with
  | [] => ([], e)
  | (k, d) :: l' => if raises k then ([], EKey)
                    else let (r, e') := for_raise_yield raises item l' e in (item k d :: r, e')
  end.

(* for k, v in xs: if keeps(k): yield item(k, v) *)
Definition for_keep_yield {K V Y} (keeps : K -> bool) (item : K -> V -> Y) (xs : list (K * V)) : list Y :=
  map (fun kv => item (fst kv) (snd kv)) (filter (fun kv => keeps (fst kv)) xs).

(* cursor = connection.execute(...); while True: result = cursor.fetchone(); if result is None: break; yield f(result) *)
Definition fetch_all {R Y} (f : R -> Y) (rows : list R) : list Y := map f rows.

(* SELECT ... FROM t WHERE <pred(key)> ORDER BY rowid: the rows in table (insertion) order;
   None when evaluating the predicate fails *)
Fixpoint sql_where {V} (pred : bytes -> option bool) (tbl : list (bytes * V)) : option (list (bytes * V)) :=
  match tbl with
  | [] => Some []
  | (i, r) :: t =>
      match pred i, sql_where pred t with
      | Some b, Some l => Some (if b then (i, r) :: l else l)
      | _, _ => None
      end
  end.

(* SELECT ... FROM t WHERE key = ? ; cursor.fetchone(): the row of a PRIMARY KEY lookup *)
Definition sql_by_key {V} (key : bytes) (tbl : list (bytes * V)) : option (bytes * V) :=
  match bassoc key tbl with Some v => Some (key, v) | None => None end.
