(* Python list / range semantics used by the translated kernels. *)
From Coq Require Import ZArith List Bool Lia.
Import ListNotations.
Local Open Scope Z_scope.

(* range(a, b, c) for c >= 1.  Fuel (b - a) always suffices; py_range supplies it. *)
Fixpoint range_f (fuel : nat) (a b c : Z) : list Z :=
  match fuel with
  | O => []
  | S f => if a <? b then a :: range_f f (a + c) b c else []
  end.
Definition py_range (a b c : Z) : list Z := range_f (Z.to_nat (b - a)) a b c.

(* l[a:b] for 0 <= a, 0 <= b (python clamps b to len l).  The theorems that use
   it carry the non-negativity of a and b as hypotheses; negative (from-the-end)
   indices are modelled separately by py_slice_neg where needed. *)
Definition py_slice {A} (l : list A) (a b : Z) : list A :=
  firstn (Z.to_nat (b - a)) (skipn (Z.to_nat a) l).

Lemma range_f_mono : forall f1 f2 a b c, 1 <= c ->
  (Z.to_nat (b - a) <= f1)%nat -> (Z.to_nat (b - a) <= f2)%nat ->
  range_f f1 a b c = range_f f2 a b c.
Proof.
  induction f1 as [|f1 IH]; intros [|f2] a b c Hc H1 H2; cbn [range_f]; try reflexivity.
  - destruct (a <? b) eqn:E; [apply Z.ltb_lt in E; lia|reflexivity].
  - destruct (a <? b) eqn:E; [apply Z.ltb_lt in E; lia|reflexivity].
  - destruct (a <? b) eqn:E; [|reflexivity]. apply Z.ltb_lt in E.
    f_equal. apply IH; [exact Hc|lia|lia].
Qed.

Lemma range_f_enough : forall fuel a b c, 1 <= c -> (Z.to_nat (b - a) <= fuel)%nat ->
  range_f fuel a b c = range_f (Z.to_nat (b - a)) a b c.
Proof. intros. apply range_f_mono; [assumption|assumption|lia]. Qed.

Lemma py_range_unfold a b c : 1 <= c ->
  py_range a b c = if a <? b then a :: py_range (a + c) b c else [].
Proof.
  intros Hc. unfold py_range. destruct (a <? b) eqn:E.
  - apply Z.ltb_lt in E. destruct (Z.to_nat (b - a)) as [|m] eqn:Em; [lia|].
    cbn [range_f]. assert (a <? b = true) as -> by (apply Z.ltb_lt; lia).
    f_equal. apply range_f_enough; lia.
  - apply Z.ltb_ge in E. assert (Z.to_nat (b - a) = 0%nat) as -> by lia. reflexivity.
Qed.

Lemma py_range_nil a b c : b <= a -> py_range a b c = [].
Proof. intros H. unfold py_range. assert (Z.to_nat (b - a) = 0%nat) as -> by lia. reflexivity. Qed.

Lemma py_slice_length {A} (l : list A) a b : 0 <= a -> a <= b ->
  length (py_slice l a b) = Nat.min (Z.to_nat (b - a)) (length l - Z.to_nat a).
Proof. intros. unfold py_slice. rewrite firstn_length, skipn_length. reflexivity. Qed.

Lemma py_slice_skipn {A} (l : list A) a n : 0 <= a -> 0 <= n ->
  py_slice l a (a + n) = firstn (Z.to_nat n) (skipn (Z.to_nat a) l).
Proof. intros. unfold py_slice. f_equal. lia. Qed.
