(* NanQ.t := option Q.  `Some q` is the finite value q; `None` is "a non-finite
   float (NaN, +inf or -inf), not known which".

   Reading of the operations (float forward semantics, exact arithmetic on finite
   values):
     * + - * propagate None (NaN+x, inf+x, inf*0 ... are all non-finite);
     * a / b is None when b == 0 (x/0 = +-inf, 0/0 = NaN) or an operand is None;
     * comparisons return `option bool`: `None == Some q` is `Some false` and
       `None != Some q` is `Some true` for every non-finite float; order comparisons
       with a None operand are `None` (NaN < x is False, -inf < x is True: unknown);
     * `where_ c a b` selects LAZILY (an unselected None does not leak: the forward
       semantics of jnp.where); an unknown condition gives None;
     * `nan_to_num None = Some 0`.
   Soundness direction used by the theorems: a model result `Some q` means "finite
   and equal to q"; "never NaN" is the theorem "the result is Some _".  The
   abstraction is lossy only for x / +-inf (= 0 in IEEE), max/min against an
   infinity and order comparisons against an infinity, where the model answers
   None; correspondence generators stay away from those (documented per harness). *)
From Coq Require Import QArith Qminmax Qabs Bool Setoid Morphisms List Lia Lqa.
Import ListNotations.
Local Open Scope Q_scope.

(* strict order as a boolean (missing from the 8.16 stdlib) *)
Definition Qltb (a b : Q) : bool := negb (Qle_bool b a).

Lemma Qltb_lt a b : Qltb a b = true <-> a < b.
Proof.
  unfold Qltb. rewrite negb_true_iff. split; intros H.
  - apply Qnot_le_lt. intros C. apply Qle_bool_iff in C. congruence.
  - destruct (Qle_bool b a) eqn:E; [|reflexivity]. apply Qle_bool_iff in E. exfalso; lra.
Qed.

Lemma Qltb_ge a b : Qltb a b = false <-> b <= a.
Proof.
  unfold Qltb. rewrite negb_false_iff. apply Qle_bool_iff.
Qed.

Lemma Qeq_bool_false_iff a b : Qeq_bool a b = false <-> ~ a == b.
Proof.
  split; intros H.
  - intros C. apply Qeq_bool_iff in C. congruence.
  - destruct (Qeq_bool a b) eqn:E; [|reflexivity]. apply Qeq_bool_iff in E. contradiction.
Qed.

#[global] Instance Qltb_proper : Proper (Qeq ==> Qeq ==> eq) Qltb.
Proof.
  intros a a' Ea b b' Eb. destruct (Qltb a' b') eqn:E.
  - apply Qltb_lt in E. apply Qltb_lt. rewrite Ea, Eb. exact E.
  - apply Qltb_ge in E. apply Qltb_ge. rewrite Ea, Eb. exact E.
Qed.

#[global] Instance Qeq_bool_proper : Proper (Qeq ==> Qeq ==> eq) Qeq_bool.
Proof.
  intros a a' Ea b b' Eb. destruct (Qeq_bool a' b') eqn:E.
  - apply Qeq_bool_iff in E. apply Qeq_bool_iff. rewrite Ea, Eb. exact E.
  - apply Qeq_bool_false_iff in E. apply Qeq_bool_false_iff. rewrite Ea, Eb. exact E.
Qed.

#[global] Instance Qle_bool_proper : Proper (Qeq ==> Qeq ==> eq) Qle_bool.
Proof.
  intros a a' Ea b b' Eb. destruct (Qle_bool a' b') eqn:E.
  - apply Qle_bool_iff in E. apply Qle_bool_iff. rewrite Ea, Eb. exact E.
  - destruct (Qle_bool a b) eqn:E'; [|reflexivity]. apply Qle_bool_iff in E'.
    rewrite Ea, Eb in E'. apply Qle_bool_iff in E'. congruence.
Qed.

Module NanQ.

Definition t := option Q.

Definition of_Q (q : Q) : t := Some q.
Definition of_Z (z : Z) : t := Some (inject_Z z).
Definition zero : t := Some 0.
Definition one : t := Some 1.
Definition nan : t := None.

Definition lift1 (f : Q -> Q) (a : t) : t :=
  match a with Some x => Some (f x) | None => None end.
Definition lift2 (f : Q -> Q -> Q) (a b : t) : t :=
  match a, b with Some x, Some y => Some (f x y) | _, _ => None end.

Definition add := lift2 Qplus.
Definition sub := lift2 Qminus.
Definition mul := lift2 Qmult.
Definition opp := lift1 Qopp.
Definition abs := lift1 Qabs.
Definition max := lift2 Qmax.      (* jnp.maximum: NaN-propagating *)
Definition min := lift2 Qmin.      (* jnp.minimum *)
Definition div (a b : t) : t :=
  match a, b with
  | Some x, Some y => if Qeq_bool y 0 then None else Some (x / y)
  | _, _ => None
  end.

(* comparisons *)
Definition eqb (a b : t) : option bool :=
  match a, b with
  | Some x, Some y => Some (Qeq_bool x y)
  | None, None => None
  | _, _ => Some false
  end.
Definition neb (a b : t) : option bool := option_map negb (eqb a b).
Definition ltb (a b : t) : option bool :=
  match a, b with Some x, Some y => Some (Qltb x y) | _, _ => None end.
Definition leb (a b : t) : option bool :=
  match a, b with Some x, Some y => Some (Qle_bool x y) | _, _ => None end.
Definition gtb (a b : t) : option bool := ltb b a.
Definition geb (a b : t) : option bool := leb b a.

(* jnp.where(c, a, b) / python `a if c else b`: lazy selection *)
Definition where_ (c : option bool) (a b : t) : t :=
  match c with Some true => a | Some false => b | None => None end.

(* selection by a concrete mask bit *)
Definition select (m : bool) (a b : t) : t := if m then a else b.

Definition nan_to_num (a : t) : t := match a with Some x => Some x | None => Some 0 end.
Definition is_finite (a : t) : bool := match a with Some _ => true | None => false end.
Definition finite (a : t) : Prop := exists q, a = Some q.

(* jnp.sum over a 1-d array *)
Definition sum (l : list t) : t := fold_right add zero l.

(* setoid equality lifting Qeq; None is equal to None only *)
Definition eq (a b : t) : Prop :=
  match a, b with Some x, Some y => x == y | None, None => True | _, _ => False end.

(* boolean versions for the correspondence checks *)
Definition same (a b : t) : bool :=
  match a, b with Some x, Some y => Qeq_bool x y | None, None => true | _, _ => false end.
(* |a - b| <= tol * (1 + |b|); None only matches None *)
Definition close (tol : Q) (a b : t) : bool :=
  match a, b with
  | Some x, Some y => Qle_bool (Qabs (x - y)) (tol * (1 + Qabs y))
  | None, None => true
  | _, _ => false
  end.

#[global] Instance eq_equiv : Equivalence eq.
Proof.
  split.
  - intros [x|]; cbn; [reflexivity|exact I].
  - intros [x|] [y|]; cbn; auto. intros H; symmetry; exact H.
  - intros [x|] [y|] [z|]; cbn; try tauto. intros H1 H2; etransitivity; eassumption.
Qed.

Lemma same_eq a b : same a b = true <-> eq a b.
Proof.
  destruct a as [x|], b as [y|]; cbn; try (split; [discriminate|tauto]); [apply Qeq_bool_iff|tauto].
Qed.

Lemma eq_Some x y : eq (Some x) (Some y) <-> x == y.
Proof. reflexivity. Qed.

Lemma eq_None_r a : eq a None <-> a = None.
Proof. destruct a; cbn; split; try tauto; discriminate. Qed.

Lemma eq_Some_r a y : eq a (Some y) -> exists x, a = Some x /\ x == y.
Proof. destruct a as [x|]; cbn; [eauto|tauto]. Qed.

Lemma eq_Some_l x b : eq (Some x) b -> exists y, b = Some y /\ x == y.
Proof. destruct b as [y|]; cbn; [eauto|tauto]. Qed.

#[global] Instance lift2_proper (f : Q -> Q -> Q) (Hf : Proper (Qeq ==> Qeq ==> Qeq) f) :
  Proper (eq ==> eq ==> eq) (lift2 f).
Proof.
  intros [x|] [x'|] Ex [y|] [y'|] Ey; cbn in *; try tauto. apply Hf; assumption.
Qed.

#[global] Instance lift1_proper (f : Q -> Q) (Hf : Proper (Qeq ==> Qeq) f) : Proper (eq ==> eq) (lift1 f).
Proof. intros [x|] [x'|] Ex; cbn in *; try tauto. apply Hf; assumption. Qed.

#[global] Instance add_proper : Proper (eq ==> eq ==> eq) add.
Proof. apply lift2_proper. exact Qplus_comp. Qed.
#[global] Instance sub_proper : Proper (eq ==> eq ==> eq) sub.
Proof. apply lift2_proper. exact Qminus_comp. Qed.
#[global] Instance mul_proper : Proper (eq ==> eq ==> eq) mul.
Proof. apply lift2_proper. exact Qmult_comp. Qed.
#[global] Instance opp_proper : Proper (eq ==> eq) opp.
Proof. apply lift1_proper. exact Qopp_comp. Qed.
#[global] Instance abs_proper : Proper (eq ==> eq) abs.
Proof. apply lift1_proper. exact Qabs_wd. Qed.
#[global] Instance max_proper : Proper (eq ==> eq ==> eq) max.
Proof. apply lift2_proper. exact Q.max_compat. Qed.
#[global] Instance min_proper : Proper (eq ==> eq ==> eq) min.
Proof. apply lift2_proper. exact Q.min_compat. Qed.

#[global] Instance div_proper : Proper (eq ==> eq ==> eq) div.
Proof.
  intros [x|] [x'|] Ex [y|] [y'|] Ey; cbn in *; try tauto.
  rewrite (Qeq_bool_proper y y' Ey 0 0 (Qeq_refl 0)).
  destruct (Qeq_bool y' 0); cbn; [exact I|]. rewrite Ex, Ey. reflexivity.
Qed.

#[global] Instance eqb_proper : Proper (eq ==> eq ==> Logic.eq) eqb.
Proof.
  intros [x|] [x'|] Ex [y|] [y'|] Ey; cbn in *; try tauto.
  f_equal. apply Qeq_bool_proper; assumption.
Qed.
#[global] Instance neb_proper : Proper (eq ==> eq ==> Logic.eq) neb.
Proof. intros a a' Ea b b' Eb. unfold neb. rewrite (eqb_proper a a' Ea b b' Eb). reflexivity. Qed.
#[global] Instance ltb_proper : Proper (eq ==> eq ==> Logic.eq) ltb.
Proof.
  intros [x|] [x'|] Ex [y|] [y'|] Ey; cbn in *; try tauto.
  f_equal. apply Qltb_proper; assumption.
Qed.
#[global] Instance leb_proper : Proper (eq ==> eq ==> Logic.eq) leb.
Proof.
  intros [x|] [x'|] Ex [y|] [y'|] Ey; cbn in *; try tauto.
  f_equal. apply Qle_bool_proper; assumption.
Qed.
#[global] Instance gtb_proper : Proper (eq ==> eq ==> Logic.eq) gtb.
Proof. intros a a' Ea b b' Eb. unfold gtb. apply ltb_proper; assumption. Qed.
#[global] Instance geb_proper : Proper (eq ==> eq ==> Logic.eq) geb.
Proof. intros a a' Ea b b' Eb. unfold geb. apply leb_proper; assumption. Qed.

#[global] Instance where_proper : Proper (Logic.eq ==> eq ==> eq ==> eq) where_.
Proof. intros c c' -> a a' Ea b b' Eb. destruct c' as [[|]|]; cbn; auto. Qed.
#[global] Instance select_proper : Proper (Logic.eq ==> eq ==> eq ==> eq) select.
Proof. intros c c' -> a a' Ea b b' Eb. destruct c'; cbn; auto. Qed.
#[global] Instance nan_to_num_proper : Proper (eq ==> eq) nan_to_num.
Proof. intros [x|] [x'|] E; cbn in *; try tauto. reflexivity. Qed.
#[global] Instance is_finite_proper : Proper (eq ==> Logic.eq) is_finite.
Proof. intros [x|] [x'|] E; cbn in *; tauto. Qed.

(* ---- computation lemmas ---- *)
Lemma add_Some x y : add (Some x) (Some y) = Some (x + y). Proof. reflexivity. Qed.
Lemma sub_Some x y : sub (Some x) (Some y) = Some (x - y). Proof. reflexivity. Qed.
Lemma mul_Some x y : mul (Some x) (Some y) = Some (x * y). Proof. reflexivity. Qed.
Lemma add_None_l a : add None a = None. Proof. reflexivity. Qed.
Lemma add_None_r a : add a None = None. Proof. destruct a; reflexivity. Qed.
Lemma mul_None_l a : mul None a = None. Proof. reflexivity. Qed.
Lemma mul_None_r a : mul a None = None. Proof. destruct a; reflexivity. Qed.

Lemma div_Some x y : ~ y == 0 -> div (Some x) (Some y) = Some (x / y).
Proof. intros H. cbn. apply Qeq_bool_false_iff in H. rewrite H. reflexivity. Qed.
Lemma div_zero a y : y == 0 -> div a (Some y) = None.
Proof. intros H. destruct a; cbn; [|reflexivity]. apply Qeq_bool_iff in H. rewrite H. reflexivity. Qed.
Lemma div_finite a b q : div a b = Some q ->
  exists x y, a = Some x /\ b = Some y /\ ~ y == 0 /\ q = x / y.
Proof.
  destruct a as [x|], b as [y|]; cbn; try discriminate.
  destruct (Qeq_bool y 0) eqn:E; [discriminate|]. intros [= <-].
  exists x, y. repeat split; try reflexivity. apply Qeq_bool_false_iff; exact E.
Qed.

Lemma where_true a b : where_ (Some true) a b = a. Proof. reflexivity. Qed.
Lemma where_false a b : where_ (Some false) a b = b. Proof. reflexivity. Qed.
Lemma where_None a b : where_ None a b = None. Proof. reflexivity. Qed.

Lemma nan_to_num_finite a : is_finite (nan_to_num a) = true.
Proof. destruct a; reflexivity. Qed.
Lemma nan_to_num_Some x : nan_to_num (Some x) = Some x. Proof. reflexivity. Qed.
Lemma nan_to_num_None : nan_to_num None = Some 0. Proof. reflexivity. Qed.

Lemma is_finite_iff a : is_finite a = true <-> finite a.
Proof.
  unfold finite. destruct a as [x|]; cbn; split; intros H.
  - exists x; reflexivity.
  - reflexivity.
  - discriminate H.
  - destruct H as [q Hq]. discriminate Hq.
Qed.

Lemma neb_zero_None : neb None zero = Some true. Proof. reflexivity. Qed.
Lemma eqb_zero_None : eqb None zero = Some false. Proof. reflexivity. Qed.

(* ---- algebra (setoid equalities; all hold with None operands as well) ---- *)
Lemma add_comm a b : eq (add a b) (add b a).
Proof. destruct a, b; cbn; try exact I. ring. Qed.
Lemma add_assoc a b c : eq (add (add a b) c) (add a (add b c)).
Proof. destruct a, b, c; cbn; try exact I. ring. Qed.
Lemma add_zero_l a : eq (add zero a) a.
Proof. destruct a; cbn; [ring|exact I]. Qed.
Lemma add_zero_r a : eq (add a zero) a.
Proof. destruct a; cbn; [ring|exact I]. Qed.
Lemma mul_comm a b : eq (mul a b) (mul b a).
Proof. destruct a, b; cbn; try exact I. ring. Qed.
Lemma mul_assoc a b c : eq (mul (mul a b) c) (mul a (mul b c)).
Proof. destruct a, b, c; cbn; try exact I. ring. Qed.
Lemma mul_one_l a : eq (mul one a) a.
Proof. destruct a; cbn; [ring|exact I]. Qed.
Lemma mul_add_distr_l a b c : eq (mul a (add b c)) (add (mul a b) (mul a c)).
Proof. destruct a, b, c; cbn; try exact I. ring. Qed.

(* ---- sums ---- *)
Lemma sum_nil : sum [] = zero. Proof. reflexivity. Qed.
Lemma sum_cons a l : sum (a :: l) = add a (sum l). Proof. reflexivity. Qed.

Lemma sum_Some (l : list Q) : sum (map Some l) = Some (fold_right Qplus 0 l).
Proof. induction l as [|x l IH]; cbn; [reflexivity|]. unfold sum in IH. rewrite IH. reflexivity. Qed.

Lemma sum_app l1 l2 : eq (sum (l1 ++ l2)) (add (sum l1) (sum l2)).
Proof.
  induction l1 as [|a l1 IH]; cbn [app sum fold_right].
  - symmetry. apply add_zero_l.
  - change (fold_right add zero (l1 ++ l2)) with (sum (l1 ++ l2)).
    change (fold_right add zero l1) with (sum l1).
    rewrite IH. symmetry. apply add_assoc.
Qed.

Lemma sum_finite_iff l : finite (sum l) <-> Forall finite l.
Proof.
  induction l as [|a l IH]; cbn.
  - split; [constructor|]. intros _. exists 0. reflexivity.
  - change (fold_right add zero l) with (sum l). split.
    + intros [q H]. destruct a as [x|]; [|discriminate]. destruct (sum l) as [s|] eqn:E; [|discriminate].
      constructor; [exists x; reflexivity|]. apply IH. exists s; reflexivity.
    + intros H. inversion H as [|? ? [x Hx] Hl]; subst. apply IH in Hl. destruct Hl as [s Hs].
      rewrite Hs. exists (x + s). reflexivity.
Qed.

End NanQ.
