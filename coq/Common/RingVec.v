(* RingVec: list-vector algebra over an abstract commutative ring (Leibniz eq).
   Self-contained; depends only on the Coq standard library. *)
From Coq Require Import ZArith List Lia Arith Ring.
Import ListNotations.

Section RingVecOps.
Context {R : Type} (rO : R) (radd rsub : R -> R -> R) (ropp : R -> R).
Definition vadd (a b : list R) : list R := map (fun p => radd (fst p) (snd p)) (combine a b).
Definition vsub (a b : list R) : list R := map (fun p => rsub (fst p) (snd p)) (combine a b).
Definition vopp (a : list R) : list R := map ropp a.
Definition vzero (n : nat) : list R := repeat rO n.
(* sign flip: true = negate *)
Definition vsign (s : list bool) (x : list R) : list R :=
  map (fun p : bool * R => if fst p then ropp (snd p) else snd p) (combine s x).
End RingVecOps.

(* Generic list facts missing from the 8.16 stdlib. *)
Lemma combine_app' : forall {A B : Type} (a1 a2 : list A) (b1 b2 : list B),
  length a1 = length b1 ->
  combine (a1 ++ a2) (b1 ++ b2) = combine a1 b1 ++ combine a2 b2.
Proof.
  intros A B a1; induction a1 as [|x a1 IH]; intros a2 [|y b1] b2 H;
    cbn in *; try discriminate; try reflexivity.
  f_equal. apply IH. lia.
Qed.

Lemma combine_nil_r' : forall {A B : Type} (a : list A), combine a (@nil B) = [].
Proof. intros A B [|x a]; reflexivity. Qed.

Lemma combine_skipn' : forall {A B : Type} (n : nat) (a : list A) (b : list B),
  skipn n (combine a b) = combine (skipn n a) (skipn n b).
Proof.
  intros A B n; induction n as [|n IH]; intros [|x a] [|y b]; cbn; try reflexivity.
  - now rewrite combine_nil_r'.
  - apply IH.
Qed.

Lemma combine_firstn' : forall {A B : Type} (n : nat) (a : list A) (b : list B),
  firstn n (combine a b) = combine (firstn n a) (firstn n b).
Proof.
  intros A B n; induction n as [|n IH]; intros [|x a] [|y b]; cbn; try reflexivity.
  f_equal. apply IH.
Qed.

Lemma firstn_map' : forall {A B : Type} (f : A -> B) n (l : list A),
  firstn n (map f l) = map f (firstn n l).
Proof.
  intros A B f n; induction n as [|n IH]; intros [|x l]; cbn; try reflexivity.
  f_equal. apply IH.
Qed.

Lemma skipn_map' : forall {A B : Type} (f : A -> B) n (l : list A),
  skipn n (map f l) = map f (skipn n l).
Proof.
  intros A B f n; induction n as [|n IH]; intros [|x l]; cbn; try reflexivity.
  apply IH.
Qed.

Section RingVecTheory.
Context {R : Type} (rO rI : R) (radd rmul rsub : R -> R -> R) (ropp : R -> R).
Context (Rth : ring_theory rO rI radd rmul rsub ropp eq).
Add Ring RvRing : Rth.
(* defined before the notations below so that the names denote the constants *)
Ltac vunf0 := unfold vadd, vsub, vopp, vzero, vsign in *.
Notation vadd := (vadd radd). Notation vsub := (vsub rsub). Notation vopp := (vopp ropp). Notation vzero := (vzero rO). Notation vsign := (vsign ropp).
Definition vscale (c : R) (x : list R) := map (rmul c) x.
Fixpoint vsum (x : list R) : R := match x with [] => rO | a :: x' => radd a (vsum x') end.
Definition sumsq (x : list R) : R := vsum (map (fun a => rmul a a) x).
Definition dot (a b : list R) : R := vsum (map (fun p => rmul (fst p) (snd p)) (combine a b)).

(* Every lemma of this section is generalised over the full ring signature
   and [Rth], whether or not its proof uses [ring], so that all of them are
   instantiated the same way:  [lemma _ _ _ _ _ _ Rth ...]. *)
#[local] Set Default Proof Using "Rth".

Ltac vunf := vunf0; unfold vscale, sumsq, dot in *.

(* close a goal produced by one step of simultaneous list induction *)
Ltac vstep IH :=
  cbn in *; try discriminate; try reflexivity;
  try (f_equal; try ring; try (apply IH; lia)).

(* ---------- lengths ---------- *)

Lemma vadd_length_min : forall a b, length (vadd a b) = Nat.min (length a) (length b).
Proof. intros; vunf; now rewrite map_length, combine_length. Qed.

Lemma vsub_length_min : forall a b, length (vsub a b) = Nat.min (length a) (length b).
Proof. intros; vunf; now rewrite map_length, combine_length. Qed.

Lemma vadd_length : forall a b, length a = length b -> length (vadd a b) = length a.
Proof. intros a b H; rewrite vadd_length_min; lia. Qed.

Lemma vsub_length : forall a b, length a = length b -> length (vsub a b) = length a.
Proof. intros a b H; rewrite vsub_length_min; lia. Qed.

Lemma vopp_length : forall a, length (vopp a) = length a.
Proof. intros; vunf; apply map_length. Qed.

Lemma vzero_length : forall n, length (vzero n) = n.
Proof. intros; vunf; apply repeat_length. Qed.

Lemma vsign_length_min : forall s x, length (vsign s x) = Nat.min (length s) (length x).
Proof. intros; vunf; now rewrite map_length, combine_length. Qed.

Lemma vsign_length : forall s x, length s = length x -> length (vsign s x) = length x.
Proof. intros s x H; rewrite vsign_length_min; lia. Qed.

Lemma vscale_length : forall c x, length (vscale c x) = length x.
Proof. intros; vunf; apply map_length. Qed.

(* ---------- cons / nil computation rules ---------- *)

Lemma vadd_nil_l : forall b, vadd [] b = [].
Proof. reflexivity. Qed.
Lemma vadd_nil_r : forall a, vadd a [] = [].
Proof. intros [|x a]; reflexivity. Qed.
Lemma vsub_nil_l : forall b, vsub [] b = [].
Proof. reflexivity. Qed.
Lemma vsub_nil_r : forall a, vsub a [] = [].
Proof. intros [|x a]; reflexivity. Qed.
Lemma vsign_nil_l : forall x, vsign [] x = [].
Proof. reflexivity. Qed.
Lemma vsign_nil_r : forall s, vsign s [] = [].
Proof. intros [|b s]; reflexivity. Qed.
Lemma vadd_cons : forall x a y b, vadd (x :: a) (y :: b) = radd x y :: vadd a b.
Proof. reflexivity. Qed.
Lemma vsub_cons : forall x a y b, vsub (x :: a) (y :: b) = rsub x y :: vsub a b.
Proof. reflexivity. Qed.
Lemma vopp_cons : forall x a, vopp (x :: a) = ropp x :: vopp a.
Proof. reflexivity. Qed.
Lemma vscale_cons : forall c x a, vscale c (x :: a) = rmul c x :: vscale c a.
Proof. reflexivity. Qed.
Lemma vsign_cons : forall b s x a,
  vsign (b :: s) (x :: a) = (if b then ropp x else x) :: vsign s a.
Proof. reflexivity. Qed.
Lemma vzero_S : forall n, vzero (S n) = rO :: vzero n.
Proof. reflexivity. Qed.
Lemma vsum_cons : forall x a, vsum (x :: a) = radd x (vsum a).
Proof. reflexivity. Qed.
Lemma sumsq_cons : forall x a, sumsq (x :: a) = radd (rmul x x) (sumsq a).
Proof. reflexivity. Qed.
Lemma sumsq_nil : sumsq [] = rO.
Proof. reflexivity. Qed.
Lemma dot_cons : forall x a y b, dot (x :: a) (y :: b) = radd (rmul x y) (dot a b).
Proof. reflexivity. Qed.
Lemma dot_nil_l : forall b, dot [] b = rO.
Proof. reflexivity. Qed.
Lemma dot_nil_r : forall a, dot a [] = rO.
Proof. intros [|x a]; reflexivity. Qed.

(* ---------- app ---------- *)

Lemma vadd_app : forall a1 a2 b1 b2, length a1 = length b1 ->
  vadd (a1 ++ a2) (b1 ++ b2) = vadd a1 b1 ++ vadd a2 b2.
Proof. intros; vunf; now rewrite combine_app', map_app. Qed.

Lemma vsub_app : forall a1 a2 b1 b2, length a1 = length b1 ->
  vsub (a1 ++ a2) (b1 ++ b2) = vsub a1 b1 ++ vsub a2 b2.
Proof. intros; vunf; now rewrite combine_app', map_app. Qed.

Lemma vsign_app : forall s1 s2 x1 x2, length s1 = length x1 ->
  vsign (s1 ++ s2) (x1 ++ x2) = vsign s1 x1 ++ vsign s2 x2.
Proof. intros; vunf; now rewrite combine_app', map_app. Qed.

Lemma vopp_app : forall a b, vopp (a ++ b) = vopp a ++ vopp b.
Proof. intros; vunf; apply map_app. Qed.

Lemma vscale_app : forall c a b, vscale c (a ++ b) = vscale c a ++ vscale c b.
Proof. intros; vunf; apply map_app. Qed.

Lemma vzero_app : forall m n, vzero (m + n) = vzero m ++ vzero n.
Proof. intros; vunf; apply repeat_app. Qed.

(* ---------- firstn / skipn ---------- *)

Lemma firstn_vadd : forall n a b, firstn n (vadd a b) = vadd (firstn n a) (firstn n b).
Proof. intros; vunf; now rewrite firstn_map', combine_firstn'. Qed.

Lemma skipn_vadd : forall n a b, skipn n (vadd a b) = vadd (skipn n a) (skipn n b).
Proof. intros; vunf; now rewrite skipn_map', combine_skipn'. Qed.

Lemma firstn_vsub : forall n a b, firstn n (vsub a b) = vsub (firstn n a) (firstn n b).
Proof. intros; vunf; now rewrite firstn_map', combine_firstn'. Qed.

Lemma skipn_vsub : forall n a b, skipn n (vsub a b) = vsub (skipn n a) (skipn n b).
Proof. intros; vunf; now rewrite skipn_map', combine_skipn'. Qed.

Lemma firstn_vsign : forall n s x, firstn n (vsign s x) = vsign (firstn n s) (firstn n x).
Proof. intros; vunf; now rewrite firstn_map', combine_firstn'. Qed.

Lemma skipn_vsign : forall n s x, skipn n (vsign s x) = vsign (skipn n s) (skipn n x).
Proof. intros; vunf; now rewrite skipn_map', combine_skipn'. Qed.

Lemma firstn_vscale : forall n c a, firstn n (vscale c a) = vscale c (firstn n a).
Proof. intros; vunf; apply firstn_map'. Qed.

Lemma skipn_vscale : forall n c a, skipn n (vscale c a) = vscale c (skipn n a).
Proof. intros; vunf; apply skipn_map'. Qed.

Lemma firstn_vopp : forall n a, firstn n (vopp a) = vopp (firstn n a).
Proof. intros; vunf; apply firstn_map'. Qed.

Lemma skipn_vopp : forall n a, skipn n (vopp a) = vopp (skipn n a).
Proof. intros; vunf; apply skipn_map'. Qed.

(* ---------- additive algebra ---------- *)

Lemma vadd_comm : forall a b, vadd a b = vadd b a.
Proof. vunf. induction a as [|x a IH]; intros [|y b]; vstep IH. Qed.

Lemma vadd_zero_r : forall n a, length a = n -> vadd a (vzero n) = a.
Proof. vunf. intros n a; revert n; induction a as [|x a IH]; intros [|n] H; vstep IH. Qed.

Lemma vadd_zero_l : forall n a, length a = n -> vadd (vzero n) a = a.
Proof. intros n a H; rewrite vadd_comm; now apply vadd_zero_r. Qed.

Lemma vsub_zero_r : forall n a, length a = n -> vsub a (vzero n) = a.
Proof. vunf. intros n a; revert n; induction a as [|x a IH]; intros [|n] H; vstep IH. Qed.

Lemma vsub_diag : forall a, vsub a a = vzero (length a).
Proof. vunf. induction a as [|x a IH]; vstep IH. Qed.

Lemma vadd_vopp : forall a b, length a = length b -> vadd a (vopp b) = vsub a b.
Proof. vunf. induction a as [|x a IH]; intros [|y b] H; vstep IH. Qed.

Lemma vopp_vzero : forall n, vopp (vzero n) = vzero n.
Proof. vunf. induction n as [|n IH]; vstep IH. Qed.

Lemma vopp_involutive : forall a, vopp (vopp a) = a.
Proof. vunf. induction a as [|x a IH]; vstep IH. Qed.

Lemma vopp_vadd : forall a b, length a = length b ->
  vopp (vadd a b) = vadd (vopp a) (vopp b).
Proof. vunf. induction a as [|x a IH]; intros [|y b] H; vstep IH. Qed.

Lemma vopp_vsub : forall a b, length a = length b ->
  vopp (vsub a b) = vsub (vopp a) (vopp b).
Proof. vunf. induction a as [|x a IH]; intros [|y b] H; vstep IH. Qed.

Lemma vadd_assoc : forall a b c, length a = length b -> length a = length c ->
  vadd (vadd a b) c = vadd a (vadd b c).
Proof.
  vunf. induction a as [|x a IH]; intros [|y b] [|z c] H1 H2; vstep IH.
Qed.

(* interchange laws *)

Lemma vadd_vadd_interchange : forall a b c d,
  length a = length b -> length a = length c -> length a = length d ->
  vadd (vadd a b) (vadd c d) = vadd (vadd a c) (vadd b d).
Proof.
  vunf. induction a as [|x a IH]; intros [|y b] [|z c] [|w d] H1 H2 H3; vstep IH.
Qed.

Lemma vsub_vsub_interchange : forall a b c d,
  length a = length b -> length a = length c -> length a = length d ->
  vsub (vadd a b) (vadd c d) = vadd (vsub a c) (vsub b d).
Proof.
  vunf. induction a as [|x a IH]; intros [|y b] [|z c] [|w d] H1 H2 H3; vstep IH.
Qed.

Lemma vadd_vsub_interchange : forall a b c d,
  length a = length b -> length a = length c -> length a = length d ->
  vadd (vsub a b) (vsub c d) = vsub (vadd a c) (vadd b d).
Proof.
  vunf. induction a as [|x a IH]; intros [|y b] [|z c] [|w d] H1 H2 H3; vstep IH.
Qed.

Lemma vsub_vsub_interchange2 : forall a b c d,
  length a = length b -> length a = length c -> length a = length d ->
  vsub (vsub a b) (vsub c d) = vsub (vsub a c) (vsub b d).
Proof.
  vunf. induction a as [|x a IH]; intros [|y b] [|z c] [|w d] H1 H2 H3; vstep IH.
Qed.

(* rotation laws *)

Lemma vadd_assoc_swap : forall a c y, length a = length c -> length a = length y ->
  vadd (vadd a c) y = vadd (vadd a y) c.
Proof.
  vunf. induction a as [|x a IH]; intros [|z c] [|w y] H1 H2; vstep IH.
Qed.

Lemma vsub_vadd_swap : forall a c y, length a = length c -> length a = length y ->
  vadd (vsub a c) y = vsub (vadd a y) c.
Proof.
  vunf. induction a as [|x a IH]; intros [|z c] [|w y] H1 H2; vstep IH.
Qed.

(* doubling *)

Lemma vadd_add_sub : forall a b, length a = length b ->
  vadd (vadd a b) (vsub a b) = vscale (radd rI rI) a.
Proof. vunf. induction a as [|x a IH]; intros [|y b] H; vstep IH. Qed.

Lemma vsub_add_sub : forall a b, length a = length b ->
  vsub (vadd a b) (vsub a b) = vscale (radd rI rI) b.
Proof. vunf. induction a as [|x a IH]; intros [|y b] H; vstep IH. Qed.

(* ---------- scaling ---------- *)

Lemma vscale_vadd : forall c a b, length a = length b ->
  vscale c (vadd a b) = vadd (vscale c a) (vscale c b).
Proof. vunf. intros c; induction a as [|x a IH]; intros [|y b] H; vstep IH. Qed.

Lemma vscale_vsub : forall c a b, length a = length b ->
  vscale c (vsub a b) = vsub (vscale c a) (vscale c b).
Proof. vunf. intros c; induction a as [|x a IH]; intros [|y b] H; vstep IH. Qed.

Lemma vscale_vscale : forall c d a, vscale c (vscale d a) = vscale (rmul c d) a.
Proof. vunf. intros c d; induction a as [|x a IH]; vstep IH. Qed.

Lemma vscale_one : forall a, vscale rI a = a.
Proof. vunf. induction a as [|x a IH]; vstep IH. Qed.

Lemma vscale_vzero : forall c n, vscale c (vzero n) = vzero n.
Proof. vunf. intros c; induction n as [|n IH]; vstep IH. Qed.

Lemma vscale_vopp : forall c a, vscale c (vopp a) = vopp (vscale c a).
Proof. vunf. intros c; induction a as [|x a IH]; vstep IH. Qed.

Lemma vscale_vsign : forall c s a, vscale c (vsign s a) = vsign s (vscale c a).
Proof.
  vunf. intros c; induction s as [|[|] s IH]; intros [|x a]; vstep IH.
Qed.

(* ---------- signs ---------- *)

Lemma vsign_involutive : forall s x,
  vsign s (vsign s x) = firstn (Nat.min (length s) (length x)) x.
Proof.
  vunf. induction s as [|[|] s IH]; intros [|x a]; vstep IH.
Qed.

Lemma vsign_vsign : forall s x, length s = length x -> vsign s (vsign s x) = x.
Proof.
  intros s x H. rewrite vsign_involutive, H, Nat.min_id. apply firstn_all.
Qed.

Lemma vsign_vadd : forall s a b, length a = length b ->
  vsign s (vadd a b) = vadd (vsign s a) (vsign s b).
Proof.
  vunf. induction s as [|[|] s IH]; intros [|x a] [|y b] H; vstep IH.
Qed.

Lemma vsign_vsub : forall s a b, length a = length b ->
  vsign s (vsub a b) = vsub (vsign s a) (vsign s b).
Proof.
  vunf. induction s as [|[|] s IH]; intros [|x a] [|y b] H; vstep IH.
Qed.

Lemma vsign_vzero : forall s n, length s = n -> vsign s (vzero n) = vzero n.
Proof.
  vunf. induction s as [|[|] s IH]; intros [|n] H; vstep IH.
Qed.

(* ---------- sums ---------- *)

Lemma vsum_app : forall a b, vsum (a ++ b) = radd (vsum a) (vsum b).
Proof.
  induction a as [|x a IH]; intros b; cbn.
  - ring.
  - rewrite IH. ring.
Qed.

Lemma sumsq_app : forall a b, sumsq (a ++ b) = radd (sumsq a) (sumsq b).
Proof. intros; unfold sumsq; now rewrite map_app, vsum_app. Qed.

Lemma firstn_skipn_sumsq : forall n x,
  sumsq x = radd (sumsq (firstn n x)) (sumsq (skipn n x)).
Proof. intros n x. now rewrite <- sumsq_app, firstn_skipn. Qed.

Lemma sumsq_parallelogram : forall a b, length a = length b ->
  radd (sumsq (vadd a b)) (sumsq (vsub a b))
  = rmul (radd rI rI) (radd (sumsq a) (sumsq b)).
Proof.
  induction a as [|x a IH]; intros [|y b] H; cbn in H; try discriminate.
  - cbn. ring.
  - rewrite vadd_cons, vsub_cons, !sumsq_cons.
    assert (IH' := IH b ltac:(lia)).
    transitivity (radd (radd (rmul (radd x y) (radd x y)) (rmul (rsub x y) (rsub x y)))
                       (radd (sumsq (vadd a b)) (sumsq (vsub a b)))); [ring|].
    rewrite IH'. ring.
Qed.

Lemma sumsq_vsign : forall s x, length s = length x -> sumsq (vsign s x) = sumsq x.
Proof.
  induction s as [|c s IH]; intros [|x a] H; cbn in H; try discriminate; try reflexivity.
  rewrite vsign_cons, !sumsq_cons, IH by lia. destruct c; ring.
Qed.

Lemma sumsq_vzero : forall n, sumsq (vzero n) = rO.
Proof.
  induction n as [|n IH]; [reflexivity|].
  rewrite vzero_S, sumsq_cons, IH. ring.
Qed.

Lemma sumsq_vscale : forall c x, sumsq (vscale c x) = rmul (rmul c c) (sumsq x).
Proof.
  intros c; induction x as [|x a IH].
  - cbn. ring.
  - rewrite vscale_cons, !sumsq_cons, IH. ring.
Qed.

Lemma sumsq_vopp : forall x, sumsq (vopp x) = sumsq x.
Proof.
  induction x as [|x a IH]; [reflexivity|].
  rewrite vopp_cons, !sumsq_cons, IH. ring.
Qed.

Lemma sumsq_dot : forall x, sumsq x = dot x x.
Proof.
  induction x as [|x a IH]; [reflexivity|].
  rewrite sumsq_cons, dot_cons, IH. reflexivity.
Qed.

(* ---------- dot ---------- *)

Lemma dot_app : forall a1 a2 b1 b2, length a1 = length b1 ->
  dot (a1 ++ a2) (b1 ++ b2) = radd (dot a1 b1) (dot a2 b2).
Proof. intros; unfold dot; now rewrite combine_app', map_app, vsum_app. Qed.

Lemma dot_comm : forall a b, dot a b = dot b a.
Proof.
  induction a as [|x a IH]; intros [|y b]; try reflexivity.
  rewrite !dot_cons, IH. ring.
Qed.

Lemma dot_vadd_r : forall r x y, length x = length y -> length r = length x ->
  dot r (vadd x y) = radd (dot r x) (dot r y).
Proof.
  induction r as [|r0 r IH]; intros [|x0 x] [|y0 y] H1 H2; cbn in H1, H2; try discriminate.
  - cbn. ring.
  - rewrite vadd_cons, !dot_cons, IH by lia. ring.
Qed.

Lemma dot_vsub_r : forall r x y, length x = length y -> length r = length x ->
  dot r (vsub x y) = rsub (dot r x) (dot r y).
Proof.
  induction r as [|r0 r IH]; intros [|x0 x] [|y0 y] H1 H2; cbn in H1, H2; try discriminate.
  - cbn. ring.
  - rewrite vsub_cons, !dot_cons, IH by lia. ring.
Qed.

Lemma dot_vscale_r : forall c r x, dot r (vscale c x) = rmul c (dot r x).
Proof.
  intros c; induction r as [|r0 r IH]; intros [|x0 x].
  - cbn. ring.
  - cbn. ring.
  - cbn. ring.
  - rewrite vscale_cons, !dot_cons, IH. ring.
Qed.

Lemma dot_vscale_l : forall c r x, dot (vscale c r) x = rmul c (dot r x).
Proof. intros. rewrite dot_comm, dot_vscale_r, dot_comm. reflexivity. Qed.

Lemma dot_vopp_l : forall r x, dot (vopp r) x = ropp (dot r x).
Proof.
  induction r as [|r0 r IH]; intros [|x0 x].
  - cbn. ring.
  - cbn. ring.
  - cbn. ring.
  - rewrite vopp_cons, !dot_cons, IH. ring.
Qed.

Lemma dot_vopp_r : forall r x, dot r (vopp x) = ropp (dot r x).
Proof. intros. rewrite dot_comm, dot_vopp_l, dot_comm. reflexivity. Qed.

Lemma dot_vzero_r : forall n r, dot r (vzero n) = rO.
Proof.
  induction n as [|n IH]; intros [|r0 r]; try reflexivity.
  rewrite vzero_S, dot_cons, IH. ring.
Qed.

End RingVecTheory.

(* Instantiation sanity checks. *)
Example ringvec_Z : vadd Z.add [1;2]%Z [3;4]%Z = [4;6]%Z. Proof. reflexivity. Qed.
(* Lemmas are instantiated uniformly with the six ring operations (inferred) and the ring theory. *)
Example ringvec_Z_comm : forall a b : list Z, vadd Z.add a b = vadd Z.add b a.
Proof. exact (vadd_comm _ _ _ _ _ _ Zth). Qed.
