(* Commutative monoids on a setoid, restricted to a domain predicate, and their
   folds: permutation invariance, partition (concat) independence, masked folds
   (rows whose mask bit is false may hold ANY value, even one outside the domain),
   pointwise lifting to fixed-length vectors.
   Instances: (Q, +, 0) and (list Q, vadd, zeros) in QVec.v; MeanStat / SumStat
   merge in Proofs/C05_Proofs.v. *)
From Coq Require Import List Permutation Setoid Morphisms Bool Lia Arith.
From FV Require Import Common.Batch.
Import ListNotations.

(* zip-with, truncating to the shorter list (python zip / jnp broadcasting is NOT modelled:
   callers carry equal-length side conditions) *)
Fixpoint map2 {A B C} (f : A -> B -> C) (l1 : list A) (l2 : list B) : list C :=
  match l1, l2 with
  | a :: l1', b :: l2' => f a b :: map2 f l1' l2'
  | _, _ => []
  end.

Lemma map2_length {A B C} (f : A -> B -> C) l1 l2 :
  length (map2 f l1 l2) = Nat.min (length l1) (length l2).
Proof. revert l2; induction l1 as [|a l1 IH]; intros [|b l2]; cbn; auto. Qed.

Lemma map2_length_eq {A B C} (f : A -> B -> C) l1 l2 n :
  length l1 = n -> length l2 = n -> length (map2 f l1 l2) = n.
Proof. intros; rewrite map2_length; lia. Qed.

Lemma map2_app {A B C} (f : A -> B -> C) l1 l1' l2 l2' : length l1 = length l2 ->
  map2 f (l1 ++ l1') (l2 ++ l2') = map2 f l1 l2 ++ map2 f l1' l2'.
Proof.
  revert l2; induction l1 as [|a l1 IH]; intros [|b l2] H; cbn in *; try lia; [reflexivity|].
  f_equal. apply IH. lia.
Qed.

Lemma map2_nth {A B C} (f : A -> B -> C) l1 l2 i da db dc :
  i < length l1 -> i < length l2 -> nth i (map2 f l1 l2) dc = f (nth i l1 da) (nth i l2 db).
Proof.
  revert l2 i; induction l1 as [|a l1 IH]; intros [|b l2] [|i] H1 H2; cbn in *; try lia; [reflexivity|].
  apply IH; lia.
Qed.

Lemma map2_map_l {A A' B C} (f : A' -> B -> C) (g : A -> A') l1 l2 :
  map2 f (map g l1) l2 = map2 (fun a b => f (g a) b) l1 l2.
Proof. revert l2; induction l1 as [|a l1 IH]; intros [|b l2]; cbn; auto. f_equal. apply IH. Qed.

Lemma map2_map_r {A B B' C} (f : A -> B' -> C) (g : B -> B') l1 l2 :
  map2 f l1 (map g l2) = map2 (fun a b => f a (g b)) l1 l2.
Proof. revert l2; induction l1 as [|a l1 IH]; intros [|b l2]; cbn; auto. f_equal. apply IH. Qed.

Lemma map_map2 {A B C D} (g : C -> D) (f : A -> B -> C) l1 l2 :
  map g (map2 f l1 l2) = map2 (fun a b => g (f a b)) l1 l2.
Proof. revert l2; induction l1 as [|a l1 IH]; intros [|b l2]; cbn; auto. f_equal. apply IH. Qed.

Lemma map2_ext {A B C} (f g : A -> B -> C) l1 l2 :
  (forall a b, f a b = g a b) -> map2 f l1 l2 = map2 g l1 l2.
Proof. intros H; revert l2; induction l1 as [|a l1 IH]; intros [|b l2]; cbn; auto. rewrite H, IH; reflexivity. Qed.

Lemma map2_same {A C} (f : A -> A -> C) l : map2 f l l = map (fun a => f a a) l.
Proof. induction l; cbn; congruence. Qed.

(* Forall2 <-> coordinatewise *)
Lemma Forall2_nth_iff {A B} (R : A -> B -> Prop) l1 l2 da db :
  Forall2 R l1 l2 <-> (length l1 = length l2 /\ forall i, i < length l1 -> R (nth i l1 da) (nth i l2 db)).
Proof.
  split.
  - induction 1 as [|a b l1 l2 H _ [IHl IH]]; cbn; [split; [reflexivity|intros; lia]|].
    split; [lia|]. intros [|i] Hi; [exact H|apply IH; lia].
  - revert l2; induction l1 as [|a l1 IH]; intros [|b l2] [Hl H]; cbn in *; try lia; constructor.
    + apply (H 0); lia.
    + apply IH; split; [lia|]. intros i Hi. apply (H (S i)). lia.
Qed.

Lemma Forall2_map2 {A B C D} (R : C -> D -> Prop) (f : A -> B -> C) (g : A -> B -> D) l1 l2 :
  (forall a b, In a l1 -> In b l2 -> R (f a b) (g a b)) -> Forall2 R (map2 f l1 l2) (map2 g l1 l2).
Proof.
  revert l2; induction l1 as [|a l1 IH]; intros [|b l2] H; cbn; constructor.
  - apply H; left; reflexivity.
  - apply IH. intros; apply H; right; assumption.
Qed.

Lemma Forall2_length' {A B} (R : A -> B -> Prop) l1 l2 : Forall2 R l1 l2 -> length l1 = length l2.
Proof. induction 1; cbn; congruence. Qed.

(* masking a list of rows: rows whose bit is false are replaced by `e` *)
Definition mask_with {A} (e : A) (m : list bool) (xs : list A) : list A :=
  map2 (fun (b : bool) x => if b then x else e) m xs.

(* the running accumulation: acc = e; for x in l: acc = op acc x *)
Definition mfold {A} (op : A -> A -> A) (e : A) (l : list A) : A := fold_left op l e.

Record cmonoid_on {A} (eqv : A -> A -> Prop) (D : A -> Prop) (op : A -> A -> A) (e : A) : Prop := {
  cm_equiv : Equivalence eqv;
  cm_D_proper : forall x y, eqv x y -> D x -> D y;
  cm_op_proper : forall x x' y y', D x -> D y -> eqv x x' -> eqv y y' -> eqv (op x y) (op x' y');
  cm_e_D : D e;
  cm_closed : forall x y, D x -> D y -> D (op x y);
  cm_assoc : forall x y z, D x -> D y -> D z -> eqv (op (op x y) z) (op x (op y z));
  cm_comm : forall x y, D x -> D y -> eqv (op x y) (op y x);
  cm_id_l : forall x, D x -> eqv (op e x) x
}.

Section Folds.
Context {A : Type} {eqv : A -> A -> Prop} {D : A -> Prop} {op : A -> A -> A} {e : A}.
Context (M : cmonoid_on eqv D op e).

Local Instance cm_equiv_inst : Equivalence eqv := cm_equiv _ _ _ _ M.

Notation mfold := (mfold op e).

Lemma cm_id_r x : D x -> eqv (op x e) x.
Proof.
  intros Hx. etransitivity; [apply (cm_comm _ _ _ _ M); [exact Hx|apply (cm_e_D _ _ _ _ M)]|].
  apply (cm_id_l _ _ _ _ M); exact Hx.
Qed.

Lemma fold_left_D l : forall a, D a -> Forall D l -> D (fold_left op l a).
Proof.
  induction l as [|x l IH]; intros a Ha Hl; cbn; [exact Ha|].
  inversion Hl; subst. apply IH; [apply (cm_closed _ _ _ _ M); assumption|assumption].
Qed.

Lemma mfold_D l : Forall D l -> D (mfold l).
Proof. apply fold_left_D. apply (cm_e_D _ _ _ _ M). Qed.

Lemma fold_left_proper l : forall a a', D a -> eqv a a' -> Forall D l ->
  eqv (fold_left op l a) (fold_left op l a').
Proof.
  induction l as [|x l IH]; intros a a' Ha E Hl; cbn; [exact E|].
  inversion Hl; subst. apply IH; [apply (cm_closed _ _ _ _ M); assumption| |assumption].
  apply (cm_op_proper _ _ _ _ M); [assumption|assumption|exact E|reflexivity].
Qed.

(* fold_left from a = a `op` fold_left from e *)
Lemma fold_left_shift l : forall a, D a -> Forall D l ->
  eqv (fold_left op l a) (op a (mfold l)).
Proof.
  unfold mfold. induction l as [|x l IH]; intros a Ha Hl; cbn.
  - symmetry. apply cm_id_r; exact Ha.
  - inversion Hl as [|x' l' Hx Hl']; subst.
    assert (Hax : D (op a x)) by (apply (cm_closed _ _ _ _ M); assumption).
    assert (Hex : D (op e x)) by (apply (cm_closed _ _ _ _ M); [apply (cm_e_D _ _ _ _ M)|assumption]).
    assert (Hfl : D (fold_left op l e)) by (apply fold_left_D; [apply (cm_e_D _ _ _ _ M)|assumption]).
    etransitivity; [apply IH; assumption|].
    etransitivity; [apply (cm_assoc _ _ _ _ M); assumption|].
    apply (cm_op_proper _ _ _ _ M); [assumption|apply (cm_closed _ _ _ _ M); assumption|reflexivity|].
    symmetry. etransitivity; [apply IH; assumption|].
    apply (cm_op_proper _ _ _ _ M); [assumption|assumption| |reflexivity].
    apply (cm_id_l _ _ _ _ M); assumption.
Qed.

Lemma mfold_cons x l : D x -> Forall D l -> eqv (mfold (x :: l)) (op x (mfold l)).
Proof.
  intros Hx Hl. unfold mfold at 1. cbn.
  assert (Hex : D (op e x)) by (apply (cm_closed _ _ _ _ M); [apply (cm_e_D _ _ _ _ M)|assumption]).
  etransitivity; [apply fold_left_shift; assumption|].
  apply (cm_op_proper _ _ _ _ M); [assumption|apply mfold_D; assumption| |reflexivity].
  apply (cm_id_l _ _ _ _ M); assumption.
Qed.

Lemma mfold_foldr l : Forall D l -> eqv (mfold l) (fold_right op e l).
Proof.
  induction l as [|x l IH]; intros Hl; [reflexivity|].
  inversion Hl; subst. etransitivity; [apply mfold_cons; assumption|]. cbn.
  apply (cm_op_proper _ _ _ _ M); [assumption|apply mfold_D; assumption|reflexivity|apply IH; assumption].
Qed.

Lemma mfold_app l1 l2 : Forall D l1 -> Forall D l2 ->
  eqv (mfold (l1 ++ l2)) (op (mfold l1) (mfold l2)).
Proof.
  intros H1 H2. unfold mfold at 1. rewrite fold_left_app.
  apply fold_left_shift; [apply mfold_D; assumption|assumption].
Qed.

Lemma mfold_singleton x : D x -> eqv (mfold [x]) x.
Proof. intros Hx. unfold mfold; cbn. apply (cm_id_l _ _ _ _ M); assumption. Qed.

Lemma mfold_perm l l' : Permutation l l' -> Forall D l -> eqv (mfold l) (mfold l').
Proof.
  induction 1 as [|x l l' HP IH|x y l|l l' l'' HP1 IH1 HP2 IH2]; intros Hl.
  - reflexivity.
  - inversion Hl; subst.
    assert (Hl' : Forall D l') by (eapply Permutation_Forall; eassumption).
    etransitivity; [apply mfold_cons; assumption|].
    etransitivity; [|symmetry; apply mfold_cons; assumption].
    apply (cm_op_proper _ _ _ _ M); [assumption|apply mfold_D; assumption|reflexivity|apply IH; assumption].
  - inversion Hl as [|? ? Hy Hl1]; subst. inversion Hl1 as [|? ? Hx Hl2]; subst.
    assert (Hm : D (mfold l)) by (apply mfold_D; assumption).
    assert (Hxm : D (op x (mfold l))) by (apply (cm_closed _ _ _ _ M); assumption).
    assert (Hym : D (op y (mfold l))) by (apply (cm_closed _ _ _ _ M); assumption).
    assert (Hxl : D (mfold (x :: l))) by (apply mfold_D; constructor; assumption).
    assert (Hyl : D (mfold (y :: l))) by (apply mfold_D; constructor; assumption).
    transitivity (op y (mfold (x :: l))); [apply mfold_cons; [assumption|constructor; assumption]|].
    transitivity (op y (op x (mfold l))).
    { apply (cm_op_proper _ _ _ _ M); [exact Hy|exact Hxl|reflexivity|apply mfold_cons; assumption]. }
    transitivity (op (op y x) (mfold l)); [symmetry; apply (cm_assoc _ _ _ _ M); assumption|].
    transitivity (op (op x y) (mfold l)).
    { apply (cm_op_proper _ _ _ _ M); [apply (cm_closed _ _ _ _ M); assumption|exact Hm| |reflexivity].
      apply (cm_comm _ _ _ _ M); assumption. }
    transitivity (op x (op y (mfold l))); [apply (cm_assoc _ _ _ _ M); assumption|].
    transitivity (op x (mfold (y :: l))).
    { apply (cm_op_proper _ _ _ _ M); [exact Hx|exact Hym|reflexivity|symmetry; apply mfold_cons; assumption]. }
    symmetry; apply mfold_cons; [assumption|constructor; assumption].
  - etransitivity; [apply IH1; assumption|]. apply IH2. eapply Permutation_Forall; eassumption.
Qed.

Lemma Forall2_eqv_D l l' : Forall2 eqv l l' -> Forall D l -> Forall D l'.
Proof.
  induction 1 as [|x y l l' E _ IH]; intros Hl; [constructor|].
  inversion Hl; subst. constructor; [eapply (cm_D_proper _ _ _ _ M); eassumption|apply IH; assumption].
Qed.

Lemma mfold_Forall2 l l' : Forall2 eqv l l' -> Forall D l -> eqv (mfold l) (mfold l').
Proof.
  induction 1 as [|x y l l' E H2 IH]; intros Hl; [reflexivity|].
  inversion Hl; subst.
  assert (Hy : D y) by (eapply (cm_D_proper _ _ _ _ M); eassumption).
  assert (Hl' : Forall D l') by (eapply Forall2_eqv_D; eassumption).
  etransitivity; [apply mfold_cons; assumption|].
  etransitivity; [|symmetry; apply mfold_cons; assumption].
  apply (cm_op_proper _ _ _ _ M); [assumption|apply mfold_D; assumption|exact E|apply IH; assumption].
Qed.

(* partition independence: folding the per-batch folds = folding all rows *)
Lemma mfold_concat ls : Forall (Forall D) ls -> eqv (mfold (map mfold ls)) (mfold (concat ls)).
Proof.
  induction ls as [|l ls IH]; intros H; [reflexivity|].
  inversion H as [|? ? Hl Hls]; subst. cbn [map concat].
  assert (Hm : Forall D (map mfold ls)).
  { clear IH H. induction Hls; cbn; constructor; [apply mfold_D; assumption|assumption]. }
  assert (Hc : Forall D (concat ls)).
  { clear IH H Hm. induction Hls; cbn; [constructor|]. apply Forall_app; split; assumption. }
  etransitivity; [apply mfold_cons; [apply mfold_D; assumption|assumption]|].
  etransitivity; [|symmetry; apply mfold_app; assumption].
  apply (cm_op_proper _ _ _ _ M); [apply mfold_D; assumption|apply mfold_D; assumption|reflexivity|].
  apply IH; assumption.
Qed.

(* masked fold: only the rows whose bit is true need to be in the domain; the
   others can be anything *)
Lemma mask_with_D m xs : Forall D (strip xs m) -> Forall D (mask_with e m xs).
Proof.
  unfold mask_with. revert xs; induction m as [|b m IH]; intros [|x xs] H; cbn in *; try constructor.
  - destruct b; [inversion H; assumption|apply (cm_e_D _ _ _ _ M)].
  - apply IH. destruct b; [inversion H; assumption|assumption].
Qed.

Lemma mfold_masked m xs : Forall D (strip xs m) ->
  eqv (mfold (mask_with e m xs)) (mfold (strip xs m)).
Proof.
  unfold mask_with. revert xs; induction m as [|b m IH]; intros [|x xs] H; cbn [map2 strip] in *; try reflexivity.
  destruct b.
  - inversion H; subst.
    assert (Hmw : Forall D (map2 (fun (b : bool) x => if b then x else e) m xs)) by (apply mask_with_D; assumption).
    etransitivity; [apply mfold_cons; assumption|].
    etransitivity; [|symmetry; apply mfold_cons; assumption].
    apply (cm_op_proper _ _ _ _ M); [assumption|apply mfold_D; assumption|reflexivity|apply IH; assumption].
  - assert (Hmw : Forall D (map2 (fun (b : bool) x => if b then x else e) m xs)) by (apply mask_with_D; assumption).
    etransitivity; [apply mfold_cons; [apply (cm_e_D _ _ _ _ M)|assumption]|].
    etransitivity; [apply (cm_id_l _ _ _ _ M); apply mfold_D; assumption|].
    apply IH; assumption.
Qed.

(* a fully masked (or empty) batch folds to the identity, whatever it contains *)
Lemma mfold_all_masked m xs : Forall (fun b => b = false) m -> eqv (mfold (mask_with e m xs)) e.
Proof.
  intros Hm. assert (E : strip xs m = []).
  { revert xs; induction Hm as [|b m Hb _ IH]; intros [|x xs]; cbn; try reflexivity. subst b. apply IH. }
  etransitivity; [apply mfold_masked; rewrite E; constructor|]. rewrite E. reflexivity.
Qed.
End Folds.

(* ---- pointwise lifting to vectors of a fixed length ---- *)
Section Pointwise.
Context {A : Type} {eqv : A -> A -> Prop} {D : A -> Prop} {op : A -> A -> A} {e : A}.
Context (M : cmonoid_on eqv D op e).

Definition vecD (n : nat) (v : list A) : Prop := length v = n /\ Forall D v.

Lemma Forall2_eqv_equiv : Equivalence (Forall2 eqv).
Proof.
  pose proof (cm_equiv _ _ _ _ M) as E. split.
  - intros l; induction l; constructor; [reflexivity|assumption].
  - intros l l'; induction 1; constructor; [symmetry; assumption|assumption].
  - intros l1 l2 l3 H; revert l3; induction H; intros l3 H3; inversion H3; subst; constructor;
      [etransitivity; eassumption|auto].
Qed.

Lemma cmonoid_pointwise n : cmonoid_on (Forall2 eqv) (vecD n) (map2 op) (repeat e n).
Proof.
  pose proof (cm_equiv _ _ _ _ M) as E.
  split.
  - apply Forall2_eqv_equiv.
  - intros x y H [Hl HD]. split.
    + rewrite <- Hl. symmetry. eapply Forall2_length'; eassumption.
    + clear Hl. induction H; [constructor|]. inversion HD; subst.
      constructor; [eapply (cm_D_proper _ _ _ _ M); eassumption|auto].
  - intros x x' y y' [_ HDx] [_ HDy] Ex. revert y y' HDy.
    induction Ex as [|a a' x x' Ea Ex IH]; intros y y' HDy Ey; [constructor|].
    inversion Ey as [|b b' y0 y0' Eb Ey0]; subst; cbn; [constructor|].
    inversion HDx; subst. inversion HDy; subst. constructor.
    + apply (cm_op_proper _ _ _ _ M); assumption.
    + apply IH; assumption.
  - split; [apply repeat_length|]. induction n; cbn; constructor; [apply (cm_e_D _ _ _ _ M)|assumption].
  - intros x y [Hlx HDx] [Hly HDy]. split; [apply map2_length_eq; assumption|].
    clear Hlx Hly. revert y HDy; induction HDx; intros y HDy; cbn; [constructor|].
    destruct HDy; constructor; [apply (cm_closed _ _ _ _ M); assumption|auto].
  - intros x y z [_ HDx] [_ HDy] [_ HDz]. revert y z HDy HDz.
    induction HDx; intros y z HDy HDz; cbn; [constructor|].
    destruct HDy; cbn; [constructor|]. destruct HDz; cbn; constructor;
      [apply (cm_assoc _ _ _ _ M); assumption|auto].
  - intros x y [_ HDx] [_ HDy]. revert y HDy. induction HDx; intros y HDy; cbn; [destruct y; constructor|].
    destruct HDy; cbn; constructor; [apply (cm_comm _ _ _ _ M); assumption|auto].
  - intros x [Hl HDx]. subst n. induction HDx; cbn; constructor;
      [apply (cm_id_l _ _ _ _ M); assumption|assumption].
Qed.
End Pointwise.
