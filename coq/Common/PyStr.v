(* Python str / list idioms used by the translated checkpoint and download kernels.
   A str / path is the list of its character codes (list Z). *)
From Coq Require Import ZArith List Bool Lia Sorting.Permutation.
Import ListNotations.
Local Open Scope Z_scope.

Notation str := (list Z).

(* l[:b] for any integer b (negative = from the end, clamped) *)
Definition py_upto {A} (l : list A) (b : Z) : list A :=
  if 0 <=? b then firstn (Z.to_nat b) l else firstn (length l - Z.to_nat (- b)) l.

(* l[i] for any integer i; None = IndexError *)
Definition py_index {A} (l : list A) (i : Z) : option A :=
  if 0 <=? i then nth_error l (Z.to_nat i)
  else if Z.of_nat (length l) + i <? 0 then None else nth_error l (Z.to_nat (Z.of_nat (length l) + i)).

Fixpoint is_prefix (p s : str) : bool :=
  match p, s with
  | [], _ => true
  | a :: p', b :: s' => (a =? b) && is_prefix p' s'
  | _ :: _, [] => false
  end.

Definition is_digit (c : Z) : bool := (48 <=? c) && (c <=? 57).

(* value of a string of decimal digits *)
Definition digits_val (s : str) : Z := fold_left (fun a d => 10 * a + (d - 48)) s 0.

(* int(s) for s a non-empty string of ASCII decimal digits; None = anything else
   (python also accepts signs, blanks and underscores: never produced by the callers
   modelled here, which filter with a [0-9] regular expression first) *)
Definition py_int (s : str) : option Z :=
  match s with
  | [] => None
  | _ => if forallb is_digit s then Some (digits_val s) else None
  end.

(* the w decimal digits of r, most significant first:  r mod 10^w zero-padded *)
Fixpoint fixed_digits (w : nat) (r : Z) : str :=
  match w with
  | O => []
  | S w' => (48 + (r / 10 ^ Z.of_nat w') mod 10) :: fixed_digits w' r
  end.

(* number of decimal digits of r >= 0 (at least 1) *)
Fixpoint ndigits_f (fuel : nat) (k : nat) (r : Z) : nat :=
  match fuel with
  | O => k
  | S f => if r <? 10 ^ Z.of_nat k then k else ndigits_f f (S k) r
  end.
Definition ndigits (r : Z) : nat := ndigits_f (S (Z.to_nat (Z.log2 r))) 1 r.

(* format(r, '0<w>d'): sign-aware zero padding to width w *)
Definition fmt_zero_d (w : Z) (r : Z) : str :=
  if r <? 0 then
    let m := - r in
    45 :: (if m <? 10 ^ (w - 1) then fixed_digits (Z.to_nat (w - 1)) m else fixed_digits (ndigits m) m)
  else if r <? 10 ^ w then fixed_digits (Z.to_nat w) r else fixed_digits (ndigits r) r.

(* s.split(sep)[-1] for non-empty sep: what follows the last of the non-overlapping
   occurrences of sep found scanning from the left; cur = current piece, reversed *)
Fixpoint split_last_f (fuel : nat) (sep s cur : str) : str :=
  match fuel with
  | O => rev cur ++ s
  | S f => match s with
           | [] => rev cur
           | c :: s' => if is_prefix sep s then split_last_f f sep (skipn (length sep) s) []
                        else split_last_f f sep s' (c :: cur)
           end
  end.
Definition split_last (sep s : str) : str := split_last_f (S (length s)) sep s [].

(* sorted(l, key=key) for integer keys: stable insertion sort *)
Fixpoint insert_by {A} (key : A -> Z) (x : A) (l : list A) : list A :=
  match l with
  | [] => [x]
  | y :: l' => if key x <=? key y then x :: l else y :: insert_by key x l'
  end.
Definition sort_by {A} (key : A -> Z) (l : list A) : list A := fold_right (insert_by key) [] l.

Definition last_opt {A} (l : list A) : option A := nth_error l (length l - 1).

(* ---------------------------------------------------------------------- *)

Lemma is_prefix_app p s : is_prefix p (p ++ s) = true.
Proof. induction p as [|a p IH]; cbn; [reflexivity|]. now rewrite Z.eqb_refl, IH. Qed.

Lemma is_prefix_true p s : is_prefix p s = true -> s = p ++ skipn (length p) s.
Proof.
  revert s; induction p as [|a p IH]; intros s H; [reflexivity|].
  destruct s as [|b s]; cbn in H; [discriminate|]. apply andb_true_iff in H. destruct H as [E H].
  apply Z.eqb_eq in E. subst b. cbn. f_equal. now apply IH.
Qed.

Lemma skipn_app_exact {A} (p s : list A) : skipn (length p) (p ++ s) = s.
Proof. induction p; cbn; auto. Qed.

Lemma digits_val_acc s : forall a, fold_left (fun a d => 10 * a + (d - 48)) s a = a * 10 ^ Z.of_nat (length s) + digits_val s.
Proof.
  unfold digits_val. induction s as [|d s IH]; intros a.
  - cbn. lia.
  - cbn [fold_left length]. rewrite IH. rewrite (IH (10 * 0 + (d - 48))).
    rewrite Nat2Z.inj_succ, Z.pow_succ_r by lia. lia.
Qed.

Lemma digits_val_cons d s : digits_val (d :: s) = (d - 48) * 10 ^ Z.of_nat (length s) + digits_val s.
Proof. unfold digits_val at 1. cbn [fold_left]. rewrite digits_val_acc. f_equal. Qed.

Lemma fixed_digits_length w r : length (fixed_digits w r) = w.
Proof. induction w; cbn; congruence. Qed.

Lemma fixed_digits_digit w r : forallb is_digit (fixed_digits w r) = true.
Proof.
  induction w as [|w IH]; cbn [fixed_digits forallb]; [reflexivity|]. rewrite IH, andb_true_r.
  unfold is_digit. pose proof (Z.mod_pos_bound (r / 10 ^ Z.of_nat w) 10 ltac:(lia)).
  apply andb_true_iff; split; apply Z.leb_le; lia.
Qed.

Lemma fixed_digits_val w r : digits_val (fixed_digits w r) = r mod 10 ^ Z.of_nat w.
Proof.
  induction w as [|w IH]; [cbn; now rewrite Z.mod_1_r|].
  cbn [fixed_digits]. rewrite digits_val_cons, IH, fixed_digits_length.
  rewrite Nat2Z.inj_succ, Z.pow_succ_r by lia.
  assert (0 < 10 ^ Z.of_nat w) by (apply Z.pow_pos_nonneg; lia).
  rewrite (Z.mul_comm 10), Z.rem_mul_r by lia. lia.
Qed.

Lemma fmt_zero_d_small w r : 0 <= r < 10 ^ w -> 0 <= w -> fmt_zero_d w r = fixed_digits (Z.to_nat w) r.
Proof.
  intros [H0 H1] Hw. unfold fmt_zero_d.
  destruct (r <? 0) eqn:E; [apply Z.ltb_lt in E; lia|].
  destruct (r <? 10 ^ w) eqn:E2; [reflexivity|apply Z.ltb_ge in E2; lia].
Qed.

Lemma py_int_fixed_digits w r : (0 < w)%nat -> 0 <= r < 10 ^ Z.of_nat w -> py_int (fixed_digits w r) = Some r.
Proof.
  intros Hw Hr. unfold py_int. destruct (fixed_digits w r) eqn:E.
  - apply (f_equal (@length Z)) in E. rewrite fixed_digits_length in E. cbn in E. lia.
  - rewrite <- E, fixed_digits_digit, fixed_digits_val, Z.mod_small by lia. reflexivity.
Qed.

(* split: the piece after the separator when the separator's first character does not occur in it *)
Lemma split_last_f_no_occ c sep' : forall t cur fuel, ~ In c t -> (length t < fuel)%nat ->
  split_last_f fuel (c :: sep') t cur = rev cur ++ t.
Proof.
  induction t as [|x t IH]; intros cur fuel Hn Hf; (destruct fuel as [|f]; [cbn in Hf; lia|]); cbn [split_last_f].
  - now rewrite app_nil_r.
  - assert (c =? x = false) as E by (apply Z.eqb_neq; intros ->; apply Hn; left; reflexivity).
    cbn [is_prefix]. rewrite E. cbn [andb]. rewrite IH; [|intros H; apply Hn; right; exact H|cbn in Hf; lia].
    cbn [rev]. now rewrite <- app_assoc.
Qed.

Lemma split_last_prefix c sep' t : ~ In c t -> split_last (c :: sep') ((c :: sep') ++ t) = t.
Proof.
  intros Hn. unfold split_last. cbn [split_last_f app].
  change (c :: sep' ++ t) with ((c :: sep') ++ t). rewrite is_prefix_app, skipn_app_exact.
  apply (split_last_f_no_occ c sep' t [] _ Hn). rewrite app_length. cbn. lia.
Qed.

(* sorting *)
Lemma insert_by_perm {A} (key : A -> Z) x l : Permutation (insert_by key x l) (x :: l).
Proof.
  induction l as [|y l IH]; cbn [insert_by]; [reflexivity|].
  destruct (key x <=? key y); [reflexivity|]. rewrite IH. apply perm_swap.
Qed.

Lemma sort_by_perm {A} (key : A -> Z) l : Permutation (sort_by key l) l.
Proof.
  induction l as [|x l IH]; cbn [sort_by fold_right]; [reflexivity|].
  fold (sort_by key l). rewrite insert_by_perm. now constructor.
Qed.

Lemma sort_by_In {A} (key : A -> Z) l x : In x (sort_by key l) <-> In x l.
Proof. split; apply Permutation_in; [|symmetry]; apply sort_by_perm. Qed.

Lemma sort_by_length {A} (key : A -> Z) l : length (sort_by key l) = length l.
Proof. apply Permutation_length, sort_by_perm. Qed.

Inductive sorted_by {A} (key : A -> Z) : list A -> Prop :=
| sorted_nil : sorted_by key []
| sorted_cons x l : Forall (fun y => key x <= key y) l -> sorted_by key l -> sorted_by key (x :: l).

Lemma insert_by_sorted {A} (key : A -> Z) x l : sorted_by key l -> sorted_by key (insert_by key x l).
Proof.
  induction 1 as [|y l Hy Hs IH]; cbn [insert_by]; [constructor; [constructor|constructor]|].
  destruct (key x <=? key y) eqn:E.
  - apply Z.leb_le in E. constructor; [|constructor; assumption].
    constructor; [exact E|]. eapply Forall_impl; [|exact Hy]. cbn. intros; lia.
  - apply Z.leb_gt in E. constructor; [|exact IH].
    rewrite Forall_forall. intros z Hz. apply (Permutation_in _ (insert_by_perm key x l)) in Hz.
    destruct Hz as [<-|Hz]; [lia|]. rewrite Forall_forall in Hy. now apply Hy.
Qed.

Lemma sort_by_sorted {A} (key : A -> Z) l : sorted_by key (sort_by key l).
Proof.
  induction l as [|x l IH]; cbn [sort_by fold_right]; [constructor|]. now apply insert_by_sorted.
Qed.

Lemma last_opt_cons {A} (x y : A) l : last_opt (x :: y :: l) = last_opt (y :: l).
Proof. unfold last_opt. cbn [length]. replace (S (S (length l)) - 1)%nat with (S (length l - 0)) by lia.
  cbn [nth_error]. replace (S (length l) - 1)%nat with (length l - 0)%nat by lia. reflexivity. Qed.

Lemma last_opt_In {A} (l : list A) x : last_opt l = Some x -> In x l.
Proof. unfold last_opt. apply nth_error_In. Qed.

Lemma last_opt_None {A} (l : list A) : last_opt l = None -> l = [].
Proof.
  unfold last_opt. intros H. apply nth_error_None in H. destruct l; [reflexivity|cbn in H; lia].
Qed.

Lemma sorted_last_max {A} (key : A -> Z) l : sorted_by key l -> forall m, last_opt l = Some m ->
  forall y, In y l -> key y <= key m.
Proof.
  induction 1 as [|x l Hx Hs IH]; intros m Hm y Hy; [destruct Hy|].
  destruct l as [|z l].
  - unfold last_opt in Hm. cbn in Hm. injection Hm as <-. destruct Hy as [<-|[]]. lia.
  - rewrite last_opt_cons in Hm. destruct Hy as [<-|Hy].
    + rewrite Forall_forall in Hx. apply Hx. now apply last_opt_In.
    + now apply (IH m Hm).
Qed.

Lemma py_upto_neg_length {A} (l : list A) k : 0 < k ->
  length (py_upto l (- k)) = (length l - Z.to_nat k)%nat.
Proof.
  intros Hk. unfold py_upto. destruct (0 <=? - k) eqn:E; [apply Z.leb_le in E; lia|].
  rewrite firstn_length, Z.opp_involutive. lia.
Qed.

Lemma py_upto_neg {A} (l : list A) k : 0 < k -> py_upto l (- k) = firstn (length l - Z.to_nat k) l.
Proof.
  intros Hk. unfold py_upto. destruct (0 <=? - k) eqn:E; [apply Z.leb_le in E; lia|].
  now rewrite Z.opp_involutive.
Qed.
