(* List helpers used by the code translated from fedjax/core/for_each_client.py
   (gen/Gen_for_each_client.v) and by its model (Model/C02_Model.v). *)
From Coq Require Import List Lia Arith.
Import ListNotations.

Definition opt_list {A} (o : option A) : list A := match o with Some x => [x] | None => [] end.

(* jax.tree_util.tree_map(lambda x: x[i], p_step_results): p_step_results is the python
   list (one entry per step) of arrays stacked over the devices; the result is the list of
   the i-th slices *)
Definition lane_results {R} (i : nat) (p_step_results : list (list R)) : list R :=
  flat_map (fun rj => opt_list (nth_error rj i)) p_step_results.

(* `for _ in range(n): x = outputs.pop(); yield x` -- list.pop() takes the LAST element *)
Fixpoint pop_yield {A} (outputs : list A) (n : nat) : list A :=
  match n with
  | O => []
  | S n' => match rev outputs with
            | [] => []                     (* pop from an empty list raises: nothing more is yielded *)
            | x :: r => x :: pop_yield (rev r) n'
            end
  end.

Lemma pop_yield_rev {A} : forall (r : list A), pop_yield (rev r) (length r) = r.
Proof.
  induction r as [|x r IH]; [reflexivity|].
  cbn [length pop_yield]. rewrite rev_involutive. f_equal. exact IH.
Qed.

Lemma pop_yield_all {A} (l : list A) : pop_yield l (length l) = rev l.
Proof. rewrite <- (rev_involutive l) at 1. rewrite <- (rev_length l). apply pop_yield_rev. Qed.

(* outputs.append(x) in a loop over `l` that may skip: fold_left with ++ is flat_map *)
Lemma fold_left_append_flat_map {A B} (f : A -> list B) : forall (l : list A) (acc : list B),
  fold_left (fun acc x => acc ++ f x) l acc = acc ++ flat_map f l.
Proof.
  induction l as [|x l IH]; intros acc; cbn [fold_left flat_map]; [now rewrite app_nil_r|].
  rewrite IH, app_assoc. reflexivity.
Qed.
