(* List lemmas missing from the Coq 8.16 standard library. *)
From Coq Require Import List Lia Arith.
Import ListNotations.

Lemma firstn_split_add {A} (l : list A) a b :
  firstn (a + b) l = firstn a l ++ firstn b (skipn a l).
Proof.
  revert l; induction a as [|a IH]; intros l; cbn; [reflexivity|].
  destruct l; cbn; [now rewrite firstn_nil|]. now rewrite IH.
Qed.

Lemma skipn_skipn' {A} (l : list A) a b : skipn b (skipn a l) = skipn (a + b) l.
Proof.
  revert l; induction a as [|a IH]; intros l; cbn; [reflexivity|].
  destruct l; cbn; [now rewrite skipn_nil|]. apply IH.
Qed.

Lemma combine_app {A B} (l1 l1' : list A) : forall (l2 l2' : list B), length l1 = length l2 ->
  combine (l1 ++ l1') (l2 ++ l2') = combine l1 l2 ++ combine l1' l2'.
Proof.
  induction l1 as [|a l1 IH]; intros [|b l2] l2' H; cbn in *; try lia; [reflexivity|].
  f_equal. apply IH. lia.
Qed.

Lemma Forall_firstn {A} (P : A -> Prop) n l : Forall P l -> Forall P (firstn n l).
Proof. revert l; induction n; intros l H; cbn; [constructor|]. destruct H; constructor; auto. Qed.

Lemma Forall_skipn {A} (P : A -> Prop) n l : Forall P l -> Forall P (skipn n l).
Proof. revert l; induction n; intros l H; cbn; [exact H|]. destruct H; [constructor|auto]. Qed.

Lemma concat_map_singleton {A} (l : list A) : concat (map (fun x => [x]) l) = l.
Proof. induction l; cbn; congruence. Qed.

Lemma length_concat_const {A} (ls : list (list A)) n :
  Forall (fun c => length c = n) ls -> length (concat ls) = length ls * n.
Proof. induction 1 as [|c ls Hc _ IH]; cbn; [reflexivity|]. rewrite app_length, IH, Hc. lia. Qed.

(* boolean list equality, for the correspondence predicates *)
Fixpoint list_beq {A} (eqb : A -> A -> bool) (l1 l2 : list A) : bool :=
  match l1, l2 with
  | [], [] => true
  | x :: l1', y :: l2' => eqb x y && list_beq eqb l1' l2'
  | _, _ => false
  end.

Lemma list_beq_eq {A} (eqb : A -> A -> bool) :
  (forall x y, eqb x y = true <-> x = y) -> forall l1 l2, list_beq eqb l1 l2 = true <-> l1 = l2.
Proof.
  intros H. induction l1 as [|x l1 IH]; intros [|y l2]; cbn; split; intros E; try congruence; try reflexivity.
  - apply Bool.andb_true_iff in E. destruct E as [E1 E2]. apply H in E1. apply IH in E2. congruence.
  - injection E as -> ->. apply Bool.andb_true_iff. split; [now apply H|now apply IH].
Qed.

(* indices of the cases on which a correspondence predicate fails *)
Fixpoint failing {C O} (agree : C -> O -> bool) (i : nat) (l : list (C * O)) : list nat :=
  match l with
  | [] => []
  | (c, o) :: l' => if agree c o then failing agree (S i) l' else i :: failing agree (S i) l'
  end.

Lemma flat_map_ext_in' {A B} (f g : A -> list B) (l : list A) :
  (forall x, In x l -> f x = g x) -> flat_map f l = flat_map g l.
Proof.
  induction l as [|x l IH]; intros H; cbn; [reflexivity|].
  rewrite (H x) by (left; reflexivity). rewrite IH by (intros; apply H; right; assumption). reflexivity.
Qed.

Lemma In_firstn {A} (x : A) n l : In x (firstn n l) -> In x l.
Proof. revert l; induction n as [|n IH]; intros [|y l] H; cbn in *; try contradiction. destruct H as [H|H]; [left; exact H|right; apply IH; exact H]. Qed.

Lemma NoDup_firstn {A} n (l : list A) : NoDup l -> NoDup (firstn n l).
Proof.
  revert l; induction n as [|n IH]; intros l H; cbn; [constructor|].
  destruct H as [|x l Hx Hl]; constructor; [|apply IH; exact Hl].
  intros Hin. apply Hx. eapply In_firstn; exact Hin.
Qed.
