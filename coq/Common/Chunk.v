(* Cutting a list into consecutive chunks; relation to python's
   `for start in range(0, N, bs): l[start:start+bs]`. *)
From Coq Require Import ZArith List Bool Lia.
From FV Require Import Common.ListX Common.PySem.
Import ListNotations.

Section Chunks.
Context {A : Type}.

Fixpoint chunks_f (fuel bs : nat) (l : list A) : list (list A) :=
  match fuel with
  | O => []
  | S f => match l with [] => [] | _ => firstn bs l :: chunks_f f bs (skipn bs l) end
  end.
Definition chunks (bs : nat) (l : list A) : list (list A) := chunks_f (length l) bs l.

Lemma chunks_f_concat : forall fuel bs l, 1 <= bs -> length l <= fuel ->
  concat (chunks_f fuel bs l) = l.
Proof.
  induction fuel as [|f IH]; intros bs l Hbs Hl.
  - destruct l; [reflexivity|cbn in Hl; lia].
  - cbn [chunks_f]. destruct l as [|x l']; [reflexivity|].
    cbn [concat]. rewrite IH; [apply firstn_skipn|exact Hbs|].
    rewrite skipn_length. cbn [length] in *. lia.
Qed.

Lemma chunks_concat bs l : 1 <= bs -> concat (chunks bs l) = l.
Proof. intros. apply chunks_f_concat; auto. Qed.

Lemma chunks_f_mono : forall f1 f2 bs l, 1 <= bs -> length l <= f1 -> length l <= f2 ->
  chunks_f f1 bs l = chunks_f f2 bs l.
Proof.
  induction f1 as [|f1 IH]; intros [|f2] bs l Hbs H1 H2; cbn [chunks_f]; try reflexivity.
  - destruct l; [reflexivity|cbn in H1; lia].
  - destruct l; [reflexivity|cbn in H2; lia].
  - destruct l as [|x l']; [reflexivity|]. f_equal.
    apply IH; [exact Hbs| |]; rewrite skipn_length; cbn [length] in *; lia.
Qed.

Lemma chunks_unfold bs l : 1 <= bs ->
  chunks bs l = match l with [] => [] | _ => firstn bs l :: chunks bs (skipn bs l) end.
Proof.
  intros Hbs. unfold chunks. destruct l as [|x l']; [reflexivity|].
  cbn [length chunks_f]. f_equal. apply chunks_f_mono; [exact Hbs| |lia].
  rewrite skipn_length. cbn [length]. lia.
Qed.

(* every chunk is non-empty and at most bs long; all but the last are full *)
Lemma chunks_f_sizes : forall fuel bs l, 1 <= bs ->
  Forall (fun c => 1 <= length c <= bs) (chunks_f fuel bs l).
Proof.
  induction fuel as [|f IH]; intros bs l Hbs; cbn [chunks_f]; [constructor|].
  destruct l as [|x l']; constructor; [|apply IH; exact Hbs].
  rewrite firstn_length. cbn [length]. lia.
Qed.

Lemma chunks_f_full_but_last : forall fuel bs l pre c post, 1 <= bs ->
  chunks_f fuel bs l = pre ++ c :: post -> post <> [] -> length c = bs.
Proof.
  induction fuel as [|f IH]; intros bs l pre c post Hbs E Hpost; cbn [chunks_f] in E.
  - destruct pre; discriminate.
  - destruct l as [|x l']; [destruct pre; discriminate|].
    destruct pre as [|p pre'].
    + cbn [app] in E. injection E as Ec Erest. subst c.
      rewrite firstn_length. apply Nat.min_l.
      (* the tail is non-empty, so skipn bs l is non-empty *)
      destruct f as [|f']; [cbn in Erest; congruence|].
      cbn [chunks_f] in Erest.
      destruct (skipn bs (x :: l')) eqn:Es; [congruence|].
      assert (length (skipn bs (x :: l')) = S (length l)) by (rewrite Es; reflexivity).
      rewrite skipn_length in H. lia.
    + cbn [app] in E. injection E as _ Erest. eapply IH; eauto.
Qed.

(* ---- python loop form ---- *)
Local Open Scope Z_scope.

Lemma py_range_In : forall a b c s, 1 <= c -> In s (py_range a b c) -> a <= s < b.
Proof.
  intros a b c s Hc. unfold py_range. remember (Z.to_nat (b - a)) as fuel eqn:Ef.
  assert (Hf : (Z.to_nat (b - a) <= fuel)%nat) by lia. clear Ef.
  revert a Hf. induction fuel as [|f IH]; intros a Hf Hin; cbn [range_f] in Hin; [destruct Hin|].
  destruct (a <? b) eqn:E; [|destruct Hin]. apply Z.ltb_lt in E.
  destruct Hin as [<-|Hin]; [lia|]. apply IH in Hin; lia.
Qed.

Lemma slices_are_chunks (l : list A) (bs : Z) : 1 <= bs ->
  forall fuel a, 0 <= a -> (length l - Z.to_nat a <= fuel)%nat ->
  map (fun s => py_slice l s (s + bs)) (py_range a (Z.of_nat (length l)) bs)
  = chunks_f fuel (Z.to_nat bs) (skipn (Z.to_nat a) l).
Proof.
  intros Hbs. induction fuel as [|f IH]; intros a Ha Hf.
  - rewrite py_range_nil by lia. reflexivity.
  - rewrite py_range_unfold by exact Hbs. cbn [chunks_f].
    destruct (a <? Z.of_nat (length l)) eqn:E.
    + apply Z.ltb_lt in E.
      destruct (skipn (Z.to_nat a) l) as [|x r] eqn:Es.
      { exfalso. assert (H : length (skipn (Z.to_nat a) l) = 0%nat) by (rewrite Es; reflexivity).
        rewrite skipn_length in H. lia. }
      cbn [map]. f_equal.
      * rewrite py_slice_skipn by lia. rewrite Es. reflexivity.
      * rewrite IH by lia. f_equal. rewrite <- Es, skipn_skipn'. f_equal. lia.
    + apply Z.ltb_ge in E. rewrite skipn_all2 by lia. reflexivity.
Qed.

Lemma slices_are_chunks0 (l : list A) (bs : Z) : 1 <= bs ->
  map (fun s => py_slice l s (s + bs)) (py_range 0 (Z.of_nat (length l)) bs)
  = chunks (Z.to_nat bs) l.
Proof. intros H. unfold chunks. rewrite (slices_are_chunks l bs H (length l) 0) by lia. reflexivity. Qed.

Lemma slice_full_iff (l : list A) (bs s : Z) : 1 <= bs -> 0 <= s < Z.of_nat (length l) ->
  (s + bs <=? Z.of_nat (length l)) = (length (py_slice l s (s + bs)) =? Z.to_nat bs)%nat.
Proof.
  intros Hbs Hs. rewrite py_slice_length by lia.
  destruct (s + bs <=? Z.of_nat (length l)) eqn:E; symmetry.
  - apply Z.leb_le in E. apply Nat.eqb_eq. lia.
  - apply Z.leb_gt in E. apply Nat.eqb_neq. lia.
Qed.

End Chunks.

Lemma flat_map_filter {A B} (p : A -> bool) (f : A -> B) (l : list A) :
  flat_map (fun x => if p x then [f x] else []) l = map f (filter p l).
Proof. induction l as [|x l IH]; cbn; [reflexivity|]. destruct (p x); cbn; now rewrite IH. Qed.

Lemma flat_map_singleton {A B} (f : A -> B) (l : list A) :
  flat_map (fun x => [f x]) l = map f l.
Proof. induction l as [|x l IH]; cbn; [reflexivity|]. now rewrite IH. Qed.

Lemma filter_map_comm {A B} (f : A -> B) (p : B -> bool) (l : list A) :
  filter p (map f l) = map f (filter (fun x => p (f x)) l).
Proof. induction l as [|x l IH]; cbn; [reflexivity|]. destruct (p (f x)); cbn; now rewrite IH. Qed.

Lemma filter_ext_in' {A} (p q : A -> bool) (l : list A) :
  (forall x, In x l -> p x = q x) -> filter p l = filter q l.
Proof.
  induction l as [|x l IH]; intros H; cbn; [reflexivity|].
  rewrite (H x) by (left; reflexivity). rewrite IH by (intros; apply H; right; assumption). reflexivity.
Qed.
