(* Vectorised NanQ code (the `vfun` translation kind, tools/lib/vfun.py): coordinate-wise
   functions, reductions and numpy-style broadcasting of a scalar against a vector. *)
From Coq Require Import ZArith QArith Qround List Bool.
From FV Require Import Common.CMonoid Common.NanQ.
Import ListNotations.

Definition nfloor : NanQ.t -> NanQ.t := NanQ.lift1 (fun q => inject_Z (Qfloor q)).
Definition nceil : NanQ.t -> NanQ.t := NanQ.lift1 (fun q => inject_Z (Qceiling q)).
Definition qsign (q : Q) : Q := inject_Z (Z.sgn (Qnum q)).
Definition nsign : NanQ.t -> NanQ.t := NanQ.lift1 qsign.

(* jnp.amin / jnp.amax of a non-empty array (NaN-propagating) *)
Definition amin (v : list NanQ.t) : NanQ.t := match v with [] => None | x :: r => fold_left NanQ.min r x end.
Definition amax (v : list NanQ.t) : NanQ.t := match v with [] => None | x :: r => fold_left NanQ.max r x end.

(* broadcasting: vector op scalar, scalar op vector (vector op vector is map2) *)
Definition bvs {A B C} (op : A -> B -> C) (v : list A) (s : B) : list C := map (fun a => op a s) v.
Definition bsv {A B C} (op : A -> B -> C) (s : A) (v : list B) : list C := map (fun b => op s b) v.

(* jnp.where(c, a, b) with a vector condition; a, b scalar (q) or vector (v) *)
Definition where_vqq (c : list (option bool)) (a b : NanQ.t) : list NanQ.t := map (fun ci => NanQ.where_ ci a b) c.
Definition where_vvv (c : list (option bool)) (a b : list NanQ.t) : list NanQ.t :=
  map2 (fun ci ab => NanQ.where_ ci (fst ab) (snd ab)) c (combine a b).
Definition where_vqv (c : list (option bool)) (a : NanQ.t) (b : list NanQ.t) : list NanQ.t :=
  map2 (fun ci bi => NanQ.where_ ci a bi) c b.
Definition where_vvq (c : list (option bool)) (a : list NanQ.t) (b : NanQ.t) : list NanQ.t :=
  map2 (fun ci ai => NanQ.where_ ci ai b) c a.
