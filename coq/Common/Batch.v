(* Padded batches over abstract rows: the data model shared by C03 / C15. *)
From Coq Require Import ZArith List Bool Lia.
Import ListNotations.

Record batch (A : Type) := mk_batch { b_rows : list A; b_mask : list bool }.
Arguments mk_batch {A}.
Arguments b_rows {A}.
Arguments b_mask {A}.

(* {**rows, MASK: m} *)
Definition attach_mask {A} (rows : list A) (m : list bool) : batch A := mk_batch rows m.

(* pad_examples: `size` rows, the first `current_size` are the input, the rest zero;
   mask = (arange(size) < current_size).  The code raises ValueError when
   current_size > size; the model then keeps the rows (so the mismatch between
   rows and mask stays visible to the theorems, which prove it never happens). *)
Definition pad_examples {A} (zero : A) (rows : list A) (size : Z) : batch A :=
  let n := length rows in
  let sz := Z.to_nat size in
  mk_batch (rows ++ repeat zero (sz - n)) (repeat true (Nat.min n sz) ++ repeat false (sz - n)).

(* the real rows of a batch: those whose mask bit is true *)
Fixpoint strip {A} (rows : list A) (m : list bool) : list A :=
  match rows, m with
  | r :: rows', b :: m' => if b then r :: strip rows' m' else strip rows' m'
  | _, _ => []
  end.
Definition real_rows {A} (b : batch A) : list A := strip (b_rows b) (b_mask b).

Lemma strip_all_true {A} (rows : list A) : strip rows (repeat true (length rows)) = rows.
Proof. induction rows as [|r rows IH]; cbn; [reflexivity|now rewrite IH]. Qed.

Lemma strip_app {A} (r1 r2 : list A) m1 m2 : length r1 = length m1 ->
  strip (r1 ++ r2) (m1 ++ m2) = strip r1 m1 ++ strip r2 m2.
Proof.
  revert m1; induction r1 as [|r r1 IH]; intros [|b m1] H; cbn in *; try lia; [reflexivity|].
  destruct b; cbn; rewrite IH by lia; reflexivity.
Qed.

Lemma strip_all_false {A} (rows : list A) n : strip rows (repeat false n) = [].
Proof. revert n; induction rows as [|r rows IH]; intros [|n]; cbn; auto. Qed.

Lemma real_rows_pad {A} (zero : A) rows size : (Z.of_nat (length rows) <= size)%Z ->
  real_rows (pad_examples zero rows size) = rows.
Proof.
  intros H. unfold real_rows, pad_examples; cbn [b_rows b_mask].
  rewrite Nat.min_l by lia.
  rewrite strip_app by (now rewrite repeat_length).
  rewrite strip_all_true, strip_all_false. apply app_nil_r.
Qed.
