(* Vectors over Q as `list Q` with `Forall2 Qeq` equality (`veq`), coordinatewise
   operations with equal-length side conditions, sums of scalars and of vectors,
   masked sums.  A pytree is its flattened coordinate list. *)
From Coq Require Import QArith Qminmax Qabs List Permutation Setoid Morphisms Lia Lqa Bool.
From FV Require Import Common.ListX Common.Batch Common.CMonoid.
Import ListNotations.
Local Open Scope Q_scope.

(* ---------------- scalars ---------------- *)
Fixpoint qsum (l : list Q) : Q := match l with [] => 0 | x :: l' => x + qsum l' end.

Lemma qsum_fold_right l : qsum l = fold_right Qplus 0 l.
Proof. induction l; cbn; congruence. Qed.

Lemma Q_cmonoid : cmonoid_on Qeq (fun _ => True) Qplus 0.
Proof.
  split; try (intros; exact I); try exact Q_Setoid.
  - intros x x' y y' _ _ E1 E2. rewrite E1, E2. reflexivity.
  - intros; ring.
  - intros; ring.
  - intros; ring.
Qed.

Lemma Forall_True {A} (l : list A) : Forall (fun _ => True) l.
Proof. induction l; constructor; auto. Qed.

Lemma qsum_mfold l : mfold Qplus 0 l == qsum l.
Proof. rewrite qsum_fold_right. apply (mfold_foldr Q_cmonoid). apply Forall_True. Qed.

Lemma qsum_app l1 l2 : qsum (l1 ++ l2) == qsum l1 + qsum l2.
Proof. induction l1 as [|x l1 IH]; cbn; [ring|]. rewrite IH. ring. Qed.

Lemma qsum_Forall2 l l' : Forall2 Qeq l l' -> qsum l == qsum l'.
Proof. induction 1 as [|x y l l' E _ IH]; cbn; [reflexivity|]. rewrite E, IH. reflexivity. Qed.

Lemma qsum_perm l l' : Permutation l l' -> qsum l == qsum l'.
Proof.
  induction 1 as [|x l l' _ IH|x y l|l l' l'' _ IH1 _ IH2]; cbn.
  - reflexivity.
  - rewrite IH. reflexivity.
  - ring.
  - etransitivity; eassumption.
Qed.

Lemma qsum_scale c l : qsum (map (Qmult c) l) == c * qsum l.
Proof. induction l as [|x l IH]; cbn; [ring|]. rewrite IH. ring. Qed.

Lemma qsum_map_plus {A} (f g : A -> Q) l :
  qsum (map (fun a => f a + g a) l) == qsum (map f l) + qsum (map g l).
Proof. induction l as [|x l IH]; cbn; [ring|]. rewrite IH. ring. Qed.

Lemma qsum_map_scale {A} c (f : A -> Q) l : qsum (map (fun a => c * f a) l) == c * qsum (map f l).
Proof. induction l as [|x l IH]; cbn; [ring|]. rewrite IH. ring. Qed.

Lemma qsum_map_ext {A} (f g : A -> Q) l :
  (forall a, In a l -> f a == g a) -> qsum (map f l) == qsum (map g l).
Proof.
  induction l as [|x l IH]; intros H; cbn; [reflexivity|]. rewrite IH by (intros; apply H; right; assumption).
  rewrite (H x) by (left; reflexivity). reflexivity.
Qed.

Lemma qsum_map_le {A} (f g : A -> Q) l :
  (forall a, In a l -> f a <= g a) -> qsum (map f l) <= qsum (map g l).
Proof.
  induction l as [|x l IH]; intros H; cbn; [lra|].
  assert (f x <= g x) by (apply H; left; reflexivity).
  assert (qsum (map f l) <= qsum (map g l)) by (apply IH; intros; apply H; right; assumption). lra.
Qed.

Lemma qsum_nonneg l : Forall (fun x => 0 <= x) l -> 0 <= qsum l.
Proof. induction 1 as [|x l Hx _ IH]; cbn; [lra|]. lra. Qed.

Lemma qsum_zero l : Forall (fun x => x == 0) l -> qsum l == 0.
Proof. induction 1 as [|x l Hx _ IH]; cbn; [reflexivity|]. rewrite Hx, IH. ring. Qed.

Lemma qsum_nonneg_zero l : Forall (fun x => 0 <= x) l -> qsum l == 0 -> Forall (fun x => x == 0) l.
Proof.
  induction 1 as [|x l Hx Hl IH]; cbn; intros E; constructor.
  - pose proof (qsum_nonneg l Hl). lra.
  - apply IH. pose proof (qsum_nonneg l Hl). lra.
Qed.

Lemma qsum_repeat0 n : qsum (repeat 0 n) == 0.
Proof. induction n; cbn; [reflexivity|]. rewrite IHn. ring. Qed.

(* ---------------- vectors ---------------- *)
Notation vec := (list Q) (only parsing).
Definition veq : vec -> vec -> Prop := Forall2 Qeq.
Definition vle : vec -> vec -> Prop := Forall2 Qle.
Definition vadd : vec -> vec -> vec := map2 Qplus.
Definition vsub : vec -> vec -> vec := map2 Qminus.
Definition vscale (c : Q) (v : vec) : vec := map (Qmult c) v.
Definition vopp (v : vec) : vec := map Qopp v.
Definition vzero (n : nat) : vec := repeat 0 n.
Definition vnth (i : nat) (v : vec) : Q := nth i v 0.
Definition sumsq (v : vec) : Q := qsum (map (fun x => x * x) v).
Definition vdot (a b : vec) : Q := qsum (map2 Qmult a b).
(* running sum of vectors of length n: acc = zeros; for v in vs: acc = acc + v *)
Definition vsum (n : nat) (vs : list vec) : vec := mfold vadd (vzero n) vs.
(* boolean equality for the correspondence checks *)
Definition veqb (a b : vec) : bool := list_beq Qeq_bool a b.

Infix "=v=" := veq (at level 70, no associativity).

#[global] Instance veq_equiv : Equivalence veq.
Proof. exact (Forall2_eqv_equiv Q_cmonoid). Qed.

Lemma veq_length a b : a =v= b -> length a = length b.
Proof. apply Forall2_length'. Qed.

Lemma veq_nth_iff a b : a =v= b <-> (length a = length b /\ forall i, (i < length a)%nat -> vnth i a == vnth i b).
Proof. apply Forall2_nth_iff. Qed.

Lemma vle_nth_iff a b : vle a b <-> (length a = length b /\ forall i, (i < length a)%nat -> vnth i a <= vnth i b).
Proof. apply Forall2_nth_iff. Qed.

Lemma veqb_veq a b : veqb a b = true <-> a =v= b.
Proof.
  unfold veqb. revert b; induction a as [|x a IH]; intros [|y b]; cbn; split; intros H; try discriminate;
    try constructor; try (inversion H; fail).
  - apply andb_true_iff in H. apply Qeq_bool_iff. tauto.
  - apply IH. apply andb_true_iff in H. tauto.
  - inversion H; subst. apply andb_true_iff. split; [apply Qeq_bool_iff; assumption|apply IH; assumption].
Qed.

Lemma vec_cmonoid n : cmonoid_on veq (fun v => length v = n) vadd (vzero n).
Proof.
  pose proof (cmonoid_pointwise Q_cmonoid n) as M.
  assert (V : forall x : vec, length x = n -> vecD (D := fun _ => True) n x)
    by (intros x Hx; split; [exact Hx|apply Forall_True]).
  split.
  - exact veq_equiv.
  - intros x y E Hx. apply (cm_D_proper _ _ _ _ M x y E). apply V; exact Hx.
  - intros x x' y y' Hx Hy. apply (cm_op_proper _ _ _ _ M); apply V; assumption.
  - apply (cm_e_D _ _ _ _ M).
  - intros x y Hx Hy. apply (cm_closed _ _ _ _ M); apply V; assumption.
  - intros x y z Hx Hy Hz. apply (cm_assoc _ _ _ _ M); apply V; assumption.
  - intros x y Hx Hy. apply (cm_comm _ _ _ _ M); apply V; assumption.
  - intros x Hx. apply (cm_id_l _ _ _ _ M); apply V; assumption.
Qed.

Lemma vadd_length a b n : length a = n -> length b = n -> length (vadd a b) = n.
Proof. apply map2_length_eq. Qed.
Lemma vsub_length a b n : length a = n -> length b = n -> length (vsub a b) = n.
Proof. apply map2_length_eq. Qed.
Lemma vscale_length c a : length (vscale c a) = length a.
Proof. apply map_length. Qed.
Lemma vzero_length n : length (vzero n) = n.
Proof. apply repeat_length. Qed.

Lemma vnth_vadd i a b : (i < length a)%nat -> (i < length b)%nat -> vnth i (vadd a b) = vnth i a + vnth i b.
Proof. intros. unfold vnth, vadd. apply map2_nth; assumption. Qed.
Lemma vnth_vsub i a b : (i < length a)%nat -> (i < length b)%nat -> vnth i (vsub a b) = vnth i a - vnth i b.
Proof. intros. unfold vnth, vsub. apply map2_nth; assumption. Qed.
Lemma vnth_vscale i c a : vnth i (vscale c a) == c * vnth i a.
Proof.
  unfold vnth, vscale. destruct (Nat.lt_ge_cases i (length a)) as [H|H].
  - rewrite (nth_indep _ 0 (c * 0)) by (rewrite map_length; exact H). rewrite map_nth. reflexivity.
  - rewrite !nth_overflow by (try rewrite map_length; exact H). ring.
Qed.
Lemma vnth_vzero i n : vnth i (vzero n) = 0.
Proof.
  unfold vnth, vzero. destruct (Nat.lt_ge_cases i n) as [H|H].
  - apply nth_repeat.
  - apply nth_overflow. rewrite repeat_length. exact H.
Qed.

#[global] Instance vadd_proper : Proper (veq ==> veq ==> veq) vadd.
Proof.
  intros a a' Ea. induction Ea as [|x x' a a' Ex Ea IH]; intros b b' Eb; [constructor|].
  destruct Eb as [|y y' b b' Ey Eb]; cbn; constructor; [rewrite Ex, Ey; reflexivity|apply IH; exact Eb].
Qed.
#[global] Instance vsub_proper : Proper (veq ==> veq ==> veq) vsub.
Proof.
  intros a a' Ea. induction Ea as [|x x' a a' Ex Ea IH]; intros b b' Eb; [constructor|].
  destruct Eb as [|y y' b b' Ey Eb]; cbn; constructor; [rewrite Ex, Ey; reflexivity|apply IH; exact Eb].
Qed.
#[global] Instance vscale_proper : Proper (Qeq ==> veq ==> veq) vscale.
Proof.
  intros c c' Ec a a' Ea. induction Ea as [|x x' a a' Ex Ea IH]; cbn; constructor; [rewrite Ec, Ex; reflexivity|exact IH].
Qed.
#[global] Instance sumsq_proper : Proper (veq ==> Qeq) sumsq.
Proof.
  intros a a' Ea. unfold sumsq. apply qsum_Forall2.
  induction Ea as [|x x' a a' Ex Ea IH]; cbn; constructor; [rewrite Ex; reflexivity|exact IH].
Qed.
#[global] Instance qsum_proper : Proper (veq ==> Qeq) qsum.
Proof. intros a a' E. apply qsum_Forall2. exact E. Qed.

Lemma vadd_comm a b : vadd a b =v= vadd b a.
Proof. revert b; induction a as [|x a IH]; intros [|y b]; cbn; constructor; [ring|apply IH]. Qed.
Lemma vadd_assoc a b c : vadd (vadd a b) c =v= vadd a (vadd b c).
Proof.
  revert b c; induction a as [|x a IH]; intros [|y b] [|z c]; cbn; constructor; [ring|apply IH].
Qed.
Lemma vadd_zero_l a : vadd (vzero (length a)) a =v= a.
Proof. induction a as [|x a IH]; cbn; constructor; [ring|exact IH]. Qed.
Lemma vadd_zero_r a : vadd a (vzero (length a)) =v= a.
Proof. induction a as [|x a IH]; cbn; constructor; [ring|exact IH]. Qed.

Lemma vscale_vadd c a b : vscale c (vadd a b) =v= vadd (vscale c a) (vscale c b).
Proof. revert b; induction a as [|x a IH]; intros [|y b]; cbn; constructor; [ring|apply IH]. Qed.
Lemma vscale_plus c d a : vscale (c + d) a =v= vadd (vscale c a) (vscale d a).
Proof. induction a as [|x a IH]; cbn; constructor; [ring|exact IH]. Qed.
Lemma vscale_vscale c d a : vscale c (vscale d a) =v= vscale (c * d) a.
Proof. induction a as [|x a IH]; cbn; constructor; [ring|exact IH]. Qed.
Lemma vscale_1 a : vscale 1 a =v= a.
Proof. induction a as [|x a IH]; cbn; constructor; [ring|exact IH]. Qed.
Lemma vscale_0 a : vscale 0 a =v= vzero (length a).
Proof. induction a as [|x a IH]; cbn; constructor; [ring|exact IH]. Qed.
Lemma vscale_vzero c n : vscale c (vzero n) =v= vzero n.
Proof. induction n; cbn; constructor; [ring|exact IHn]. Qed.
Lemma vsub_self a : vsub a a =v= vzero (length a).
Proof. induction a as [|x a IH]; cbn; constructor; [ring|exact IH]. Qed.
Lemma vadd_vsub a b : length a = length b -> vadd b (vsub a b) =v= a.
Proof.
  revert b; induction a as [|x a IH]; intros [|y b] H; cbn in *; try discriminate; constructor; [ring|].
  apply IH. lia.
Qed.

(* ---- sums of vectors ---- *)
Lemma vsum_length n vs : Forall (fun v => length v = n) vs -> length (vsum n vs) = n.
Proof. intros H. apply (mfold_D (vec_cmonoid n)). exact H. Qed.

Lemma vsum_nil n : vsum n [] = vzero n.
Proof. reflexivity. Qed.

Lemma vsum_cons n v vs : length v = n -> Forall (fun v => length v = n) vs ->
  vsum n (v :: vs) =v= vadd v (vsum n vs).
Proof. intros. apply (mfold_cons (vec_cmonoid n)); assumption. Qed.

Lemma vsum_app n l1 l2 : Forall (fun v => length v = n) l1 -> Forall (fun v => length v = n) l2 ->
  vsum n (l1 ++ l2) =v= vadd (vsum n l1) (vsum n l2).
Proof. apply (mfold_app (vec_cmonoid n)). Qed.

Lemma vsum_perm n l l' : Permutation l l' -> Forall (fun v => length v = n) l -> vsum n l =v= vsum n l'.
Proof. apply (mfold_perm (vec_cmonoid n)). Qed.

Lemma vsum_concat n ls : Forall (Forall (fun v => length v = n)) ls ->
  vsum n (map (vsum n) ls) =v= vsum n (concat ls).
Proof. apply (mfold_concat (vec_cmonoid n)). Qed.

(* the running sum started from the first vector (what tree_sum does) *)
Lemma vsum_first n v vs : length v = n -> Forall (fun v => length v = n) vs ->
  fold_left vadd vs v =v= vsum n (v :: vs).
Proof.
  intros Hv Hvs. unfold vsum, mfold. cbn [fold_left].
  apply (fold_left_proper (vec_cmonoid n)); [exact Hv| |exact Hvs].
  symmetry. rewrite <- Hv. apply vadd_zero_l.
Qed.

Lemma vnth_vsum n vs i : Forall (fun v => length v = n) vs -> (i < n)%nat ->
  vnth i (vsum n vs) == qsum (map (vnth i) vs).
Proof.
  intros H Hi. induction H as [|v vs Hv Hvs IH].
  - rewrite vsum_nil, vnth_vzero. reflexivity.
  - pose proof (vsum_cons n v vs Hv Hvs) as E. apply veq_nth_iff in E. destruct E as [El E].
    rewrite E by (rewrite vsum_length; [exact Hi|constructor; assumption]).
    rewrite vnth_vadd by (try rewrite vsum_length; try assumption; lia).
    cbn. rewrite IH. reflexivity.
Qed.

(* ---- squared norm ---- *)
Lemma sumsq_nonneg v : 0 <= sumsq v.
Proof.
  unfold sumsq. apply qsum_nonneg. induction v as [|x v IH]; cbn; constructor; [|exact IH].
  destruct (Qlt_le_dec x 0); nra.
Qed.
Lemma sumsq_vscale c v : sumsq (vscale c v) == c * c * sumsq v.
Proof.
  unfold sumsq, vscale. rewrite map_map. rewrite <- qsum_map_scale. apply qsum_map_ext. intros; ring.
Qed.
Lemma sumsq_app a b : sumsq (a ++ b) == sumsq a + sumsq b.
Proof. unfold sumsq. rewrite map_app. apply qsum_app. Qed.
Lemma sumsq_zero_iff v : sumsq v == 0 <-> v =v= vzero (length v).
Proof.
  split.
  - intros H. unfold sumsq in H. apply qsum_nonneg_zero in H.
    + induction v as [|x v IH]; cbn in *; constructor; inversion H; subst.
      * destruct (Qlt_le_dec x 0); nra.
      * apply IH; assumption.
    + clear H. induction v as [|x v IH]; cbn; constructor; [|exact IH]. destruct (Qlt_le_dec x 0); nra.
  - intros H. rewrite H. unfold sumsq, vzero. clear H. induction (length v); cbn; [reflexivity|]. rewrite IHn. ring.
Qed.

(* ---------------- masked sums ---------------- *)
(* `strip xs m` (Common/Batch.v) keeps the rows whose mask bit is true. *)

(* where-style masking of scalars *)
Definition msum (m : list bool) (xs : list Q) : Q := qsum (mask_with 0 m xs).
(* multiplicative masking: sum_i m_i * x_i with m_i in {0,1} *)
Definition mmul_sum (m : list bool) (xs : list Q) : Q :=
  qsum (map2 (fun (b : bool) x => (if b then 1 else 0) * x) m xs).
(* masked sum of row vectors of length n *)
Definition mvsum (n : nat) (m : list bool) (rows : list vec) : vec := vsum n (mask_with (vzero n) m rows).

Lemma msum_strip m xs : msum m xs == qsum (strip xs m).
Proof.
  unfold msum, mask_with. revert xs; induction m as [|b m IH]; intros [|x xs]; cbn; try reflexivity.
  destruct b; cbn; rewrite IH; ring.
Qed.

Lemma mmul_sum_strip m xs : mmul_sum m xs == qsum (strip xs m).
Proof.
  unfold mmul_sum. revert xs; induction m as [|b m IH]; intros [|x xs]; cbn; try reflexivity.
  destruct b; cbn; rewrite IH; ring.
Qed.

(* masked rows are irrelevant: any two padded lists with the same real rows have
   the same masked sum, whatever the number and content of the masked rows *)
Lemma msum_padding_irrelevant m xs m' xs' : strip xs m = strip xs' m' -> msum m xs == msum m' xs'.
Proof. intros H. rewrite !msum_strip, H. reflexivity. Qed.

Lemma mvsum_strip n m rows : Forall (fun v => length v = n) (strip rows m) ->
  mvsum n m rows =v= vsum n (strip rows m).
Proof. apply (mfold_masked (vec_cmonoid n)). Qed.

Lemma mvsum_padding_irrelevant n m rows m' rows' :
  Forall (fun v => length v = n) (strip rows m) -> strip rows m = strip rows' m' ->
  mvsum n m rows =v= mvsum n m' rows'.
Proof.
  intros H E. rewrite mvsum_strip by exact H. rewrite E in *. symmetry. apply mvsum_strip. exact H.
Qed.

(* partition independence of masked sums: summing per-batch masked sums = the sum of all real rows *)
Lemma msum_batches (bs : list (list bool * list Q)) :
  qsum (map (fun b => msum (fst b) (snd b)) bs) == qsum (concat (map (fun b => strip (snd b) (fst b)) bs)).
Proof.
  induction bs as [|[m xs] bs IH]; cbn [map concat fst snd qsum]; [reflexivity|].
  rewrite qsum_app, msum_strip, IH. reflexivity.
Qed.

Lemma mvsum_batches n (bs : list (list bool * list vec)) :
  Forall (fun b => Forall (fun v => length v = n) (strip (snd b) (fst b))) bs ->
  vsum n (map (fun b => mvsum n (fst b) (snd b)) bs) =v= vsum n (concat (map (fun b => strip (snd b) (fst b)) bs)).
Proof.
  intros H. etransitivity; [|apply (vsum_concat n); rewrite Forall_map; exact H].
  rewrite map_map. apply (mfold_Forall2 (vec_cmonoid n)).
  - induction H as [|b bs Hb _ IH]; cbn; constructor; [apply mvsum_strip; exact Hb|exact IH].
  - induction H as [|b bs Hb _ IH]; cbn; constructor; [|exact IH].
    apply (mfold_D (vec_cmonoid n)). apply (mask_with_D (vec_cmonoid n)). exact Hb.
Qed.
