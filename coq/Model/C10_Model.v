(* C10 executable model: every built-in algorithm's apply() and every compression
   aggregator's apply() as a script of the Store calculus, written by hand from
   the source (file / line references are to /repo/fedjax).  Loops over clients and
   clusters are unrolled by the Gallina generators, so a script is generated per
   call from the client ids of that round (and, for HypCluster, the observed
   assignment, which in the code is the result of a pure argmin).

   Conventions.  RIn 0 = the server (aggregator) state, RIn 1 = the client list;
   a client is the record [cid; dataset; rng] (aggregators: [cid; params; weight]).
   Result: ROwn 100 = the new state, ROwn 101 = the diagnostics dict (aggregators:
   ROwn 102 = the aggregate).  Pure functions are uninterpreted symbols F_xxx. *)
From Coq Require Import ZArith List Bool PeanoNat.
From FV Require Import Common.ListX Common.Store.
From FV Require gen.Gen_for_each_client gen.Gen_tree_util.
Import ListNotations.

(* ---- function symbols -------------------------------------------------------------- *)
Definition F_ZEROS := 1%Z.     Definition F_INIT := 2%Z.      Definition F_STEPS := 3%Z.
Definition F_FINAL := 4%Z.     Definition F_WEIGHT := 5%Z.    Definition F_ADD := 6%Z.
Definition F_NORM := 7%Z.      Definition F_INVW := 8%Z.      Definition F_OPT_STATE := 9%Z.
Definition F_OPT_PARAMS := 10%Z. Definition F_SPLIT0 := 11%Z. Definition F_SPLIT1 := 12%Z.
Definition F_QUANT := 13%Z.    Definition F_COPY := 14%Z.     Definition F_ADDN := 15%Z.
Definition F_SUB := 16%Z.      Definition F_CLIP := 17%Z.     Definition F_ALPHA := 18%Z.
Definition F_EG := 19%Z.       Definition F_LOSS := 20%Z.     Definition F_COEF := 21%Z.
Definition F_FINAL2 := 22%Z.   Definition F_FINAL3 := 23%Z.   Definition F_SEQKEY := 24%Z.
Definition F_SEQREST := 25%Z.  Definition F_BITS := 26%Z.     Definition F_ROT := 27%Z.
Definition F_ARGMIN := 28%Z.   Definition F_BETA := 29%Z.     Definition F_NEQ := 30%Z.
Definition F_NONE := 31%Z.     Definition F_MKINPUT := 32%Z.  Definition F_ABITS := 33%Z.

Definition st_r := RIn 0.     Definition cl_r := RIn 1.
Definition res_state := ROwn 100.  Definition res_diag := ROwn 101.  Definition res_agg := ROwn 102.

Fixpoint indexed {A} (i : nat) (l : list A) : list (nat * A) :=
  match l with [] => [] | x :: r => (i, x) :: indexed (S i) r end.

(* the operands a jitted call donates: `groups` are the registers standing for each positional
   argument, `pos` the donate_argnums translated from the source *)
Definition pick_don_Z (pos : list Z) (groups : list (list reg)) : list reg :=
  flat_map (fun ig : nat * list reg => if existsb (Z.eqb (Z.of_nat (fst ig))) pos then snd ig else []) (indexed 0 groups).
Definition pick_don (pos : list nat) (groups : list (list reg)) : list reg :=
  flat_map (fun ig : nat * list reg => if existsb (Nat.eqb (fst ig)) pos then snd ig else []) (indexed 0 groups).

(* RIn 10 = client record, RIn 11 = dataset (params for aggregators), RIn 12 = rng (weight) *)
Definition open_client (i : nat) : list cmd :=
  [Index (RIn 10) cl_r i; Field (RIn 11) (RIn 10) 1; Field (RIn 12) (RIn 10) 2].

(* for_each_client, jit backend (for_each_client.py:88-104).  Whether jit_client_init copies the
   state it builds, and which arguments jit_client_step / jit_client_final donate, are the
   constants TRANSLATED from the source (gen/Gen_for_each_client.v): without the copy the step
   state would be the caller's arrays themselves (RIn 16) and the step would donate those.
   `shared` are the shared-input arrays, `extra` the per-client input arrays besides rng. *)
Definition run_client (shared extra : list reg) (out : reg) : list cmd :=
  let st0 := if Gen_for_each_client.jit_init_copies then ROwn 1 else RIn 16 in
  [if Gen_for_each_client.jit_init_copies
   then Call (ROwn 1) F_INIT (shared ++ extra ++ [RIn 12])
             (pick_don_Z Gen_for_each_client.jit_init_donates [shared; extra ++ [RIn 12]])
   else Move (RIn 16) (hd (RIn 12) (shared ++ extra));
   Call (ROwn 2) F_STEPS [st0; RIn 11] (pick_don_Z Gen_for_each_client.jit_step_donates [[st0]; [RIn 11]]);
   Call out F_FINAL (shared ++ [ROwn 2]) (pick_don_Z Gen_for_each_client.jit_final_donates [shared; [ROwn 2]])].

(* the running weighted mean used by FedAvg / FedProx / Mime / MimeLite / APFL / Agnostic
   (fed_avg.py:129-146): ROwn 0 = delta_params_sum, ROwn 20 = num_examples_sum.  tree_weight and
   tree_add donate what gen/Gen_tree_util.v says (nothing). *)
Definition weighted_add (delta w : reg) : list cmd :=
  [Call (ROwn 4) F_WEIGHT [delta; w] (pick_don Gen_tree_util.tree_weight_donates [[delta]; [w]]);
   Call (ROwn 0) F_ADD [ROwn 0; ROwn 4] (pick_don Gen_tree_util.tree_add_donates [[ROwn 0]; [ROwn 4]]);
   Call (ROwn 20) F_ADDN [ROwn 20; w] []].

(* client_diagnostics[cid] = {'delta_l2_norm': ...}: a new dict stored into the fresh diagnostics dict *)
Definition set_diag (delta : reg) (cid : Z) : list cmd :=
  [Call (ROwn 5) F_NORM [delta] []; DictOf (ROwn 110) [(0%Z, ROwn 5)]; DictSet res_diag cid (ROwn 110)].

Definition accumulate (delta : reg) (cid : Z) : list cmd := weighted_add delta (RIn 11) ++ set_diag delta cid.

Definition mean_begin (params : reg) : list cmd :=
  [DictNew res_diag; Call (ROwn 0) F_ZEROS [params] []; Call (ROwn 20) F_ZEROS [params] []].
Definition mean_end : list cmd := [Call (ROwn 6) F_INVW [ROwn 0; ROwn 20] []].

Definition server_opt (delta opt params : reg) : list cmd :=
  [Call (ROwn 7) F_OPT_STATE [delta; opt; params] []; Call (ROwn 8) F_OPT_PARAMS [delta; opt; params] []].

(* ---- FedAvg (fed_avg.py:118-154) and FedProx (fed_prox.py:118-149): same shape ------ *)
Definition script_fedavg (cids : list Z) : list cmd :=
  [Field (RIn 2) st_r 0; Field (RIn 3) st_r 1] ++ mean_begin (RIn 2) ++
  flat_map (fun ic : nat * Z => open_client (fst ic) ++ run_client [RIn 2] [] (ROwn 3) ++ accumulate (ROwn 3) (snd ic))
           (indexed 0 cids) ++
  mean_end ++ server_opt (ROwn 6) (RIn 3) (RIn 2) ++ [MkRec res_state [ROwn 8; ROwn 7]].

(* tree_sum (tree_util.py:64-73): the first summand is copied, later ones are added through
   _tree_add_eq, which donates what gen/Gen_tree_util.v says (the accumulator).  ROwn 30 = accumulator *)
Definition sum_step (i : nat) (x : reg) : list cmd :=
  match i with
  | O => [Call (ROwn 30) F_COPY [x] []]
  | S _ => [Call (ROwn 30) F_ADD [ROwn 30; x] (pick_don Gen_tree_util.tree_add_eq_donates [[ROwn 30]; [x]])]
  end.

(* the full-batch gradient pass of Mime / MimeLite (mime.py:168-173) *)
Definition grads_pass (cids : list Z) : list cmd :=
  [Call (ROwn 30) F_NONE [] []] ++           (* pytree_sum = None: what tree_sum returns for an empty cohort *)
  flat_map (fun ic : nat * Z => open_client (fst ic) ++ run_client [RIn 2] [] (ROwn 3) ++ sum_step (fst ic) (ROwn 3))
           (indexed 0 cids) ++
  [Call (ROwn 31) F_INVW [ROwn 30] []].

Definition mime_update : list cmd :=
  [Call (ROwn 8) F_SUB [RIn 2; ROwn 6] []; Call (ROwn 7) F_OPT_STATE [ROwn 31; RIn 3; RIn 2] [];
   MkRec res_state [ROwn 8; ROwn 7]].

(* Mime (mime.py:163-209) *)
Definition script_mime (cids : list Z) : list cmd :=
  [Field (RIn 2) st_r 0; Field (RIn 3) st_r 1] ++ grads_pass cids ++ mean_begin (RIn 2) ++
  flat_map (fun ic : nat * Z => open_client (fst ic) ++ run_client [RIn 2; RIn 3; ROwn 31] [] (ROwn 3) ++ accumulate (ROwn 3) (snd ic))
           (indexed 0 cids) ++
  mean_end ++ mime_update.

(* MimeLite (mime_lite.py:111-170); clip = client_delta_clip_norm is not None: the diagnostics
   entry is stored first, the clipped norm and the flag are then written INTO that fresh entry *)
Definition script_mimelite (clip : bool) (cids : list Z) : list cmd :=
  [Field (RIn 2) st_r 0; Field (RIn 3) st_r 1] ++ mean_begin (RIn 2) ++
  flat_map (fun ic : nat * Z => open_client (fst ic) ++ run_client [RIn 2; RIn 3] [] (ROwn 3) ++
                      set_diag (ROwn 3) (snd ic) ++
                      (if clip then [Call (ROwn 9) F_CLIP [ROwn 3] []; Call (ROwn 111) F_NORM [ROwn 9] [];
                                     DictSet (ROwn 110) 1 (ROwn 111); Call (ROwn 112) F_NEQ [ROwn 5; ROwn 111] [];
                                     DictSet (ROwn 110) 2 (ROwn 112)]
                       else [Move (ROwn 9) (ROwn 3)]) ++
                      weighted_add (ROwn 9) (RIn 11))
           (indexed 0 cids) ++
  mean_end ++ grads_pass cids ++ mime_update.

(* AgnosticFedAvg (agnostic_fed_avg.py:253-312), window of W arrays in a list.  The per-client
   domain metrics live in registers ROwn (300 + i) (the fresh dict that holds them in the code is
   only read); batch_clients is a fresh list filled by append. *)
Definition script_agnostic (W : nat) (cids : list Z) : list cmd :=
  [Field (RIn 2) st_r 0; Field (RIn 3) st_r 1; Field (RIn 4) st_r 2; Field (RIn 5) st_r 3] ++
  map (fun j => Index (RIn (40 + j)) (RIn 5) j) (seq 0 W) ++
  [Call (ROwn 40) F_ALPHA (RIn 4 :: map (fun j => RIn (40 + j)) (seq 0 W)) []] ++
  (* first pass: domain metrics per client *)
  flat_map (fun ic : nat * Z => open_client (fst ic) ++ run_client [RIn 2; ROwn 40] [] (ROwn 3) ++ [Move (ROwn (300 + fst ic)) (ROwn 3)])
           (indexed 0 cids) ++
  (* batch_clients = []; for ...: batch_clients.append((cid, batches, {'rng': crng, 'beta': ...})) *)
  [ListNew (ROwn 44)] ++
  flat_map (fun ic : nat * Z => open_client (fst ic) ++
                      [Call (ROwn 45) F_BETA [ROwn (300 + fst ic)] []; DictOf (ROwn 46) [(0%Z, RIn 12); (1%Z, ROwn 45)];
                       MkRec (ROwn 47) [RIn 10; RIn 11; ROwn 46]; ListAppend (ROwn 44) (ROwn 47)])
           (indexed 0 cids) ++
  mean_begin (RIn 2) ++
  (* second pass: training with beta from the metrics; the metric is also the weight *)
  flat_map (fun ic : nat * Z => open_client (fst ic) ++
                      run_client [RIn 2; ROwn 40] [ROwn (300 + fst ic)] (ROwn 3) ++
                      weighted_add (ROwn 3) (ROwn (300 + fst ic)) ++ set_diag (ROwn 3) (snd ic))
           (indexed 0 cids) ++
  mean_end ++
  (* tree_sum over the metrics of all clients *)
  [Call (ROwn 30) F_NONE [] []] ++
  flat_map (fun ic : nat * Z => sum_step (fst ic) (ROwn (300 + fst ic))) (indexed 0 cids) ++
  server_opt (ROwn 6) (RIn 3) (RIn 2) ++
  [Call (ROwn 42) F_EG [RIn 4; ROwn 30] [];
   ListSliceApp (ROwn 43) (RIn 5) 1 (ROwn 30);             (* domain_window[1:] + [sum_domain_num] *)
   MkRec res_state [ROwn 8; ROwn 7; ROwn 42; ROwn 43]].

(* HypCluster (hyp_cluster.py:92-134, 224-303): K clusters; assign = cluster of each client
   (result of the pure argmin); live k = cluster k saw at least one example.
   cluster_losses = {cid: [] ...}: one fresh list per client (ROwn (400+i)) appended to once per
   cluster; the running sums / counts are list comprehensions written by index. *)
Definition script_hyp (K : nat) (cids : list Z) (assign : list nat) (live : list bool) : list cmd :=
  [Field (RIn 2) st_r 0; Field (RIn 3) st_r 1] ++
  flat_map (fun k => [Index (RIn (20 + k)) (RIn 2) k; Index (RIn (60 + k)) (RIn 3) k]) (seq 0 K) ++
  (* maximization: average loss of every client on every cluster, then argmin *)
  map (fun ic : nat * Z => ListNew (ROwn (400 + fst ic))) (indexed 0 cids) ++
  [DictOf (ROwn 52) (map (fun ic : nat * Z => (snd ic, ROwn (400 + fst ic))) (indexed 0 cids))] ++
  flat_map (fun k => flat_map (fun ic : nat * Z => open_client (fst ic) ++
                        [Call (ROwn 50) F_LOSS [RIn (20 + k); RIn 11; RIn 12] []; ListAppend (ROwn (400 + fst ic)) (ROwn 50)])
                        (indexed 0 cids)) (seq 0 K) ++
  [Call (ROwn 51) F_ARGMIN [] []] ++
  (* expectation: per-cluster running sums and example counts *)
  flat_map (fun k => [Call (ROwn (500 + k)) F_ZEROS [RIn (20 + k)] []; Call (ROwn (520 + k)) F_NONE [] []]) (seq 0 K) ++
  [ListOf (ROwn 70) (map (fun k => ROwn (500 + k)) (seq 0 K)); ListOf (ROwn 71) (map (fun k => ROwn (520 + k)) (seq 0 K))] ++
  flat_map (fun ica : (nat * Z) * nat => let i := fst (fst ica) in let a := snd ica in
                       open_client i ++ run_client [] [RIn (20 + a)] (ROwn 3) ++
                       [Index (RIn 14) (ROwn 70) a; Call (ROwn 4) F_WEIGHT [ROwn 3; RIn 11] [];
                        Call (ROwn 5) F_ADD [RIn 14; ROwn 4] []; ListSet (ROwn 70) a (ROwn 5);
                        Index (RIn 18) (ROwn 71) a; Call (ROwn 53) F_ADDN [RIn 18; RIn 11] []; ListSet (ROwn 71) a (ROwn 53)])
           (combine (indexed 0 cids) assign) ++
  [ListNew (ROwn 72)] ++
  flat_map (fun kl : nat * bool => let k := fst kl in
                      if snd kl
                      then [Index (RIn 14) (ROwn 70) k; Index (RIn 18) (ROwn 71) k; Call (ROwn 6) F_INVW [RIn 14; RIn 18] [];
                            ListAppend (ROwn 72) (ROwn 6)]
                      else [Call (ROwn 6) F_NONE [] []; ListAppend (ROwn 72) (ROwn 6)])
           (combine (seq 0 K) live) ++
  (* apply: new lists of cluster params / optimizer states; an empty cluster keeps the very objects *)
  [ListNew (ROwn 80); ListNew (ROwn 81)] ++
  flat_map (fun kl : nat * bool => let k := fst kl in
                      if snd kl
                      then [Index (RIn 19) (ROwn 72) k] ++ server_opt (RIn 19) (RIn (60 + k)) (RIn (20 + k)) ++
                           [ListAppend (ROwn 80) (ROwn 8); ListAppend (ROwn 81) (ROwn 7)]
                      else [ListAppend (ROwn 80) (RIn (20 + k)); ListAppend (ROwn 81) (RIn (60 + k))])
           (combine (seq 0 K) live) ++
  [DictNew res_diag] ++
  flat_map (fun ic : nat * Z => [Call (ROwn 54) F_ARGMIN [ROwn 51] []; DictOf (ROwn 110) [(0%Z, ROwn 54)];
                                 DictSet res_diag (snd ic) (ROwn 110)]) (indexed 0 cids) ++
  [MkRec res_state [ROwn 80; ROwn 81]].

(* APFL (apfl.py:185-236).  inplace = true is the pre-fix code that wrote into the input table. *)
Definition script_apfl_gen (inplace : bool) (cids : list Z) : list cmd :=
  let table := if inplace then RIn 4 else ROwn 32 in
  [Field (RIn 2) st_r 0; Field (RIn 3) st_r 1; Field (RIn 4) st_r 2;
   Call (ROwn 33) F_COEF [RIn 2] []; MkRec (ROwn 31) [RIn 2; ROwn 33]] ++
  (if inplace then [] else [DictCopy (ROwn 32) (RIn 4)]) ++
  mean_begin (RIn 2) ++
  flat_map (fun ic : nat * Z => open_client (fst ic) ++
                      [DictGet (RIn 13) (RIn 4) (snd ic) (ROwn 31); Field (RIn 14) (RIn 13) 0; Field (RIn 15) (RIn 13) 1;
                       Call (ROwn 1) F_INIT [RIn 2; RIn 14; RIn 15; RIn 12]
                            (pick_don_Z Gen_for_each_client.jit_init_donates [[RIn 2]; [RIn 14; RIn 15; RIn 12]]);
                       Call (ROwn 2) F_STEPS [ROwn 1; RIn 11] (pick_don_Z Gen_for_each_client.jit_step_donates [[ROwn 1]; [RIn 11]]);
                       Call (ROwn 34) F_FINAL2 [RIn 2; ROwn 2] []; Call (ROwn 35) F_FINAL3 [RIn 2; ROwn 2] [];
                       Call (ROwn 3) F_FINAL [RIn 2; ROwn 2] (pick_don_Z Gen_for_each_client.jit_final_donates [[RIn 2]; [ROwn 2]]);
                       MkRec (ROwn 36) [ROwn 34; ROwn 35]; DictSet table (snd ic) (ROwn 36)] ++
                      accumulate (ROwn 3) (snd ic))
           (indexed 0 cids) ++
  mean_end ++ server_opt (ROwn 6) (RIn 3) (RIn 2) ++ [MkRec res_state [ROwn 8; ROwn 7; table]].

Definition script_apfl := script_apfl_gen false.

(* ---- compression aggregators (compression.py); state = [num_bits; rng] ------------------
   RIn 5 = the key stored in the new state; ROwn 21 = hk.PRNGSequence state.
   tree_mean (tree_util.py:76-96): weighted copies, the first one owned, later ones added with the
   accumulator donated, the final inverse weighting donates the sum (gen/Gen_tree_util.v). *)
Definition mean_step (i : nat) (x : reg) : list cmd :=
  [Call (ROwn 23) F_WEIGHT [x; RIn 12] (pick_don Gen_tree_util.tree_weight_donates [[x]; [RIn 12]])] ++
  match i with
  | O => [Move (ROwn 24) (ROwn 23)]                                  (* we own weighted_pytree *)
  | S _ => [Call (ROwn 24) F_ADD [ROwn 24; ROwn 23] (pick_don Gen_tree_util.tree_add_eq_donates [[ROwn 24]; [ROwn 23]])]
  end.

Definition agg_finish : list cmd :=
  [Call res_agg F_INVW [ROwn 24] (pick_don Gen_tree_util.tree_weight_eq_donates [[ROwn 24]]);
   Call (ROwn 26) F_BITS [RIn 2; res_agg] []; MkRec res_state [ROwn 26; RIn 5]].

(* uniform_stochastic_quantizer (176-218) and terngrad_quantizer (380-400): rng, use_rng = split(state.rng);
   arith = encode_algorithm == 'arithmetic': a per-call list total_bits collects one entry per client *)
Definition script_quant1 (arith : bool) (cids : list Z) : list cmd :=
  [Field (RIn 2) st_r 0; Field (RIn 3) st_r 1;
   Call (RIn 5) F_SPLIT0 [RIn 3] []; Call (ROwn 21) F_SPLIT1 [RIn 3] []; Call (ROwn 24) F_NONE [] []] ++
  (if arith then [ListNew (ROwn 60)] else []) ++
  flat_map (fun ic : nat * Z => open_client (fst ic) ++
                      [Call (ROwn 22) F_SEQKEY [ROwn 21] []; Call (ROwn 21) F_SEQREST [ROwn 21] [];
                       Call (ROwn 25) F_QUANT [RIn 11; ROwn 22] []] ++
                      (if arith then [Call (ROwn 61) F_ABITS [ROwn 25] []; ListAppend (ROwn 60) (ROwn 61)] else []) ++
                      mean_step (fst ic) (ROwn 25))
           (indexed 0 cids) ++ agg_finish.

(* rotated_uniform_stochastic_quantizer (240-267): rng, rotation = split(state.rng); rng, use = split(rng) *)
Definition script_rotated (cids : list Z) : list cmd :=
  [Field (RIn 2) st_r 0; Field (RIn 3) st_r 1;
   Call (RIn 6) F_SPLIT0 [RIn 3] []; Call (ROwn 27) F_SPLIT1 [RIn 3] [];
   Call (RIn 5) F_SPLIT0 [RIn 6] []; Call (ROwn 21) F_SPLIT1 [RIn 6] []; Call (ROwn 24) F_NONE [] []] ++
  flat_map (fun ic : nat * Z => open_client (fst ic) ++
                      [Call (ROwn 22) F_SEQKEY [ROwn 21] []; Call (ROwn 21) F_SEQREST [ROwn 21] [];
                       Call (ROwn 28) F_ROT [RIn 11; ROwn 27] [];
                       Call (ROwn 25) F_QUANT [ROwn 28; ROwn 22; ROwn 27] []] ++ mean_step (fst ic) (ROwn 25))
           (indexed 0 cids) ++ agg_finish.

(* structured_drive_quantizer (300-325): rng, rotation_rng = split(state.rng); PRNGSequence(rotation_rng) *)
Definition script_drive (cids : list Z) : list cmd :=
  [Field (RIn 2) st_r 0; Field (RIn 3) st_r 1;
   Call (RIn 5) F_SPLIT0 [RIn 3] []; Call (ROwn 21) F_SPLIT1 [RIn 3] []; Call (ROwn 24) F_NONE [] []] ++
  flat_map (fun ic : nat * Z => open_client (fst ic) ++
                      [Call (ROwn 22) F_SEQKEY [ROwn 21] []; Call (ROwn 21) F_SEQREST [ROwn 21] [];
                       Call (ROwn 28) F_ROT [RIn 11; ROwn 22] [];
                       Call (ROwn 25) F_QUANT [ROwn 28; ROwn 22] []] ++ mean_step (fst ic) (ROwn 25))
           (indexed 0 cids) ++ agg_finish.

(* ---- which script ------------------------------------------------------------------------ *)
Inductive C10_alg := AFedAvg | AFedProx | AMime | AMimeLite | AAgnostic | AHyp | AApfl
                   | QUniform | QUniformArith | QRotated | QDrive | QTern.

Record C10_round := mkRd { rd_cids : list Z; rd_assign : list nat; rd_live : list bool }.

Definition script_of (a : C10_alg) (W K : nat) (rd : C10_round) : list cmd :=
  match a with
  | AFedAvg | AFedProx => script_fedavg (rd_cids rd)
  | AMime => script_mime (rd_cids rd)
  | AMimeLite => script_mimelite true (rd_cids rd)
  | AAgnostic => script_agnostic W (rd_cids rd)
  | AHyp => script_hyp K (rd_cids rd) (rd_assign rd) (rd_live rd)
  | AApfl => script_apfl (rd_cids rd)
  | QUniform | QTern => script_quant1 false (rd_cids rd)
  | QUniformArith => script_quant1 true (rd_cids rd)
  | QRotated => script_rotated (rd_cids rd)
  | QDrive => script_drive (rd_cids rd)
  end.

(* ---- building stores from a case ------------------------------------------------------------ *)
Inductive slot_desc := SA (id : nat) | SL (ids : list nat) | SD (kvs : list (Z * nat)).

Definition max_id (d : slot_desc) : nat :=
  match d with SA i => i | SL l => fold_right Nat.max 0 l | SD kvs => fold_right Nat.max 0 (map snd kvs) end.

(* arrays for ids 0..m at locations 0..m, then one container per SL / SD slot, then the record *)
Definition init_store (ds : list slot_desc) : store * nat :=
  let m := fold_right Nat.max 0 (map max_id ds) in
  let s0 := map (fun i => CArr (VAtom (Z.of_nat i)) false) (seq 0 (S m)) in
  let step := fun (acc : store * list nat) d =>
    let '(s, fs) := acc in
    match d with
    | SA i => (s, fs ++ [i])
    | SL l => (s ++ [CList l], fs ++ [length s])
    | SD kvs => (s ++ [CDict kvs], fs ++ [length s])
    end in
  let '(s1, fs) := fold_left step ds (s0, []) in
  (s1 ++ [CRec fs], length s1).

(* the client tuple of a round is itself built by a script: one record [cid; dataset; rng]
   of fresh arrays per client, collected in a list *)
Definition client_script (rnd : Z) (cids : list Z) : list cmd :=
  [ListNew (ROwn 200)] ++
  flat_map (fun cid : Z => [Call (ROwn 201) (10000 + cid)%Z [] []; Call (ROwn 202) (20000 + cid)%Z [] [];
                        Call (ROwn 203) (30000 + 100 * rnd + cid)%Z [] [];
                        MkRec (ROwn 204) [ROwn 201; ROwn 202; ROwn 203]; ListAppend (ROwn 200) (ROwn 204)]) cids.

Definition add_clients (s : store) (rnd : Z) (cids : list Z) : option (store * nat) :=
  match exec (client_script rnd cids) (mkSt s []) with
  | Some σ => match lookup (ven σ) (ROwn 200) with Some l => Some (sto σ, l) | None => None end
  | None => None
  end.

(* a heap whose cells mention only existing locations: the hypothesis `closed` of C10_repeatable, as a
   boolean that run_round ASSERTS on the store of every round (a case violating it is a disagreement) *)
Definition cell_locs (c : cell) : list nat :=
  match c with CArr _ _ => [] | CDict kvs => map snd kvs | CList l => l | CRec l => l end.
Definition closedb (s : store) : bool :=
  forallb (fun c => forallb (fun x => Nat.ltb x (length s)) (cell_locs c)) s.

(* one call of apply(): the clients are allocated, then the algorithm's script runs with
   exactly two bindings: the state and the client tuple *)
Definition apply_round (a : C10_alg) (W K : nat) (s : store) (st_loc : nat) (rnd : Z) (rd : C10_round) : option st :=
  match add_clients s rnd (rd_cids rd) with
  | Some (s1, cl) => exec (script_of a W K rd) (mkSt s1 [(st_r, st_loc); (cl_r, cl)])
  | None => None
  end.

Definition next_state (σ : st) : option (store * nat) :=
  match lookup (ven σ) res_state with Some ns => Some (sto σ, ns) | None => None end.

(* a history: every round starts from the state the previous one returned *)
Fixpoint run_hist (a : C10_alg) (W K : nat) (s : store) (st_loc : nat) (rnd : Z) (rds : list C10_round)
  : option (store * nat) :=
  match rds with
  | [] => Some (s, st_loc)
  | rd :: r => match apply_round a W K s st_loc rnd rd with
               | Some σ => match next_state σ with
                           | Some (s', ns) => run_hist a W K s' ns (rnd + 1)%Z r
                           | None => None end
               | None => None
               end
  end.

(* ---- observations ----------------------------------------------------------------------------- *)
Inductive pat := POld (slot idx : nat) | PNew | PMixed.

Definition pat_eqb (a b : pat) : bool :=
  match a, b with
  | POld i j, POld i' j' => Nat.eqb i i' && Nat.eqb j j'
  | PNew, PNew => true
  | PMixed, PMixed => true
  | _, _ => false
  end.

Record C10_robs := mkRO { ro_writes : nat; ro_pattern : list (list pat); ro_keys : list Z; ro_rngdepth : nat }.
Record C10_case := mkC10 { c_alg : C10_alg; c_W : nat; c_K : nat; c_init : list slot_desc; c_rounds : list C10_round }.

(* a state record flattened to its slots' element locations (dict slots in key order) *)
Definition slot_elems (s : store) (l : nat) : list nat :=
  match nth_error s l with
  | Some (CList items) => items
  | Some (CDict kvs) => map snd kvs
  | _ => [l]
  end.

Definition flatten_state (s : store) (st_loc : nat) : list (list nat) :=
  match nth_error s st_loc with Some (CRec fs) => map (slot_elems s) fs | _ => [] end.

Fixpoint find_in_row (x : nat) (j : nat) (row : list nat) : option nat :=
  match row with [] => None | y :: r => if Nat.eqb x y then Some j else find_in_row x (S j) r end.

Fixpoint find_elem (x : nat) (i : nat) (rows : list (list nat)) : option (nat * nat) :=
  match rows with
  | [] => None
  | row :: r => match find_in_row x 0 row with Some j => Some (i, j) | None => find_elem x (S i) r end
  end.

Definition pattern_of (old new : list (list nat)) : list (list pat) :=
  map (map (fun x => match find_elem x 0 old with Some (i, j) => POld i j | None => PNew end)) new.

Definition dict_keys (s : store) (st_loc : nat) : list Z :=
  match nth_error s st_loc with
  | Some (CRec fs) => flat_map (fun f => match nth_error s f with Some (CDict kvs) => map fst kvs | _ => [] end) fs
  | _ => []
  end.

(* depth of a key below its root on the all-zero split path *)
Fixpoint split0_depth (v : val) : nat :=
  match v with
  | VApp f (VPair k VNil) => if Z.eqb f F_SPLIT0 then S (split0_depth k) else 0
  | _ => 0
  end.

Definition is_agg (a : C10_alg) : bool :=
  match a with QUniform | QUniformArith | QRotated | QDrive | QTern => true | _ => false end.

Definition rng_depth (a : C10_alg) (s : store) (st_loc : nat) : nat :=
  if is_agg a then
    match nth_error s st_loc with
    | Some (CRec [_; r]) => match nth_error s r with Some (CArr v _) => split0_depth v | _ => 0 end
    | _ => 0
    end
  else 0.

(* one round: allocate the clients, run the script, observe *)
Definition run_round (a : C10_alg) (W K : nat) (s : store) (st_loc : nat) (rnd : Z) (rd : C10_round)
  : option (store * nat * C10_robs) :=
  match add_clients s rnd (rd_cids rd), apply_round a W K s st_loc rnd rd with
  | Some (s1, _), Some σ =>
      if negb (closedb s1) then None else
      match next_state σ with
      | None => None
      | Some (s2, ns) =>
          Some (s2, ns, mkRO (length (written (length s1) s1 s2))
                             (pattern_of (flatten_state s1 st_loc) (flatten_state s2 ns))
                             (dict_keys s2 ns) (rng_depth a s2 ns))
      end
  | _, _ => None
  end.

Fixpoint run_rounds (a : C10_alg) (W K : nat) (s : store) (st_loc : nat) (rnd : Z) (rds : list C10_round)
  : option (list C10_robs) :=
  match rds with
  | [] => Some []
  | rd :: r => match run_round a W K s st_loc rnd rd with
               | None => None
               | Some (s', ns, o) => option_map (cons o) (run_rounds a W K s' ns (rnd + 1) r)
               end
  end.

Definition C10_run (c : C10_case) : option (list C10_robs) :=
  let '(s, l) := init_store (c_init c) in run_rounds (c_alg c) (c_W c) (c_K c) s l 0 (c_rounds c).

Definition robs_eqb (a b : C10_robs) : bool :=
  Nat.eqb (ro_writes a) (ro_writes b) && list_beq (list_beq pat_eqb) (ro_pattern a) (ro_pattern b) &&
  list_beq Z.eqb (ro_keys a) (ro_keys b) && Nat.eqb (ro_rngdepth a) (ro_rngdepth b).

Definition C10_agree (c : C10_case) (o : list C10_robs) : bool :=
  match C10_run c with Some m => list_beq robs_eqb m o | None => false end.
