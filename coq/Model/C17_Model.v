(* C17 executable model (definitions only).  Source references are to /repo/fedjax.

   eg_update          agnostic_fed_avg.py:148-160 update_domain_weights('eg'), the factors
                      e_i = exp(lr * loss_i) are supplied (exp never appears in the model)
   window_update      agnostic_fed_avg.py:314  domain_window[1:] + [sum_domain_num]
   clip01 / apfl_run  apfl.py:124-131  optimizer step on the coefficient, then jnp.clip(x, 0, 1)
   table_step         apfl.py:206-214  client_states = dict(old); client_states[cid] = new state
   argmin_first       hyp_cluster.py:259-265  jnp.argmin (first minimal index)
   cluster_sums/...   hyp_cluster.py:268-303  expectation_step, 117-128 server step per cluster
   clip_scale/...     tree_util.py:117-133 tree_clip_by_global_norm, mime_lite.py:137-150
   ignore_apply       optimizers.py:69-109 ignore_grads_haiku *)
From Coq Require Import ZArith QArith Qminmax Qabs List Bool.
From FV Require Import Common.ListX Common.CMonoid Common.NanQ Common.QVec.
From FV Require gen.Gen_c17_agnostic gen.Gen_c17_hyp_cluster gen.Gen_c17_apfl.
Import ListNotations.
Local Open Scope Q_scope.

(* ---- agnostic: exponentiated gradient and the window ------------------------------------ *)
(* same shape as the translated code (gen/Gen_c17_agnostic.v, update_domain_weights_eg):
   new = w * e; new = maximum(new, zeros_like(new)); new / sum(new) *)
Definition eg_raw (w e : list Q) : list Q := let m := map2 Qmult w e in map2 Qmax m (map (fun _ => 0) m).
Definition eg_update (w e : list Q) : list Q := let r := eg_raw w e in map (fun x => x / qsum r) r.

Fixpoint eg_run (w : list Q) (es : list (list Q)) : list Q :=
  match es with [] => w | e :: r => eg_run (eg_update w e) r end.

(* the TRANSLATED expression domain_window[1:] + [sum_domain_num] *)
Definition window_update {A} (win : list A) (x : A) : list A := Gen_c17_agnostic.window_shift win x.
Definition window_run {A} (init hist : list A) : list A := fold_left window_update hist init.

(* ---- APFL: coefficients and the per-client table -------------------------------------------- *)
(* jnp.clip(x, lo, hi) = minimum(maximum(x, lo), hi) with the TRANSLATED bounds *)
Definition clip01 (x : Q) : Q := Qmin (Qmax x Gen_c17_apfl.apfl_clip_lo) Gen_c17_apfl.apfl_clip_hi.
Definition apfl_coef_step (lr a g : Q) : Q := clip01 (a - lr * g).
Definition apfl_run (lr a0 : Q) (gs : list Q) : Q := fold_left (apfl_coef_step lr) gs a0.

(* tables are association lists sorted by key (client id) *)
Fixpoint table_set {V} (t : list (Z * V)) (k : Z) (v : V) : list (Z * V) :=
  match t with
  | [] => [(k, v)]
  | (k', v') :: r => if Z.eqb k k' then (k, v) :: r
                     else if Z.ltb k k' then (k, v) :: (k', v') :: r
                     else (k', v') :: table_set r k v
  end.

Fixpoint table_get {V} (t : list (Z * V)) (k : Z) : option V :=
  match t with [] => None | (k', v) :: r => if Z.eqb k k' then Some v else table_get r k end.

(* one round: the input table is copied and the participants' entries are overwritten *)
Definition table_step {V} (t : list (Z * V)) (outs : list (Z * V)) : list (Z * V) :=
  fold_left (fun acc kv => table_set acc (fst kv) (snd kv)) outs t.

Definition table_run {V} (rounds : list (list (Z * V))) : list (Z * V) := fold_left table_step rounds [].

(* ---- HypCluster -------------------------------------------------------------------------------- *)
Fixpoint argmin_from (best : Q) (bi i : nat) (l : list Q) : nat :=
  match l with
  | [] => bi
  | x :: r => if Qltb x best then argmin_from x i (S i) r else argmin_from best bi (S i) r
  end.
Definition argmin_first (l : list Q) : nat := match l with [] => O | x :: r => argmin_from x 0 1 r end.

(* a client: (assigned cluster, number of examples, delta) *)
Definition hclient := (nat * Q * vec)%type.

Fixpoint upd_nth {A} (l : list A) (i : nat) (f : A -> A) : list A :=
  match l, i with
  | [], _ => []
  | x :: r, O => f x :: r
  | x :: r, S i' => x :: upd_nth r i' f
  end.

Definition cluster_step (acc : list (vec * Q)) (c : hclient) : list (vec * Q) :=
  let '(a, n, d) := c in upd_nth acc a (fun st => (vadd (fst st) (vscale n d), snd st + n)).

(* running sums exactly as expectation_step keeps them: one (sum, count) per cluster *)
Definition cluster_sums (K dim : nat) (cl : list hclient) : list (vec * Q) :=
  fold_left cluster_step cl (repeat (vzero dim, 0) K).

(* weighted average, or None when the cluster saw no example *)
Definition cluster_delta (st : vec * Q) : option vec :=
  Gen_c17_hyp_cluster.cluster_delta_gen (fun s n => vscale (/ n) s) (fst st) (snd st).

Definition cluster_deltas (K dim : nat) (cl : list hclient) : list (option vec) :=
  map cluster_delta (cluster_sums K dim cl).

(* the server step for one cluster, generic in the server optimizer *)
Definition hyp_server_step {S} (opt : vec -> S -> vec -> S * vec) (d : option vec) (s : S) (p : vec) : S * vec :=
  Gen_c17_hyp_cluster.hyp_server_step_gen opt d s p.

(* SGD with momentum as optax implements it: trace' = g + m * trace, p' = p - lr * trace' *)
Definition sgd_mom (lr mom : Q) (g t p : vec) : vec * vec :=
  let t' := vadd g (vscale mom t) in (t', vsub p (vscale lr t')).

(* ---- MimeLite: clip by global norm, then aggregate ------------------------------------------------ *)
(* n is the norm of the delta (a parameter with n*n == sumsq delta in the theorems) *)
(* scale = jnp.where(global_norm > max_norm, max_norm / global_norm, 1.) *)
Definition clip_scale (bound n : Q) : Q := if Qltb bound n then bound / n else 1.
Definition clip_delta (bound : Q) (d : vec) (n : Q) : vec := vscale (clip_scale bound n) d.

(* a client: (number of examples, delta, norm of delta) *)
Definition mclient := (Q * vec * Q)%type.
Definition clipped_clients (bound : Q) (cl : list mclient) : list (Q * vec) :=
  map (fun c => let '(n, d, nd) := c in (n, clip_delta bound d nd)) cl.

Definition wsum_clients (dim : nat) (cl : list (Q * vec)) : vec * Q :=
  fold_left (fun acc c => (vadd (fst acc) (vscale (fst c) (snd c)), snd acc + fst c)) cl (vzero dim, 0).

Definition mean_clients (dim : nat) (cl : list (Q * vec)) : vec :=
  let '(s, t) := wsum_clients dim cl in vscale (if Qltb 0 t then / t else 0) s.

Definition mimelite_params (bound slr : Q) (p : vec) (cl : list mclient) : vec :=
  vsub p (vscale slr (mean_clients (length p) (clipped_clients bound cl))).

(* ---- ignore_grads --------------------------------------------------------------------------------- *)
Section Ignore.
Context {K V S : Type} (named : K -> bool) (keqb : K -> K -> bool).
Definition tree := list (K * V).

Definition restrict (t : tree) : tree := filter (fun kv => negb (named (fst kv))) t.

Fixpoint tree_get (t : tree) (k : K) : option V :=
  match t with [] => None | (k', v) :: r => if keqb k k' then Some v else tree_get r k end.

(* named leaves keep the caller's value, the others take the base optimizer's result *)
Definition put_back (orig result : tree) : tree :=
  map (fun kv => if named (fst kv) then kv
                 else (fst kv, match tree_get result (fst kv) with Some v => v | None => snd kv end)) orig.

Definition ignore_apply (base : tree -> S -> tree -> S * tree) (g : tree) (s : S) (p : tree) : S * tree :=
  let '(s', p') := base (restrict g) s (restrict p) in (s', put_back p p').
End Ignore.

Definition sgd_tree (lr : Q) (g : list (nat * Q)) (s : unit) (p : list (nat * Q)) : unit * list (nat * Q) :=
  (s, map (fun kv => (fst kv, snd kv - lr * match tree_get Nat.eqb g (fst kv) with Some x => x | None => 0 end)) p).

(* ---- correspondence ---------------------------------------------------------------------------------- *)
Inductive C17_in :=
| IEg (w e : list Q)
| IWin (win : list (list Z)) (cnt : list Z)
| IApfl (a0 lr : Q) (gs : list Q)
| IKeys (prev cids : list Z)
| IArgmin (losses : list Q)
| ICluster (K : nat) (lr mom : Q) (P T : list vec) (cl : list hclient)
| IClip (bound slr : Q) (p : vec) (cl : list mclient)
| IClipD (bound : Q) (d : vec) (n : Q)            (* tree_clip_by_global_norm called directly *)
| IIgnore (lr : Q) (leaves : list (bool * Q * Q)).

Inductive C17_out :=
| OVec (v : list Q)
| OWin (w : list (list Z))
| OKeys (k : list Z)
| ONat (n : nat)
| OCluster (P T : list vec) (untouched : list bool).

Definition tol : Q := 1 # 10000.
Definition close (a b : Q) : bool := Qle_bool (Qabs (a - b)) (tol * (1 + Qabs b)).
Fixpoint close_vec (a b : list Q) : bool :=
  match a, b with
  | [], [] => true
  | x :: a', y :: b' => close x y && close_vec a' b'
  | _, _ => false
  end.

Definition on_simplex (w : list Q) : bool :=
  forallb (fun x => Qle_bool 0 x) w && close (qsum w) 1.

Definition implb_list (a b : list bool) : bool :=
  Nat.eqb (length a) (length b) && forallb (fun ab => implb (fst ab) (snd ab)) (combine a b).

Definition indexed_leaves (l : list (bool * Q * Q)) : list (nat * (bool * Q * Q)) := combine (seq 0 (length l)) l.

(* the hypotheses of the C17 theorems, asserted on every generated instance: a case that does not satisfy them
   is a DISAGREEMENT (it is not silently skipped) *)
Definition hyp_ok (i : C17_in) : bool :=
  match i with
  | IEg w e => Nat.eqb (length w) (length e) && forallb (Qle_bool 0) w && Qltb 0 (qsum w) && forallb (Qltb 0) e
  | IWin win _ => match win with [] => false | _ => true end                       (* W >= 1 *)
  | IApfl a0 _ _ => Qle_bool 0 a0 && Qle_bool a0 1
  | IClip bound _ _ cl => Qle_bool 0 bound && forallb (fun c : mclient => Qle_bool 0 (snd c) && Qle_bool 0 (fst (fst c))) cl
  | IClipD bound _ n => Qle_bool 0 bound && Qle_bool 0 n
  | ICluster K _ _ P T cl => Nat.eqb (length P) K && Nat.eqb (length T) K && forallb (fun c : hclient => Qle_bool 0 (snd (fst c))) cl
  | IArgmin ls => match ls with [] => false | _ => true end
  | IKeys _ _ | IIgnore _ _ => true
  end.

Definition C17_check_body (i : C17_in) (o : C17_out) : bool :=
  match i, o with
  | IEg w e, OVec w' => close_vec (eg_update w e) w' && on_simplex w' && on_simplex (eg_update w e)
  | IWin win cnt, OWin win' => list_beq (list_beq Z.eqb) (window_update win cnt) win'
  | IApfl a0 lr gs, OVec [a] => close (apfl_run lr a0 gs) a && Qle_bool 0 a && Qle_bool a 1
  | IKeys prev cids, OKeys ks =>
      list_beq Z.eqb (map fst (table_step (map (fun k => (k, tt)) prev) (map (fun k => (k, tt)) cids))) ks
  | IArgmin ls, ONat a => Nat.eqb (argmin_first ls) a
  | ICluster K lr mom P T cl, OCluster P' T' unt =>
      let ds := cluster_deltas K 3 cl in
      let res := map (fun dtp => let '(d, t, p) := dtp in
                        hyp_server_step (fun g t p => sgd_mom lr mom g t p) d t p) (combine (combine ds T) P) in
      Nat.eqb (length res) K &&
      list_beq close_vec (map snd res) P' && list_beq close_vec (map fst res) T' &&
      implb_list (map (fun d => match d with None => true | Some _ => false end) ds) unt
  | IClip bound slr p cl, OVec p' => close_vec (mimelite_params bound slr p cl) p'
  | IClipD bound d n, OVec r => close_vec (clip_delta bound d n) r
  | IIgnore lr leaves, OVec p' =>
      let il := indexed_leaves leaves in
      let named := fun k => match nth_error leaves k with Some (b, _, _) => b | None => false end in
      let p := map (fun x => (fst x, snd (fst (snd x)))) il in
      let g := map (fun x => (fst x, snd (snd x))) il in
      let '(_, r) := ignore_apply named Nat.eqb (sgd_tree lr) g tt p in
      list_beq Qeq_bool (map snd r) p'
  | _, _ => false
  end.

Definition C17_check (i : C17_in) (o : C17_out) : bool := hyp_ok i && C17_check_body i o.

Fixpoint check_all (ins : list C17_in) (outs : list C17_out) : bool :=
  match ins, outs with
  | [], [] => true
  | i :: ins', o :: outs' => C17_check i o && check_all ins' outs'
  | _, _ => false
  end.

Definition C17_agree (ins : list C17_in) (outs : list C17_out) : bool := check_all ins outs.
