(* C20 executable model: packaged preprocessors (Shakespeare tokeniser, CIFAR-100 crops
   and standardisation, EMNIST domain ids, Stack Overflow tokenizer) built from the
   index arithmetic and constants translated on this run (coq/gen/Gen_ds_*.v,
   Gen_md_*.v, Gen_tasks.v), plus the correspondence predicate. *)
From Coq Require Import ZArith QArith Qabs List Bool Lia.
From FV Require Import Common.ListX Common.PySem Common.Chunk.
From FV Require Import gen.Gen_ds_shakespeare gen.Gen_md_shakespeare gen.Gen_ds_stackoverflow gen.Gen_md_stackoverflow
  gen.Gen_ds_cifar100 gen.Gen_ds_emnist gen.Gen_tasks gen.Gen_md_cifar100 gen.Gen_ds_cifar100_defaults
  gen.Gen_ds_shakespeare_defaults gen.Gen_md_shakespeare_loss gen.Gen_md_stackoverflow_loss gen.Gen_ds_cifar100_norm.
From FV Require Import Common.QRow.
Import ListNotations.
Local Open Scope Z_scope.

Module SH := Gen_ds_shakespeare.
Module SHM := Gen_md_shakespeare.
Module SO := Gen_ds_stackoverflow.
Module SOM := Gen_md_stackoverflow.
Module CF := Gen_ds_cifar100.
Module EM := Gen_ds_emnist.
Module TK := Gen_tasks.

Definition len {A} (l : list A) : Z := Z.of_nat (length l).

(* ---------- numpy / python sequence semantics used by preprocess_client ---------- *)
(* l[pos : pos + len src] = src for an in-range window; None = numpy raises *)
Definition np_write (l : list Z) (pos : Z) (src : list Z) : option (list Z) :=
  if (0 <=? pos) && (pos + len src <=? len l)
  then Some (firstn (Z.to_nat pos) l ++ src ++ skipn (Z.to_nat (pos + len src)) l)
  else None.

(* python slice index normalisation: negative counts from the end, then clamp *)
Definition norm_idx (n i : Z) : Z := Z.max 0 (Z.min n (if i <? 0 then i + n else i)).
Definition slice_bounds (n : Z) (lo hi : option Z) : Z * Z :=
  (match lo with None => 0 | Some i => norm_idx n i end, match hi with None => n | Some i => norm_idx n i end).

(* l[lo:hi] *)
Definition py_slice_opt {A} (l : list A) (lo hi : option Z) : list A :=
  let '(a, b) := slice_bounds (len l) lo hi in firstn (Z.to_nat (b - a)) (skipn (Z.to_nat a) l).

(* l[lo:hi] = src : numpy requires the selected length to equal len src (no broadcasting
   of a longer/shorter vector) *)
Definition np_assign_slice (l : list Z) (lo hi : option Z) (src : list Z) : option (list Z) :=
  let '(a, b) := slice_bounds (len l) lo hi in
  if Z.max 0 (b - a) =? len src then np_write l a src else None.

(* ---------- Shakespeare ---------- *)
(* TABLE: np.full([256], oov); for i, c in enumerate(vocab): table[c] = num_reserved + i *)
Definition build_table (vocab : list Z) (num_reserved : Z) : list Z :=
  fold_left (fun tbl ic => match np_write tbl (snd ic) [SH.lut_entry num_reserved (fst ic)] with Some t => t | None => tbl end)
            (combine (map Z.of_nat (seq 0 (length vocab))) vocab)
            (repeat (SH.lut_fill num_reserved (len vocab)) (Z.to_nat SH.lut_table_size)).
Definition TABLE : list Z := build_table SH.VOCAB_BYTES SH.NUM_RESERVED.
Definition lookup (c : Z) : Z := nth (Z.to_nat c) TABLE 0.

(* one iteration of the join loop *)
Definition join_step (st : option (list Z * Z)) (s : list Z) : option (list Z * Z) :=
  match st with
  | None => None
  | Some (joined, offset) =>
      let len_i := len s in
      match np_write joined (SH.join_first_pos offset len_i) [SH.join_first_label] with
      | None => None
      | Some j1 =>
          match np_assign_slice j1 (Some (SH.join_tok_lo offset len_i)) (Some (SH.join_tok_hi offset len_i)) (map lookup s) with
          | None => None
          | Some j2 =>
              match np_write j2 (SH.join_last_pos offset len_i) [SH.join_last_label] with
              | None => None
              | Some j3 => Some (j3, SH.join_next offset len_i)
              end
          end
      end
  end.

Definition join (snips : list (list Z)) : option (list Z * Z) :=
  fold_left join_step snips (Some (repeat 0 (Z.to_nat (SH.joined_length (map len snips))), 0)).

(* preprocess_client(_, {'snippets': snips}, L) -> (x rows, y rows); None = raises *)
Definition tokenise (snips : list (list Z)) (L : Z) : option (list (list Z) * list (list Z)) :=
  let jl := SH.joined_length (map len snips) in
  match join snips with
  | None => None
  | Some (joined, _) =>
      let pl := SH.padded_length jl L in
      if (pl <? 0) || (L <=? 0) then None else
      match np_assign_slice (repeat SH.x_fill (Z.to_nat pl)) None (Some (SH.x_dst_hi jl)) (py_slice_opt joined SH.x_src_lo SH.x_src_hi),
            np_assign_slice (repeat SH.y_fill (Z.to_nat pl)) None (Some (SH.y_dst_hi jl)) (py_slice_opt joined SH.y_src_lo SH.y_src_hi) with
      | Some x, Some y => if pl mod L =? 0 then Some (chunks (Z.to_nat L) x, chunks (Z.to_nat L) y) else None
      | _, _ => None
      end
  end.

(* the label stream the property talks about: BOS, the characters' labels, EOS per snippet *)
Definition stream (snips : list (list Z)) : list Z :=
  flat_map (fun s => SH.BOS :: map lookup s ++ [SH.EOS]) snips.

(* documented meaning of the table: vocab[i] -> num_reserved + i (last occurrence wins), else OOV *)
Fixpoint last_index (c : Z) (vocab : list Z) (i : Z) (acc : option Z) : option Z :=
  match vocab with [] => acc | v :: r => last_index c r (i + 1) (if v =? c then Some i else acc) end.
Definition spec_lookup (c : Z) : Z :=
  match last_index c SH.VOCAB_BYTES 0 None with Some i => SH.NUM_RESERVED + i | None => SH.OOV end.

(* ---------- Stack Overflow tokenizer ---------- *)
(* a word is Some i (i-th vocabulary word) or None (out of vocabulary: hashed into one of
   the buckets).  Each position of x / y is predicted as an inclusive id interval. *)
Definition word_range (V buckets : Z) (w : option Z) : Z * Z :=
  match w with
  | Some i => (i + SO.tok_id_offset, i + SO.tok_id_offset)
  | None => (V + SO.tok_id_offset, V + SO.tok_id_offset + buckets - 1)
  end.
Definition pt (z : Z) : Z * Z := (z, z).

Definition fit {A} (pad : A) (n : nat) (l : list A) : list A := firstn n l ++ repeat pad (n - length l).

Definition so_rows (V buckets max_length : Z) (words : list (option Z)) : list (Z * Z) * list (Z * Z) :=
  let ids := pt SO.tok_BOS :: map (word_range V buckets) words ++ [pt SO.tok_EOS] in
  (fit (pt SO.tok_PAD) (Z.to_nat max_length) (py_slice_opt ids SO.tok_x_lo SO.tok_x_hi),
   fit (pt SO.tok_PAD) (Z.to_nat max_length) (py_slice_opt ids SO.tok_y_lo SO.tok_y_hi)).

Definition in_rng (r : Z * Z) (v : Z) : bool := (fst r <=? v) && (v <=? snd r).
Fixpoint all2 {A B} (f : A -> B -> bool) (l1 : list A) (l2 : list B) : bool :=
  match l1, l2 with [] , [] => true | a :: r1, b :: r2 => f a b && all2 f r1 r2 | _, _ => false end.

(* ---------- CIFAR-100 ---------- *)
Definition IMG : Z := 32.
(* centre crop window (lo, hi) per axis; None = ValueError *)
Definition center_window (ch cw : Z) : option ((Z * Z) * (Z * Z)) :=
  if CF.crop_args_rejected ch cw then None else
  let ho := CF.center_height_offset ch cw in let wo := CF.center_width_offset ch cw in
  Some ((CF.center_h_lo ch cw ho wo, CF.center_h_hi ch cw ho wo), (CF.center_w_lo ch cw ho wo, CF.center_w_hi ch cw ho wo)).

(* random crop window for the draws (uh, uw) = uniform(..).astype(int32) *)
Definition random_window (ch cw uh uw : Z) : option ((Z * Z) * (Z * Z)) :=
  if CF.crop_args_rejected ch cw then None else
  match CF.rand_crop_shape ch cw with
  | [kh; kw; _] =>
      let oh := CF.rand_offset uh (CF.rand_limit IMG kh) in let ow := CF.rand_offset uw (CF.rand_limit IMG kw) in
      Some ((oh, CF.rand_end oh kh), (ow, CF.rand_end ow kw))
  | _ => None
  end.

(* preprocess_image(is_train=True): window inside the zero-padded image *)
Definition plain_window (i j : Z) : (Z * Z) * (Z * Z) := ((i, CF.plain_end_i i), (j, CF.plain_end_j j)).

Local Open Scope Q_scope.
Definition Qmax (a b : Q) : Q := if Qle_bool a b then b else a.

(* per-image standardisation, squared form (no square root): adjusted_std^2 = max(var, 1/N) *)
Definition adj2 (N S1 S2 : Z) : Q :=
  let mean := inject_Z S1 / inject_Z N in
  Qmax (inject_Z S2 / inject_Z N - mean * mean) (1 / inject_Z N).

(* samples: (pixel value, observed standardised value); s: a rational witness of the
   adjusted standard deviation (validated against adj2) *)
Definition std_agree (N S1 S2 : Z) (s : Q) (samples : list (Z * Q)) : bool :=
  let mean := inject_Z S1 / inject_Z N in
  let a2 := adj2 N S1 S2 in
  Qle_bool (Qabs (s * s - a2)) ((1 # 1000000000) * a2) && negb (Qle_bool s 0) &&
  forallb (fun vo => let d := inject_Z (fst vo) - mean in
                     Qle_bool (Qabs (snd vo * s - d)) ((1 # 10000) * Qabs d + (1 # 1000))) samples.
Local Close Scope Q_scope.

(* ---------- per-example training loss of the packaged language models ---------- *)
(* a row = (per-token cross entropies, targets); per_token_loss *= targets != pad, then the
   translated row-wise tail (Gen_md_*_loss).  The batch loss is the row loss of every row. *)
Fixpoint mask_row (pad : Z) (ls : list Q) (ys : list Z) : list Q :=
  match ls, ys with
  | l :: lr, y :: yr => (if y =? pad then 0%Q else l) :: mask_row pad lr yr
  | _, _ => []
  end.
Definition lm_row_loss (tail : option Q -> list Q -> Q) (pad : Z) (el : option Q) (r : list Q * list Z) : Q :=
  tail el (mask_row pad (fst r) (snd r)).
Definition lm_batch_loss (tail : option Q -> list Q -> Q) (pad : Z) (el : option Q) (rows : list (list Q * list Z)) : list Q :=
  map (lm_row_loss tail pad el) rows.
Definition sh_batch_loss := lm_batch_loss Gen_md_shakespeare_loss.sh_train_loss_row (SHM.sh_train_loss_masked SHM.sh_default_vocab_size).
Definition so_batch_loss := lm_batch_loss Gen_md_stackoverflow_loss.so_train_loss_row (SOM.so_train_loss_masked SOM.so_default_vocab_size).

Definition q_close (a b : Q) : bool := Qle_bool (Qabs (a - b)) ((1 # 10000) * (1 + Qabs b))%Q.

(* ---------- correspondence ---------- *)
Inductive C20_case :=
| KShake (snips : list (list Z)) (L : Z)
| KConstsShake                                   (* module constants of datasets.shakespeare at run time *)
| KTok (V buckets max_length : Z) (sentences : list (list (option Z)))
| KCenter (ch cw : Z)
| KRandom (ch cw uh uw : Z)
| KPlain (i j : Z)
| KStd (N S1 S2 : Z) (s : Q)
| KDomain (id : list Z)
| KLoss (shakespeare : bool) (el : option Q) (rows : list (list Q * list Z))
| KLut (vocab : list Z) (num_reserved : Z)          (* _build_look_up_table called directly *)
| KPlainNorm.                                        (* preprocess_image(is_train=False) on sampled pixels *)

Inductive C20_obs :=
| ORaise
| ORows (xs ys : list (list Z))
| OConsts (pad bos eos oov vocab : Z) (table : list Z)
| OWindow (h w : Z * Z)                           (* observed [lo, hi) of the rows / columns kept *)
| OStd (samples : list (Z * Q))
| OId (d : Z)
| OLoss (per_row : list Q)
| OTable (table : list Z) (vocab_size : Z)
| ONorm (samples : list (nat * Z * Q)).              (* (channel, pixel value, output) *)

Definition lz_eqb := list_beq Z.eqb.
Definition llz_eqb := list_beq lz_eqb.
Definition zz_eqb (a b : Z * Z) := (fst a =? fst b) && (snd a =? snd b).
Definition win_eqb (a b : (Z * Z) * (Z * Z)) := zz_eqb (fst a) (fst b) && zz_eqb (snd a) (snd b).

Definition C20_agree (c : C20_case) (o : C20_obs) : bool :=
  match c, o with
  | KShake snips L, ORows xs ys =>
      match tokenise snips L with Some (mx, my) => llz_eqb mx xs && llz_eqb my ys | None => false end
  | KShake snips L, ORaise => match tokenise snips L with None => true | Some _ => false end
  | KConstsShake, OConsts pad bos eos oov vocab table =>
      (pad =? SH.PAD) && (bos =? SH.BOS) && (eos =? SH.EOS) && (oov =? SH.OOV) && (vocab =? SH.VOCAB_SIZE) &&
      lz_eqb table TABLE
  | KTok V buckets ml sentences, ORows xs ys =>
      all2 (fun ws x => all2 in_rng (fst (so_rows V buckets ml ws)) x) sentences xs &&
      all2 (fun ws y => all2 in_rng (snd (so_rows V buckets ml ws)) y) sentences ys
  | KCenter ch cw, OWindow h w => match center_window ch cw with Some m => win_eqb m (h, w) | None => false end
  | KCenter ch cw, ORaise => match center_window ch cw with None => true | Some _ => false end
  | KRandom ch cw uh uw, OWindow h w => match random_window ch cw uh uw with Some m => win_eqb m (h, w) | None => false end
  | KRandom ch cw uh uw, ORaise => match random_window ch cw uh uw with None => true | Some _ => false end
  | KPlain i j, OWindow h w => win_eqb (plain_window i j) (h, w)
  | KStd N S1 S2 s, OStd samples => std_agree N S1 S2 s samples
  | KDomain id, OId d => match EM.domain_id id with Some m => m =? d | None => false end
  | KLoss sh el rows, OLoss vals =>
      all2 q_close vals (if sh then sh_batch_loss el rows else so_batch_loss el rows)
  | KLut vocab nr, OTable table vs => lz_eqb (build_table vocab nr) table && (vs =? SH.lut_vocab_size nr (len vocab))
  | KPlainNorm, ONorm samples =>
      forallb (fun s => let '(c, v, out) := s in
                        q_close out (Gen_ds_cifar100_norm.plain_normalise (inject_Z v) (nth c Gen_ds_cifar100_norm.plain_mean 0%Q)
                                                                          (nth c Gen_ds_cifar100_norm.plain_std 1%Q))) samples
  | KDomain id, ORaise => match EM.domain_id id with None => true | Some _ => false end
  | _, _ => false
  end.
