(* C06 primitives: the vector operations the mask-arithmetic translator
   (tools/lib/c06tr.py) emits, over NanQ.t.  Definitions only. *)
From Coq Require Import ZArith QArith List Bool.
From FV Require Import Common.CMonoid Common.NanQ.
Import ListNotations.

(* jnp.vdot(a, b) of two 1-d arrays *)
Definition nq_vdot (a b : list NanQ.t) : NanQ.t := NanQ.sum (map2 NanQ.mul a b).
(* len(x) as a number *)
Definition nq_len (x : list NanQ.t) : NanQ.t := Some (inject_Z (Z.of_nat (length x))).
(* jnp.mean(x): sum / size (NaN for the empty array) *)
Definition nq_mean (x : list NanQ.t) : NanQ.t := NanQ.div (NanQ.sum x) (nq_len x).
(* jax.ops.segment_sum(vals, ids, n): entries whose id is outside [0, n) are dropped *)
Definition nq_segment_sum (vals : list NanQ.t) (ids : list Z) (n : nat) : list NanQ.t :=
  map (fun d => NanQ.sum (map2 (fun v i => if (i =? Z.of_nat d)%Z then v else NanQ.zero) vals ids)) (seq 0 n).
