(* C01 executable model: one round of fedjax.algorithms.fed_avg.federated_averaging
   and multi-round runs.

   * `tree_zeros_like`, `tree_add`, `tree_weight`, `tree_inverse_weight` are the
     definitions translated on every run from fedjax/core/tree_util.py
     (gen/Gen_tree_util.v): a pytree is its flattened coordinate list over NanQ.t.
   * `apply_step` / `apply_from_outputs` mirror the statements of `apply` in
     fed_avg.py one to one (running delta sum weighted by num_examples, running
     num_examples sum, the diagnostics dict, tree_inverse_weight, server_update).
   * The client program is abstract (Section variables cinit / cstep / cparams,
     server optimizer sopt) for the general theorems; `LS` below is the concrete
     instance the correspondence evaluates: linear least squares with a key-derived
     linear term, optax.sgd (plain / momentum / nesterov) on client and server side,
     exact in Q.
   No proofs in this file. *)
From Coq Require Import ZArith QArith Qabs List Bool.
From FV Require Import Common.ListX Common.CMonoid Common.NanQ Common.QVec Common.WMean gen.Gen_tree_util.
From FV Require gen.Gen_client_datasets.
Import ListNotations.
Local Open Scope Q_scope.

Notation tree := (list NanQ.t) (only parsing).

(* a tree all of whose leaves are finite, as a vector *)
Fixpoint unlift (t : tree) : option (list Q) :=
  match t with
  | [] => Some []
  | Some x :: t' => option_map (cons x) (unlift t')
  | None :: _ => None
  end.

(* python dict (insertion ordered): d[k] = v, d.get(k) *)
Fixpoint dict_set {V} (d : list (Z * V)) (k : Z) (v : V) : list (Z * V) :=
  match d with
  | [] => [(k, v)]
  | (k', v') :: d' => if Z.eqb k' k then (k, v) :: d' else (k', v') :: dict_set d' k v
  end.
Fixpoint dict_get {V} (d : list (Z * V)) (k : Z) : option V :=
  match d with
  | [] => None
  | (k', v') :: d' => if Z.eqb k' k then Some v' else dict_get d' k
  end.
(* {k: v for k, v in l} *)
Definition dict_of {V} (l : list (Z * V)) : list (Z * V) :=
  fold_left (fun d kv => dict_set d (fst kv) (snd kv)) l [].

(* for_each_client(client_init, client_step, client_final)(shared_input, clients), sequential
   (jit / debug backend) semantics: per client, in list order: init, one step per batch, final.
   That every backend computes this is C02. *)
Definition for_each_client {SI CI ST B O : Type} (init : SI -> CI -> ST) (step : ST -> B -> ST) (final : SI -> ST -> O)
  (shared : SI) (clients : list (Z * list B * CI)) : list (Z * O) :=
  map (fun c => let '(id, batches, input) := c in (id, final shared (fold_left step batches (init shared input)))) clients.

(* l[i] = v on a python list (an index out of range raises in python; here: unchanged) *)
Fixpoint list_set {A} (l : list A) (i : nat) (v : A) : list A :=
  match l, i with
  | [], _ => []
  | _ :: r, O => v :: r
  | x :: r, Datatypes.S j => x :: list_set r j v
  end.

(* tree_util.tree_sum over (pytree, scalar) pairs: None for no input, else the first pair
   (copied) with the later ones added leaf-wise by _tree_add_eq *)
Definition tree_sum_pairs (l : list (list NanQ.t * NanQ.t)) : option (list NanQ.t * NanQ.t) :=
  match l with
  | [] => None
  | first :: rest => Some (fold_left (fun acc x => (tree_add (fst acc) (fst x), NanQ.add (snd acc) (snd x))) rest first)
  end.

Section FedAvg.
Context {K B CS OS : Type}.
Variable cinit : list Q -> K -> CS.               (* client_init(server_params, client_rng) *)
Variable cstep : CS -> B -> CS.                   (* client_step(client_step_state, batch) *)
Variable cparams : CS -> list Q.                  (* client_step_state['params'] *)
Variable sopt : list Q -> OS -> list Q -> OS * list Q.   (* server_optimizer.apply(grads, opt_state, params) *)

(* (client_id, len(client_dataset), client_rng, batches of shuffle_repeat_batch(hparams)) *)
Record client := mkClient { c_id : Z; c_n : Z; c_key : K; c_batches : list B }.

(* create_train_for_each_client: client_final = server_params - params;
   ForEachClientJitBackend.run: init, one step per batch in stream order, final;
   clients in list order *)
Definition client_final (server_params : list Q) (st : CS) : list Q := vsub server_params (cparams st).
Definition run_client (server_params : list Q) (c : client) : list Q :=
  client_final server_params (fold_left cstep (c_batches c) (cinit server_params (c_key c))).
Definition train_for_each_client (server_params : list Q) (clients : list client) : list (Z * list Q) :=
  map (fun c => (c_id c, run_client server_params c)) clients.

(* client_num_examples = {cid: len(cds) for cid, cds, _ in clients};  [client_id] lookup.
   A KeyError cannot occur (the yielded ids are ids of `clients`); the default is never used. *)
Definition client_num_examples (clients : list client) : list (Z * Z) :=
  dict_of (map (fun c => (c_id c, c_n c)) clients).
Definition num_of (d : list (Z * Z)) (client_id : Z) : Z :=
  match dict_get d client_id with Some n => n | None => 0%Z end.

(* the body of `for client_id, delta_params in train_for_each_client(...)`.
   The diagnostics value is the SQUARE of delta_l2_norm (sqrt is not modelled). *)
Definition apply_step (nums : list (Z * Z)) (st : list NanQ.t * NanQ.t * list (Z * Q)) (out : Z * list Q)
  : list NanQ.t * NanQ.t * list (Z * Q) :=
  let '(delta_params_sum, num_examples_sum, client_diagnostics) := st in
  let '(client_id, delta_params) := out in
  let num_examples := NanQ.of_Z (num_of nums client_id) in
  let delta_params_sum := tree_add delta_params_sum (tree_weight (vlift delta_params) num_examples) in
  let num_examples_sum := NanQ.add num_examples_sum num_examples in
  let client_diagnostics := dict_set client_diagnostics client_id (sumsq delta_params) in
  (delta_params_sum, num_examples_sum, client_diagnostics).

(* delta_params_sum = tree_zeros_like(params); num_examples_sum = 0.; the loop;
   mean_delta_params = tree_inverse_weight(...); server_update.
   None = a non-finite mean delta reached the server optimizer. *)
Definition apply_from_outputs (params : list Q) (opt_state : OS) (nums : list (Z * Z))
  (outputs : list (Z * list Q)) : option (list Q * OS * list (Z * Q)) :=
  let '(delta_params_sum, num_examples_sum, client_diagnostics) :=
    fold_left (apply_step nums) outputs (tree_zeros_like (vlift params), NanQ.of_Q 0, []) in
  let mean_delta_params := tree_inverse_weight delta_params_sum num_examples_sum in
  match unlift mean_delta_params with
  | Some g => let '(opt_state', params') := sopt g opt_state params in Some (params', opt_state', client_diagnostics)
  | None => None
  end.

Definition fedavg_apply (st : list Q * OS) (clients : list client) : option (list Q * OS * list (Z * Q)) :=
  apply_from_outputs (fst st) (snd st) (client_num_examples clients) (train_for_each_client (fst st) clients).

(* a multi-round run: the state is threaded, the diagnostics of every round are kept *)
Fixpoint fedavg_run (st : list Q * OS) (cohorts : list (list client))
  : option (list Q * OS * list (list (Z * Q))) :=
  match cohorts with
  | [] => Some (fst st, snd st, [])
  | clients :: rest =>
      match fedavg_apply st clients with
      | Some (p, os, dg) =>
          match fedavg_run (p, os) rest with
          | Some (p', os', dgs) => Some (p', os', dg :: dgs)
          | None => None
          end
      | None => None
      end
  end.
End FedAvg.

Arguments mkClient {K B}.
Arguments c_id {K B}. Arguments c_n {K B}. Arguments c_key {K B}. Arguments c_batches {K B}.

(* ------------------------------------------------------------------------------
   Concrete instance LS.
   params w : list Q; example (x, y); per-example loss 0.5*(w.x - y)^2 + nu*sum(w)
   where nu is a number derived from the step's random key; fedjax.grad takes the
   mean over the batch; closed-form gradient  mean_i((w.x_i - y_i) x_i) + nu*ones.
   A key is the stream of the nu values of its successive `use_rng`s:
   jax.random.split(rng) = (rest of the stream, key whose nu is the head). *)
Definition example := (list Q * Q)%type.
Definition key := list Q.
Definition split_key (k : key) : key * Q := (tl k, hd 0 k).

(* normalisation of the fractions (Qred x == x): keeps the exact evaluation small *)
Definition vred (v : list Q) : list Q := map Qred v.

(* x itself when length x = n (shapes always agree in a run that does not raise) *)
Definition fit (n : nat) (x : list Q) : list Q := map (fun i => vnth i x) (seq 0 n).

Definition ex_grad (w : list Q) (e : example) : list Q := vscale (vdot w (fst e) - snd e) (fit (length w) (fst e)).
Definition batch_grad (w : list Q) (batch : list example) (nu : Q) : list Q :=
  vred (vadd (vscale (1 / inject_Z (Z.of_nat (length batch))) (vsum (length w) (map (ex_grad w) batch)))
             (map (fun _ => nu) w)).

(* optax.sgd(learning_rate, momentum, nesterov): trace (t' = g + m*t; update = t' or
   g + m*t' with nesterov) then scale by -learning_rate, then apply_updates.
   momentum=None is m = 0 (t' = g). State = the trace. *)
Record sgd := mkSgd { o_lr : Q; o_mom : Q; o_nesterov : bool }.
Definition sgd_apply (o : sgd) (g t p : list Q) : list Q * list Q :=
  let t' := vadd g (vscale (o_mom o) (fit (length g) t)) in
  let u := if o_nesterov o then vadd g (vscale (o_mom o) t') else t' in
  (vred t', vred (vadd p (vscale (- o_lr o) u))).

Record ls_state := mkLS { s_params : list Q; s_trace : list Q; s_rng : key }.
Definition ls_init (o : sgd) (server_params : list Q) (client_rng : key) : ls_state :=
  mkLS server_params (vzero (length server_params)) client_rng.
Definition ls_step (o : sgd) (st : ls_state) (batch : list example) : ls_state :=
  let '(rng, nu) := split_key (s_rng st) in
  let grads := batch_grad (s_params st) batch nu in
  let '(t', p') := sgd_apply o grads (s_trace st) (s_params st) in
  mkLS p' t' rng.

(* server optimizers.  The state also records the gradient the optimizer was given
   (read back by the correspondence); `opaque` stands for an optimizer that is not
   modelled (Adam, ...): parameters are left alone and only the recorded mean delta
   is compared. *)
Definition srv_state := (list Q * list Q)%type.   (* (trace, last grads) *)
Definition srv_sgd (o : sgd) (g : list Q) (os : srv_state) (p : list Q) : srv_state * list Q :=
  let '(t', p') := sgd_apply o g (fst os) p in ((t', g), p').
Definition srv_opaque (g : list Q) (os : srv_state) (p : list Q) : srv_state * list Q := ((fst os, g), p).

Definition ls_apply (co : sgd) (srv : list Q -> srv_state -> list Q -> srv_state * list Q) :=
  fedavg_apply (ls_init co) (ls_step co) s_params srv.
Definition ls_run (co so : sgd) := fedavg_run (ls_init co) (ls_step co) s_params (srv_sgd so).

(* ---------------- correspondence ---------------- *)
Record C01_case := mkC01 {
  k_copt : sgd;                              (* client optimizer *)
  k_sopt : sgd;                              (* server optimizer (ignored when opaque) *)
  k_opaque : bool;                           (* server optimizer not modelled *)
  k_init : list Q;                           (* initial server params *)
  k_pop : list (Z * list example);           (* client id -> its examples *)
  k_streams : list (Z * list (list nat));    (* client id -> recorded batch index stream *)
  k_rounds : list (list (Z * list Q));       (* per round: (client id, nu stream of its key) in call order *)
  k_tol : Q;
  k_hp : Z * option Z * option Z * bool;     (* ShuffleRepeatBatchHParams: batch_size, num_epochs, num_steps, drop_remainder *)
  k_grid : option (Z * Z * Z * Z * list Z)   (* exhaustive step-count grid: bounds (Nmax, bsmax, emax, smax), observed counts *)
}.
Record C01_round := mkR01 {
  r_params : list Q;            (* server params returned by apply *)
  r_trace : list Q;             (* returned server momentum trace ([] when there is none) *)
  r_grads : list Q;             (* the mean delta the server optimizer was called with *)
  r_diag : list (Z * Q)         (* client id -> delta_l2_norm *)
}.
Definition C01_obs := list C01_round.

Definition lookup {V} (d : list (Z * V)) (k : Z) (default : V) : V :=
  match dict_get d k with Some v => v | None => default end.

Definition mk_client (c : C01_case) (ck : Z * list Q) : client (K := key) (B := list example) :=
  let data := lookup (k_pop c) (fst ck) [] in
  mkClient (fst ck) (Z.of_nat (length data)) (snd ck)
           (map (fun idxs => map (fun i => nth i data ([], 0)) idxs) (lookup (k_streams c) (fst ck) [])).

Definition qclose (tol a b : Q) : bool := Qle_bool (Qabs (a - b)) (tol * (1 + Qabs b)).
Fixpoint vclose_b (tol : Q) (a b : list Q) : bool :=
  match a, b with
  | [], [] => true
  | x :: a', y :: b' => qclose tol x y && vclose_b tol a' b'
  | _, _ => false
  end.
(* every observed (id, norm) has a model entry (id, sumsq) with norm^2 ~ sumsq; same number of entries *)
Definition diag_agree (tol : Q) (model : list (Z * Q)) (obs : list (Z * Q)) : bool :=
  Nat.eqb (length model) (length obs) &&
  forallb (fun kv => match dict_get model (fst kv) with
                     | Some s => qclose tol s (snd kv * snd kv)
                     | None => false end) obs.

Fixpoint rounds_agree (c : C01_case) (p : list Q) (t : list Q) (rounds : list (list (Z * list Q))) (obs : C01_obs) : bool :=
  match rounds, obs with
  | [], [] => true
  | r :: rounds', o :: obs' =>
      let clients := map (mk_client c) r in
      let srv := if k_opaque c then srv_opaque else srv_sgd (k_sopt c) in
      match ls_apply (k_copt c) srv (p, (t, [])) clients with
      | Some (p', (t', g), dg) =>
          vclose_b (k_tol c) g (r_grads o) && diag_agree (k_tol c) dg (r_diag o) &&
          (if k_opaque c then rounds_agree c (r_params o) t rounds' obs'
           else vclose_b (k_tol c) p' (r_params o) &&
                (match r_trace o with [] => true | _ => vclose_b (k_tol c) t' (r_trace o) end) &&
                rounds_agree c p' t' rounds' obs')
      | None => false
      end
  | _, _ => false
  end.

(* the recorded batch streams have the number of batches that ShuffleRepeatBatchView.__init__ computes (translated:
   gen/Gen_client_datasets.shuffle_num_steps) -- none for an empty dataset (__iter__ returns at once) -- and every
   batch has batch_size rows with indices into the client's dataset *)
(* content of a shuffle_repeat_batch stream: the concatenation of the batches is a concatenation of passes over the
   dataset; every complete window of n indices holds each of 0..n-1 (hence exactly once), the incomplete last window
   holds distinct indices *)
Fixpoint distinct_b (l : list nat) : bool :=
  match l with [] => true | x :: r => negb (existsb (Nat.eqb x) r) && distinct_b r end.
Fixpoint windows_ok (fuel n : nat) (l : list nat) : bool :=
  match fuel with
  | O => false
  | Datatypes.S fuel' =>
      if Nat.ltb (length l) n then distinct_b l
      else forallb (fun i => existsb (Nat.eqb i) (firstn n l)) (seq 0 n) && windows_ok fuel' n (skipn n l)
  end.

Definition stream_ok (c : C01_case) (id_stream : Z * list (list nat)) : bool :=
  let '(bs, epochs, steps, drop) := k_hp c in
  let n := length (lookup (k_pop c) (fst id_stream) []) in
  let st := snd id_stream in
  (match n with
   | O => Nat.eqb (length st) 0
   | _ => match Gen_client_datasets.shuffle_num_steps (Z.of_nat n) bs epochs steps drop with
          | Some (Some k) => Z.eqb (Z.of_nat (length st)) k
          | _ => false
          end
   end) &&
  forallb (fun b => Z.eqb (Z.of_nat (length b)) bs && forallb (fun i => Nat.ltb i n) b) st &&
  (match n with O => true | _ => windows_ok (Datatypes.S (length (concat st))) n (concat st) end).

(* Exhaustive grid for the step-count formula: all (N, batch_size, num_epochs, num_steps, drop_remainder) with
   0 <= N <= Nmax, 1 <= bs <= bsmax, num_epochs in {None, 0..emax}, num_steps in {None, 0..smax}, except the
   non-terminating (None, None); enumeration order = nested loops in that order, drop_remainder innermost (false, true).
   The observed number of batches of the real view must be the translated shuffle_num_steps (0 for an empty dataset). *)
Definition zrange (a b : Z) : list Z := map (fun i => a + Z.of_nat i)%Z (seq 0 (Z.to_nat (b - a + 1))).
Definition oz_range (m : Z) : list (option Z) := None :: map Some (zrange 0 m).
Definition grid_expected (N bs : Z) (e s : option Z) (drop : bool) : Z :=
  if (N =? 0)%Z then 0%Z
  else match Gen_client_datasets.shuffle_num_steps N bs e s drop with
       | Some (Some k) => k
       | _ => (-1)%Z
       end.
Definition grid_points (Nmax bsmax emax smax : Z) : list Z :=
  flat_map (fun N => flat_map (fun bs => flat_map (fun e => flat_map (fun s =>
    match e, s with
    | None, None => []
    | _, _ => [grid_expected N bs e s false; grid_expected N bs e s true]
    end) (oz_range smax)) (oz_range emax)) (zrange 1 bsmax)) (zrange 0 Nmax).
Definition grid_ok (g : option (Z * Z * Z * Z * list Z)) : bool :=
  match g with
  | None => true
  | Some (Nmax, bsmax, emax, smax, obs) => list_beq Z.eqb (grid_points Nmax bsmax emax smax) obs
  end.

Definition C01_agree (c : C01_case) (o : C01_obs) : bool :=
  grid_ok (k_grid c) &&
  forallb (stream_ok c) (k_streams c) &&
  rounds_agree c (k_init c) (vzero (length (k_init c))) (k_rounds c) o.
