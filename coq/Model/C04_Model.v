(* C04 executable model: ShuffleRepeatBatchView.__iter__ mirrored as a state
   machine over (buf, i, number of shuffles so far); the step count comes from the
   translated `_num_steps` computation (gen/Gen_client_datasets.v). *)
From Coq Require Import ZArith List Bool Arith.
From FV Require Import Common.ListX Common.PySem gen.Gen_client_datasets.
Import ListNotations.

Section Model.
(* the k-th call of rng.shuffle(buf): oracle.  skip_shuffle = identity oracle. *)
Variable shuf : nat -> list nat -> list nat.
Variable N : nat.

Record st := mk { buf : list nat; pos : nat; nsh : nat }.

(* inner `while filled < desired_size` loop; `need` = desired_size - filled *)
Fixpoint fill (fuel need : nat) (s : st) (acc : list nat) : st * list nat :=
  match fuel with
  | O => (s, acc)
  | S f =>
    if need =? 0 then (s, acc) else
    let s1 := if N - pos s =? 0 then mk (shuf (nsh s) (buf s)) 0 (S (nsh s)) else s in
    let used := Nat.min (N - pos s1) need in
    fill f (need - used) (mk (buf s1) (pos s1 + used) (nsh s1))
         (acc ++ firstn used (skipn (pos s1) (buf s1)))
  end.

(* outer loop: `steps` batches of `bs` indices *)
Fixpoint run (steps bs : nat) (s : st) : list (list nat) :=
  match steps with
  | O => []
  | S k => let (s', b) := fill (S bs) bs s [] in b :: run k bs s'
  end.

Definition init : st := mk (seq 0 N) N 0.

(* an empty dataset yields no batches (early return in __iter__) *)
Definition batches (steps bs : nat) : list (list nat) :=
  if N =? 0 then [] else run steps bs init.
End Model.

(* ---- correspondence ---- *)
Local Open Scope Z_scope.
Record C04_case := mkC04 {
  c_n : nat; c_bs : Z; c_epochs : option Z; c_steps : option Z; c_drop : bool; c_skip : bool;
  c_windows : list (list nat)   (* recorded result of the k-th rng.shuffle call *)
}.
Definition C04_obs := list (list nat).   (* observed batches (prefix when the stream is infinite) *)

Definition oracle (c : C04_case) (k : nat) (b : list nat) : list nat :=
  if c_skip c then b else nth k (c_windows c) [].   (* a missing reshuffle makes the model disagree *)

Definition lnat_eqb := list_beq Nat.eqb.

Definition C04_agree (c : C04_case) (o : C04_obs) : bool :=
  match shuffle_num_steps (Z.of_nat (c_n c)) (c_bs c) (c_epochs c) (c_steps c) (c_drop c) with
  | Some (Some k) =>
      list_beq lnat_eqb (batches (oracle c) (c_n c) (Z.to_nat k) (Z.to_nat (c_bs c))) o
      && ((c_n c =? 0)%nat || (Z.of_nat (length o) =? Z.max 0 k))
  | Some None =>     (* both None: infinite stream, the harness observed a prefix *)
      list_beq lnat_eqb (batches (oracle c) (c_n c) (length o) (Z.to_nat (c_bs c))) o
  | None => false
  end.

(* ---- exhaustive sweep of the batch-count computation (wave 5) ----
   CCount n bshi ehi: for a dataset of n rows, every batch size 1..bshi, every num_epochs
   1..ehi and drop_remainder = false, true (in this order) the number of steps the view
   computed was observed (num_steps = None); the model recomputes each with the translated
   `shuffle_num_steps`. *)
Inductive C04_anycase := CSingle (c : C04_case) | CCount (n bshi ehi : Z).
Inductive C04_anyobs := OSingle (o : C04_obs) | OCount (counts : list Z).

Definition count_grid (n bshi ehi : Z) : list Z :=
  flat_map (fun bs => flat_map (fun e => map (fun drop =>
      match shuffle_num_steps n bs (Some e) None drop with Some (Some k) => k | _ => -1 end)
    [false; true]) (py_range 1 (ehi + 1) 1)) (py_range 1 (bshi + 1) 1).

Definition C04_agree_any (c : C04_anycase) (o : C04_anyobs) : bool :=
  match c, o with
  | CSingle c, OSingle o => C04_agree c o
  | CCount n bshi ehi, OCount counts => list_beq Z.eqb (count_grid n bshi ehi) counts
  | _, _ => false
  end.
