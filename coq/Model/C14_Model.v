(* C14 executable model: one Gallina function per Metric class of
   fedjax/core/metrics.py (evaluate_example), over integer class scores extended
   with -inf / +inf.  Definitions only; proofs are in Proofs/C14_Proofs.v.

   Reading of the code:
     jnp.argmax(pred)            -> argmax      (first index of the maximum)
     jnp.argsort(-pred)          -> argsort (map ext_neg pred)   (stable, ascending)
     [:max(k, 0)]                -> py_slice _ 0 (Z.max k 0)
     get_target_weight           -> target_weight (product of (target != mv))
     pred += logits_mask         -> mask_scores   (finite prediction + extended mask value)
     MeanStat.new                -> mean_new / mean_newQ (sanitising)
     per_position                -> one (accum, weight) pair per position
     PerDomainMetric             -> per_domain (one_hot(domain_id) selects the row, other rows are zero())
     ConfusionMatrix             -> confusion  (zeros.at[target, argmax].set(1))
   Cross-entropy values are parameters (per token), never computed here. *)
From Coq Require Import ZArith QArith Qabs List Bool.
From FV Require Import Common.ListX Common.PySem.
From FV Require Export Model.C14_Prims gen.Gen_metrics_eval.
Import ListNotations.
Local Open Scope Z_scope.

(* (target == argmax(pred)) *)
Definition acc_correct (s : list ext) (t : Z) : Z := b2z (t =? Z.of_nat (argmax s)).
(* any(argsort(-pred)[:max(k, 0)] == target) *)
Definition topk_correct (k : Z) (s : list ext) (t : Z) : Z :=
  b2z (existsb (fun i => Z.of_nat i =? t) (py_slice (argsort (map ext_neg s)) 0 (Z.max k 0))).

(* get_target_weight: ones * prod_mv (target != mv) *)
Definition target_weight (masked : list Z) (t : Z) : Z :=
  fold_left (fun w mv => w * b2z (negb (t =? mv))) masked 1.
Definition weights (masked targets : list Z) : list Z := map (target_weight masked) targets.

(* pred (+ logits_mask) *)
Definition mask_scores (lm : option (list ext)) (row : list Z) : list ext :=
  match lm with None => map Fin row | Some m => map2 add_mask row m end.

(* jnp.any(target_weight) as 0/1 *)
Definition any_weight (ws : list Z) : Z := b2z (existsb (fun w => negb (w =? 0)) ws).

(* token-level MeanStat: per position, or summed over the sequence *)
Definition seq_stat (pp : bool) (vals ws : list Z) : list (Z * Z) :=
  if pp then map2 (fun v w => mean_new (v * w) w) vals ws
  else [mean_new (zsum (map2 Z.mul vals ws)) (zsum ws)].
Definition seq_statQ (pp : bool) (vals : list Q) (ws : list Z) : list (Q * Z) :=
  if pp then map2 (fun v w => mean_newQ (v * inject_Z w) w) vals ws
  else [mean_newQ (qsum (map2 (fun v w => (v * inject_Z w)%Q) vals ws)) (zsum ws)].

(* ---------- one function per Metric class ---------- *)
(* CrossEntropyLoss: MeanStat.new(loss, 1) *)
Definition m_cross_entropy (ce : Q) : Q * Z := mean_newQ ce 1.
(* Accuracy *)
Definition m_accuracy (s : list Z) (t : Z) : Z * Z := mean_new (acc_correct (map Fin s) t) 1.
(* TopKAccuracy *)
Definition m_topk (k : Z) (s : list Z) (t : Z) : Z * Z := mean_new (topk_correct k (map Fin s) t) 1.
(* SequenceTokenCrossEntropyLoss *)
Definition m_seq_token_ce (masked : list Z) (pp : bool) (targets : list Z) (ce : list Q) : list (Q * Z) :=
  seq_statQ pp ce (weights masked targets).
(* SequenceCrossEntropyLoss: MeanStat.new(sum(loss * w), any(w)) *)
Definition m_seq_ce (masked targets : list Z) (ce : list Q) : Q * Z :=
  let ws := weights masked targets in
  mean_newQ (qsum (map2 (fun v w => (v * inject_Z w)%Q) ce ws)) (any_weight ws).
(* SequenceTokenAccuracy *)
Definition m_seq_token_acc (masked : list Z) (lm : option (list ext)) (pp : bool)
           (targets : list Z) (scores : list (list Z)) : list (Z * Z) :=
  seq_stat pp (map2 (fun row t => acc_correct (mask_scores lm row) t) scores targets)
           (weights masked targets).
(* SequenceTokenTopKAccuracy *)
Definition m_seq_token_topk (k : Z) (masked : list Z) (lm : option (list ext)) (pp : bool)
           (targets : list Z) (scores : list (list Z)) : list (Z * Z) :=
  seq_stat pp (map2 (fun row t => topk_correct k (mask_scores lm row) t) scores targets)
           (weights masked targets).
(* SequenceTokenCount: SumStat(sum(w)) *)
Definition m_seq_token_count (masked targets : list Z) : Z := zsum (weights masked targets).
(* SequenceCount: SumStat(any(w)) *)
Definition m_seq_count (masked targets : list Z) : Z := any_weight (weights masked targets).
(* SequenceTruncationRate: MeanStat.new(all(target != eos) * not_empty, not_empty) *)
Definition m_seq_trunc (eos : Z) (masked targets : list Z) : Z * Z :=
  let ne := any_weight (weights masked targets) in
  mean_new (b2z (forallb (fun t => negb (t =? eos)) targets) * ne) ne.
(* SequenceTokenOOVRate: oov = max over oov values of (target == v), starting from 0 *)
Definition target_oov (oovs : list Z) (t : Z) : Z :=
  fold_left (fun o v => Z.max o (b2z (t =? v))) oovs 0.
Definition m_seq_oov (oovs masked : list Z) (pp : bool) (targets : list Z) : list (Z * Z) :=
  seq_stat pp (map (target_oov oovs) targets) (weights masked targets).
(* SequenceLength: MeanStat.new(sum(w), any(w)) *)
Definition m_seq_length (masked targets : list Z) : Z * Z :=
  let ws := weights masked targets in mean_new (zsum ws) (any_weight ws).
(* ConfusionMatrix: ValueError unless num_classes = len(pred); zeros.at[target, argmax].set(1) *)
Definition confusion (nc : nat) (s : list ext) (t : Z) : list (list Z) :=
  map (fun r => map (fun c => b2z ((Z.of_nat r =? t) && (c =? argmax s)%nat)) (seq 0 nc)) (seq 0 nc).
Definition m_confusion (nc : Z) (s : list Z) (t : Z) : option (list (list Z)) :=
  if nc =? Z.of_nat (length s) then Some (confusion (Z.to_nat nc) (map Fin s) t) else None.
(* PerDomainMetric: row j is the base statistic when one_hot(domain_id)[j], else base.zero() *)
Definition per_domain {A} (nd : nat) (dom : Z) (zero x : A) : list A :=
  map (fun j => if Z.of_nat j =? dom then x else zero) (seq 0 nd).

(* ---------- correspondence ---------- *)
Inductive base_case :=
| KCE (ce : Q)
| KAcc (s : list Z) (t : Z)
| KTopK (k : Z) (s : list Z) (t : Z)
| KSeqTokCE (masked : list Z) (pp : bool) (targets : list Z) (ce : list Q)
| KSeqCE (masked targets : list Z) (ce : list Q)
| KSeqTokAcc (masked : list Z) (lm : option (list ext)) (pp : bool) (targets : list Z) (scores : list (list Z))
| KSeqTokTopK (k : Z) (masked : list Z) (lm : option (list ext)) (pp : bool) (targets : list Z) (scores : list (list Z))
| KTokCount (masked targets : list Z)
| KSeqCount (masked targets : list Z)
| KTrunc (eos : Z) (masked targets : list Z)
| KOOV (oovs masked : list Z) (pp : bool) (targets : list Z)
| KLen (masked targets : list Z)
| KConf (nc : Z) (s : list Z) (t : Z)
(* exhaustive small grids (wave 5): every score vector over {0,1,2} with up to cmax classes x every target x
   k = -2 .. classes+1 for TopKAccuracy (and Accuracy); every target sequence over {0 = masked, 1, 2 = eos} up to
   length lmax for the four prediction-free sequence statistics; the observation is the list of all values *)
| KGridTopK (cmax : nat)
| KGridSeq (lmax : nat).

Fixpoint vectors (vals : list Z) (n : nat) : list (list Z) :=
  match n with
  | O => [[]]
  | S n' => flat_map (fun x => map (cons x) (vectors vals n')) vals
  end.
Definition zrange (a : Z) (n : nat) : list Z := map (fun i => a + Z.of_nat i) (seq 0 n).
Definition grid_topk (ftop : Z -> Z -> list Z -> Z * Z) (facc : Z -> list Z -> Z * Z) (cmax : nat) : list Z :=
  flat_map (fun c => flat_map (fun s => flat_map (fun t =>
    fst (facc t s) :: map (fun k => fst (ftop k t s)) (zrange (-2) (c + 4))) (zrange 0 c)) (vectors [0; 1; 2] c)) (seq 1 cmax).
Definition grid_seq (ftrunc : Z -> list Z -> list Z -> Z * Z) (flen : list Z -> list Z -> Z * Z)
           (fcount fscount : list Z -> list Z -> Z) (lmax : nat) : list Z :=
  flat_map (fun l => flat_map (fun ts =>
    [fst (ftrunc 2 [0] ts); snd (ftrunc 2 [0] ts); fst (flen [0] ts); snd (flen [0] ts); fcount [0] ts; fscount [0] ts])
    (vectors [0; 1; 2] l)) (seq 1 lmax).

(* flattened statistic: shape of accum, accum values, weight values ([] for SumStat) *)
Inductive result :=
| RMean (shape : list Z) (acc : list Q) (wt : list Q)
| RSum (shape : list Z) (acc : list Q)
| RErr.

Definition zq := inject_Z.
Definition scalarZ (p : Z * Z) : result := RMean [] [zq (fst p)] [zq (snd p)].
Definition scalarQ (p : Q * Z) : result := RMean [] [fst p] [zq (snd p)].
Definition seqZ (pp : bool) (l : list (Z * Z)) : result :=
  RMean (if pp then [Z.of_nat (length l)] else []) (map (fun p => zq (fst p)) l) (map (fun p => zq (snd p)) l).
Definition seqQ (pp : bool) (l : list (Q * Z)) : result :=
  RMean (if pp then [Z.of_nat (length l)] else []) (map fst l) (map (fun p => zq (snd p)) l).

(* the statistic is computed by the functions TRANSLATED on this run from the
   evaluate_example bodies of fedjax/core/metrics.py (gen/Gen_metrics_eval.v); the
   hand-written m_* functions above are their specifications (Proofs/C14_Proofs.v
   proves gen_X = m_X for every class, Props/C14.v: C14_translated_metrics_are_model) *)
Definition eval_base (c : base_case) : result :=
  match c with
  | KCE ce => scalarQ (gen_cross_entropy 0 [] ce)
  | KAcc s t => scalarZ (gen_accuracy t s)
  | KTopK k s t => scalarZ (gen_topk k t s)
  | KSeqTokCE masked pp targets ce => seqQ pp (gen_seq_token_ce masked pp targets [] ce)
  | KSeqCE masked targets ce => scalarQ (gen_seq_ce masked targets [] ce)
  | KSeqTokAcc masked lm pp targets scores => seqZ pp (gen_seq_token_acc masked lm pp targets scores)
  | KSeqTokTopK k masked lm pp targets scores => seqZ pp (gen_seq_token_topk k masked lm pp targets scores)
  | KTokCount masked targets => RSum [] [zq (gen_seq_token_count masked targets)]
  | KSeqCount masked targets => RSum [] [zq (gen_seq_count masked targets)]
  | KTrunc eos masked targets => scalarZ (gen_seq_trunc eos masked targets)
  | KOOV oovs masked pp targets => seqZ pp (gen_seq_oov oovs masked pp targets)
  | KLen masked targets => scalarZ (gen_seq_length masked targets)
  | KConf nc s t =>
      match gen_confusion nc t s with
      | Some m => RSum [nc; nc] (map zq (concat m))
      | None => RErr
      end
  | KGridTopK cmax => let g := grid_topk gen_topk gen_accuracy cmax in RSum [Z.of_nat (length g)] (map zq g)
  | KGridSeq lmax =>
      let g := grid_seq gen_seq_trunc gen_seq_length gen_seq_token_count gen_seq_count lmax in
      RSum [Z.of_nat (length g)] (map zq g)
  end.

Definition zeros_like (l : list Q) : list Q := map (fun _ => 0%Q) l.
Definition eval_domain (nd : nat) (dom : Z) (r : result) : result :=
  match r with
  | RMean sh a w =>
      RMean (Z.of_nat nd :: sh) (concat (gen_per_domain nd dom (zeros_like a) a))
            (concat (gen_per_domain nd dom (zeros_like w) w))
  | RSum sh a => RSum (Z.of_nat nd :: sh) (concat (gen_per_domain nd dom (zeros_like a) a))
  | RErr => RErr
  end.

Record C14_case := mkC14 { c_dom : option (nat * Z); c_base : base_case }.
Definition C14_eval (c : C14_case) : result :=
  match c_dom c with
  | None => eval_base (c_base c)
  | Some (nd, dom) => eval_domain nd dom (eval_base (c_base c))
  end.

(* observation: error flag, MeanStat?, shape of accum, accum values, weight values *)
Record C14_obs := mkO14 { o_err : bool; o_mean : bool; o_shape : list Z; o_acc : list Q; o_wt : list Q }.

(* cross-entropy valued statistics are compared with tolerance, all others exactly *)
Definition is_ce (c : base_case) : bool :=
  match c with KCE _ | KSeqTokCE _ _ _ _ | KSeqCE _ _ _ => true | _ => false end.
Definition tol : Q := (1 # 100000)%Q.
Definition qclose (x y : Q) : bool := Qle_bool (Qabs (x - y)) (tol * (1 + Qabs y)).
Definition lq_agree (approx : bool) (a b : list Q) : bool :=
  list_beq (if approx then qclose else Qeq_bool) a b.
Definition lz_eqb := list_beq Z.eqb.

Definition C14_agree (c : C14_case) (o : C14_obs) : bool :=
  let ap := is_ce (c_base c) in
  match C14_eval c with
  | RErr => o_err o
  | RMean sh a w =>
      negb (o_err o) && o_mean o && lz_eqb sh (o_shape o) && lq_agree ap a (o_acc o) &&
      lq_agree false w (o_wt o)
  | RSum sh a =>
      negb (o_err o) && negb (o_mean o) && lz_eqb sh (o_shape o) && lq_agree ap a (o_acc o) &&
      match o_wt o with [] => true | _ => false end
  end.
