(* C08 executable model (definitions only).

   Logical dataset: list (id * raw), ids are byte strings (Common/Bytes.v), `raw`
   is the stored example table of a client (its integer feature column x).

   1. the ABSTRACT VIEW (spec): the ranges and subsets requested so far and the two
      preprocessor chains; an id is visible iff it is a client of the dataset inside
      every requested half-open range and every requested subset.
   2. three IMPLEMENTATION MODELS mirroring the code:
        Mem  InMemoryFederatedData   dict restriction (translated slice filter) + chain append
        Sql  SQLiteFederatedData     (start, stop) by the translated intersect_slice_ranges,
                                     WHERE predicate translated from _range_where, ORDER BY rowid
                                     = table order, translated explicit range test on point lookups
        Sub  SubsetFederatedData     id set (translated slice filter), validation, delegation
   3. the correspondence predicate C08_agree evaluated by the check. *)
From Coq Require Import ZArith NArith List Bool.
From FV Require Import Common.ListX Common.Bytes Common.PyIter.
From FV Require Import gen.Gen_client_datasets_pre gen.Gen_federated_data gen.Gen_in_memory_federated_data gen.Gen_sqlite_federated_data.
From FV Require Model.C15_Model.   (* buffered_shuffle: the mirrored client_datasets.buffered_shuffle of C15 *)
Import ListNotations.
Local Open Scope Z_scope.

(* notations, not definitions: one syntactic form for rewriting *)
Notation id := bytes (only parsing).
Notation raw := (list Z) (only parsing).
Notation table := (list (bytes * list Z)) (only parsing).

(* ------------------------------------------------------------------ *)
(* the indexed preprocessor families the harness registers              *)

Inductive cfn :=                 (* fn(client_id, examples) *)
| CAdd (k : Z)                   (* x + k *)
| CMul (k : Z)                   (* x * k *)
| CAddId                         (* x + sum of the bytes of client_id *)
| CDup                           (* every feature concatenated with itself: 2n rows *)
| CTail                          (* every feature without its first row *)
| CMark                          (* adds a constant feature z: the column x is unchanged *)
| CYz.                           (* adds z to the column y when z exists: the column x is unchanged *)

Inductive bfn :=                 (* fn(examples), row-wise *)
| BAdd (k : Z)
| BMul (k : Z)
| BYmul (k : Z).                 (* multiplies the column y: the column x is unchanged *)

Definition idsum (i : id) : Z := fold_right (fun b a => Z.of_N b + a) 0 i.

Definition app_c (i : id) (f : cfn) (r : raw) : raw :=
  match f with
  | CAdd k => map (fun x => x + k) r
  | CMul k => map (fun x => x * k) r
  | CAddId => map (fun x => x + idsum i) r
  | CDup => r ++ r
  | CTail => tl r
  | CMark => r
  | CYz => r
  end.

Definition app_b (g : bfn) (r : raw) : raw :=
  match g with
  | BAdd k => map (fun x => x + k) r
  | BMul k => map (fun x => x * k) r
  | BYmul _ => r
  end.

(* how a registered function is called: f(client_id, examples) / g(examples) *)
Definition applyc (f : cfn) (i : id) (r : raw) : raw := app_c i f r.
(* ClientPreprocessor.__call__ / BatchPreprocessor.__call__ (TRANSLATED: gen/Gen_federated_data.v,
   gen/Gen_client_datasets_pre.v): `for f in self._fns: out = f(out)` *)
Definition run_c (i : id) (fs : list cfn) (r : raw) : raw := client_preprocessor_call applyc fs i r.
Definition run_b (gs : list bfn) (r : raw) : raw := batch_preprocessor_call app_b gs r.

(* ClientDataset(raw_examples, preprocessor) *)
Definition dataset := (raw * list bfn)%type.
Definition client_dataset (i : id) (cs : list cfn) (bs : list bfn) (r : raw) : dataset := (run_c i cs r, bs).
(* what is observed of a ClientDataset: raw_examples and all_examples() *)
Definition dobs := (list Z * list Z)%type.
(* all_examples() is the TRANSLATED ClientDataset.all_examples *)
Definition observe (d : dataset) : dobs := (fst d, client_dataset_all_examples app_b (fst d) (snd d)).

Definition stored_len (r : raw) : Z := Z.of_nat (length r).

(* ------------------------------------------------------------------ *)
(* operations and results                                               *)

Inductive op :=
| OSlice (start stop : option id)
| OSubset (ids : list id)
| OPreClient (f : cfn)
| OPreBatch (g : bfn).

(* res / ending / stream and the generator combinators are in Common/PyIter.v *)
Notation cstream := (stream (bytes * dataset)) (only parsing).   (* what get_clients / clients yield *)

Fixpoint gets (get : id -> res dataset) (req : list id) : cstream :=
  match req with
  | [] => ([], Done)
  | i :: req' =>
      match get i with
      | Val d => let (l, e) := gets get req' in ((i, d) :: l, e)
      | KeyErr => ([], EKey)
      | Crash => ([], ECrash)
      end
  end.

(* ------------------------------------------------------------------ *)
(* 1. abstract view                                                     *)

Record view := mkView {
  v_ranges : list (option id * option id);
  v_subsets : list (list id);
  v_c : list cfn;
  v_b : list bfn
}.

Definition view0 : view := mkView [] [] [] [].

(* half-open range: start <= i (when given) and i < stop (when given) *)
Definition in_range (r : option id * option id) (i : id) : bool :=
  (match fst r with Some s => bleb s i | None => true end) &&
  (match snd r with Some e => bltb i e | None => true end).

Definition visible (v : view) (i : id) : bool :=
  forallb (fun r => in_range r i) (v_ranges v) && forallb (bmem i) (v_subsets v).

Definition spec_has (ds : table) (v : view) (i : id) : bool := bmem i (map fst ds) && visible v i.

(* None: the operation is refused (SubsetFederatedData validates its ids: ValueError) *)
Definition spec_apply (ds : table) (v : view) (o : op) : option view :=
  match o with
  | OSlice s e => Some (mkView ((s, e) :: v_ranges v) (v_subsets v) (v_c v) (v_b v))
  | OSubset ids => if forallb (spec_has ds v) ids
                   then Some (mkView (v_ranges v) (ids :: v_subsets v) (v_c v) (v_b v)) else None
  | OPreClient f => Some (mkView (v_ranges v) (v_subsets v) (v_c v ++ [f]) (v_b v))
  | OPreBatch g => Some (mkView (v_ranges v) (v_subsets v) (v_c v) (v_b v ++ [g]))
  end.

(* a refused operation leaves the view as it was; the flags record which were refused *)
Fixpoint spec_run (ds : table) (v : view) (ops : list op) : view * list bool :=
  match ops with
  | [] => (v, [])
  | o :: ops' =>
      match spec_apply ds v o with
      | Some v' => let (w, fl) := spec_run ds v' ops' in (w, false :: fl)
      | None => let (w, fl) := spec_run ds v ops' in (w, true :: fl)
      end
  end.

Definition spec_ids (ds : table) (v : view) : list id := bsort (filter (visible v) (map fst ds)).
Definition spec_num (ds : table) (v : view) : Z := Z.of_nat (length (spec_ids ds v)).
Definition spec_size (ds : table) (v : view) (i : id) : res Z :=
  if visible v i then match bassoc i ds with Some r => Val (stored_len r) | None => KeyErr end else KeyErr.
Definition spec_get (ds : table) (v : view) (i : id) : res dataset :=
  if visible v i then match bassoc i ds with Some r => Val (client_dataset i (v_c v) (v_b v) r) | None => KeyErr end
  else KeyErr.
Definition spec_gets (ds : table) (v : view) (req : list id) : cstream := gets (spec_get ds v) req.
(* the per-id content used to state sizes / clients for any enumeration order of the view *)
Definition spec_size_of (ds : table) (i : id) : Z :=
  match bassoc i ds with Some r => stored_len r | None => 0 end.
Definition spec_dataset_of (ds : table) (v : view) (i : id) : dataset :=
  client_dataset i (v_c v) (v_b v) (match bassoc i ds with Some r => r | None => [] end).
Definition spec_sizes (ds : table) (v : view) : list (id * Z) :=
  map (fun i => (i, spec_size_of ds i)) (spec_ids ds v).
Definition spec_clients (ds : table) (v : view) : list (id * dataset) :=
  map (fun i => (i, spec_dataset_of ds v i)) (spec_ids ds v).

(* ------------------------------------------------------------------ *)
(* 2. implementation models                                             *)

Inductive fd :=
| Mem (tbl : table) (cs : list cfn) (bs : list bfn)
    (* _client_to_data_mapping (a dict: association list), _preprocess_client, _preprocess_batch;
       _client_ids = sorted(keys) *)
| Sql (tbl : table) (start stop : option id) (cs : list cfn) (bs : list bfn)
    (* the federated_data table in rowid order, _start, _stop, the two preprocessors *)
| Sub (base : fd) (ids : list id).
    (* _base, _client_ids (a set: duplicate-free list; only membership and sorted() are used) *)

(* TRANSLATED from __init__: self._client_ids = sorted(self._client_to_data_mapping.keys()) *)
Definition mem_ids (tbl : table) : list id := in_memory_init_client_ids tbl.

(* {client_id: mapping[client_id] for client_id in client_ids} *)
Notation restrict := brestrict (only parsing).

(* SELECT ... FROM federated_data WHERE <_range_where()> ORDER BY rowid (Common/PyIter.sql_where over the
   TRANSLATED predicate) *)
Notation sql_select st sp tbl := (sql_where (sqlite_range_where st sp) tbl) (only parsing).

(* the columns of a stored row: the model keeps the parsed example table; num_examples is its length
   (SQLiteFederatedDataBuilder writes it so) *)
Definition col_data (r : raw) : raw := r.
Definition col_num_examples (r : raw) : Z := stored_len r.

(* self._client_dataset(client_id) of the in-memory dataset: the mapping lookup may raise KeyError *)
Definition mem_dataset_of (tbl : table) (cs : list cfn) (bs : list bfn) (i : id) : res dataset :=
  match bassoc i tbl with
  | Some r => match in_memory_client_dataset applyc cs bs i r with Some dd => Val dd | None => Crash end
  | None => KeyErr
  end.
(* client_datasets.num_examples(self._client_to_data_mapping[client_id], validate=False) *)
Definition mem_num_examples_of (tbl : table) (i : id) : res Z :=
  match bassoc i tbl with Some r => Val (stored_len r) | None => KeyErr end.
(* self._client_dataset(client_id, data) of the SQLite dataset (data already parsed) *)
Definition sql_dataset_of (cs : list cfn) (bs : list bfn) (i : id) (r : raw) : res dataset :=
  match sqlite_client_dataset applyc cs bs i r with Some dd => Val dd | None => Crash end.

(* every constructor call below is the TRANSLATED return statement of the method *)
Fixpoint fd_slice (d : fd) (s e : option id) : option fd :=
  match d with
  | Mem tbl cs bs =>
      match in_memory_slice_ids (mem_ids tbl) s e with
      | Some ids => match in_memory_slice_ctor tbl ids cs bs with
                    | (Some t, cs', bs') => Some (Mem t cs' bs')
                    | (None, _, _) => None
                    end
      | None => None
      end
  | Sql tbl st sp cs bs =>
      match sqlite_slice st sp cs bs s e with
      | Some (st', sp', cs', bs') => Some (Sql tbl st' sp' cs' bs')
      | None => None
      end
  | Sub b ids =>
      match fd_slice b s e with
      | Some b' => match subset_slice b' ids s e with
                   | Some (b'', ids') => Some (Sub b'' ids')
                   | None => None
                   end
      | None => None
      end
  end.

Fixpoint fd_pre_client (d : fd) (f : cfn) : fd :=
  match d with
  | Mem tbl cs bs => let '(t, cs', bs') := in_memory_preprocess_client tbl cs bs f in Mem t cs' bs'
  | Sql tbl st sp cs bs => let '(st', sp', cs', bs') := sqlite_preprocess_client st sp cs bs f in Sql tbl st' sp' cs' bs'
  | Sub b ids => let '(b', ids') := subset_preprocess_client (fd_pre_client b f) ids in Sub b' ids'
  end.

Fixpoint fd_pre_batch (d : fd) (g : bfn) : fd :=
  match d with
  | Mem tbl cs bs => let '(t, cs', bs') := in_memory_preprocess_batch tbl cs bs g in Mem t cs' bs'
  | Sql tbl st sp cs bs => let '(st', sp', cs', bs') := sqlite_preprocess_batch st sp cs bs g in Sql tbl st' sp' cs' bs'
  | Sub b ids => let '(b', ids') := subset_preprocess_batch (fd_pre_batch b g) ids in Sub b' ids'
  end.

(* every method below is the TRANSLATED method body (gen/), instantiated with the model's table *)

(* num_clients() *)
Definition fd_num (d : fd) : res Z :=
  match d with
  | Mem tbl _ _ => Val (in_memory_num_clients (mem_ids tbl))
  | Sql tbl st sp _ _ => match sqlite_num_clients st sp tbl with Some n => Val n | None => Crash end
  | Sub _ ids => Val (subset_num_clients ids)
  end.

(* client_ids() *)
Definition fd_ids (d : fd) : res (list id) :=
  match d with
  | Mem tbl _ _ => Val (in_memory_client_ids (mem_ids tbl))
  | Sql tbl st sp _ _ => match sqlite_client_ids st sp tbl with Some l => Val l | None => Crash end
  | Sub _ ids => Val (subset_client_ids ids)
  end.

Definition of_stream {A} (s : stream A) : res (list A) :=
  match s with (l, Done) => Val l | (_, EKey) => KeyErr | (_, ECrash) => Crash end.

(* client_sizes() *)
Fixpoint fd_sizes (d : fd) : res (list (id * Z)) :=
  match d with
  | Mem tbl _ _ => of_stream (in_memory_client_sizes (mem_num_examples_of tbl) (mem_ids tbl))
  | Sql tbl st sp _ _ =>
      match sqlite_client_sizes col_num_examples st sp tbl with Some l => Val l | None => Crash end
  | Sub b ids =>
      match fd_sizes b with
      | Val l => Val (subset_client_sizes ids l)
      | KeyErr => KeyErr
      | Crash => Crash
      end
  end.

(* client_size(client_id) *)
Fixpoint fd_size (d : fd) (i : id) : res Z :=
  match d with
  | Mem tbl _ _ => in_memory_client_size (mem_num_examples_of tbl) i
  | Sql tbl st sp _ _ => sqlite_client_size col_num_examples st sp tbl i
  | Sub b ids => if subset_client_size_raises ids i then KeyErr else fd_size b i
  end.

(* get_client(client_id) *)
Fixpoint fd_get (d : fd) (i : id) : res dataset :=
  match d with
  | Mem tbl cs bs => in_memory_get_client (mem_dataset_of tbl cs bs) i
  | Sql tbl st sp cs bs => sqlite_get_client col_data (sql_dataset_of cs bs) st sp tbl i
  | Sub b ids => if subset_get_client_raises ids i then KeyErr else fd_get b i
  end.

(* get_clients(client_ids) *)
Fixpoint fd_gets (d : fd) (req : list id) : cstream :=
  match d with
  | Mem tbl cs bs => in_memory_get_clients (mem_dataset_of tbl cs bs) req
  | Sql _ _ _ _ _ => sqlite_get_clients (fd_get d) req
  | Sub b ids => subset_get_clients ids (fd_gets b req)
  end.

(* clients() *)
Definition fd_clients (d : fd) : cstream :=
  match d with
  | Mem tbl _ _ => fd_gets d (in_memory_clients_request (mem_ids tbl))
  | Sql tbl st sp cs bs =>
      match sqlite_read_clients col_data st sp tbl with
      | Some rows => sqlite_clients (sql_dataset_of cs bs) rows
      | None => ([], ECrash)
      end
  | Sub _ ids => fd_gets d (subset_clients_request ids)
  end.

(* One pass of shuffled_clients(buffer_size, seed).  The random choices are oracle arguments
   (the Lehmer code of rng.shuffle(buf), the rng.randint(buffer_size) draws), recorded by the
   harness from the RandomState the implementation creates.  `shuffle1` is one call of
   client_datasets.buffered_shuffle (the mirror of C15); which source is shuffled and what is made
   of the shuffled items is the TRANSLATED method body (a fresh shuffle per pass). *)
Definition shuffle1 {S} (B : Z) (code : list nat) (draws : list Z) (l : list S) : option (list S) :=
  match C15_Model.buffered_shuffle B code draws l false with
  | C15_Model.SOk out => Some out
  | _ => None
  end.

Definition fd_shuffled_pass (d : fd) (B : Z) (code : list nat) (draws : list Z) : option (list (id * dataset)) :=
  match d with
  | Mem _ _ _ =>
      match fd_clients d with
      | (l, Done) => in_memory_shuffled_pass (shuffle1 B code draws) l
      | _ => None
      end
  | Sql tbl st sp cs bs =>
      match sqlite_read_clients col_data st sp tbl with
      | Some rows =>
          match sqlite_shuffled_pass (sql_dataset_of cs bs) (shuffle1 B code draws) rows with
          | Some out => omap (fun kd => match snd kd with Val dd => Some (fst kd, dd) | _ => None end) out
          | None => None
          end
      | None => None
      end
  | Sub _ _ =>
      match fd_clients d with
      | (l, Done) => subset_shuffled_pass (shuffle1 B code draws) l
      | _ => None
      end
  end.

(* SubsetFederatedData(base, client_ids, validate=True): None = ValueError *)
Definition fd_subset (d : fd) (ids : list id) : option fd :=
  match fd_ids d with
  | Val have => match subset_init have ids true with Some s => Some (Sub d s) | None => None end
  | _ => None
  end.

Inductive applied := Applied (d : fd) | Refused | Broken.

Definition fd_apply (d : fd) (o : op) : applied :=
  match o with
  | OSlice s e => match fd_slice d s e with Some d' => Applied d' | None => Broken end
  | OSubset ids => match fd_subset d ids with Some d' => Applied d' | None => Refused end
  | OPreClient f => Applied (fd_pre_client d f)
  | OPreBatch g => Applied (fd_pre_batch d g)
  end.

Fixpoint fd_run (d : fd) (ops : list op) : option (fd * list bool) :=
  match ops with
  | [] => Some (d, [])
  | o :: ops' =>
      match fd_apply d o with
      | Applied d' => match fd_run d' ops' with Some (w, fl) => Some (w, false :: fl) | None => None end
      | Refused => match fd_run d ops' with Some (w, fl) => Some (w, true :: fl) | None => None end
      | Broken => None
      end
  end.

(* the four ways the harness builds a dataset *)
Inductive pipeline := PMem | PSql | PSubMem | PSubSql.

Definition fd_init (p : pipeline) (ds : table) : option fd :=
  match p with
  | PMem => Some (Mem ds [] [])
  | PSql => Some (Sql ds None None [] [])
  | PSubMem => fd_subset (Mem ds [] []) (map fst ds)
  | PSubSql => fd_subset (Sql ds None None [] []) (map fst ds)
  end.

Definition impl_run (p : pipeline) (ds : table) (ops : list op) : option (fd * list bool) :=
  match fd_init p ds with Some d => fd_run d ops | None => None end.

(* ------------------------------------------------------------------ *)
(* vocabulary of the property statements                                *)

(* the ids an implementation exposes after a sequence of operations (client_ids()) *)
Definition ids_of (p : pipeline) (ds : table) (ops : list op) : option (list id) :=
  match impl_run p ds ops with
  | Some (d, _) => match fd_ids d with Val o => Some o | _ => None end
  | None => None
  end.

(* intersection of two optional bounds *)
Definition omax (a b : option id) : option id :=
  match a, b with Some x, Some y => Some (bmax x y) | Some x, None => Some x | None, _ => b end.
Definition omin (a b : option id) : option id :=
  match a, b with Some x, Some y => Some (bmin x y) | Some x, None => Some x | None, _ => b end.

(* the client-level / batch-level functions an operation sequence registers, in order *)
Definition ops_c (ops : list op) : list cfn :=
  flat_map (fun o => match o with OPreClient f => [f] | _ => [] end) ops.
Definition ops_b (ops : list op) : list bfn :=
  flat_map (fun o => match o with OPreBatch g => [g] | _ => [] end) ops.

(* the operations that change which clients are visible *)
Definition view_ops (ops : list op) : list op :=
  filter (fun o => match o with OSlice _ _ | OSubset _ => true | _ => false end) ops.

(* ------------------------------------------------------------------ *)
(* 3. correspondence                                                    *)

(* ids are printed as indices into the case's universe (dataset ids ++ alien ids) *)
Fixpoint idx_of (u : list id) (i : id) : Z :=
  match u with
  | [] => 0
  | j :: u' => if beqb i j then 0 else 1 + idx_of u' i
  end.

(* byte string literal of the case files *)
Definition B (l : list Z) : id := map Z.to_N l.

Inductive eres (A : Type) := V (a : A) | K | X.   (* short names for the case files *)
Arguments V {A}.
Arguments K {A}.
Arguments X {A}.

Definition to_eres {A B} (f : A -> B) (r : res A) : eres B :=
  match r with Val a => V (f a) | KeyErr => K | Crash => X end.

Definition estream := (list (Z * dobs) * Z)%type.   (* ending: 0 done, 1 KeyError, 2 other *)
Definition to_estream (u : list id) (s : cstream) : estream :=
  (map (fun kd => (idx_of u (fst kd), observe (snd kd))) (fst s),
   match snd s with Done => 0 | EKey => 1 | ECrash => 2 end).

Record vobs := mkV {
  o_num : eres Z;
  o_ids : eres (list Z);
  o_sizes : eres (list (Z * Z));
  o_size : list (eres Z);            (* client_size on every universe id *)
  o_clients : estream;
  o_shuffled : list (Z * list nat * list Z * list (Z * dobs));   (* passes of shuffled_clients: buffer_size, oracle, items *)
  o_get : list (eres dobs);          (* get_client on every universe id *)
  o_gets : list estream              (* get_clients on every request *)
}.

Definition model_vobs (u : list id) (reqs : list (list id))
    (oracles : list (Z * list nat * list Z)) (d : fd) : vobs :=
  mkV (to_eres (fun z => z) (fd_num d))
      (to_eres (map (idx_of u)) (fd_ids d))
      (to_eres (map (fun kv => (idx_of u (fst kv), snd kv))) (fd_sizes d))
      (map (fun i => to_eres (fun z => z) (fd_size d i)) u)
      (to_estream u (fd_clients d))
      (map (fun bcd => match fd_shuffled_pass d (fst (fst bcd)) (snd (fst bcd)) (snd bcd) with
                       | Some out => (bcd, fst (to_estream u (out, Done)))
                       | None => (bcd, [(-1, ([], []))])      (* never equal to an observation *)
                       end) oracles)
      (map (fun i => to_eres observe (fd_get d i)) u)
      (map (fun r => to_estream u (fd_gets d r)) reqs)
  .

Definition lz_eqb := list_beq Z.eqb.
Definition dobs_eqb (a b : dobs) := lz_eqb (fst a) (fst b) && lz_eqb (snd a) (snd b).
Definition nd_eqb (a b : Z * dobs) := Z.eqb (fst a) (fst b) && dobs_eqb (snd a) (snd b).
Definition eres_eqb {A} (eqb : A -> A -> bool) (a b : eres A) : bool :=
  match a, b with V x, V y => eqb x y | K, K => true | X, X => true | _, _ => false end.
Definition estream_eqb (a b : estream) := list_beq nd_eqb (fst a) (fst b) && Z.eqb (snd a) (snd b).

Definition pass_eqb (a b : Z * list nat * list Z * list (Z * dobs)) : bool :=
  Z.eqb (fst (fst (fst a))) (fst (fst (fst b))) && list_beq Nat.eqb (snd (fst (fst a))) (snd (fst (fst b))) &&
  lz_eqb (snd (fst a)) (snd (fst b)) && list_beq nd_eqb (snd a) (snd b).

Definition vobs_agree (m o : vobs) : bool :=
  eres_eqb Z.eqb (o_num m) (o_num o) &&
  eres_eqb (list_beq Z.eqb) (o_ids m) (o_ids o) &&
  eres_eqb (list_beq (fun a b => Z.eqb (fst a) (fst b) && Z.eqb (snd a) (snd b))) (o_sizes m) (o_sizes o) &&
  list_beq (eres_eqb Z.eqb) (o_size m) (o_size o) &&
  estream_eqb (o_clients m) (o_clients o) &&
  list_beq pass_eqb (o_shuffled m) (o_shuffled o) &&
  list_beq (eres_eqb dobs_eqb) (o_get m) (o_get o) &&
  list_beq estream_eqb (o_gets m) (o_gets o).

Record C08_case := mkC08 {
  c_ds : table;                 (* the logical dataset, in insertion (rowid / dict) order *)
  c_aliens : list id;           (* ids that are not clients *)
  c_ops : list op;
  c_reqs : list (list id);
  c_bounds : list (option id)   (* slice-grid: every (start, stop) pair of these bounds is sliced off the final view *)
}.

(* one observed view: which pipeline, after how many operations, which operations were refused
   (ValueError) so far, and everything observed through the view *)
Definition C08_entry := (pipeline * Z * list bool * vobs)%type.
(* + the slice grid: per pipeline, for every (start, stop) in c_bounds x c_bounds (row major), the set of ids
   client_ids() exposes after one more slice(start, stop), as a bit mask over the universe *)
Definition C08_obs := (list C08_entry * list (pipeline * list Z))%type.

Definition flags_eqb := list_beq Bool.eqb.

Definition mask_of (u : list id) (ids : list id) : Z := fold_right (fun i acc => acc + 2 ^ idx_of u i) 0 ids.

Definition grid_agree (c : C08_case) (u : list id) (g : pipeline * list Z) : bool :=
  let pairs := list_prod (c_bounds c) (c_bounds c) in
  lz_eqb (map (fun se => match ids_of (fst g) (c_ds c) (c_ops c ++ [OSlice (fst se) (snd se)]) with
                         | Some o => mask_of u o
                         | None => -1
                         end) pairs) (snd g).

Definition C08_agree (c : C08_case) (o : C08_obs) : bool :=
  let u := map fst (c_ds c) ++ c_aliens c in
  forallb (fun e =>
    match e with
    | (p, k, fl, ob) =>
        match impl_run p (c_ds c) (firstn (Z.to_nat k) (c_ops c)) with
        | Some (d, fl') =>
            flags_eqb fl' fl &&
            vobs_agree (model_vobs u (c_reqs c) (map fst (o_shuffled ob)) d) ob
        | None => false
        end
    end) (fst o) &&
  forallb (grid_agree c u) (snd o).
