(* C08 executable model (definitions only).

   Logical dataset: list (id * raw), ids are byte strings (Common/Bytes.v), `raw`
   is the stored example table of a client (its integer feature column x).

   1. the ABSTRACT VIEW (spec): the ranges and subsets requested so far and the two
      preprocessor chains; an id is visible iff it is a client of the dataset inside
      every requested half-open range and every requested subset.
   2. three IMPLEMENTATION MODELS mirroring the code:
        Mem  InMemoryFederatedData   dict restriction (translated slice filter) + chain append
        Sql  SQLiteFederatedData     (start, stop) by the translated intersect_slice_ranges,
                                     WHERE predicate translated from _range_where, ORDER BY rowid
                                     = table order, translated explicit range test on point lookups
        Sub  SubsetFederatedData     id set (translated slice filter), validation, delegation
   3. the correspondence predicate C08_agree evaluated by the check. *)
From Coq Require Import ZArith NArith List Bool.
From FV Require Import Common.ListX Common.Bytes.
From FV Require Import gen.Gen_federated_data gen.Gen_in_memory_federated_data gen.Gen_sqlite_federated_data.
Import ListNotations.
Local Open Scope Z_scope.

(* notations, not definitions: one syntactic form for rewriting *)
Notation id := bytes (only parsing).
Notation raw := (list Z) (only parsing).
Notation table := (list (bytes * list Z)) (only parsing).

(* ------------------------------------------------------------------ *)
(* the indexed preprocessor families the harness registers              *)

Inductive cfn :=                 (* fn(client_id, examples) *)
| CAdd (k : Z)                   (* x + k *)
| CMul (k : Z)                   (* x * k *)
| CAddId                         (* x + sum of the bytes of client_id *)
| CDup                           (* every feature concatenated with itself: 2n rows *)
| CTail.                         (* every feature without its first row *)

Inductive bfn :=                 (* fn(examples), row-wise *)
| BAdd (k : Z)
| BMul (k : Z).

Definition idsum (i : id) : Z := fold_right (fun b a => Z.of_N b + a) 0 i.

Definition app_c (i : id) (f : cfn) (r : raw) : raw :=
  match f with
  | CAdd k => map (fun x => x + k) r
  | CMul k => map (fun x => x * k) r
  | CAddId => map (fun x => x + idsum i) r
  | CDup => r ++ r
  | CTail => tl r
  end.

Definition app_b (g : bfn) (r : raw) : raw :=
  match g with
  | BAdd k => map (fun x => x + k) r
  | BMul k => map (fun x => x * k) r
  end.

(* ClientPreprocessor.__call__ / BatchPreprocessor.__call__: `for f in self._fns: out = f(out)` *)
Definition run_c (i : id) (fs : list cfn) (r : raw) : raw := fold_left (fun acc f => app_c i f acc) fs r.
Definition run_b (gs : list bfn) (r : raw) : raw := fold_left (fun acc g => app_b g acc) gs r.

(* ClientDataset(raw_examples, preprocessor) *)
Definition dataset := (raw * list bfn)%type.
Definition client_dataset (i : id) (cs : list cfn) (bs : list bfn) (r : raw) : dataset := (run_c i cs r, bs).
(* what is observed of a ClientDataset: raw_examples and all_examples() *)
Definition dobs := (list Z * list Z)%type.
Definition observe (d : dataset) : dobs := (fst d, run_b (snd d) (fst d)).

Definition stored_len (r : raw) : Z := Z.of_nat (length r).

(* ------------------------------------------------------------------ *)
(* operations and results                                               *)

Inductive op :=
| OSlice (start stop : option id)
| OSubset (ids : list id)
| OPreClient (f : cfn)
| OPreBatch (g : bfn).

Inductive res (A : Type) :=
| Val (a : A)
| KeyErr        (* KeyError *)
| Crash.        (* any other exception; no model produces it on well-formed input *)
Arguments Val {A}.
Arguments KeyErr {A}.
Arguments Crash {A}.

(* get_clients is a generator: the pairs yielded, then how it ended *)
Inductive ending := Done | EKey | ECrash.
Definition stream := (list (id * dataset) * ending)%type.

Fixpoint gets (get : id -> res dataset) (req : list id) : stream :=
  match req with
  | [] => ([], Done)
  | i :: req' =>
      match get i with
      | Val d => let (l, e) := gets get req' in ((i, d) :: l, e)
      | KeyErr => ([], EKey)
      | Crash => ([], ECrash)
      end
  end.

Fixpoint omap {A B} (f : A -> option B) (l : list A) : option (list B) :=
  match l with
  | [] => Some []
  | x :: l' => match f x, omap f l' with Some y, Some r => Some (y :: r) | _, _ => None end
  end.

Fixpoint bdedup (l : list id) : list id :=          (* set(client_ids) *)
  match l with
  | [] => []
  | i :: l' => if bmem i l' then bdedup l' else i :: bdedup l'
  end.

(* ------------------------------------------------------------------ *)
(* 1. abstract view                                                     *)

Record view := mkView {
  v_ranges : list (option id * option id);
  v_subsets : list (list id);
  v_c : list cfn;
  v_b : list bfn
}.

Definition view0 : view := mkView [] [] [] [].

(* half-open range: start <= i (when given) and i < stop (when given) *)
Definition in_range (r : option id * option id) (i : id) : bool :=
  (match fst r with Some s => bleb s i | None => true end) &&
  (match snd r with Some e => bltb i e | None => true end).

Definition visible (v : view) (i : id) : bool :=
  forallb (fun r => in_range r i) (v_ranges v) && forallb (bmem i) (v_subsets v).

Definition spec_has (ds : table) (v : view) (i : id) : bool := bmem i (map fst ds) && visible v i.

(* None: the operation is refused (SubsetFederatedData validates its ids: ValueError) *)
Definition spec_apply (ds : table) (v : view) (o : op) : option view :=
  match o with
  | OSlice s e => Some (mkView ((s, e) :: v_ranges v) (v_subsets v) (v_c v) (v_b v))
  | OSubset ids => if forallb (spec_has ds v) ids
                   then Some (mkView (v_ranges v) (ids :: v_subsets v) (v_c v) (v_b v)) else None
  | OPreClient f => Some (mkView (v_ranges v) (v_subsets v) (v_c v ++ [f]) (v_b v))
  | OPreBatch g => Some (mkView (v_ranges v) (v_subsets v) (v_c v) (v_b v ++ [g]))
  end.

(* a refused operation leaves the view as it was; the flags record which were refused *)
Fixpoint spec_run (ds : table) (v : view) (ops : list op) : view * list bool :=
  match ops with
  | [] => (v, [])
  | o :: ops' =>
      match spec_apply ds v o with
      | Some v' => let (w, fl) := spec_run ds v' ops' in (w, false :: fl)
      | None => let (w, fl) := spec_run ds v ops' in (w, true :: fl)
      end
  end.

Definition spec_ids (ds : table) (v : view) : list id := bsort (filter (visible v) (map fst ds)).
Definition spec_num (ds : table) (v : view) : Z := Z.of_nat (length (spec_ids ds v)).
Definition spec_size (ds : table) (v : view) (i : id) : res Z :=
  if visible v i then match bassoc i ds with Some r => Val (stored_len r) | None => KeyErr end else KeyErr.
Definition spec_get (ds : table) (v : view) (i : id) : res dataset :=
  if visible v i then match bassoc i ds with Some r => Val (client_dataset i (v_c v) (v_b v) r) | None => KeyErr end
  else KeyErr.
Definition spec_gets (ds : table) (v : view) (req : list id) : stream := gets (spec_get ds v) req.
(* the per-id content used to state sizes / clients for any enumeration order of the view *)
Definition spec_size_of (ds : table) (i : id) : Z :=
  match bassoc i ds with Some r => stored_len r | None => 0 end.
Definition spec_dataset_of (ds : table) (v : view) (i : id) : dataset :=
  client_dataset i (v_c v) (v_b v) (match bassoc i ds with Some r => r | None => [] end).
Definition spec_sizes (ds : table) (v : view) : list (id * Z) :=
  map (fun i => (i, spec_size_of ds i)) (spec_ids ds v).
Definition spec_clients (ds : table) (v : view) : list (id * dataset) :=
  map (fun i => (i, spec_dataset_of ds v i)) (spec_ids ds v).

(* ------------------------------------------------------------------ *)
(* 2. implementation models                                             *)

Inductive fd :=
| Mem (tbl : table) (cs : list cfn) (bs : list bfn)
    (* _client_to_data_mapping (a dict: association list), _preprocess_client, _preprocess_batch;
       _client_ids = sorted(keys) *)
| Sql (tbl : table) (start stop : option id) (cs : list cfn) (bs : list bfn)
    (* the federated_data table in rowid order, _start, _stop, the two preprocessors *)
| Sub (base : fd) (ids : list id).
    (* _base, _client_ids (a set: duplicate-free list; only membership and sorted() are used) *)

Definition mem_ids (tbl : table) : list id := bsort (map fst tbl).

(* {client_id: mapping[client_id] for client_id in client_ids} *)
Definition restrict (tbl : table) (ids : list id) : option table :=
  omap (fun i => match bassoc i tbl with Some r => Some (i, r) | None => None end) ids.

(* SELECT ... FROM federated_data WHERE <_range_where()> ORDER BY rowid *)
Fixpoint sql_select (start stop : option id) (tbl : table) : option table :=
  match tbl with
  | [] => Some []
  | (i, r) :: t =>
      match sqlite_range_where start stop i, sql_select start stop t with
      | Some b, Some l => Some (if b then (i, r) :: l else l)
      | _, _ => None
      end
  end.

Fixpoint fd_slice (d : fd) (s e : option id) : option fd :=
  match d with
  | Mem tbl cs bs =>
      match in_memory_slice_ids (mem_ids tbl) s e with
      | Some ids => match restrict tbl ids with Some t => Some (Mem t cs bs) | None => None end
      | None => None
      end
  | Sql tbl st sp cs bs =>
      match intersect_slice_ranges st sp s e with
      | Some (st', sp') => Some (Sql tbl st' sp' cs bs)
      | None => None
      end
  | Sub b ids =>
      match subset_slice_ids ids s e, fd_slice b s e with
      | Some ids', Some b' => Some (Sub b' ids')
      | _, _ => None
      end
  end.

Fixpoint fd_pre_client (d : fd) (f : cfn) : fd :=
  match d with
  | Mem tbl cs bs => Mem tbl (cs ++ [f]) bs
  | Sql tbl st sp cs bs => Sql tbl st sp (cs ++ [f]) bs
  | Sub b ids => Sub (fd_pre_client b f) ids
  end.

Fixpoint fd_pre_batch (d : fd) (g : bfn) : fd :=
  match d with
  | Mem tbl cs bs => Mem tbl cs (bs ++ [g])
  | Sql tbl st sp cs bs => Sql tbl st sp cs (bs ++ [g])
  | Sub b ids => Sub (fd_pre_batch b g) ids
  end.

(* num_clients() *)
Definition fd_num (d : fd) : res Z :=
  match d with
  | Mem tbl _ _ => Val (Z.of_nat (length (mem_ids tbl)))
  | Sql tbl st sp _ _ => match sql_select st sp tbl with Some l => Val (Z.of_nat (length l)) | None => Crash end
  | Sub _ ids => Val (Z.of_nat (length ids))
  end.

(* client_ids() *)
Definition fd_ids (d : fd) : res (list id) :=
  match d with
  | Mem tbl _ _ => Val (bsort (mem_ids tbl))
  | Sql tbl st sp _ _ => match sql_select st sp tbl with Some l => Val (map fst l) | None => Crash end
  | Sub _ ids => Val (bsort ids)
  end.

(* client_sizes() *)
Fixpoint fd_sizes (d : fd) : res (list (id * Z)) :=
  match d with
  | Mem tbl _ _ =>
      match omap (fun i => match bassoc i tbl with Some r => Some (i, stored_len r) | None => None end) (mem_ids tbl) with
      | Some l => Val l
      | None => KeyErr
      end
  | Sql tbl st sp _ _ =>
      match sql_select st sp tbl with
      | Some l => Val (map (fun kv => (fst kv, stored_len (snd kv))) l)
      | None => Crash
      end
  | Sub b ids =>
      match fd_sizes b with
      | Val l => Val (filter (fun kv => bmem (fst kv) ids) l)
      | KeyErr => KeyErr
      | Crash => Crash
      end
  end.

(* client_size(client_id) *)
Fixpoint fd_size (d : fd) (i : id) : res Z :=
  match d with
  | Mem tbl _ _ => match bassoc i tbl with Some r => Val (stored_len r) | None => KeyErr end
  | Sql tbl st sp _ _ =>
      if sqlite_client_size_in_range st sp i
      then match bassoc i tbl with Some r => Val (stored_len r) | None => KeyErr end
      else KeyErr
  | Sub b ids => if bmem i ids then fd_size b i else KeyErr
  end.

(* get_client(client_id) *)
Fixpoint fd_get (d : fd) (i : id) : res dataset :=
  match d with
  | Mem tbl cs bs => match bassoc i tbl with Some r => Val (client_dataset i cs bs r) | None => KeyErr end
  | Sql tbl st sp cs bs =>
      if sqlite_get_client_in_range st sp i
      then match bassoc i tbl with Some r => Val (client_dataset i cs bs r) | None => KeyErr end
      else KeyErr
  | Sub b ids => if bmem i ids then fd_get b i else KeyErr
  end.

(* `for client_id, dataset in self._base.get_clients(...): if client_id not in self._client_ids: raise KeyError` *)
Fixpoint sub_filter (ids : list id) (l : list (id * dataset)) (e : ending) : stream :=
  match l with
  | [] => ([], e)
  | (i, d) :: l' => if bmem i ids then let (r, e') := sub_filter ids l' e in ((i, d) :: r, e') else ([], EKey)
  end.

(* get_clients(client_ids) *)
Fixpoint fd_gets (d : fd) (req : list id) : stream :=
  match d with
  | Mem _ _ _ => gets (fd_get d) req       (* yield client_id, self._client_dataset(client_id) *)
  | Sql _ _ _ _ _ => gets (fd_get d) req   (* yield client_id, self.get_client(client_id) *)
  | Sub b ids => let (l, e) := fd_gets b req in sub_filter ids l e
  end.

(* clients() *)
Definition fd_clients (d : fd) : stream :=
  match d with
  | Mem tbl _ _ => fd_gets d (mem_ids tbl)
  | Sql tbl st sp cs bs =>
      match sql_select st sp tbl with
      | Some l => (map (fun kv => (fst kv, client_dataset (fst kv) cs bs (snd kv))) l, Done)
      | None => ([], ECrash)
      end
  | Sub _ ids => fd_gets d (bsort ids)
  end.

(* SubsetFederatedData(base, client_ids, validate=True): None = ValueError *)
Definition fd_subset (d : fd) (ids : list id) : option fd :=
  let s := bdedup ids in
  match fd_ids d with
  | Val have => if forallb (fun i => bmem i have) s then Some (Sub d s) else None
  | _ => None
  end.

Inductive applied := Applied (d : fd) | Refused | Broken.

Definition fd_apply (d : fd) (o : op) : applied :=
  match o with
  | OSlice s e => match fd_slice d s e with Some d' => Applied d' | None => Broken end
  | OSubset ids => match fd_subset d ids with Some d' => Applied d' | None => Refused end
  | OPreClient f => Applied (fd_pre_client d f)
  | OPreBatch g => Applied (fd_pre_batch d g)
  end.

Fixpoint fd_run (d : fd) (ops : list op) : option (fd * list bool) :=
  match ops with
  | [] => Some (d, [])
  | o :: ops' =>
      match fd_apply d o with
      | Applied d' => match fd_run d' ops' with Some (w, fl) => Some (w, false :: fl) | None => None end
      | Refused => match fd_run d ops' with Some (w, fl) => Some (w, true :: fl) | None => None end
      | Broken => None
      end
  end.

(* the four ways the harness builds a dataset *)
Inductive pipeline := PMem | PSql | PSubMem | PSubSql.

Definition fd_init (p : pipeline) (ds : table) : option fd :=
  match p with
  | PMem => Some (Mem ds [] [])
  | PSql => Some (Sql ds None None [] [])
  | PSubMem => fd_subset (Mem ds [] []) (map fst ds)
  | PSubSql => fd_subset (Sql ds None None [] []) (map fst ds)
  end.

Definition impl_run (p : pipeline) (ds : table) (ops : list op) : option (fd * list bool) :=
  match fd_init p ds with Some d => fd_run d ops | None => None end.

(* ------------------------------------------------------------------ *)
(* vocabulary of the property statements                                *)

(* the ids an implementation exposes after a sequence of operations (client_ids()) *)
Definition ids_of (p : pipeline) (ds : table) (ops : list op) : option (list id) :=
  match impl_run p ds ops with
  | Some (d, _) => match fd_ids d with Val o => Some o | _ => None end
  | None => None
  end.

(* intersection of two optional bounds *)
Definition omax (a b : option id) : option id :=
  match a, b with Some x, Some y => Some (bmax x y) | Some x, None => Some x | None, _ => b end.
Definition omin (a b : option id) : option id :=
  match a, b with Some x, Some y => Some (bmin x y) | Some x, None => Some x | None, _ => b end.

(* the client-level / batch-level functions an operation sequence registers, in order *)
Definition ops_c (ops : list op) : list cfn :=
  flat_map (fun o => match o with OPreClient f => [f] | _ => [] end) ops.
Definition ops_b (ops : list op) : list bfn :=
  flat_map (fun o => match o with OPreBatch g => [g] | _ => [] end) ops.

(* ------------------------------------------------------------------ *)
(* 3. correspondence                                                    *)

(* ids are printed as indices into the case's universe (dataset ids ++ alien ids) *)
Fixpoint idx_of (u : list id) (i : id) : Z :=
  match u with
  | [] => 0
  | j :: u' => if beqb i j then 0 else 1 + idx_of u' i
  end.

(* byte string literal of the case files *)
Definition B (l : list Z) : id := map Z.to_N l.

Inductive eres (A : Type) := V (a : A) | K | X.   (* short names for the case files *)
Arguments V {A}.
Arguments K {A}.
Arguments X {A}.

Definition to_eres {A B} (f : A -> B) (r : res A) : eres B :=
  match r with Val a => V (f a) | KeyErr => K | Crash => X end.

Definition estream := (list (Z * dobs) * Z)%type.   (* ending: 0 done, 1 KeyError, 2 other *)
Definition to_estream (u : list id) (s : stream) : estream :=
  (map (fun kd => (idx_of u (fst kd), observe (snd kd))) (fst s),
   match snd s with Done => 0 | EKey => 1 | ECrash => 2 end).

Record vobs := mkV {
  o_num : eres Z;
  o_ids : eres (list Z);
  o_sizes : eres (list (Z * Z));
  o_size : list (eres Z);            (* client_size on every universe id *)
  o_clients : estream;
  o_shuffled : list (Z * dobs);    (* one pass of shuffled_clients *)
  o_get : list (eres dobs);          (* get_client on every universe id *)
  o_gets : list estream              (* get_clients on every request *)
}.

Definition model_vobs (u : list id) (reqs : list (list id)) (d : fd) : vobs :=
  mkV (to_eres (fun z => z) (fd_num d))
      (to_eres (map (idx_of u)) (fd_ids d))
      (to_eres (map (fun kv => (idx_of u (fst kv), snd kv))) (fd_sizes d))
      (map (fun i => to_eres (fun z => z) (fd_size d i)) u)
      (to_estream u (fd_clients d))
      []
      (map (fun i => to_eres observe (fd_get d i)) u)
      (map (fun r => to_estream u (fd_gets d r)) reqs)
  .

Definition lz_eqb := list_beq Z.eqb.
Definition dobs_eqb (a b : dobs) := lz_eqb (fst a) (fst b) && lz_eqb (snd a) (snd b).
Definition nd_eqb (a b : Z * dobs) := Z.eqb (fst a) (fst b) && dobs_eqb (snd a) (snd b).
Definition eres_eqb {A} (eqb : A -> A -> bool) (a b : eres A) : bool :=
  match a, b with V x, V y => eqb x y | K, K => true | X, X => true | _, _ => false end.
Definition estream_eqb (a b : estream) := list_beq nd_eqb (fst a) (fst b) && Z.eqb (snd a) (snd b).

(* a shuffled pass is SOME permutation of clients(): compare after sorting by index *)
Fixpoint nd_insert (x : Z * dobs) (l : list (Z * dobs)) :=
  match l with
  | [] => [x]
  | y :: l' => if Z.leb (fst x) (fst y) then x :: l else y :: nd_insert x l'
  end.
Definition nd_sort (l : list (Z * dobs)) := fold_right nd_insert [] l.

Definition vobs_agree (m o : vobs) : bool :=
  eres_eqb Z.eqb (o_num m) (o_num o) &&
  eres_eqb (list_beq Z.eqb) (o_ids m) (o_ids o) &&
  eres_eqb (list_beq (fun a b => Z.eqb (fst a) (fst b) && Z.eqb (snd a) (snd b))) (o_sizes m) (o_sizes o) &&
  list_beq (eres_eqb Z.eqb) (o_size m) (o_size o) &&
  estream_eqb (o_clients m) (o_clients o) &&
  list_beq nd_eqb (nd_sort (fst (o_clients m))) (nd_sort (o_shuffled o)) &&
  list_beq (eres_eqb dobs_eqb) (o_get m) (o_get o) &&
  list_beq estream_eqb (o_gets m) (o_gets o).

Record C08_case := mkC08 {
  c_ds : table;                 (* the logical dataset, in insertion (rowid / dict) order *)
  c_aliens : list id;           (* ids that are not clients *)
  c_ops : list op;
  c_reqs : list (list id)
}.

(* one observed view: which pipeline, after how many operations, which operations were refused
   (ValueError) so far, and everything observed through the view *)
Definition C08_obs := list (pipeline * Z * list bool * vobs).

Definition flags_eqb := list_beq Bool.eqb.

Definition C08_agree (c : C08_case) (o : C08_obs) : bool :=
  let u := map fst (c_ds c) ++ c_aliens c in
  forallb (fun e =>
    match e with
    | (p, k, fl, ob) =>
        match impl_run p (c_ds c) (firstn (Z.to_nat k) (c_ops c)) with
        | Some (d, fl') => flags_eqb fl' fl && vobs_agree (model_vobs u (c_reqs c) d) ob
        | None => false
        end
    end) o.
