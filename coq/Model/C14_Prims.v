(* C14 primitives: extended integer scores, argmax, stable argsort, MeanStat.new,
   and the array operations the metric translator (tools/lib/mtr.py) emits.
   Definitions only. *)
From Coq Require Import ZArith QArith Qabs List Bool.
From FV Require Import Common.ListX Common.PySem.
Import ListNotations.
Local Open Scope Z_scope.

(* ---------- extended integer scores ---------- *)
Inductive ext := NInf | Fin (z : Z) | PInf.

Definition ext_ltb (a b : ext) : bool :=
  match a, b with
  | NInf, NInf => false
  | NInf, _ => true
  | Fin _, NInf => false
  | Fin x, Fin y => x <? y
  | Fin _, PInf => true
  | PInf, _ => false
  end.
Definition ext_leb (a b : ext) : bool := negb (ext_ltb b a).
Definition ext_neg (a : ext) : ext :=
  match a with NInf => PInf | Fin z => Fin (- z) | PInf => NInf end.
(* float addition of a finite prediction and a logits-mask entry *)
Definition add_mask (p : Z) (m : ext) : ext :=
  match m with NInf => NInf | Fin z => Fin (p + z) | PInf => PInf end.

Definition map2 {A B C} (f : A -> B -> C) (l1 : list A) (l2 : list B) : list C :=
  map (fun p => f (fst p) (snd p)) (combine l1 l2).

(* ---------- argmax: first index of the maximum ---------- *)
Fixpoint argmax_v (l : list ext) : ext * nat :=
  match l with
  | [] => (NInf, O)
  | x :: r =>
      match r with
      | [] => (x, O)
      | _ => let mj := argmax_v r in
             if ext_ltb x (fst mj) then (fst mj, S (snd mj)) else (x, O)
      end
  end.
Definition argmax (l : list ext) : nat := snd (argmax_v l).

(* ---------- stable ascending argsort (insertion sort on (key, index) pairs) ---------- *)
Fixpoint ins (p : ext * nat) (l : list (ext * nat)) : list (ext * nat) :=
  match l with
  | [] => [p]
  | q :: r => if ext_leb (fst p) (fst q) then p :: q :: r else q :: ins p r
  end.
Definition sort_pairs (a : nat) (keys : list ext) : list (ext * nat) :=
  fold_right ins [] (combine keys (seq a (length keys))).
Definition argsort (keys : list ext) : list nat := map snd (sort_pairs 0 keys).

(* ---------- scalars ---------- *)
Definition b2z (b : bool) : Z := if b then 1 else 0.
Definition zsum (l : list Z) : Z := fold_right Z.add 0 l.
Definition qsum (l : list Q) : Q := fold_right Qplus 0%Q l.

(* MeanStat.new: weight = max(0, weight); accum = where(weight == 0, 0, accum) *)
Definition mean_new (a w : Z) : Z * Z :=
  let w' := Z.max 0 w in (if w' =? 0 then 0 else a, w').
Definition mean_newQ (a : Q) (w : Z) : Q * Z :=
  let w' := Z.max 0 w in (if w' =? 0 then 0%Q else a, w').


(* ---------- array operations emitted by the translator ---------- *)
(* a finite score array read as extended scores *)
Definition fin_vec (v : list Z) : list ext := map Fin v.
Definition fin_mat (m : list (list Z)) : list (list ext) := map fin_vec m.
(* jnp.argmax(x, axis=-1) / jnp.argsort(x) as integer arrays *)
Definition argmax_z (s : list ext) : Z := Z.of_nat (argmax s).
Definition argsort_z (s : list ext) : list Z := map Z.of_nat (argsort s).
(* jnp.any / jnp.all of a boolean array; jnp.any of a numeric array *)
Definition any_b (l : list bool) : bool := existsb (fun b => b) l.
Definition all_b (l : list bool) : bool := forallb (fun b => b) l.
Definition any_z (l : list Z) : bool := existsb (fun w => negb (w =? 0)) l.
(* jnp.any(jnp.transpose(rows) == t, axis=0): per position, is t_i among rows_i *)
Definition rows_any_eq (rows : list (list Z)) (t : list Z) : list bool :=
  map2 (fun row ti => any_b (map (fun x => x =? ti) row)) rows t.
(* pred += logits_mask (broadcast over the leading axis) *)
Definition add_mask_mat (m : list (list Z)) (lm : list ext) : list (list ext) :=
  map (fun row => map2 add_mask row lm) m.
(* jnp.zeros((r, c)) and zeros.at[i, j].set(v) for in-range non-negative i, j *)
Definition zeros_mat (r c : Z) : list (list Z) := repeat (repeat 0 (Z.to_nat c)) (Z.to_nat r).
Definition mat_set (m : list (list Z)) (i j v : Z) : list (list Z) :=
  map2 (fun r row => map2 (fun c x => if (Z.of_nat r =? i) && (Z.of_nat c =? j) then v else x)
                          (seq 0 (length row)) row) (seq 0 (length m)) m.
(* jax.nn.one_hot(d, n, dtype=bool): position j is (j == d); an id outside [0, n) gives all False *)
Definition one_hot_b (d : Z) (n : nat) : list bool := map (fun j => Z.of_nat j =? d) (seq 0 n).
