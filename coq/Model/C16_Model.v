(* C16 executable model of fedjax/core/serialization.py (msgpack_serialize /
   msgpack_deserialize), the SQLite builder -> reader path and save_state/load_state.

   Trusted inverse pairs (NOT modelled, stated in the harness' TRUSTED list):
   msgpack.packb/unpackb on the wire tree below (tuples become lists, raw=True turns
   str into bytes for the inner documents), numpy.ndarray.tobytes('C') = the
   logical row-major element sequence laid out with the dtype's byte order,
   numpy.frombuffer = its inverse for a native dtype, zlib, pickle, SQLite rows.

   Elements are bit patterns (integers in [0, 256^width)); the bytes layout per dtype
   is little-endian of the pattern at the dtype's width (complex: real part in the
   low half), which is abstract but injective.  Array memory is explicit: a buffer
   of element patterns, an element offset and per-axis element strides, so that the
   layout (C, Fortran, strided, reversed, broadcast) is an input of the model and
   `logical` computes what tobytes('C') must emit. *)
From Coq Require Import String Ascii.
From Coq Require Import ZArith List Bool Lia.
From FV Require Import Common.ListX Common.Chunk Common.SerTags.
From FV Require Export gen.Gen_serialization gen.Gen_c16_checkpoint gen.Gen_c16_sqlite.
Import ListNotations.
Local Open Scope Z_scope.

(* ---------- dtypes ---------- *)
Inductive dtype := I8 | I16 | I32 | I64 | U8 | U16 | U32 | U64 | F16 | BF16 | F32 | F64 | C64 | C128 | BOOL.
Definition all_dtypes : list dtype := [I8; I16; I32; I64; U8; U16; U32; U64; F16; BF16; F32; F64; C64; C128; BOOL].

Definition dtype_eqb (a b : dtype) : bool :=
  match a, b with
  | I8, I8 | I16, I16 | I32, I32 | I64, I64 | U8, U8 | U16, U16 | U32, U32 | U64, U64
  | F16, F16 | BF16, BF16 | F32, F32 | F64, F64 | C64, C64 | C128, C128 | BOOL, BOOL => true
  | _, _ => false
  end.

(* itemsize in bytes *)
Definition dt_width (d : dtype) : nat :=
  match d with
  | I8 | U8 | BOOL => 1 | I16 | U16 | F16 | BF16 => 2 | I32 | U32 | F32 => 4
  | I64 | U64 | F64 | C64 => 8 | C128 => 16
  end%nat.

Definition bytes_of_string (s : string) : list Z := map (fun c => Z.of_N (N_of_ascii c)) (list_ascii_of_string s).

(* numpy's dtype.name: carries no byte order *)
Definition dt_name_s (d : dtype) : string :=
  match d with
  | I8 => "int8" | I16 => "int16" | I32 => "int32" | I64 => "int64"
  | U8 => "uint8" | U16 => "uint16" | U32 => "uint32" | U64 => "uint64"
  | F16 => "float16" | BF16 => "bfloat16" | F32 => "float32" | F64 => "float64"
  | C64 => "complex64" | C128 => "complex128" | BOOL => "bool"
  end%string.
Definition dt_name (d : dtype) : list Z := bytes_of_string (dt_name_s d).

Definition lz_eqb := list_beq Z.eqb.

(* _dtype_from_name: b'bfloat16' is special-cased, everything else through np.dtype(name);
   names outside the table make np.dtype raise TypeError (None) *)
Definition dtype_of_name (s : list Z) : option dtype := find (fun d => lz_eqb (dt_name d) s) all_dtypes.

Inductive border := Native | Swapped.

(* ---------- byte layout ---------- *)
Fixpoint le_bytes (w : nat) (n : Z) : list Z :=
  match w with O => [] | S w' => (n mod 256) :: le_bytes w' (n / 256) end.
Fixpoint le_val (bs : list Z) : Z :=
  match bs with [] => 0 | b :: r => b + 256 * le_val r end.

Definition is_complex (d : dtype) : bool := match d with C64 | C128 => true | _ => false end.

(* memory bytes of one element value under a byte order: big-endian memory is the
   reversed little-endian layout (per component for complex) *)
Definition elem_bytes (d : dtype) (o : border) (v : Z) : list Z :=
  let w := dt_width d in
  match o with
  | Native => le_bytes w v
  | Swapped =>
      if is_complex d then
        let h := Nat.div w 2 in
        rev (le_bytes h (v mod 256 ^ Z.of_nat h)) ++ rev (le_bytes h (v / 256 ^ Z.of_nat h))
      else rev (le_bytes w v)
  end.

(* ---------- arrays ---------- *)
Record ndarr := mkArr {
  a_dt : dtype; a_order : border; a_shape : list nat;
  a_strides : list Z;       (* in elements, one per axis; may be 0 or negative *)
  a_offset : Z;             (* element index of logical [0,..,0] in the buffer *)
  a_buf : list Z            (* element values (bit patterns) of the underlying memory *)
}.

Fixpoint prod (shape : list nat) : nat := match shape with [] => 1 | n :: r => n * prod r end%nat.

(* all index tuples in row-major (C) order *)
Fixpoint indices (shape : list nat) : list (list nat) :=
  match shape with
  | [] => [[]]
  | n :: r => flat_map (fun i => map (cons i) (indices r)) (seq 0 n)
  end.

Fixpoint dot (strides : list Z) (idx : list nat) : Z :=
  match strides, idx with
  | s :: ss, i :: r => s * Z.of_nat i + dot ss r
  | _, _ => 0
  end.

Definition addr (a : ndarr) (idx : list nat) : Z := a_offset a + dot (a_strides a) idx.

(* the logical row-major element sequence = what tobytes('C') walks *)
Definition logical (a : ndarr) : list Z :=
  map (fun idx => nth (Z.to_nat (addr a idx)) (a_buf a) 0) (indices (a_shape a)).

Fixpoint c_strides (shape : list nat) : list Z :=
  match shape with [] => [] | n :: r => Z.of_nat (prod r) :: c_strides r end.

(* a fresh native C-contiguous array *)
Definition mk_carr (d : dtype) (shape : list nat) (els : list Z) : ndarr :=
  mkArr d Native shape (c_strides shape) 0 els.

Definition in_range (d : dtype) (v : Z) : bool := (0 <=? v) && (v <? 256 ^ Z.of_nat (dt_width d)).

Definition wf_arrb (a : ndarr) : bool :=
  Nat.eqb (length (a_strides a)) (length (a_shape a)) &&
  forallb (fun idx => (0 <=? addr a idx) && (addr a idx <? Z.of_nat (length (a_buf a)))) (indices (a_shape a)) &&
  forallb (in_range (a_dt a)) (a_buf a) &&
  (* single-byte dtypes have no byte order *)
  match a_order a with Native => true | Swapped => negb (Nat.eqb (dt_width (a_dt a)) 1) end.

(* ndarrays whose dtype is outside the table: 'U'/'S'/'V', structured (aligned or
   not, with or without object fields), records.  o_name = dtype.name. *)
Record oarr := mkOArr {
  o_name : list Z; o_hasobject : bool; o_alignedstruct : bool; o_shape : list nat; o_raw : list Z
}.

Inductive objelem := OBytes (b : list Z) | ONotBytes.

(* ---------- python values ---------- *)
Inductive value :=
| VDict (ks : list (list Z)) (vs : list value)    (* str keys (utf-8 bytes), insertion order *)
| VList (vs : list value)
| VTuple (vs : list value)
| VSet
| VArr (a : ndarr)                                (* numeric / bool numpy.ndarray *)
| VJax (a : ndarr)                                (* jax.Array (always native, C) *)
| VOther (o : oarr)                               (* ndarray of an unsupported dtype *)
| VObj (shape : list nat) (elems : list objelem)  (* ndarray of dtype object, logical order *)
| VNpScalar (d : dtype) (bits : Z)                (* np.generic of a supported dtype *)
| VNpOther (o : oarr)                             (* np.str_, np.bytes_, np.void *)
| VInt (z : Z) | VFloat (bits : Z) | VBool (b : bool) | VNone
| VStr (s : list Z) | VBytes (s : list Z)
| VComplex (re im : Z)                            (* python complex, float64 patterns *)
| VForeign.                                       (* anything else, e.g. a raw msgpack.ExtType *)

(* ---------- the msgpack document tree ---------- *)
Inductive wire :=
| WNil | WBool (b : bool) | WInt (z : Z) | WF64 (bits : Z) | WStr (s : list Z) | WBin (s : list Z)
| WArr (ws : list wire)
| WMap (ks : list (list Z)) (ws : list wire)
| WExt (code : Z) (payload : wire).      (* payload = the inner msgpack document *)

Definition omap {A B} (f : A -> option B) : list A -> option (list B) :=
  fix go l := match l with
              | [] => Some []
              | x :: r => match f x, go r with Some y, Some ys => Some (y :: ys) | _, _ => None end
              end.

(* _MsgpackExtType codes, the dispatch tables, the steps of _ndarray_to_bytes and the tuple
   layouts are TRANSLATED: gen/Gen_serialization.v (re-generated on every check) *)
Definition shape_wire (shape : list nat) : wire := WArr (map (fun n => WInt (Z.of_nat n)) shape).

(* arr.astype(arr.dtype.newbyteorder('=')): new native C-contiguous array, same values *)
Definition astype_native (a : ndarr) : ndarr := mk_carr (a_dt a) (a_shape a) (logical a).
Definition is_native (a : ndarr) : bool := match a_order a with Native => true | Swapped => false end.

(* arr.tobytes('C') *)
Definition tobytes_C (a : ndarr) : list Z := flat_map (elem_bytes (a_dt a) (a_order a)) (logical a).

(* closed forms of what the interpreted tables below compute (Proofs: ndarray_to_bytes_in_arr /
   _other); the correspondence and the theorems use the interpreted `encode` *)
(* _ndarray_to_bytes on a supported dtype (hasobject / isalignedstruct are false) *)
Definition ndarray_to_bytes (a : ndarr) : wire :=
  let a := if is_native a then a else astype_native a in
  WArr [shape_wire (a_shape a); WStr (dt_name (a_dt a)); WBin (tobytes_C a)].

(* _ndarray_to_bytes on another dtype: the guard, then the same triple *)
Definition other_to_bytes (o : oarr) : option wire :=
  if o_hasobject o || o_alignedstruct o then None
  else Some (WArr [shape_wire (o_shape o); WStr (o_name o); WBin (o_raw o)]).

Definition obj_bytes (e : objelem) : option wire := match e with OBytes b => Some (WBin b) | ONotBytes => None end.

Definition int_packable (z : Z) : bool := (- 2 ^ 63 <=? z) && (z <? 2 ^ 64).

(* ---- interpretation of the translated tables ---- *)
(* what _ndarray_to_bytes can be handed *)
Inductive arrin := InArr (a : ndarr) | InJax (a : ndarr) | InOther (o : oarr) | InObj.

Definition ntb_apply (st : ntb_step) (x : arrin) : option arrin :=
  match st, x with
  | StepJaxToNumpy, InJax a => Some (InArr (astype_native a))       (* np.array(arr): native, C *)
  | StepJaxToNumpy, _ => Some x
  | StepReject h al, InOther o => if (h && o_hasobject o) || (al && o_alignedstruct o) then None else Some x
  | StepReject h _, InObj => if h then None else Some x
  | StepReject _ _, _ => Some x                                      (* numeric / bool dtypes have neither flag *)
  | StepToNative, InArr a => Some (InArr (if is_native a then a else astype_native a))
  | StepToNative, _ => Some x
  end.

Definition arr_field (x : arrin) (f : ser_field) : option wire :=
  match x, f with
  | (InArr a | InJax a), FShape => Some (shape_wire (a_shape a))
  | (InArr a | InJax a), FName => Some (WStr (dt_name (a_dt a)))
  | (InArr a | InJax a), FBytesC => Some (WBin (tobytes_C a))
  | InOther o, FShape => Some (shape_wire (o_shape o))
  | InOther o, FName => Some (WStr (o_name o))
  | InOther o, FBytesC => Some (WBin (o_raw o))
  | _, _ => None
  end.

Definition run_steps (steps : list ntb_step) (x : arrin) : option arrin :=
  fold_left (fun acc st => match acc with Some y => ntb_apply st y | None => None end) steps (Some x).

(* _ndarray_to_bytes *)
Definition ndarray_to_bytes_in (x : arrin) : option wire :=
  match run_steps ndarray_to_bytes_steps x with
  | Some y => option_map WArr (omap (arr_field y) ndarray_tuple_fields)
  | None => None
  end.

(* _bytes_ndarray_to_bytes on the flattened items *)
Definition bytes_ndarray_to_bytes (shape : list nat) (elems : list objelem) : option wire :=
  let flat := if bytes_ndarray_checks_every_element then omap obj_bytes elems
              else match elems with ONotBytes :: _ => None | _ => Some (map (fun e => match e with OBytes b => WBin b | ONotBytes => WNil end) elems) end in
  match flat with
  | Some fl => option_map WArr (omap (fun f => match f with FShape => Some (shape_wire shape) | FFlat => Some (WArr fl) | _ => None end)
                                     bytes_tuple_fields)
  | None => None
  end.

Definition test_holds (t : pack_test) (v : value) : bool :=
  match t, v with
  | TestNdarrayObject, VObj _ _ => true
  | TestNdarrayOrJax, (VArr _ | VJax _ | VOther _ | VObj _ _) => true
  | TestNpGeneric, (VNpScalar _ _ | VNpOther _) => true
  | TestComplex, VComplex _ _ => true
  | TestComplex, VNpScalar C128 _ => true      (* np.complex128 is ALSO a subclass of python complex *)
  | _, _ => false
  end.

Definition apply_enc (e : pack_enc) (v : value) : option wire :=
  match e, v with
  | EncBytesNdarray, VObj shape elems => bytes_ndarray_to_bytes shape elems
  (* items of a non-object array are never bytes objects: only an empty one passes the check *)
  | EncBytesNdarray, VOther o => if Nat.eqb (prod (o_shape o)) 0 then bytes_ndarray_to_bytes (o_shape o) [] else None
  | EncBytesNdarray, (VArr a | VJax a) => if Nat.eqb (prod (a_shape a)) 0 then bytes_ndarray_to_bytes (a_shape a) [] else None
  | EncNdarray, VArr a => ndarray_to_bytes_in (InArr a)
  | EncNdarray, VJax a => ndarray_to_bytes_in (InJax a)
  | EncNdarray, VOther o => ndarray_to_bytes_in (InOther o)
  | EncNdarray, VObj _ _ => ndarray_to_bytes_in InObj
  | EncNdarrayOfAsarray, VNpScalar d bits => ndarray_to_bytes_in (InArr (mk_carr d [] [bits]))
  | EncNdarrayOfAsarray, VNpOther o => ndarray_to_bytes_in (InOther o)
  | EncComplexTuple, VComplex re im => Some (WArr [WF64 re; WF64 im])
  | EncComplexTuple, VNpScalar C128 bits => Some (WArr [WF64 (bits mod 2 ^ 64); WF64 (bits / 2 ^ 64)])   (* (x.real, x.imag) *)
  | _, _ => None
  end.

(* msgpack's `default=` hook: the first branch of _msgpack_ext_pack whose test holds; when none
   does, x is returned unchanged and msgpack raises TypeError *)
Definition ext_pack (v : value) : option wire :=
  match find (fun b => test_holds (fst (fst b)) v) pack_dispatch with
  | Some (_, code, enc) => option_map (WExt code) (apply_enc enc v)
  | None => None
  end.

(* msgpack.packb(pytree, default=_msgpack_ext_pack, strict_types=True) *)
Fixpoint encode (v : value) : option wire :=
  match v with
  | VDict ks vs => if Nat.eqb (length ks) (length vs) then option_map (WMap ks) (omap encode vs) else None
  | VList vs => option_map WArr (omap encode vs)
  | VInt z => if int_packable z then Some (WInt z) else None          (* OverflowError *)
  | VFloat b => Some (WF64 b) | VBool b => Some (WBool b) | VNone => Some WNil
  | VStr s => Some (WStr s) | VBytes s => Some (WBin s)
  (* without strict_types msgpack would pack a tuple as an array *)
  | VTuple vs => if serialize_strict_types then ext_pack v else option_map WArr (omap encode vs)
  | _ => ext_pack v
  end.

Definition wire_nat (w : wire) : option nat :=
  match w with WInt z => if 0 <=? z then Some (Z.to_nat z) else None | _ => None end.

(* a, b, c = msgpack.unpackb(data, raw=True): positional binding of the tuple to the
   translated field roles; a length mismatch raises *)
Fixpoint field_of (names : list ser_field) (vals : list wire) (f : ser_field) : option wire :=
  match names, vals with
  | n :: nr, v :: vr =>
      let same := match n, f with FShape, FShape | FName, FName | FBytesC, FBytesC | FFlat, FFlat => true | _, _ => false end in
      if same then Some v else field_of nr vr f
  | _, _ => None
  end.

(* _ndarray_from_bytes: np.frombuffer(buffer, dtype=_dtype_from_name(name)).reshape(shape, order='C') *)
Definition ndarray_from_bytes (p : wire) : option ndarr :=
  match p with
  | WArr vals =>
      if Nat.eqb (length vals) (length ndarray_unpack_fields) then
        match field_of ndarray_unpack_fields vals FShape, field_of ndarray_unpack_fields vals FName,
              field_of ndarray_unpack_fields vals FBytesC with
        | Some (WArr sh), Some (WStr name), Some (WBin buf) =>
            match omap wire_nat sh, dtype_of_name name with
            | Some shape, Some d =>
                let w := dt_width d in
                if Nat.eqb (Nat.modulo (length buf) w) 0 then
                  let els := map le_val (chunks w buf) in
                  if Nat.eqb (length els) (prod shape) then Some (mk_carr d shape els) else None
                else None
            | _, _ => None
            end
        | _, _, _ => None
        end
      else None
  | _ => None
  end.

Definition wire_bin (w : wire) : option objelem := match w with WBin b => Some (OBytes b) | _ => None end.

(* _object_ndarray_from_bytes *)
Definition object_from_bytes (p : wire) : option value :=
  match p with
  | WArr vals =>
      if Nat.eqb (length vals) (length bytes_unpack_fields) then
        match field_of bytes_unpack_fields vals FShape, field_of bytes_unpack_fields vals FFlat with
        | Some (WArr sh), Some (WArr flat) =>
            match omap wire_nat sh, omap wire_bin flat with
            | Some shape, Some elems => if Nat.eqb (length elems) (prod shape) then Some (VObj shape elems) else None
            | _, _ => None
            end
        | _, _ => None
        end
      else None
  | _ => None
  end.

Definition apply_dec (d : unpack_dec) (p : wire) : option value :=
  match d with
  | DecNdarray => option_map VArr (ndarray_from_bytes p)
  | DecComplex => match p with WArr [WF64 re; WF64 im] => Some (VComplex re im) | _ => None end
  | DecScalarOfNdarray =>
      match ndarray_from_bytes p with
      | Some a => match a_shape a, a_buf a with
                  | [], [b] => Some (VNpScalar (a_dt a) b)      (* ar[()] *)
                  | _, _ => Some (VArr a)
                  end
      | None => None
      end
  | DecObjectNdarray => object_from_bytes p
  end.

(* _msgpack_ext_unpack *)
Definition ext_unpack (code : Z) (p : wire) : option value :=
  match find (fun b => fst b =? code) unpack_dispatch with
  | Some (_, d) => apply_dec d p
  | None => Some VForeign
  end.

(* msgpack.unpackb(encoded, ext_hook=_msgpack_ext_unpack, raw=False) *)
Fixpoint decode (w : wire) : option value :=
  match w with
  | WNil => Some VNone | WBool b => Some (VBool b) | WInt z => Some (VInt z) | WF64 b => Some (VFloat b)
  | WStr s => Some (VStr s) | WBin s => Some (VBytes s)
  | WArr ws => option_map VList (omap decode ws)
  | WMap ks ws => option_map (VDict ks) (omap decode ws)
  | WExt code p => ext_unpack code p
  end.

Definition roundtrip (v : value) : option value :=
  match encode v with Some w => decode w | None => None end.

(* the value a round trip is expected to give: arrays become native C-contiguous
   numpy arrays with the same dtype, shape and logical values *)
Fixpoint canon (v : value) : value :=
  match v with
  | VDict ks vs => VDict ks (map canon vs)
  | VList vs => VList (map canon vs)
  | VArr a | VJax a => VArr (astype_native a)
  | _ => v
  end.

(* the property's supported set *)
Fixpoint supported (v : value) : bool :=
  match v with
  | VDict ks vs => Nat.eqb (length ks) (length vs) && forallb supported vs
  | VList vs => forallb supported vs
  | VArr _ | VJax _ | VNpScalar _ _ | VFloat _ | VBool _ | VNone | VStr _ | VBytes _ | VComplex _ _ => true
  | VObj shape elems => forallb (fun e => match e with OBytes _ => true | ONotBytes => false end) elems
  | VInt z => int_packable z      (* msgpack's integer domain: [-2^63, 2^64) *)
  | _ => false
  end.

(* representation invariants of the syntax (what numpy guarantees of any array) *)
Fixpoint wf (v : value) : bool :=
  match v with
  | VDict _ vs | VList vs | VTuple vs => forallb wf vs
  | VArr a => wf_arrb a
  | VJax a => wf_arrb a && is_native a
  | VOther o | VNpOther o => match dtype_of_name (o_name o) with None => true | Some _ => false end
  | VObj shape elems => Nat.eqb (length elems) (prod shape)
  | VNpScalar d bits => in_range d bits
  | _ => true
  end.

(* the weaker invariant the round-trip theorems actually need: the LOGICAL elements fit the dtype
   (implied by wf; preserved by canon, which wf's stride conditions are not needed for) *)
Fixpoint wfl (v : value) : bool :=
  match v with
  | VDict _ vs | VList vs | VTuple vs => forallb wfl vs
  | VArr a | VJax a => forallb (in_range (a_dt a)) (logical a)
  | VOther o | VNpOther o => match dtype_of_name (o_name o) with None => true | Some _ => false end
  | VObj shape elems => Nat.eqb (length elems) (prod shape)
  | VNpScalar d bits => in_range d bits
  | _ => true
  end.

(* ---------- boolean equality for the correspondence ---------- *)
Definition lbeq {A} (eqb : A -> A -> bool) : list A -> list A -> bool :=
  fix go l1 l2 := match l1, l2 with
                  | [], [] => true
                  | x :: r1, y :: r2 => eqb x y && go r1 r2
                  | _, _ => false
                  end.
Definition ln_eqb := list_beq Nat.eqb.
Definition border_eqb (a b : border) := match a, b with Native, Native | Swapped, Swapped => true | _, _ => false end.
Definition arr_eqb (a b : ndarr) : bool :=
  dtype_eqb (a_dt a) (a_dt b) && border_eqb (a_order a) (a_order b) && ln_eqb (a_shape a) (a_shape b) &&
  lz_eqb (a_strides a) (a_strides b) && (a_offset a =? a_offset b) && lz_eqb (a_buf a) (a_buf b).
Definition oarr_eqb (a b : oarr) : bool :=
  lz_eqb (o_name a) (o_name b) && Bool.eqb (o_hasobject a) (o_hasobject b) &&
  Bool.eqb (o_alignedstruct a) (o_alignedstruct b) && ln_eqb (o_shape a) (o_shape b) && lz_eqb (o_raw a) (o_raw b).
Definition objelem_eqb (a b : objelem) : bool :=
  match a, b with OBytes x, OBytes y => lz_eqb x y | ONotBytes, ONotBytes => true | _, _ => false end.

Fixpoint value_eqb (a b : value) : bool :=
  match a, b with
  | VDict k1 v1, VDict k2 v2 => list_beq lz_eqb k1 k2 && lbeq value_eqb v1 v2
  | VList v1, VList v2 | VTuple v1, VTuple v2 => lbeq value_eqb v1 v2
  | VSet, VSet | VNone, VNone | VForeign, VForeign => true
  | VArr x, VArr y | VJax x, VJax y => arr_eqb x y
  | VOther x, VOther y | VNpOther x, VNpOther y => oarr_eqb x y
  | VObj s1 e1, VObj s2 e2 => ln_eqb s1 s2 && list_beq objelem_eqb e1 e2
  | VNpScalar d1 b1, VNpScalar d2 b2 => dtype_eqb d1 d2 && (b1 =? b2)
  | VInt x, VInt y | VFloat x, VFloat y => x =? y
  | VBool x, VBool y => Bool.eqb x y
  | VStr x, VStr y | VBytes x, VBytes y => lz_eqb x y
  | VComplex r1 i1, VComplex r2 i2 => (r1 =? r2) && (i1 =? i2)
  | _, _ => false
  end.

(* ---------- SQLite builder -> reader, save_state -> load_state ---------- *)
(* a client: (id bytes, feature names, feature arrays).  The builder stores
   (id, zlib(msgpack(examples)), num_examples) rows; the reader returns them in
   rowid (= insertion) order and parses the blob.  zlib and SQLite are trusted. *)
Definition leading (v : value) : option nat :=
  match v with
  | VArr a | VJax a => match a_shape a with n :: _ => Some n | [] => None end
  | VObj (n :: _) _ => Some n
  | VOther o => match o_shape o with n :: _ => Some n | [] => None end
  | _ => None
  end.

(* client_datasets.num_examples(examples, validate=True): all leading dimensions equal;
   an example dict without features raises *)
Definition num_examples (vs : list value) : option nat :=
  match omap leading vs with
  | Some (n :: r) => if forallb (Nat.eqb n) r then Some n else None
  | _ => None
  end.

Record db_row := mkRow { r_id : list Z; r_blob : wire; r_n : nat }.

(* INSERT INTO federated_data VALUES (?, ?, ?): the k-th element of the tuple built by
   prepare_parameters lands in the k-th column of CREATE TABLE (both orders are translated) *)
Inductive cell := CId (i : list Z) | CBlob (w : wire) | CCount (n : nat).
Definition tuple_cell (id : list Z) (w : wire) (n : nat) (c : db_col) : cell :=
  match c with ColId => CId id | ColData => CBlob w | ColCount => CCount n end.
Definition col_eqb (a b : db_col) : bool :=
  match a, b with ColId, ColId | ColData, ColData | ColCount, ColCount => true | _, _ => false end.
Definition stored_row (id : list Z) (w : wire) (n : nat) : list (db_col * cell) :=
  combine table_columns (map (tuple_cell id w n) builder_tuple).
Definition col_of (row : list (db_col * cell)) (c : db_col) : option cell :=
  option_map snd (find (fun e => col_eqb (fst e) c) row).
(* what the reader's SELECT client_id / data / num_examples see in that row *)
Definition read_row (row : list (db_col * cell)) : option db_row :=
  match col_of row ColId, col_of row ColData, col_of row ColCount with
  | Some (CId i), Some (CBlob w), Some (CCount n) => Some (mkRow i w n)
  | _, _, _ => None            (* a column holds a value of another kind *)
  end.

Definition build_row (c : list Z * (list (list Z) * list value)) : option db_row :=
  let '(id, (ks, vs)) := c in
  match num_examples vs, encode (VDict ks vs) with
  | Some n, Some w => read_row (stored_row id w n)
  | _, _ => None
  end.

(* the row layout / rowid order are what the translator recognised in sqlite_federated_data.py *)
Definition db_build (cs : list (list Z * (list (list Z) * list value))) : option (list db_row) :=
  if sqlite_row_is_id_blob_count && sqlite_reads_in_rowid_order && sqlite_fresh_cursor_per_query &&
     sqlite_views_forward_constructor_arguments then omap build_row cs else None.
Definition db_ids (db : list db_row) : list (list Z) := map r_id db.
Definition db_sizes (db : list db_row) : list (list Z * nat) := map (fun r => (r_id r, r_n r)) db.
Definition db_clients (db : list db_row) : option (list (list Z * value)) :=
  omap (fun r => option_map (fun v => (r_id r, v)) (decode (r_blob r))) db.

(* ---------- the type-tag grid of the dispatch sweep ---------- *)
Inductive leaf_tag :=
| TArr (d : dtype) (o : border) | TJax (d : dtype) | TObjBytes | TObjEmpty | TObjMixed
| TOther (hasobj aligned empty : bool) | TNpScalar (d : dtype) | TNpOther (hasobj aligned : bool)
| TInt | TBigInt | TFloat | TBool | TNone | TStr | TBytes | TComplex | TTuple | TSet | TForeign | TDict | TList.

Definition void_name : list Z := bytes_of_string "void40".

Definition sample (t : leaf_tag) : value :=
  match t with
  | TArr d o => VArr (mkArr d o [2%nat] [-1] 1 [1; 0])      (* a reversed view *)
  | TJax d => VJax (mk_carr d [2%nat] [0; 1])
  | TObjBytes => VObj [2%nat] [OBytes []; OBytes [1; 2]]
  | TObjEmpty => VObj [0%nat; 3%nat] []
  | TObjMixed => VObj [2%nat] [OBytes [1]; ONotBytes]
  | TOther h a e => VOther (mkOArr void_name h a [if e then 0%nat else 2%nat] [])
  | TNpScalar d => VNpScalar d 1
  | TNpOther h a => VNpOther (mkOArr void_name h a [] [])
  | TInt => VInt (2 ^ 64 - 1) | TBigInt => VInt (2 ^ 64)
  | TFloat => VFloat (2 ^ 63) | TBool => VBool true | TNone => VNone
  | TStr => VStr [104] | TBytes => VBytes [255] | TComplex => VComplex 1 (2 ^ 63)
  | TTuple => VTuple [VInt 1] | TSet => VSet | TForeign => VForeign
  | TDict => VDict [[120]] [VInt 1] | TList => VList [VNone]
  end.

Definition bools := [true; false].
Definition all_tags : list leaf_tag :=
  flat_map (fun d => TArr d Native :: (if Nat.eqb (dt_width d) 1 then [] else [TArr d Swapped]) ++ [TJax d; TNpScalar d]) all_dtypes ++
  flat_map (fun h => flat_map (fun a => TNpOther h a :: map (TOther h a) bools) bools) bools ++
  [TObjBytes; TObjEmpty; TObjMixed; TInt; TBigInt; TFloat; TBool; TNone; TStr; TBytes; TComplex; TTuple; TSet; TForeign; TDict; TList].

(* which branch of _msgpack_ext_pack / msgpack a leaf takes: Some ext code (0 = a
   plain msgpack type), None = rejected while serialising *)
Definition expected_dispatch (t : leaf_tag) : option Z :=
  match t with
  | TArr _ _ | TJax _ => Some EXT_ndarray
  | TObjBytes | TObjEmpty => Some EXT_bytes_ndarray
  | TObjMixed => None
  | TOther h a _ => if h || a then None else Some EXT_ndarray
  | TNpScalar _ => Some EXT_npscalar
  | TNpOther h a => if h || a then None else Some EXT_npscalar
  | TComplex => Some EXT_native_complex
  | TInt | TFloat | TBool | TNone | TStr | TBytes | TDict | TList => Some 0
  | TBigInt | TTuple | TSet | TForeign => None
  end.

Definition dispatch_of (v : value) : option Z :=
  match encode v with Some (WExt c _) => Some c | Some _ => Some 0 | None => None end.

Definition optz_eqb (a b : option Z) : bool :=
  match a, b with Some x, Some y => x =? y | None, None => true | _, _ => false end.

Definition tag_ok (t : leaf_tag) : bool :=
  let v := sample t in
  wf v && optz_eqb (dispatch_of v) (expected_dispatch t) &&
  match roundtrip v with
  | Some v' => supported v && value_eqb v' (canon v)
  | None => negb (supported v)
  end.

(* ---------- save_checkpoint / load_latest_checkpoint sequences ---------- *)
(* a checkpoint directory: (round, state id) ascending by round; file contents are opaque
   (pickle is a trusted inverse pair), so a state is represented by its identity *)
Inductive ck_op := CkSave (round state keep : Z) | CkLoad.

Fixpoint ck_ins (r s : Z) (d : list (Z * Z)) : list (Z * Z) :=
  match d with
  | [] => [(r, s)]
  | e :: t => if r <? fst e then (r, s) :: d else e :: ck_ins r s t
  end.

Definition ck_put (d : list (Z * Z)) (r s : Z) : list (Z * Z) :=
  ck_ins r s (filter (fun e => negb (fst e =? r)) d).

Definition ck_retain (d : list (Z * Z)) (keep : Z) : list (Z * Z) :=
  let n := Z.of_nat (length d) in
  let removed := if 0 <? keep then Z.max 0 (n - keep) else if keep =? 0 then 0 else Z.min n (- keep) in
  skipn (Z.to_nat removed) d.

(* one file-system effect of save_checkpoint on (checkpoint files, content of the .tmp file);
   None = the call raises *)
Definition ck_effect_apply (r s keep : Z) (e : ck_effect) (st : list (Z * Z) * option Z) : option (list (Z * Z) * option Z) :=
  let '(d, tmp) := st in
  match e with
  | EffSaveState PTmp => Some (d, Some s)
  | EffSaveState PFinal => Some (ck_put d r s, tmp)
  | EffRename PTmp PFinal ov =>
      match tmp with
      | Some c => if existsb (fun e => fst e =? r) d && negb ov then None else Some (ck_put d r c, None)
      | None => None
      end
  | EffRename _ _ _ => None
  | EffRemoveAllButLastKeep => Some (ck_retain d keep, tmp)
  end.

(* save_checkpoint(root, state, round_num, keep): the TRANSLATED effect sequence
   (gen/Gen_c16_checkpoint.v); a left-over .tmp file is not a checkpoint *)
Definition ck_save (d : list (Z * Z)) (r s keep : Z) : option (list (Z * Z)) :=
  match fold_left (fun acc e => match acc with Some st => ck_effect_apply r s keep e st | None => None end)
                  save_checkpoint_effects (Some (d, None)) with
  | Some (d', _) => Some d'
  | None => None
  end.

(* load_latest_checkpoint: the highest round present, None when there is none *)
Definition ck_load (d : list (Z * Z)) : option (Z * Z) :=
  match d with [] => None | _ => Some (last d (0, 0)) end.

Fixpoint ck_run (ops : list ck_op) (d : list (Z * Z)) : option (list (option (Z * Z))) :=
  match ops with
  | [] => Some []
  | CkSave r s k :: t => match ck_save d r s k with Some d' => ck_run t d' | None => None end
  | CkLoad :: t => option_map (cons (ck_load d)) (ck_run t d)
  end.

(* ---------- correspondence ---------- *)
Definition client := (list Z * (list (list Z) * list value))%type.

Inductive C16_case :=
| CValue (v : value)                  (* msgpack_deserialize(msgpack_serialize(v)) *)
| CDb (cs : list client)              (* SQLiteFederatedDataBuilder.add_many(cs) -> SQLiteFederatedData *)
| CCkpt (ops : list ck_op).           (* save_checkpoint / load_latest_checkpoint sequence in a fresh directory *)

Inductive C16_obs :=
| ORejectSer                    (* msgpack_serialize / add_many raised *)
| ORejectDes                    (* serialised, but msgpack_deserialize / the reader raised *)
| OOk (v : value)               (* the decoded value, arrays in native C form *)
| ODb (ids : list (list Z)) (sizes : list (list Z * nat)) (clients : list (list Z * value))
| OCkpt (loads : list (option (Z * Z))).     (* per load: (round, id of the state that came back) *)

Definition idv_eqb (a b : list Z * value) := lz_eqb (fst a) (fst b) && value_eqb (snd a) (snd b).
Definition idn_eqb (a b : list Z * nat) := lz_eqb (fst a) (fst b) && Nat.eqb (snd a) (snd b).

Definition client_value (c : client) : value := VDict (fst (snd c)) (snd (snd c)).

Definition ozz_eqb (a b : option (Z * Z)) : bool :=
  match a, b with
  | Some x, Some y => (fst x =? fst y) && (snd x =? snd y)
  | None, None => true
  | _, _ => false
  end.

Definition C16_agree (c : C16_case) (o : C16_obs) : bool :=
  match c with
  | CCkpt ops => match o, ck_run ops [] with OCkpt loads, Some m => list_beq ozz_eqb m loads | _, _ => false end
  | CValue c =>
      wf c &&
      match o, encode c with
      | ORejectSer, None => negb (supported c)
      | ORejectDes, Some w => match decode w with None => negb (supported c) | Some _ => false end
      | OOk v', Some w => match decode w with
                          | Some v => value_eqb v v' && value_eqb v (canon c) && supported c
                          | None => false
                          end
      | _, _ => false
      end
  | CDb cs =>
      forallb (fun c => wf (client_value c)) cs &&
      match o, db_build cs with
      | ORejectSer, None => true
      | ORejectDes, Some db => match db_clients db with None => true | Some _ => false end
      | ODb ids sizes clients, Some db =>
          list_beq lz_eqb (db_ids db) ids && list_beq idn_eqb (db_sizes db) sizes &&
          match db_clients db with Some l => list_beq idv_eqb l clients | None => false end
      | _, _ => false
      end
  end.
