(* C09 executable model: the sequence of file-system effects and round steps of
   run_federated_experiment + save_checkpoint + load_latest_checkpoint, as the code
   orders them, over the AtomFS directory; crashes are truncations of that sequence.

   Translated from the source on every run (gen/): the checkpoint name format, the
   name filter (glob + regular expression), the numeric sort key, which file is
   loaded, the retention slice, where the loop restarts, the round range, the
   due-predicates and the round number seen by the final evaluation.
   Hand-written here and tied by the effect-trace correspondence: the order of the
   effects.  Definitions only; proofs are in Proofs/C09_Proofs.v. *)
From Coq Require Import ZArith List Bool String Ascii.
From FV Require Import Common.ListX Common.PySem Common.PyStr Common.AtomFS
  gen.Gen_checkpoint gen.Gen_federated_experiment.
Import ListNotations.
Local Open Scope Z_scope.

Definition str_eqb : str -> str -> bool := list_beq Z.eqb.

(* file names are relative to root_dir; base_path = os.path.join(root_dir, _CHECKPOINT_PREFIX) *)
Definition base : str := checkpoint_prefix.
(* <eval_name>.tsv of the i-th final evaluation function; the harness names them e0, e1, ... *)
(* metrics_file_name is translated from `f'{eval_name}.tsv'` *)
Definition tsv_name (i : Z) : str := metrics_file_name [101; 48 + i].

Record C09_cfg := mkCfg { c_R : Z; c_freq : Z; c_keep : Z; c_evf : Z; c_nev : nat }.

Section Model.
Context {S B : Type}.
Variable step : S -> Z -> S.     (* one round: the state after training on the cohort the sampler draws for round k *)
Variable init : S.
Variable save : S -> B.          (* serialization.save_state: the bytes of a checkpoint file *)
Variable load : B -> S.          (* serialization.load_state *)
Variable tsv : Z -> S -> Z -> B. (* bytes of the i-th .tsv, computed from (state, round_num) *)

Notation dir := (@AtomFS.dir str B).

Inductive ev :=
| EMk                         (* tf.io.gfile.makedirs(root_dir) *)
| EGl                         (* tf.io.gfile.glob(base_path + '*') *)
| ERd (n : str)               (* open n for reading and unpickle it *)
| ERound (k : Z)              (* client_sampler.sample() for sampler round k, then algorithm.apply *)
| EPe (k : Z)                 (* periodic evaluation at round k (no persistent effect) *)
| ESaved (r : Z)              (* save_checkpoint(round r) returned *)
| ECr (n : str)               (* open n for writing *)
| EWr (n : str)               (* write calls on n (not yet closed) *)
| ECl (n : str) (b : B)       (* close n, which now holds b *)
| ERn (a b : str)             (* tf.io.gfile.rename(a, b, overwrite=True) *)
| ERm (n : str).              (* tf.io.gfile.remove(n) *)

Definition fs_step (e : ev) : @AtomFS.step str B :=
  match e with
  | ECr n => Create n
  | ECl n b => Complete n b
  | ERn a b => Rename a b
  | ERm n => Remove n
  | _ => Glob
  end.

Definition apply_ev (d : dir) (e : ev) : dir := AtomFS.apply str_eqb d (fs_step e).
Definition apply_evs (d : dir) (l : list ev) : dir := fold_left apply_ev l d.

(* save_checkpoint(root_dir, state, round_num, keep); None = an exception *)
Definition save_events (keep : Z) (d : dir) (s : S) (r : Z) : option (list ev) :=
  let p := checkpoint_path base r in
  let t := tmp_path p in
  let w := [ECr t; EWr t; ECl t (save s); ERn t p] in
  match get_checkpoint_paths base (names (apply_evs d w)) with
  | None => None
  | Some paths => Some (w ++ EGl :: map ERm (remove_checkpoint_paths paths keep) ++ [ESaved r])
  end.

(* the loop body for the rounds ks; j = the sampler's round counter *)
Fixpoint rounds (cf : C09_cfg) (start : Z) (ks : list Z) (j : Z) (d : dir) (s : S) : option (list ev * S) :=
  match ks with
  | [] => Some ([], s)
  | k :: ks' =>
    let s' := step s j in
    match (if should_save_checkpoint (c_freq cf) k start then save_events (c_keep cf) d s' k else Some []) with
    | None => None
    | Some sv =>
      let e1 := ERound j :: sv ++ (if should_run_eval (c_evf cf) k start then [EPe k] else []) in
      match rounds cf start ks' (j + 1) (apply_evs d e1) s' with
      | None => None
      | Some (e2, s'') => Some (e1 ++ e2, s'')
      end
    end
  end.

Definition final_events (nev : nat) (s : S) (r : Z) : list ev :=
  flat_map (fun i => let n := tsv_name (Z.of_nat i) in [ECr n; EWr n; ECl n (tsv (Z.of_nat i) s r)]) (seq 0 nev).

(* one call of run_federated_experiment on directory d:
   (effects, returned state, round number passed to the final evaluation); None = it raised *)
Definition run (cf : C09_cfg) (d : dir) : option (list ev * S * Z) :=
  match load_latest_select base (names d) with
  | None => None
  | Some sel =>
    let start := start_round_num (option_map snd sel) in
    match (match sel with
           | None => Some ([], init)
           | Some (p, _) => match lookup str_eqb d p with
                            | Some (Whole b) => Some ([ERd p], load b)
                            | _ => None    (* unpickling a torn or missing file raises *)
                            end
           end) with
    | None => None
    | Some (rd, s0) =>
      let ks := round_range start (c_R cf) in
      match rounds cf start ks (sampler_round_num start) d s0 with
      | None => None
      | Some (tr, s) =>
        let rn := last ks (round_num_before_loop start) in
        Some (EMk :: EGl :: rd ++ tr ++ final_events (c_nev cf) s rn, s, rn)
      end
    end
  end.

(* A history: the experiment call is made and killed after its first k effects, for
   each k of the list in turn (k >= the length of the run: it completes and is simply
   called again), then made once more and left to complete.
   Result: directories after each killed call, effects of the last call, final
   directory, returned state, final-evaluation round number. *)
Fixpoint history (cf : C09_cfg) (d : dir) (ks : list nat) : option (list dir * list ev * dir * S * Z) :=
  match ks with
  | [] => match run cf d with
          | Some (tr, s, r) => Some ([], tr, apply_evs d tr, s, r)
          | None => None
          end
  | k :: ks' =>
    match run cf d with
    | Some (tr, _, _) =>
      let d' := apply_evs d (firstn k tr) in
      match history cf d' ks' with
      | Some (ds, tr', df, s, r) => Some (d' :: ds, tr', df, s, r)
      | None => None
      end
    | None => None
    end
  end.

(* the state after n rounds of an uninterrupted experiment *)
Fixpoint iter_step (n : nat) : S :=
  match n with
  | O => init
  | Datatypes.S m => step (iter_step m) (Z.of_nat (Datatypes.S m))
  end.
Definition state_at (r : Z) : S := iter_step (Z.to_nat r).

End Model.

Arguments EMk {B}.
Arguments EGl {B}.
Arguments ERd {B} n.
Arguments ERound {B} k.
Arguments EPe {B} k.
Arguments ESaved {B} r.
Arguments ECr {B} n.
Arguments EWr {B} n.
Arguments ECl {B} n b.
Arguments ERn {B} a b.
Arguments ERm {B} n.

(* ---------------------------------------------------------------------------
   Correspondence: the toy experiment of tools/harness/c09.py.
   state = (round counter, checksum of the sampled cohorts); a checkpoint holds
   [0; count; hash], the i-th tsv holds [1; i; count; hash; round]. *)

Definition toy_state := (Z * Z)%type.
Definition toy_step (digests : list Z) (s : toy_state) (k : Z) : toy_state :=
  (fst s + 1, (snd s * 131 + (if k <? 1 then -1 else nth (Z.to_nat (k - 1)) digests (-1))) mod 1000003).
Definition toy_save (s : toy_state) : list Z := [0; fst s; snd s].
Definition toy_load (b : list Z) : toy_state := (nth 1 b 0, nth 2 b 0).
Definition toy_tsv (i : Z) (s : toy_state) (r : Z) : list Z := [1; i; fst s; snd s; r].

Definition str_of_string (s : string) : str := map (fun a => Z.of_N (N_of_ascii a)) (list_ascii_of_string s).

(* names as the harness sees them, recognised by ITS OWN regular expressions *)
Inductive oname := K (r : Z) | T (r : Z) | V (i : Z) | U (s : string).
Definition oname_str (n : oname) : str :=
  match n with
  | K r => str_of_string "checkpoint_" ++ fixed_digits 8 r
  | T r => str_of_string "checkpoint_" ++ fixed_digits 8 r ++ str_of_string ".tmp"
  | V i => tsv_name i
  | U s => str_of_string s
  end.

Inductive ocontent := OW (b : list Z) | OT.   (* decodes as a complete file of its kind / does not *)

Inductive oev :=
| OMk | OGl | ORd (n : oname) | ORound (k : Z) | OPe (k : Z) | OSaved (r : Z)
| OCr (n : oname) | OWr (n : oname) | OCl (n : oname) (c : ocontent) | ORn (a b : oname) | ORm (n : oname)
| OBad (s : string).

Definition lz_eqb : list Z -> list Z -> bool := list_beq Z.eqb.

Definition ev_agree (e : @ev (list Z)) (o : oev) : bool :=
  match e, o with
  | EMk, OMk => true
  | EGl, OGl => true
  | ERd n, ORd m => str_eqb n (oname_str m)
  | ERound k, ORound k' => k =? k'
  | EPe k, OPe k' => k =? k'
  | ESaved k, OSaved k' => k =? k'
  | ECr n, OCr m => str_eqb n (oname_str m)
  | EWr n, OWr m => str_eqb n (oname_str m)
  | ECl n b, OCl m (OW b') => str_eqb n (oname_str m) && lz_eqb b b'
  | ERn a b, ORn a' b' => str_eqb a (oname_str a') && str_eqb b (oname_str b')
  | ERm n, ORm m => str_eqb n (oname_str m)
  | _, _ => false
  end.

Fixpoint trace_agree (l : list (@ev (list Z))) (o : list oev) : bool :=
  match l, o with
  | [], [] => true
  | e :: l', x :: o' => ev_agree e x && trace_agree l' o'
  | _, _ => false
  end.

Definition odir := list (oname * ocontent).

(* a Torn file of the model may hold anything on the disk; a complete one must decode
   to exactly the modelled content; the two listings have the same names *)
Definition dir_agree (d : @AtomFS.dir str (list Z)) (o : odir) : bool :=
  (List.length d =? List.length o)%nat &&
  forallb (fun e => match lookup str_eqb d (oname_str (fst e)) with
                    | Some Torn => true
                    | Some (Whole b) => match snd e with OW b' => lz_eqb b b' | OT => false end
                    | None => false
                    end) o.

Fixpoint dirs_agree (ds : list (@AtomFS.dir str (list Z))) (os : list odir) : bool :=
  match ds, os with
  | [], [] => true
  | d :: ds', o :: os' => dir_agree d o && dirs_agree ds' os'
  | _, _ => false
  end.

Record C09_case := mkC09 {
  k_R : Z; k_freq : Z; k_keep : Z; k_evf : Z; k_nev : nat;
  k_digests : list Z;      (* digest of the cohort a fresh sampler draws for round 1, 2, ... *)
  k_crashes : list nat;    (* model-level effect index at which each successive call is killed *)
  k_foreign : bool         (* the directory holds foreign files whose names nearly are checkpoint names *)
}.
Record C09_obs := mkO09 {
  o_dirs : list odir;      (* directory listing after each killed call *)
  o_trace : list oev;      (* recorded effects of the final, completing call *)
  o_dir : odir;            (* directory listing at the end *)
  o_state : Z * Z          (* state returned by the final call *)
}.

(* files of somebody else that pass the glob `checkpoint_*` (or nearly) but not the 8-digit filter *)
Definition foreign_names : list string :=
  ["checkpoint_1"; "checkpoint_000000011"; "checkpoint_0000000a"; "checkpoint_00000001.bak"; "checkpoint_";
   "xcheckpoint_00000001"; "checkpoint_00000002 "]%string.
Definition foreign_dir : @AtomFS.dir str (list Z) := map (fun n => (str_of_string n, Whole [7; 7])) foreign_names.
Definition start_dir (c : C09_case) : @AtomFS.dir str (list Z) := if k_foreign c then foreign_dir else [].

Definition C09_history (c : C09_case) :=
  history (toy_step (k_digests c)) (0, 0) toy_save toy_load toy_tsv
          (mkCfg (k_R c) (k_freq c) (k_keep c) (k_evf c) (k_nev c)) (start_dir c) (k_crashes c).

Definition C09_agree (c : C09_case) (o : C09_obs) : bool :=
  match C09_history c with
  | None => false
  | Some (ds, tr, df, s, r) =>
    dirs_agree ds (o_dirs o) && trace_agree tr (o_trace o) && dir_agree df (o_dir o) &&
    (fst s =? fst (o_state o)) && (snd s =? snd (o_state o))
  end.
