(* C07 executable model.  tree_weight / tree_add / tree_inverse_weight(_eq) /
   tree_sum / tree_mean / tree_clip_by_global_norm are the definitions translated on
   every run from fedjax/core/tree_util.py (gen/Gen_tree_util.v), mean_aggregator.apply from
   fedjax/aggregators/aggregator.py (gen/Gen_aggregator.v); a pytree is its flattened
   coordinate list over NanQ.t.  Hand-written here: the ownership script of tree_sum / tree_mean
   over a small store, and the correspondence predicate. *)
From Coq Require Import ZArith QArith List Bool.
From FV Require Import Common.ListX Common.CMonoid Common.NanQ Common.QVec Common.WMean gen.Gen_tree_util gen.Gen_aggregator.
Import ListNotations.
Local Open Scope Q_scope.

Notation tree := (list NanQ.t) (only parsing).

Definition lift_client (c : list Q * Q) : tree * NanQ.t := (vlift (fst c), Some (snd c)).

(* mean_aggregator().apply and its extract_params_and_weight are translated (gen/Gen_aggregator.v) *)

(* clipping with the global norm supplied (sqrt is not modelled): `norm` is the value of
   tree_l2_norm(pytree); the translated function is used as it is *)
Definition clip_model (norm : NanQ.t) (x : tree) (c : NanQ.t) : tree :=
  tree_clip_by_global_norm (fun _ => norm) x c.

(* ---------------- ownership script ----------------
   Locations are natural numbers; a store maps a location to (value, deleted flag).
   Caller trees occupy the locations the caller passes in; every jitted call allocates
   a fresh location for its result and marks as deleted exactly the arguments listed
   in the translated `<f>_donates` tables (donate_argnums).  tree_map(jnp.array, t)
   allocates a fresh copy and donates nothing.  The script mirrors the statements of
   tree_sum / tree_mean one to one. *)
Record store := mk_store { next_loc : nat; deleted : list nat }.
Definition alloc (s : store) : nat * store := (next_loc s, mk_store (S (next_loc s)) (deleted s)).
Definition donate (donates : list nat) (args : list nat) (s : store) : store :=
  mk_store (next_loc s) (map (fun i => nth i args 0%nat) (filter (fun i => Nat.ltb i (length args)) donates) ++ deleted s).
(* a jitted call: result in a fresh location, donated arguments deleted *)
Definition jit_call (donates : list nat) (args : list nat) (s : store) : nat * store :=
  let s1 := donate donates args s in alloc s1.

Definition own_tree_sum_step (st : option nat * store) (pytree : nat) : option nat * store :=
  let '(acc, s) := st in
  match acc with
  | None => let '(l, s1) := alloc s in (Some l, s1)                              (* tree_map(jnp.array, pytree) *)
  | Some a => let '(l, s1) := jit_call tree_add_eq_donates [a; pytree] s in (Some l, s1)
  end.
Definition own_tree_sum (inputs : list nat) (s : store) : option nat * store :=
  fold_left own_tree_sum_step inputs (None, s).

Definition own_tree_mean_step (st : option nat * store) (pytree : nat) : option nat * store :=
  let '(acc, s) := st in
  let '(wl, s1) := jit_call tree_weight_donates [pytree] s in                    (* tree_weight(pytree, weight) *)
  match acc with
  | None => (Some wl, s1)
  | Some a => let '(l, s2) := jit_call tree_add_eq_donates [a; wl] s1 in (Some l, s2)
  end.
Definition own_tree_mean (inputs : list nat) (s : store) : option nat * store :=
  let '(acc, s1) := fold_left own_tree_mean_step inputs (None, s) in
  match acc with
  | None => (None, s1)
  | Some a => let '(l, s2) := jit_call tree_weight_eq_donates [a] s1 in (Some l, s2)   (* _tree_inverse_weight_eq *)
  end.

(* ---------------- correspondence ---------------- *)
Inductive C07_case :=
| KSum (trees : list (list Q))
| KMean (cl : list (list Q * Q))
| KAgg (cl : list (Z * list Q * Q))
| KClip (x : list Q) (c : Q) (norm : Q)
| KWeight (x : list Q) (w : Q)
| KInvWeight (eq_variant : bool) (x : list Q) (w : Q)
| KAdd (a b : list Q)
(* inputs with non-finite coordinates (None): the translated functions are applied to them as they are *)
| KMeanNQ (cl : list (list NanQ.t * NanQ.t))
| KSumNQ (trees : list (list NanQ.t)).

(* tolerance 0 = exact comparison; result None = the implementation returned None *)
Record C07_obs := mkO07 { o_tol : Q; o_res : option (list NanQ.t) }.

Definition C07_run (c : C07_case) : option tree :=
  match c with
  | KSum trees => tree_sum (map vlift trees)
  | KMean cl => tree_mean (map lift_client cl)
  | KAgg cl => fst (mean_aggregator_apply (map (fun c => (fst (fst c), vlift (snd (fst c)), Some (snd c))) cl) tt)
  | KClip x c norm => Some (clip_model (Some norm) (vlift x) (Some c))
  | KWeight x w => Some (tree_weight (vlift x) (Some w))
  | KInvWeight false x w => Some (tree_inverse_weight (vlift x) (Some w))
  | KInvWeight true x w => Some (tree_inverse_weight_eq (vlift x) (Some w))
  | KAdd a b => Some (tree_add (vlift a) (vlift b))
  | KMeanNQ cl => tree_mean cl
  | KSumNQ trees => tree_sum trees
  end.

(* side condition checked inside Coq: the norm handed to the model is the norm *)
Definition C07_case_ok (c : C07_case) : bool :=
  match c with
  | KClip x _ norm => Qle_bool 0 norm && NanQ.same (tree_l2_squared (vlift x)) (Some (norm * norm))
  | _ => true
  end.

Definition C07_agree (c : C07_case) (o : C07_obs) : bool :=
  C07_case_ok c &&
  match C07_run c, o_res o with
  | Some m, Some r => list_beq (if Qeq_bool (o_tol o) 0 then NanQ.same else NanQ.close (o_tol o)) m r
  | None, None => true
  | _, _ => false
  end.
