(* C12 executable model: round skeletons of fed_prox, hyp_cluster, mime_lite, mime and
   the global part of apfl over the same abstract ingredients (gradient function, key
   splitting, client optimizer, server optimizer).  FedAvg, FedProx and APFL share the
   accumulation loop of fed_avg.apply (their `apply` bodies are the same statements):
   they are `fedavg_apply` of Model/C01_Model.v with their own client programs.
   HypCluster (per-cluster sums, `None` when a cluster saw no example) and MimeLite /
   Mime (full-gradient pass, their own server_update) have their own round functions,
   written over the translated tree_util functions like C01's.
   `LS12` below instantiates everything with the least-squares task of C01 for the
   correspondence.  No proofs in this file. *)
From Coq Require Import ZArith QArith Qabs List Bool.
From FV Require Import Common.ListX Common.CMonoid Common.NanQ Common.QVec Common.WMean gen.Gen_tree_util Model.C01_Model.
Import ListNotations.
Local Open Scope Q_scope.

Section Skeletons.
Context {K U B S OS : Type}.
Variable grad : list Q -> B -> U -> list Q.              (* grad_fn(params, batch, rng) *)
Variable split : K -> K * U.                             (* rng, use_rng = jax.random.split(rng) *)
Variable split3 : K -> K * U * U.                        (* rng, server_rng, client_rng = jax.random.split(rng, 3) *)
Variable split_pair : K -> K * K.                        (* HypCluster: client_rngs = jax.random.split(rng) *)
Variable copt_init : list Q -> S.                        (* client_optimizer.init(params) *)
Variable copt_apply : list Q -> S -> list Q -> S * list Q.   (* client_optimizer.apply(grads, opt_state, params) *)
Variable sopt : list Q -> OS -> list Q -> OS * list Q.   (* server_optimizer.apply *)

(* ---------- gradient-descent client programs ---------- *)
Record tstate := mkT { t_params : list Q; t_opt : S; t_rng : K; t_server : list Q }.

(* fed_avg.create_train_for_each_client, with the gradient function as a parameter
   (it may look at the round's server params kept in the step state) *)
Definition gd_init (server_params : list Q) (client_rng : K) : tstate :=
  mkT server_params (copt_init server_params) client_rng server_params.
Definition gd_step (gr : list Q -> list Q -> B -> U -> list Q) (st : tstate) (batch : B) : tstate :=
  let '(rng, use_rng) := split (t_rng st) in
  let grads := gr (t_params st) (t_server st) batch use_rng in
  let '(opt_state, params) := copt_apply grads (t_opt st) (t_params st) in
  mkT params opt_state rng (t_server st).

Definition avg_step := gd_step (fun params _ batch rng => grad params batch rng).
Definition fedavg := fedavg_apply gd_init avg_step t_params sopt.
Definition fedavg_runs := fedavg_run gd_init avg_step t_params sopt.

(* fed_prox: fed_prox_loss = mean(example_loss + 0.5*mu*|server_params - params|^2); its
   gradient in params is  grad(mean example_loss) + mu*(params - server_params)
   (jax.grad is the gradient: trusted, see TRUSTED of the harness) *)
Definition prox_grad (mu : Q) (params server_params : list Q) (batch : B) (rng : U) : list Q :=
  vadd (grad params batch rng) (vscale mu (vsub params server_params)).
Definition prox_step (mu : Q) := gd_step (prox_grad mu).
Definition fedprox (mu : Q) := fedavg_apply gd_init (prox_step mu) t_params sopt.
Definition fedprox_runs (mu : Q) := fedavg_run gd_init (prox_step mu) t_params sopt.

(* FedAvg whose loss is augmented with the proximal penalty toward the server params
   w_s of the round: grad_fn = fun params batch rng => prox_grad mu params w_s batch rng *)
Definition avg_on_prox_step (mu : Q) (w_s : list Q) := gd_step (fun params _ batch rng => prox_grad mu params w_s batch rng).
Definition fedavg_on_prox (mu : Q) (st : list Q * OS) :=
  fedavg_apply gd_init (avg_on_prox_step mu (fst st)) t_params sopt st.

(* apfl, global model: the server-params copy is trained with server_rng, the second of a
   3-way split; delta_params = server_params - trained copy; same loop and server_update *)
Definition apfl_step (st : tstate) (batch : B) : tstate :=
  let '(rng, server_rng, client_rng) := split3 (t_rng st) in
  let server_grads := grad (t_params st) batch server_rng in
  let '(server_opt_state, server_params) := copt_apply server_grads (t_opt st) (t_params st) in
  mkT server_params server_opt_state rng (t_server st).
Definition apfl_global := fedavg_apply gd_init apfl_step t_params sopt.
Definition apfl_global_runs := fedavg_run gd_init apfl_step t_params sopt.

(* ---------- hyp_cluster ---------- *)
(* apply: client_rngs = split(rng); maximization with rng[0] (cluster ids, abstract);
   expectation with rng[1]: ClientDeltaTrainer = the FedAvg client program started from
   the client's cluster params; per-cluster running sums. *)
Definition hc_train (cluster_params : list (list Q)) (cluster_of : Z -> nat) (c : client (K := K) (B := B)) : list Q :=
  run_client gd_init avg_step t_params (nth (cluster_of (c_id c)) cluster_params [])
             (mkClient (c_id c) (c_n c) (snd (split_pair (c_key c))) (c_batches c)).

Fixpoint upd {A} (i : nat) (f : A -> A) (l : list A) : list A :=
  match l, i with
  | [], _ => []
  | x :: l', O => f x :: l'
  | x :: l', Datatypes.S i' => x :: upd i' f l'
  end.

(* the loop of expectation_step: cluster_delta_params_sum[cluster_id] = tree_add(.., tree_weight(delta, n));
   cluster_num_examples_sum[cluster_id] += n   (python ints) *)
Definition hc_step (nums : list (Z * Z)) (cluster_of : Z -> nat) (st : list (list NanQ.t) * list Z) (out : Z * list Q)
  : list (list NanQ.t) * list Z :=
  let '(sums, counts) := st in
  let '(client_id, delta_params) := out in
  let cluster_id := cluster_of client_id in
  let n := num_of nums client_id in
  (upd cluster_id (fun s => tree_add s (tree_weight (vlift delta_params) (NanQ.of_Z n))) sums,
   upd cluster_id (fun k => (k + n)%Z) counts).

(* `if num_examples_sum > 0: tree_inverse_weight(...) else None` *)
Definition hc_cluster_delta (sum : list NanQ.t) (count : Z) : option (list NanQ.t) :=
  if (0 <? count)%Z then Some (tree_inverse_weight sum (NanQ.of_Z count)) else None.

Definition hc_expectation (cluster_params : list (list Q)) (cluster_of : Z -> nat) (clients : list (client (K := K) (B := B)))
  : list (option (list NanQ.t)) :=
  let nums := client_num_examples clients in
  let outputs := map (fun c => (c_id c, hc_train cluster_params cluster_of c)) clients in
  let '(sums, counts) := fold_left (hc_step nums cluster_of) outputs
                           (map (fun p => tree_zeros_like (vlift p)) cluster_params, map (fun _ => 0%Z) cluster_params) in
  map (fun sc => hc_cluster_delta (fst sc) (snd sc)) (combine sums counts).

(* `if delta_params is None: keep (opt_state, params) else server_optimizer.apply(...)`;
   the outer None = a non-finite mean reached the optimizer *)
Definition hc_update (dps : option (list NanQ.t) * (OS * list Q)) : option (OS * list Q) :=
  match fst dps with
  | None => Some (snd dps)
  | Some d => match unlift d with
              | Some g => Some (sopt g (fst (snd dps)) (snd (snd dps)))
              | None => None
              end
  end.
Fixpoint sequence {A} (l : list (option A)) : option (list A) :=
  match l with
  | [] => Some []
  | Some x :: l' => option_map (cons x) (sequence l')
  | None :: _ => None
  end.
Definition hypcluster (cluster_of : Z -> nat) (st : list (list Q * OS)) (clients : list (client (K := K) (B := B)))
  : option (list (list Q * OS)) :=
  let cluster_params := map fst st in
  let deltas := hc_expectation cluster_params cluster_of clients in
  option_map (map (fun op => (snd op, fst op)))
    (sequence (map hc_update (combine deltas (map (fun s => (snd s, fst s)) st)))).

(* ---------- mime / mime_lite ---------- *)
(* a client of these algorithms also has the padded batches of the full-gradient pass,
   each with its number of real examples *)
Definition mclient := (client (K := K) (B := B) * list (B * Z))%type.

(* mime.create_grads_for_each_client: (grads_sum, num_sum) of one client *)
Definition grads_step (params : list Q) (st : K * list NanQ.t * NanQ.t) (bn : B * Z) : K * list NanQ.t * NanQ.t :=
  let '(rng0, grads_sum, num_sum) := st in
  let '(rng, use_rng) := split rng0 in
  let grads := grad params (fst bn) use_rng in
  let num := NanQ.of_Z (snd bn) in
  (rng, tree_add (tree_weight (vlift grads) num) grads_sum, NanQ.add num_sum num).
Definition client_grads (params : list Q) (mc : mclient) : list NanQ.t * NanQ.t :=
  let '(_, gs, ns) := fold_left (grads_step params) (snd mc) (c_key (fst mc), tree_zeros_like (vlift params), NanQ.of_Q 0) in
  (gs, ns).
(* grads_and_num_sum = tree_sum(clients' (grads_sum, num_sum) pairs);
   `if grads_and_num_sum is None: tree_zeros_like(params)` (a round without clients)
   `else: tree_inverse_weight(grads_sum_total, num_sum_total)` *)
Definition server_grads (params : list Q) (clients : list mclient) : list NanQ.t :=
  match map (client_grads params) clients with
  | [] => tree_zeros_like (vlift params)
  | first :: rest =>
      let '(gs, ns) := fold_left (fun acc x => (tree_add (fst acc) (fst x), NanQ.add (snd acc) (snd x))) rest first in
      tree_inverse_weight gs ns
  end.

(* client programs: the optimizer state is the server's, never updated locally *)
Record mstate := mkM { m_params : list Q; m_opt : S; m_rng : K; m_init : list Q; m_cv : list Q }.
Definition mimelite_step (st : mstate) (batch : B) : mstate :=
  let '(rng, use_rng) := split (m_rng st) in
  let grads := grad (m_params st) batch use_rng in
  let '(_, params) := copt_apply grads (m_opt st) (m_params st) in
  mkM params (m_opt st) rng (m_init st) (m_cv st).
Definition mime_step (st : mstate) (batch : B) : mstate :=
  let '(rng, use_rng) := split (m_rng st) in
  let client_control_variate := grad (m_init st) batch use_rng in
  let grads := grad (m_params st) batch use_rng in
  (* lambda g, cc, c: g - cc + c *)
  let adjusted_grads := vadd (vsub grads client_control_variate) (m_cv st) in
  let '(_, params) := copt_apply adjusted_grads (m_opt st) (m_params st) in
  mkM params (m_opt st) rng (m_init st) (m_cv st).

(* the delta loop of C01 with `opt_state` and the control variate as shared input, followed by
   mime's server_update: params - server_learning_rate * mean_delta; opt_state from
   base_optimizer.apply(server_grads, opt_state, params) *)
Definition mime_round (step : mstate -> B -> mstate) (use_cv : bool) (server_lr : Q)
  (st : list Q * S) (clients : list mclient) : option (list Q * S) :=
  let '(params, opt_state) := st in
  match unlift (server_grads params clients) with
  | None => None
  | Some sgq =>
      let cv := if use_cv then sgq else [] in
      let outputs := map (fun mc => (c_id (fst mc),
                        vsub params (m_params (fold_left step (c_batches (fst mc)) (mkM params opt_state (c_key (fst mc)) params cv)))))
                         clients in
      let nums := client_num_examples (map fst clients) in
      let '(delta_params_sum, num_examples_sum, _) :=
        fold_left (apply_step nums) outputs (tree_zeros_like (vlift params), NanQ.of_Q 0, []) in
      match unlift (tree_inverse_weight delta_params_sum num_examples_sum) with
      | None => None
      | Some mean_delta_params =>
          let params' := map2 (fun p q => p - server_lr * q) params mean_delta_params in
          let '(opt_state', _) := copt_apply sgq opt_state params in
          Some (params', opt_state')
      end
  end.
Definition mimelite := mime_round mimelite_step false.
Definition mime := mime_round mime_step true.

(* multi-round runs of the round functions that are not instances of fedavg_run *)
Fixpoint iter_rounds {St C} (round : St -> C -> option St) (st : St) (cohorts : list C) : option St :=
  match cohorts with
  | [] => Some st
  | c :: rest => match round st c with Some st' => iter_rounds round st' rest | None => None end
  end.
End Skeletons.

(* ------------------------------------------------------------------------------
   Instance LS12: the least-squares task and optax.sgd of C01.  A key is the stream of
   nu values of its successive use-keys along the algorithm's own path (evaluated by the
   harness with the real jax.random). *)
Definition ls_grad (w : list Q) (batch : list example) (nu : Q) : list Q := batch_grad w batch nu.
(* fedjax.grad(per_example_loss, l2_regularizer(reg)): mean example gradient + gradient of
   reg * |w|^2, i.e. + 2*reg*w  (reg = 0: no regularizer) *)
Definition ls_grad_reg (reg : Q) (w : list Q) (batch : list example) (nu : Q) : list Q :=
  vred (vadd (batch_grad w batch nu) (vscale (2 * reg) w)).
Definition ls_split3 (k : key) : key * Q * Q := (tl k, hd 0 k, 0).
Definition ls_split_pair (k : key) : key * key := (k, k).   (* the case's stream IS the stream of split(k)[1] *)
Definition ls_copt_init (p : list Q) : list Q := vzero (length p).
Definition ls_copt_apply (o : sgd) (g t p : list Q) : list Q * list Q := sgd_apply o g t p.
Definition ls_sopt (o : sgd) (g t p : list Q) : list Q * list Q := sgd_apply o g t p.

Inductive C12_algo := AProx | AHyp | AMimeLite | AMime | AApfl.
Record C12_case := mkC12 {
  q_algo : C12_algo;
  q_copt : sgd;                              (* client / base optimizer *)
  q_sopt : sgd;                              (* server optimizer (fedprox, hypcluster, apfl) *)
  q_mu : Q;                                  (* proximal weight *)
  q_reg : Q;                                 (* L2 regularizer weight (0 = none) *)
  q_slr : Q;                                 (* mime / mime_lite server learning rate *)
  q_init : list Q;
  q_pop : list (Z * list example);
  q_streams : list (Z * list (list nat));    (* shuffle_repeat_batch index streams *)
  q_gstreams : list (Z * list (list nat));   (* padded_batch real-row index streams *)
  q_rounds : list (list (Z * list Q));
  q_tol : Q
}.
Definition C12_obs := list (list Q).           (* server params after every round *)

Definition mk_batches (data : list example) (st : list (list nat)) : list (list example) :=
  map (fun idxs => map (fun i => nth i data ([], 0)) idxs) st.
Definition mk_client12 (c : C12_case) (ck : Z * list Q) : client (K := key) (B := list example) :=
  let data := lookup (q_pop c) (fst ck) [] in
  mkClient (fst ck) (Z.of_nat (length data)) (snd ck) (mk_batches data (lookup (q_streams c) (fst ck) [])).
Definition mk_mclient12 (c : C12_case) (ck : Z * list Q) : mclient (K := key) (B := list example) :=
  let data := lookup (q_pop c) (fst ck) [] in
  (mk_client12 c ck, map (fun b => (b, Z.of_nat (length b))) (mk_batches data (lookup (q_gstreams c) (fst ck) []))).

(* one round of the case's algorithm on state (params, optimizer trace) *)
Definition C12_round (c : C12_case) (st : list Q * list Q) (r : list (Z * list Q)) : option (list Q * list Q) :=
  let co := q_copt c in
  let so := q_sopt c in
  let ls_grad := ls_grad_reg (q_reg c) in
  let fa_like (res : option (list Q * list Q * list (Z * Q))) := option_map (fun x => (fst (fst x), snd (fst x))) res in
  match q_algo c with
  | AProx => fa_like (fedprox ls_grad split_key ls_copt_init (ls_copt_apply co) (ls_sopt so) (q_mu c) st (map (mk_client12 c) r))
  | AApfl => fa_like (apfl_global ls_grad ls_split3 ls_copt_init (ls_copt_apply co) (ls_sopt so) st (map (mk_client12 c) r))
  | AHyp =>
      match hypcluster ls_grad split_key ls_split_pair ls_copt_init (ls_copt_apply co) (ls_sopt so) (fun _ => O) [st] (map (mk_client12 c) r) with
      | Some [st'] => Some st'
      | _ => None
      end
  | AMimeLite => mimelite ls_grad split_key (ls_copt_apply co) (q_slr c) st (map (mk_mclient12 c) r)
  | AMime => mime ls_grad split_key (ls_copt_apply co) (q_slr c) st (map (mk_mclient12 c) r)
  end.

Fixpoint C12_rounds_agree (c : C12_case) (st : list Q * list Q) (rounds : list (list (Z * list Q))) (obs : C12_obs) : bool :=
  match rounds, obs with
  | [], [] => true
  | r :: rounds', o :: obs' =>
      match C12_round c st r with
      | Some st' => vclose_b (q_tol c) (fst st') o && C12_rounds_agree c st' rounds' obs'
      | None => false
      end
  | _, _ => false
  end.

Definition C12_agree (c : C12_case) (o : C12_obs) : bool :=
  C12_rounds_agree c (q_init c, vzero (length (q_init c))) (q_rounds c) o.
