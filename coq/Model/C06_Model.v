(* C06 executable model: masked losses / gradients and the dataset-level
   quantities fedjax derives from padded batches.  Definitions only.

   Inputs are the per-example loss values l_i and, for every parameter coordinate
   j, the per-example partial derivatives g_ij (finite rationals: the type Q IS the
   hypothesis "real and padded rows hold finite values").  Assumption (stated in the
   harness): jax.grad is linear and differentiates safe_div(a, n) with n constant
   in the parameters as safe_div(grad a, n); hence coordinate j of the gradient
   of `scalar_loss` is `scalar_loss` applied to the column (g_ij)_i with the
   regulariser's partial derivative in place of its value.  All tree_util
   operations used by the code are coordinatewise, so the gradient models work on
   one coordinate at a time and the harness feeds the model coordinate by coordinate.

   safe_div is the definition translated on this run from fedjax/core/util.py
   (gen/Gen_util.v); divisions and their zero guards are evaluated in NanQ, so
   "never NaN" is the theorem "the result is Some _". *)
From Coq Require Import ZArith QArith Qabs List Bool.
From FV Require Import Common.ListX Common.Batch Common.CMonoid Common.NanQ Common.QVec gen.Gen_util gen.Gen_tree_util.
From FV Require Export Model.C06_Prims gen.Gen_c06_models gen.Gen_c06_mime gen.Gen_c06_mime_lite gen.Gen_c06_agnostic.
Import ListNotations.
Local Open Scope Q_scope.

Definition qm (b : bool) : Q := if b then 1 else 0.
(* jnp.vdot(loss, mask) with a boolean mask: multiplicative masking *)
Definition vdot_mask (vals : list Q) (m : list bool) : Q := qsum (map2 (fun v b => v * qm b) vals m).
(* jnp.vdot(mask, loss): the same sum with the factors in the code's order *)
Definition vdot_mask_l (m : list bool) (vals : list Q) : Q := qsum (map2 (fun b v => qm b * v) m vals).
(* jnp.sum(mask) *)
Definition count (m : list bool) : Q := qsum (map qm m).
Definition qlen {A} (l : list A) : Q := inject_Z (Z.of_nat (length l)).

Definition add_reg (x : NanQ.t) (r : option Q) : NanQ.t :=
  match r with Some r => NanQ.add x (Some r) | None => x end.

(* models.grad.scalar_loss: masked batch -> safe_div(vdot(loss, mask), sum(mask));
   unmasked batch -> jnp.mean(loss); then `+ regularizer(params)` when given *)
Definition batch_mean (vals : list Q) (m : option (list bool)) : NanQ.t :=
  match m with
  | Some m => safe_div (Some (vdot_mask vals m)) (Some (count m))
  | None => NanQ.div (Some (qsum vals)) (Some (qlen vals))
  end.
Definition scalar_loss (vals : list Q) (m : option (list bool)) (r : option Q) : NanQ.t :=
  add_reg (batch_mean vals m) r.

(* _evaluate_average_loss_step / _finalize_average_loss *)
Definition sbatch := (list Q * option (list bool))%type.
Definition avg_step (acc : Q * Q) (b : sbatch) : Q * Q :=
  match snd b with
  | Some m => (fst acc + vdot_mask_l m (fst b), snd acc + count m)
  | None => (fst acc + qsum (fst b), snd acc + qlen (fst b))
  end.
Definition avg_loss (batches : list sbatch) (r : option Q) : NanQ.t :=
  let acc := fold_left avg_step batches (0, 0) in
  add_reg (safe_div (Some (fst acc)) (Some (snd acc))) r.

(* mime.create_grads_for_each_client, one coordinate:
     grads = grad_fn(params, batch); num = sum(mask)
     grads_sum = tree_add(tree_weight(grads, num), grads_sum); num_sum += num
   server: tree_sum over clients, then tree_inverse_weight(grads_sum_total, num_sum_total) *)
Definition mbatch := (list Q * list bool)%type.
Definition mime_step (dr : option Q) (st : NanQ.t * NanQ.t) (b : mbatch) : NanQ.t * NanQ.t :=
  let g := scalar_loss (fst b) (Some (snd b)) dr in
  let num := Some (count (snd b)) in
  (NanQ.add (NanQ.mul g num) (fst st), NanQ.add (snd st) num).
Definition mime_client (dr : option Q) (batches : list mbatch) : NanQ.t * NanQ.t :=
  fold_left (mime_step dr) batches (NanQ.zero, NanQ.zero).
(* tree_util.tree_inverse_weight: where(weight > 0, 1 / weight, 0) *)
Definition inv_weight (w : NanQ.t) : NanQ.t :=
  NanQ.where_ (NanQ.gtb w NanQ.zero) (NanQ.div NanQ.one w) NanQ.zero.
Definition pair_add (a b : NanQ.t * NanQ.t) : NanQ.t * NanQ.t := (NanQ.add (fst a) (fst b), NanQ.add (snd a) (snd b)).
(* tree_sum of a non-empty sequence: first element, then running add *)
Definition pair_sum (l : list (NanQ.t * NanQ.t)) : NanQ.t * NanQ.t :=
  match l with [] => (NanQ.zero, NanQ.zero) | x :: r => fold_left pair_add r x end.
Definition mime_fullbatch (dr : option Q) (clients : list (list mbatch)) : NanQ.t :=
  let tot := pair_sum (map (mime_client dr) clients) in
  NanQ.mul (fst tot) (inv_weight (snd tot)).

(* agnostic_fed_avg.create_domain_metrics_for_each_client:
     example_loss = loss * mask
     domain_loss = segment_sum(example_loss, domain_id, D) (+ regularizer(params) if given)
     domain_num  = segment_sum(mask, domain_id, D); both accumulated over the batches *)
Definition segment_sum (vals : list Q) (ids : list Z) (nd : nat) : list Q :=
  map (fun d => qsum (map2 (fun v i => if (i =? Z.of_nat d)%Z then v else 0) vals ids)) (seq 0 nd).
Definition dbatch := (list Q * list bool * list Z)%type.
Definition domain_step (nd : nat) (r : option Q) (st : list Q * list Q) (b : dbatch) : list Q * list Q :=
  let '(vals, m, ids) := b in
  let ex := map2 (fun v b => v * qm b) vals m in
  let dl := segment_sum ex ids nd in
  let dl := match r with Some r => map (fun x => x + r) dl | None => dl end in
  let dn := segment_sum (map qm m) ids nd in
  (map2 Qplus (fst st) dl, map2 Qplus (snd st) dn).
Definition domain_metrics (nd : nat) (r : option Q) (batches : list dbatch) : list Q * list Q :=
  fold_left (domain_step nd r) batches (repeat 0 nd, repeat 0 nd).

(* ---------- the same quantities computed by the TRANSLATED kernels ---------- *)
(* gen/Gen_c06_models.v (models.grad.scalar_loss, _evaluate_average_loss_step,
   _finalize_average_loss), gen/Gen_c06_mime.v (client_step of
   create_grads_for_each_client, the server-gradient normalisation of mime.apply),
   gen/Gen_c06_mime_lite.v, gen/Gen_c06_agnostic.v (client_step of
   create_domain_metrics_for_each_client) are regenerated from /repo on every run.
   These t_* functions are what the correspondence evaluates; Proofs/C06_Proofs.v
   proves t_X = X for the specification functions above (C06_translated_kernels). *)
Definition inj (l : list Q) : list NanQ.t := map Some l.
Definition injm (m : list bool) : list NanQ.t := map (fun b => Some (qm b)) m.

Definition t_scalar_loss (vals : list Q) (m : option (list bool)) (r : option Q) : NanQ.t :=
  gen_scalar_loss (inj vals) (option_map injm m) (option_map Some r).
Definition t_avg_step (st : NanQ.t * NanQ.t) (b : sbatch) : NanQ.t * NanQ.t :=
  gen_avg_step (inj (fst b)) (option_map injm (snd b)) (fst st) (snd st).
Definition t_avg_loss (batches : list sbatch) (r : option Q) : NanQ.t :=
  let st := fold_left t_avg_step batches (NanQ.zero, NanQ.zero) in
  gen_finalize_avg (fst st) (snd st) (option_map Some r).
(* one gradient coordinate = a one-leaf pytree *)
Definition t_mime_step (dr : option Q) (st : list NanQ.t * NanQ.t) (b : mbatch) : list NanQ.t * NanQ.t :=
  gen_mime_client_step [t_scalar_loss (fst b) (Some (snd b)) dr] (injm (snd b)) (fst st) (snd st).
Definition t_mime_client (dr : option Q) (batches : list mbatch) : list NanQ.t * NanQ.t :=
  fold_left (t_mime_step dr) batches ([NanQ.zero], NanQ.zero).
Definition tpair_add (a b : list NanQ.t * NanQ.t) : list NanQ.t * NanQ.t :=
  (map2 NanQ.add (fst a) (fst b), NanQ.add (snd a) (snd b)).
Definition tpair_sum (l : list (list NanQ.t * NanQ.t)) : list NanQ.t * NanQ.t :=
  match l with [] => ([NanQ.zero], NanQ.zero) | x :: r => fold_left tpair_add r x end.
Definition t_mime_fullbatch (lite : bool) (dr : option Q) (clients : list (list mbatch)) : NanQ.t :=
  let tot := tpair_sum (map (t_mime_client dr) clients) in
  nth 0 ((if lite then gen_mime_lite_server_grads else gen_mime_server_grads) (fst tot) (snd tot)) None.
Definition t_domain_step (nd : nat) (r : option Q) (st : list NanQ.t * list NanQ.t) (b : dbatch) :=
  gen_domain_step (inj (fst (fst b))) (injm (snd (fst b))) (snd b) nd (option_map Some r) (fst st) (snd st).
Definition t_domain_metrics (nd : nat) (r : option Q) (batches : list dbatch) : list NanQ.t * list NanQ.t :=
  fold_left (t_domain_step nd r) batches (repeat NanQ.zero nd, repeat NanQ.zero nd).

(* ---------- correspondence ---------- *)
(* a geometry of one dataset: the per-row values of one quantity (loss, or one
   gradient coordinate) arranged in batches *)
Inductive C06_case :=
| KGrad (vals : list Q) (m : option (list bool)) (r : option Q)          (* fedjax.grad / model_grad, one coordinate *)
| KAvg (batches : list sbatch) (r : option Q)                            (* evaluate_average_loss / AverageLossEvaluator / HypCluster *)
| KMime (lite : bool) (dr : option Q) (clients : list (list mbatch))     (* Mime / MimeLite full-batch gradient, one coordinate *)
| KMimeClient (dr : option Q) (batches : list mbatch)                    (* client output (grads_sum, num_sum), one coordinate *)
| KDomain (nd : nat) (r : option Q) (batches : list dbatch)              (* (domain_loss, domain_num) *)
(* exhaustive small grid (wave 5): for every length l <= lmax, every mask in {F,T}^l and every domain id vector in
   {0,1,2}^l, one batch holding the first l of `vals`: 3 domain losses, 3 domain counts, the average loss *)
| KGrid (lmax : nat) (vals : list Q).

Fixpoint vecs {A} (vals : list A) (n : nat) : list (list A) :=
  match n with
  | O => [[]]
  | S n' => flat_map (fun x => map (cons x) (vecs vals n')) vals
  end.
Definition grid_values (lmax : nat) (vals : list Q) : list NanQ.t :=
  flat_map (fun l => flat_map (fun m => flat_map (fun ids =>
      let st := t_domain_metrics 3 None [(firstn l vals, m, ids)] in
      fst st ++ snd st ++ [t_avg_loss [(firstn l vals, Some m)] None])
    (vecs [0; 1; 2]%Z l)) (vecs [false; true] l)) (seq 1 lmax).

Definition C06_obs := list Q.

Definition tol : Q := 1 # 50000.
Definition qclose (x y : Q) : bool := Qle_bool (Qabs (x - y)) (tol * (1 + Qabs y)).
Definition nclose (x : NanQ.t) (y : Q) : bool := match x with Some x => qclose x y | None => false end.

Fixpoint all2 {A B} (f : A -> B -> bool) (l1 : list A) (l2 : list B) : bool :=
  match l1, l2 with
  | [], [] => true
  | x :: l1', y :: l2' => f x y && all2 f l1' l2'
  | _, _ => false
  end.

Definition C06_agree (c : C06_case) (o : C06_obs) : bool :=
  match c, o with
  | KGrad vals m r, [y] => nclose (t_scalar_loss vals m r) y
  | KAvg bs r, y :: ys => forallb (nclose (t_avg_loss bs r)) (y :: ys)
  | KMime lite dr cl, [y] => nclose (t_mime_fullbatch lite dr cl) y
  | KMimeClient dr bs, [g; n] =>
      let st := t_mime_client dr bs in nclose (nth 0 (fst st) None) g && NanQ.same (snd st) (Some n)
  | KDomain nd r bs, ys =>
      let st := t_domain_metrics nd r bs in
      all2 nclose (fst st) (firstn nd ys) && all2 (fun x y => NanQ.same x (Some y)) (snd st) (skipn nd ys) &&
      Nat.eqb (length ys) (nd + nd)
  | KGrid lmax vals, ys => all2 nclose (grid_values lmax vals) ys
  | _, _ => false
  end.

(* one harness case = several (quantity under one geometry, observed values) items *)
Definition C06_agree_all (items : list (C06_case * C06_obs)) (_ : unit) : bool :=
  forallb (fun p => C06_agree (fst p) (snd p)) items.
