(* C18 executable model (definitions only): Walsh-Hadamard transform as the code
   computes it (reshape schedule translated from walsh_hadamard_transform, one
   contraction with the small Sylvester matrix per reshaped axis), the Sylvester
   recursion `wht`, the Sylvester matrix, the structured rotation and its inverse
   (padded size / pad widths / sqrt arguments translated from structured_rotation and
   inverse_structured_rotation), and the correspondence predicate.

   Everything is generic in the coefficient type R with operations (rO, radd, rsub,
   ropp); the theorems of Proofs/C18_Proofs.v hold for every commutative ring, the
   correspondence evaluates the instance R = Z (exact on float32 for small integers).
   The scalar 1/sqrt(z) is never computed: a rotated vector is a pair (u, z) standing
   for u / sqrt(z). *)
From Coq Require Import ZArith QArith Qabs List Bool.
From FV Require Import Common.ListX Common.RingVec gen.Gen_walsh_hadamard.
Import ListNotations.
Local Open Scope Z_scope.

(* ---- reshape schedule (translated loop, with enough fuel: C18_schedule_product) ---- *)
Definition schedule_fuel (n : Z) : nat := S (S (Z.to_nat (Z.log2 n))).
Definition schedule (n small_n : Z) : option (option (list Z)) := wht_shape (schedule_fuel n) n small_n.

(* Sylvester sign matrix of order 2^k, true = -1  (scipy.linalg.hadamard) *)
Fixpoint Hsign (k : nat) : list (list bool) :=
  match k with
  | O => [[false]]
  | S k' => let H := Hsign k' in
            map (fun r => r ++ r) H ++ map (fun r => r ++ map negb r) H
  end.

Definition is_pow2 (d : Z) : bool := (0 <? d) && (2 ^ Z.log2 d =? d).
Definition exp_of (d : Z) : nat := Z.to_nat (Z.log2 d).
Fixpoint prodZ (l : list Z) : Z := match l with [] => 1 | d :: l' => d * prodZ l' end.
Fixpoint sumn (l : list nat) : nat := match l with [] => O | e :: l' => (e + sumn l')%nat end.

Inductive wres (A : Type) : Type := WOk (v : A) | WValueError | WOther.
Arguments WOk {A} v. Arguments WValueError {A}. Arguments WOther {A}.

Section Ops.
Context {R : Type} (rO : R) (radd rsub : R -> R -> R) (ropp : R -> R).
Notation vadd := (vadd radd). Notation vsub := (vsub rsub). Notation vzero := (vzero rO). Notation vsign := (vsign ropp).

(* Sylvester recursion  (a, b) |-> (W a + W b) ++ (W a - W b) *)
Fixpoint wht (k : nat) (x : list R) : list R :=
  match k with
  | O => x
  | S k' => let h := Nat.pow 2 k' in
            let a := wht k' (firstn h x) in
            let b := wht k' (skipn h x) in
            vadd a b ++ vsub a b
  end.

(* c chunks of n entries each *)
Fixpoint cchunks (c : nat) (n : nat) (x : list R) : list (list R) :=
  match c with
  | O => []
  | S f => firstn n x :: cchunks f n (skipn n x)
  end.

(* chunk-level Sylvester recursion (proof device; the model uses mixM) *)
Definition madd (A B : list (list R)) := map (fun p => vadd (fst p) (snd p)) (combine A B).
Definition msub (A B : list (list R)) := map (fun p => vsub (fst p) (snd p)) (combine A B).
Fixpoint mix (j : nat) (cs : list (list R)) : list (list R) :=
  match j with
  | O => cs
  | S j' => let h := Nat.pow 2 j' in
            let A := mix j' (firstn h cs) in
            let B := mix j' (skipn h cs) in
            madd A B ++ msub A B
  end.

(* one einsum: output chunk i = sum_j H[i][j] * chunk_j, H given by its signs *)
Definition slincomb (n : nat) (row : list bool) (cs : list (list R)) : list R :=
  fold_right (fun (p : bool * list R) acc => if fst p then vsub acc (snd p) else vadd acc (snd p)) (vzero n) (combine row cs).
Definition mixM (n : nat) (M : list (list bool)) (cs : list (list R)) : list (list R) :=
  map (fun row => slincomb n row cs) M.

(* x reshaped to (2^e1, ..., 2^em) row-major, every axis contracted with its Hadamard matrix *)
Fixpoint kron_apply (es : list nat) (x : list R) : list R :=
  match es with
  | [] => x
  | e :: es' => let m := Nat.pow 2 (sumn es') in
                concat (mixM m (Hsign e) (map (kron_apply es') (cchunks (Nat.pow 2 e) m x)))
  end.

(* walsh_hadamard_transform(x, small_n) *)
Definition wht_impl (small_n : Z) (x : list R) : wres (list R) :=
  let n := Z.of_nat (length x) in
  match schedule n small_n with
  | None => WOther
  | Some None => WValueError
  | Some (Some dims) =>
      if forallb is_pow2 dims && (prodZ dims =? n) then WOk (kron_apply (map exp_of dims) x) else WOther
  end.

(* multiplication by the Sylvester matrix *)
Definition sdot (row : list bool) (x : list R) : R :=
  fold_right (fun (p : bool * R) acc => if fst p then rsub acc (snd p) else radd acc (snd p)) rO (combine row x).
Definition hmul (k : nat) (x : list R) : list R := map (fun row => sdot row x) (Hsign k).

(* ---- structured rotation: (u, z) stands for u / sqrt z ---- *)
Definition default_small_n : Z := wht_default_small_n.

Definition pad_vec (size d : Z) (x : list R) : list R :=
  let '(a, b) := rotation_pad size d in vzero (Z.to_nat a) ++ x ++ vzero (Z.to_nat b).

Definition rot (s : list bool) (x : list R) : wres (list R * Z) :=
  let size := Z.of_nat (length x) in
  let d := rotation_dim size in
  let w := pad_vec size d x in
  let sg := s ++ repeat false (length w - length s) in
  match wht_impl default_small_n (vsign sg w) with
  | WOk u => WOk (u, rotation_scale size d)
  | WValueError => WValueError
  | WOther => WOther
  end.

(* inverse_structured_rotation(y, key, shape): first prod(shape) entries of s * W y / sqrt(len y) *)
Definition inv_rot (s : list bool) (y : list R) (shape : list Z) : wres (list R * Z * list Z) :=
  let sg := s ++ repeat false (length y - length s) in
  match wht_impl default_small_n y with
  | WOk w => WOk (firstn (Z.to_nat (inverse_take (prodZ shape))) (vsign sg w),
                  inverse_scale (Z.of_nat (length y)), shape)
  | WValueError => WValueError
  | WOther => WOther
  end.

End Ops.

(* matrix with entries in a ring, and the usual matrix-vector product (dot of Common/RingVec.v) *)
Section Mat.
Context {R : Type} (rO rI : R) (radd rmul : R -> R -> R) (ropp : R -> R).
Definition Hmat (k : nat) : list (list R) := map (map (fun b : bool => if b then ropp rI else rI)) (Hsign k).
Definition matvec (M : list (list R)) (x : list R) : list R := map (fun row => dot rO radd rmul row x) M.
End Mat.

(* ------------------------------------------------------------------ *)
(* Z instance and correspondence                                       *)

Definition zwht := wht_impl 0 Z.add Z.sub.
Definition zrot := rot 0 Z.add Z.sub Z.opp.
Definition zinv := inv_rot 0 Z.add Z.sub Z.opp.

(* test vectors regenerated on both sides: a 31-bit LCG, entries in -4..4 *)
Fixpoint lcg_vec (n : nat) (st : Z) : list Z :=
  match n with
  | O => []
  | S n' => let st' := Z.land (st * 1103515245 + 12345) 2147483647 in
            ((Z.shiftr st' 16) mod 9 - 4) :: lcg_vec n' st'
  end.
Definition basis (n i : nat) : list Z := repeat 0 i ++ [1] ++ repeat 0 (n - i - 1).

(* polynomial hash mod 2^61 (Z.land is two's complement on negative numbers, as python's &) *)
Definition hashM : Z := 2305843009213693951.
Definition hashZ (l : list Z) : Z := fold_left (fun acc v => Z.land (acc * 1000003 + v) hashM) l 0.

Inductive vspec := VLit (l : list Z) | VSeed (n : nat) (seed : Z) | VBasisAll (n : nat).
Inductive tobs := TErrValue | TErrOther | TVec (l : list Z) | THash (h : Z).

Definition block_of (b : option Z) : Z := match b with Some v => v | None => default_small_n end.

Definition wout (r : wres (list Z)) : option (list Z) := match r with WOk v => Some v | _ => None end.

Definition tagree (b : option Z) (v : vspec) (o : tobs) : bool :=
  let sn := block_of b in
  match v with
  | VBasisAll n =>
      let outs := map (fun i => zwht sn (basis n i)) (seq 0 n) in
      match o with
      | THash h => forallb (fun r => match r with WOk _ => true | _ => false end) outs &&
                   (hashZ (flat_map (fun r => match r with WOk y => y | _ => [] end) outs) =? h)
      | TErrValue => forallb (fun r => match r with WValueError => true | _ => false end) outs
      | TErrOther => forallb (fun r => match r with WOther => true | _ => false end) outs
      | TVec _ => false
      end
  | _ =>
      let x := match v with VLit l => l | VSeed n seed => lcg_vec n seed | VBasisAll _ => [] end in
      match zwht sn x, o with
      | WOk y, TVec l => list_beq Z.eqb y l
      | WOk y, THash h => hashZ y =? h
      | WValueError, TErrValue => true
      | WOther, TErrOther => true
      | _, _ => false
      end
  end.

(* hadamard_matrix(2^k): hash of the rows as +-1 *)
Definition hagree (k : nat) (h : Z) : bool :=
  hashZ (flat_map (map (fun b : bool => if b then -1 else 1)) (Hsign k)) =? h.

(* q ~ u / sqrt z, i.e. |q * sqrt z - u| <= 1e-5 * |u| (+ abs), sqrt z to 9 digits.
   Used only to compare float observations with the exact model value. *)
Local Open Scope Q_scope.
Definition qsqrt (z : Z) : Q := Z.sqrt (z * 10 ^ 18) # 1000000000.
Definition close_scaled (z : Z) (u : Z) (q : Q) : bool :=
  Qle_bool (Qabs (q * qsqrt z - inject_Z u)) ((1 # 100000) * inject_Z (Z.abs u)).
Fixpoint all2 {A B} (f : A -> B -> bool) (a : list A) (b : list B) : bool :=
  match a, b with
  | [], [] => true
  | x :: a', y :: b' => f x y && all2 f a' b'
  | _, _ => false
  end.
Definition close_abs (tol : Q) (x : Z) (q : Q) : bool := Qle_bool (Qabs (q - inject_Z x)) tol.
Fixpoint qsumsq (l : list Q) (acc : Q) : Q := match l with [] => acc | q :: l' => qsumsq l' (Qred (acc + q * q)) end.
Local Close Scope Q_scope.
Local Open Scope Z_scope.
Fixpoint zsumsq (l : list Z) : Z := match l with [] => 0 | a :: l' => a * a + zsumsq l' end.

(* rotation case: shape, integer input x (flattened), sign vector recovered from the
   observation (true = -1) on the first size coordinates, integer probe y for the inverse.
   observation: rotated vector, recorded shape, inverse(rotated), inverse(y). *)
Record rcase := mkR { r_shape : list Z; r_x : list Z; r_s : list bool; r_y : list Z }.
Record robs := mkRO { o_rot : list Q; o_shape : list Z; o_back : list Q; o_back_shape : list Z;
                      o_inv : list Q; o_inv_shape : list Z }.

Definition ragree (c : rcase) (o : robs) : bool :=
  (prodZ (r_shape c) =? Z.of_nat (length (r_x c))) &&
  match zrot (r_s c) (r_x c) with
  | WOk (u, z) =>
      all2 (close_scaled z) u (o_rot o) && list_beq Z.eqb (o_shape o) (r_shape c) &&
      (* norm preserved: |sum q^2 - sum x^2| <= 1e-4 * sum x^2 *)
      Qle_bool (Qabs (qsumsq (o_rot o) 0 - inject_Z (zsumsq (r_x c)))) ((1 # 10000) * inject_Z (zsumsq (r_x c))) &&
      (* inverse(rotation) restores x and the shape *)
      all2 (close_abs (1 # 1000)) (r_x c) (o_back o) && list_beq Z.eqb (o_back_shape o) (r_shape c) &&
      (* inverse on an integer probe *)
      match r_y c with
      | [] => true
      | _ => match zinv (r_s c) (r_y c) (r_shape c) with
             | WOk (v, z', sh) => all2 (close_scaled z') v (o_inv o) && list_beq Z.eqb (o_inv_shape o) sh
             | _ => false
             end
      end
  | _ => false
  end.

(* large rotation by linear checksum: x = lcg_vec size seed (zeros replaced by 1), signs
   given as the indices... too large for literals, so the harness sends the packed sign
   bits as a list of 32-bit words; the observation is the exact rational checksum
   sum_i c_i * rot_i with c = lcg_vec d cseed, and sum_i rot_i^2. *)
Definition nz (v : Z) : Z := if v =? 0 then 1 else v.
Fixpoint bits_of (n : nat) (w : Z) : list bool :=
  match n with O => [] | S n' => Z.odd w :: bits_of n' (w / 2) end.
Definition unpack (ws : list Z) : list bool := flat_map (bits_of 32) ws.
Definition zdot (a b : list Z) : Z := fold_left Z.add (map (fun p => fst p * snd p) (combine a b)) 0.

Record bcase := mkB { b_size : nat; b_seed : Z; b_signs : list Z; b_cseed : Z }.
Record bobs := mkBO { o_len : Z; o_chk : Q; o_nrm : Q }.

Definition bagree (c : bcase) (o : bobs) : bool :=
  let x := map nz (lcg_vec (b_size c) (b_seed c)) in
  match zrot (firstn (b_size c) (unpack (b_signs c))) x with
  | WOk (u, z) =>
      (Z.of_nat (length u) =? o_len o) &&
      (let cs := lcg_vec (length u) (b_cseed c) in
       let s := zdot cs u in
       let a := zdot (map Z.abs cs) (map Z.abs u) in
       Qle_bool (Qabs (o_chk o * qsqrt z - inject_Z s)) ((1 # 100000) * inject_Z a)%Q) &&
      Qle_bool (Qabs (o_nrm o - inject_Z (zsumsq x))) ((1 # 10000) * inject_Z (zsumsq x))%Q
  | _ => false
  end.

(* exhaustive grids (wave 5): (a) success / error of the transform for ALL lengths 1..nmax x a list of block sizes (also
   non-powers of two), the model being the translated schedule + the reshape / Hadamard-order checks of wht_impl;
   (b) the padded length of structured_rotation against the translated rotation_dim *)
Definition wcode (r : wres (list Z)) : Z := match r with WOk _ => 0 | _ => 1 end.
Definition grid_agree (nmax : nat) (blocks : list Z) (seed : Z) (codes : list Z) : bool :=
  list_beq Z.eqb (flat_map (fun n => map (fun b => wcode (zwht b (lcg_vec n seed))) blocks) (seq 1 nmax)) codes.
Definition pad_agree (obs : list (Z * Z)) : bool := forallb (fun p => rotation_dim (fst p) =? snd p) obs.

Inductive C18_case :=
| CT (block : option Z) (v : vspec)
| CH (k : nat)
| CR (c : rcase)
| CB (c : bcase)
| CP (cs : list rcase)
| CQgrid (nmax : nat) (blocks : list Z) (seed : Z)
| CQpad.
Inductive C18_obs :=
| OT (o : tobs)
| OH (h : Z)
| OR (o : robs)
| OB (o : bobs)
| OP (os : list robs)
| OQgrid (codes : list Z)
| OQpad (obs : list (Z * Z)).

Definition C18_agree (c : C18_case) (o : C18_obs) : bool :=
  match c, o with
  | CT b v, OT t => tagree b v t
  | CH k, OH h => hagree k h
  | CR c, OR o => ragree c o
  | CB c, OB o => bagree c o
  | CP cs, OP os => all2 ragree cs os
  | CQgrid nmax blocks seed, OQgrid codes => grid_agree nmax blocks seed codes
  | CQpad, OQpad obs => pad_agree obs
  | _, _ => false
  end.
