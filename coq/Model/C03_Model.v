(* C03 executable model: the translated loops of client_datasets.py instantiated
   with enough fuel, plus the correspondence predicate evaluated by the check. *)
From Coq Require Import ZArith List Bool.
From FV Require Import Common.ListX Common.PySem Common.Batch gen.Gen_client_datasets.
Import ListNotations.
Local Open Scope Z_scope.

(* fuel bs + 1 is proved sufficient in Proofs/C03_Proofs.v (pick_total) *)
Definition pick (N bs nb : Z) : option Z := pick_final_batch_size (Z.to_nat bs + 1) N bs nb.

Definition batch_view {A} (pre : list A -> list A) (raw : list A) (bs : Z) (drop : bool) : list (list A) :=
  batch_view_iter pre raw (Z.of_nat (length raw)) bs drop.

Definition padded_view {A} (zero : A) (pre : list A -> list A) (raw : list A) (bs nb : Z)
  : option (list (batch A)) :=
  match pick (Z.of_nat (length raw)) bs nb with
  | Some f => Some (padded_batch_view_iter zero pre raw (Z.of_nat (length raw)) bs f)
  | None => None
  end.

(* ---- correspondence: rows are identified by their ids ---- *)
(* the dataset's rows are start + step*k, k < n  (0, 1: a dataset built directly; other
   values: a dataset obtained by slicing a parent, d[a:b:c], whose rows carry the parent's ids) *)
Record C03_case := mkC03 { c_n : nat; c_bs : Z; c_nb : Z; c_start : Z; c_step : Z }.
Record C03_obs := mkO03 {
  o_plain : list (list Z);              (* batch(drop_remainder=False): row indices per batch *)
  o_drop : list (list Z);               (* batch(drop_remainder=True) *)
  o_padded : list (list Z * list bool)  (* padded_batch: (x column incl. padding, mask) per batch *)
}.

Definition idx (n : nat) : list Z := map Z.of_nat (seq 0 n).
Definition lz_eqb := list_beq Z.eqb.
Definition llz_eqb := list_beq lz_eqb.
Definition pb_eqb (a b : list Z * list bool) := lz_eqb (fst a) (fst b) && list_beq Bool.eqb (snd a) (snd b).

Definition C03_agree (c : C03_case) (o : C03_obs) : bool :=
  let raw := map (fun k => c_start c + c_step c * k) (idx (c_n c)) in
  llz_eqb (batch_view (fun x => x) raw (c_bs c) false) (o_plain o) &&
  llz_eqb (batch_view (fun x => x) raw (c_bs c) true) (o_drop o) &&
  match padded_view 0 (fun x => x) raw (c_bs c) (c_nb c) with
  | Some bs => list_beq pb_eqb (map (fun b => (b_rows b, b_mask b)) bs) (o_padded o)
  | None => false
  end.


(* ---- exhaustive sweep of the final-batch-size function (wave 5) ----
   CPick lo hi nbhi: for every batch size bs in lo..hi, every bucket count nb in 1..nbhi and
   every remainder rem in 0..bs-1 the implementation's _pick_final_batch_size(rem, bs, nb)
   was observed; the observation is run-length encoded per (bs, nb) row as (value, count)
   pairs.  The model recomputes every row with the translated function `pick`. *)
Inductive C03_anycase := CView (c : C03_case) | CPick (lo hi nbhi : Z).
Inductive C03_anyobs := OView (o : C03_obs) | OPick (runs : list (list (Z * Z))).

Definition expand_runs (runs : list (Z * Z)) : list Z :=
  flat_map (fun vc => repeat (fst vc) (Z.to_nat (snd vc))) runs.

Definition pick_row (bs nb : Z) : list Z :=
  map (fun rem => match pick rem bs nb with Some r => r | None => -1 end) (py_range 0 bs 1).

Definition pick_rows (lo hi nbhi : Z) : list (list Z) :=
  flat_map (fun bs => map (fun nb => pick_row bs nb) (py_range 1 (nbhi + 1) 1)) (py_range lo (hi + 1) 1).

Definition C03_agree_any (c : C03_anycase) (o : C03_anyobs) : bool :=
  match c, o with
  | CView c, OView o => C03_agree c o
  | CPick lo hi nbhi, OPick runs => llz_eqb (pick_rows lo hi nbhi) (map expand_runs runs)
  | _, _ => false
  end.
