(* C15 executable model (definitions only).

   Hand-written mirrors, statement by statement, of
     fedjax/core/client_datasets.py : padded_batch_client_datasets, buffered_shuffle,
                                      buffered_shuffle_batch_client_datasets
     fedjax/core/federated_data.py  : RepeatableIterator
   `pick` is the translated _pick_final_batch_size (gen/Gen_client_datasets.v via
   Model/C03_Model.v).  Randomness enters as oracle arguments: the Lehmer code of
   the initial `rng.shuffle(buf)` and the list of `rng.randint(buffer_size)` draws. *)
From Coq Require Import ZArith List Bool.
From FV Require Import Common.ListX Common.PySem Common.Batch Model.C03_Model.
Import ListNotations.
Local Open Scope Z_scope.

(* ------------------------------------------------------------------ *)
(* list-slot helpers (python `buf[k] = x`)                              *)

Fixpoint set_nth {A} (k : nat) (x : A) (l : list A) : list A :=
  match l, k with
  | [], _ => []
  | _ :: t, O => x :: t
  | y :: t, S k' => y :: set_nth k' x t
  end.

Fixpoint remove_nth {A} (k : nat) (l : list A) : list A :=
  match l, k with
  | [], _ => []
  | _ :: t, O => t
  | y :: t, S k' => y :: remove_nth k' t
  end.

(* `buf[k], buf[0] = buf[0], buf[k]`: right-hand side first, then the two stores in order *)
Definition swap_slots {A} (k : nat) (buf : list A) : list A :=
  match buf, nth_error buf k with
  | b0 :: _, Some bk => set_nth 0 bk (set_nth k b0 buf)
  | _, _ => buf
  end.

(* The oracle for `rng.shuffle(buf)`: a Lehmer code.  code[j] is the index, among the
   elements not yet placed, of the element that ends up at position j.  Every code
   denotes a permutation (out-of-range entries stop the decoding, leaving the rest in
   order), so the theorems quantify over ALL oracles. *)
Fixpoint apply_code {A} (code : list nat) (l : list A) : list A :=
  match code with
  | [] => l
  | k :: code' => match nth_error l k with
                  | Some x => x :: apply_code code' (remove_nth k l)
                  | None => l
                  end
  end.

(* python list indexing `l[k]` for a python int k: 0 <= k < len from the front,
   -len <= k < 0 from the back, anything else raises IndexError (None) *)
Definition py_index (len : nat) (k : Z) : option nat :=
  if 0 <=? k then (if k <? Z.of_nat len then Some (Z.to_nat k) else None)
  else (if - Z.of_nat len <=? k then Some (Z.to_nat (Z.of_nat len + k)) else None).
Definition py_get {A} (l : list A) (k : Z) : option A :=
  match py_index (length l) k with Some i => nth_error l i | None => None end.
Definition py_set {A} (l : list A) (k : Z) (x : A) : option (list A) :=
  match py_index (length l) k with Some i => Some (set_nth i x l) | None => None end.

(* ------------------------------------------------------------------ *)
(* padded_batch_client_datasets                                         *)

(* What the function reads from a ClientDataset: the identity of its preprocessor
   object (`is not`), its feature-name set (`!=` on sets) and its raw rows. *)
Record cds (A : Type) := mk_cds { d_pre : Z; d_feat : Z; d_rows : list A }.
Arguments mk_cds {A}.
Arguments d_pre {A}.
Arguments d_feat {A}.
Arguments d_rows {A}.

Section Padded.
Context {A : Type} (zero : A) (pre : list A -> list A).

(* the local variables of the generator + the batches yielded so far *)
Record pst := mk_pst {
  p_pre : option Z;           (* preprocessor *)
  p_feat : option Z;          (* features *)
  p_buf : list (list A);      (* buf: pieces *)
  p_bufsize : Z;              (* buf_size *)
  p_out : list (batch A)      (* yielded *)
}.

Inductive step_res :=
| SNext (s : pst)                      (* loop body finished (incl. `continue`) *)
| SRaise (out : list (batch A))        (* ValueError, after having yielded `out` *)
| SFuel.                               (* fuel exhausted (excluded by theorem) *)

Definition pinit : pst := mk_pst None None [] 0 [].

Definition full_mask (bs : Z) : list bool := repeat true (Z.to_nat bs).

(*  if preprocessor is None: preprocessor = dataset.preprocessor
    elif dataset.preprocessor is not preprocessor: raise ValueError  *)
Definition check_pre (cur : option Z) (d : Z) : option Z :=
  match cur with
  | None => Some d
  | Some p => if negb (d =? p) then None else Some p
  end.
(*  if features is None: features = set(dataset.raw_examples)
    elif features != set(dataset.raw_examples): raise ValueError  *)
Definition check_feat (cur : option Z) (d : Z) : option Z :=
  match cur with
  | None => Some d
  | Some f => if negb (f =? d) then None else Some f
  end.

(*  while start + hparams.batch_size < size:
      yield attach_mask(preprocessor(slice_examples(examples, slice(start, start + bs))), full_mask)
      start += hparams.batch_size  *)
Fixpoint emit_loop (fuel : nat) (bs size : Z) (examples : list A) (start : Z) (out : list (batch A))
  : option (Z * list (batch A)) :=
  match fuel with
  | O => None
  | S f =>
    if start + bs <? size
    then emit_loop f bs size examples (start + bs)
           (out ++ [attach_mask (pre (py_slice examples start (start + bs))) (full_mask bs)])
    else Some (start, out)
  end.

(* the loop body from `# Emit batches in examples.` on *)
Definition ptail (bs : Z) (pp pf : option Z) (examples : list A) (size start : Z)
    (buf : list (list A)) (buf_size : Z) (out : list (batch A)) : step_res :=
  match emit_loop (S (length examples)) bs size examples start out with
  | None => SFuel
  | Some (start, out) =>
    (* # Buffer remaining. *)
    if start <? size
    then SNext (mk_pst pp pf (buf ++ [py_slice examples start size]) (buf_size + (size - start)) out)
    else SNext (mk_pst pp pf buf buf_size out)
  end.

(* one iteration of `for dataset in datasets:` *)
Definition pstep (bs : Z) (st : pst) (d : cds A) : step_res :=
  match check_pre (p_pre st) (d_pre d) with
  | None => SRaise (p_out st)
  | Some preprocessor =>
  match check_feat (p_feat st) (d_feat d) with
  | None => SRaise (p_out st)
  | Some features =>
    let size := Z.of_nat (length (d_rows d)) in
    let examples := d_rows d in
    if p_bufsize st + size <? bs then
      (* buf.append(examples); buf_size += size; continue *)
      SNext (mk_pst (Some preprocessor) (Some features) (p_buf st ++ [examples]) (p_bufsize st + size) (p_out st))
    else
      match p_buf st with
      | _ :: _ =>
        (* if buf:  # Emit what's in buf.  (the test is on the piece LIST) *)
        let start := bs - p_bufsize st in
        let buf := p_buf st ++ [py_slice examples 0 start] in
        let out := p_out st ++ [attach_mask (pre (concat buf)) (full_mask bs)] in
        (* buf.clear(); buf_size = 0 *)
        ptail bs (Some preprocessor) (Some features) examples size start [] 0 out
      | [] =>
        (* else: start = 0 *)
        ptail bs (Some preprocessor) (Some features) examples size 0 (p_buf st) (p_bufsize st) (p_out st)
      end
  end end.

Fixpoint pfold (bs : Z) (st : pst) (ds : list (cds A)) : step_res :=
  match ds with
  | [] => SNext st
  | d :: ds' => match pstep bs st d with
                | SNext st' => pfold bs st' ds'
                | r => r
                end
  end.

Inductive pres :=
| PDone (out : list (batch A))
| PValueError (out : list (batch A))
| PStuck.

(*  if buf:
      final_examples = preprocessor(concat_examples(buf))
      final_batch_size = _pick_final_batch_size(buf_size, bs, buckets)
      yield pad_examples(final_examples, final_batch_size)  *)
Definition pfinish (bs nb : Z) (st : pst) : pres :=
  match p_buf st with
  | [] => PDone (p_out st)
  | _ :: _ => match pick (p_bufsize st) bs nb with
              | Some f => PDone (p_out st ++ [pad_examples zero (pre (concat (p_buf st))) f])
              | None => PStuck
              end
  end.

Definition padded_batch_client_datasets (bs nb : Z) (ds : list (cds A)) : pres :=
  match pfold bs pinit ds with
  | SNext st => pfinish bs nb st
  | SRaise out => PValueError out
  | SFuel => PStuck
  end.

(* ------------------------------------------------------------------ *)
(* buffered_shuffle_batch_client_datasets                               *)

(* gen_items(): state = (preprocessor, features, the (examples, i) items yielded so far).
   The very first yield (the preprocessor object itself, consumed by next(it)) is not
   an item.  One iteration of `for dataset in datasets:` *)
Inductive gi_res :=
| GNext (pp pf : option Z) (items : list A)
| GRaise (items : list A).          (* ValueError after having yielded `items` *)

Definition gi_step (pp pf : option Z) (items : list A) (d : cds A) : gi_res :=
  match check_pre pp (d_pre d) with
  | None => GRaise items
  | Some p =>
    match check_feat pf (d_feat d) with
    | None => GRaise items
    | Some f =>
      (* for i in range(len(dataset)): yield (dataset.raw_examples, i) *)
      GNext (Some p) (Some f) (items ++ d_rows d)
    end
  end.

Fixpoint gi_fold (pp pf : option Z) (items : list A) (ds : list (cds A)) : list A * bool :=
  match ds with
  | [] => (items, false)
  | d :: ds' => match gi_step pp pf items d with
                | GNext pp' pf' items' => gi_fold pp' pf' items' ds'
                | GRaise items' => (items', true)
                end
  end.

(* the items of the datasets in order; the flag says that the generator then raises ValueError *)
Definition gen_items (ds : list (cds A)) : list A * bool := gi_fold None None [] ds.

(*  for item in shuffled: buf.append(item)
      if len(buf) == batch_size: yield preprocessor(concat(...)); buf.clear()
    state = (buf, batches yielded) *)
Definition bl_step (bs : Z) (st : list A * list (list A)) (item : A) : list A * list (list A) :=
  let '(buf, out) := st in
  let buf := buf ++ [item] in
  if Z.of_nat (length buf) =? bs then ([], out ++ [pre buf]) else (buf, out).

Definition batch_loop (bs : Z) (items : list A) (buf : list A) (out : list (list A)) : list (list A) * list A :=
  let '(buf', out') := fold_left (bl_step bs) items (buf, out) in (out', buf').
End Padded.

Arguments SNext {A}.
Arguments SRaise {A}.
Arguments SFuel {A}.
Arguments PDone {A}.
Arguments PValueError {A}.
Arguments PStuck {A}.
Arguments GNext {A}.
Arguments GRaise {A}.
Arguments p_pre {A}.
Arguments p_feat {A}.
Arguments p_buf {A}.
Arguments p_bufsize {A}.
Arguments p_out {A}.
Arguments mk_pst {A}.
Arguments pinit {A}.

(* ------------------------------------------------------------------ *)
(* buffered_shuffle                                                     *)

Inductive sres (A : Type) :=
| SOk (out : list A)               (* the whole output *)
| SErr (out : list A)              (* items yielded before the SOURCE raised *)
| SIndexError.                     (* buf[0] on an empty buffer (buffer_size = 0) *)
Arguments SOk {A}.
Arguments SErr {A}.
Arguments SIndexError {A}.

(*  for i in it:
      r, buf[0] = buf[0], i
      swap = rng.randint(buffer_size)
      if swap < buffer_size - 1: buf[swap], buf[0] = buf[0], buf[swap]
      yield r
    One iteration on the state (buf, remaining randint draws, items yielded); None = IndexError.
    Tuple assignments: right-hand sides left to right, then the stores left to right. *)
Definition bstep {A} (B : Z) (st : list A * list Z * list A) (i : A) : option (list A * list Z * list A) :=
  let '(buf, draws, out) := st in
  match py_get buf 0 with None => None | Some rhs0 =>
  let rhs1 := i in
  let r := rhs0 in
  match py_set buf 0 rhs1 with None => None | Some buf =>
  let swap := hd 0 draws in
  let draws := tl draws in
  if swap <? B - 1 then
    match py_get buf 0 with None => None | Some rhs0 =>
    match py_get buf swap with None => None | Some rhs1 =>
    match py_set buf swap rhs0 with None => None | Some buf =>
    match py_set buf 0 rhs1 with None => None | Some buf =>
    Some (buf, draws, out ++ [r])
    end end end end
  else Some (buf, draws, out ++ [r])
  end end.

Fixpoint bshuf_fold {A} (B : Z) (rest : list A) (st : list A * list Z * list A) : option (list A * list Z * list A) :=
  match rest with
  | [] => Some st
  | i :: rest' => match bstep B st i with None => None | Some st' => bshuf_fold B rest' st' end
  end.

Definition bshuf_loop {A} (B : Z) (rest : list A) (draws : list Z) (buf out : list A) : option (list A * list A) :=
  match bshuf_fold B rest (buf, draws, out) with
  | Some (buf', _, out') => Some (out', buf')
  | None => None
  end.

(* source = `src` followed by an exception iff src_err.
     it = iter(source); buf = list(islice(it, buffer_size)); rng.shuffle(buf)
     <loop>; for i in buf: yield i *)
Definition buffered_shuffle {A} (B : Z) (code : list nat) (draws : list Z) (src : list A) (src_err : bool)
  : sres A :=
  let n := Z.to_nat B in
  if src_err && (length src <? n)%nat then SErr []          (* raised inside islice *)
  else
    let buf := apply_code code (firstn n src) in
    match bshuf_loop B (skipn n src) draws buf [] with
    | None => SIndexError
    | Some (out, buf) => if src_err then SErr out else SOk (out ++ buf)
    end.

Section ShuffleBatch.
Context {A : Type} (pre : list A -> list A).

(* (batches yielded, raised ValueError?) *)
Definition buffered_shuffle_batch_client_datasets (bs B : Z) (code : list nat) (draws : list Z)
    (ds : list (cds A)) : option (list (list A) * bool) :=
  match ds with
  | [] => Some ([], false)                          (* next(it) raises StopIteration: return *)
  | _ :: _ =>
    let (items, e) := gen_items ds in
    match buffered_shuffle B code draws items e with
    | SIndexError => None
    | SErr shuffled => Some (fst (batch_loop pre bs shuffled [] []), true)
    | SOk shuffled =>
      let (out, buf) := batch_loop pre bs shuffled [] [] in
      Some (match buf with [] => out | _ :: _ => out ++ [pre buf] end, false)
    end
  end.
End ShuffleBatch.

(* ------------------------------------------------------------------ *)
(* FederatedData.shuffled_clients (all three implementations):
     rng = np.random.RandomState(seed)
     while True:
       for x in client_datasets.buffered_shuffle(self.clients(), buffer_size, rng): yield x
   One (Lehmer code, randint draws) oracle per pass; the prefix of the stream made of
   the passes for which oracles are given. *)
Fixpoint shuffled_clients_passes {A} (B : Z) (oracles : list (list nat * list Z)) (clients : list A)
  : option (list (list A)) :=
  match oracles with
  | [] => Some []
  | (code, draws) :: os =>
    match buffered_shuffle B code draws clients false, shuffled_clients_passes B os clients with
    | SOk pass, Some rest => Some (pass :: rest)
    | _, _ => None
    end
  end.

(* ------------------------------------------------------------------ *)
(* shuffle_repeat_batch_federated_data: an infinite stream
     rng = RandomState(seed); datasets = (.. fd.shuffled_clients(cB, rng.randint(1 << 32)))
     yield from buffered_shuffle_batch_client_datasets(datasets, batch_size, example_buffer_size, rng)
   What has been emitted once `prefix` (the first B + k items of the item stream) has been
   consumed: k items, cut into batches; the model of the first `take` batches. *)
Definition shuffle_repeat_prefix {A} (pre : list A -> list A) (bs B : Z) (code : list nat) (draws : list Z)
    (prefix : list A) (take : nat) : option (list (list A)) :=
  let n := Z.to_nat B in
  match bshuf_loop B (skipn n prefix) draws (apply_code code (firstn n prefix)) [] with
  | Some (out, _) => Some (firstn take (fst (batch_loop pre bs out [] [])))
  | None => None
  end.

(* ------------------------------------------------------------------ *)
(* RepeatableIterator                                                   *)

Section Repeat.
Context {A : Type}.
Record rit := mk_rit { r_first : bool; r_iter : list A; r_buf : list A }.

(* container = isinstance(base, (list, tuple, dict, str, bytes)); `base` = the items
   one iteration of the base iterable produces *)
Definition rit_init (container : bool) (base : list A) : rit :=
  if container then mk_rit false base base else mk_rit true base [].

(* __next__: None = StopIteration *)
Definition rit_next (s : rit) : option A * rit :=
  match r_iter s with
  | [] => (None, mk_rit (if r_first s then false else r_first s) (r_buf s) (r_buf s))
  | v :: rest => (Some v, mk_rit (r_first s) rest (if r_first s then r_buf s ++ [v] else r_buf s))
  end.

(* __iter__: `return self` -- the identity on the state (iter(), a new for loop, islice, list()
   in the middle of a pass do NOT rewind) *)
Definition rit_iter (s : rit) : rit := s.

(* a sequence of calls: true = next(it), false = iter(it); the values next() returned *)
Fixpoint rit_run (ops : list bool) (s : rit) : list (option A) :=
  match ops with
  | [] => []
  | true :: ops' => let (v, s') := rit_next s in v :: rit_run ops' s'
  | false :: ops' => rit_run ops' (rit_iter s)
  end.

Fixpoint rit_trace (n : nat) (s : rit) : list (option A) :=
  match n with
  | O => []
  | S n' => let (v, s') := rit_next s in v :: rit_trace n' s'
  end.
End Repeat.

(* ------------------------------------------------------------------ *)
(* correspondence                                                       *)

(* rows of client i are the global row numbers base_i+1 .. base_i+size_i (1-based, so
   that a padded 0 can never be mistaken for a real row) *)
Fixpoint mk_datasets (base : Z) (ds : list (Z * Z * nat)) : list (cds Z) :=
  match ds with
  | [] => []
  | (p, f, n) :: ds' =>
    mk_cds p f (map (fun k => base + 1 + Z.of_nat k) (seq 0 n)) :: mk_datasets (base + Z.of_nat n) ds'
  end.

(* the batch preprocessor used by the harness: x -> a*x + b on every row *)
Definition affine (a b : Z) (rows : list Z) : list Z := map (fun x => a * x + b) rows.

Inductive C15_case :=
| CPadded (bs nb a b : Z) (ds : list (Z * Z * nat))
| CPadGrid (bs nb : Z) (split : nat)
| CShuffle (B : Z) (code : list nat) (draws : list Z) (n : nat)
| CShuffleL (B : Z) (code : list nat) (draws : list Z) (src : list Z)     (* any source, duplicates included *)
| CShufBatch (bs B a b : Z) (code : list nat) (draws : list Z) (ds : list (Z * Z * nat))
| CRepeat (container : bool) (n : nat) (calls : nat)
| CRepeatOps (container : bool) (n : nat) (ops : list bool)
| CShufClients (B : Z) (oracles : list (list nat * list Z)) (n : nat)
| CSrb (bs B : Z) (code : list nat) (draws : list Z) (prefix : list Z) (take : nat).

Inductive C15_obs :=
| OPadded (err : bool) (batches : list (list Z * list bool))
| OPadGrid (counts : list (nat * nat))
| OShuffle (out : list Z)
| OShufBatch (err : bool) (batches : list (list Z))
| ORepeat (trace : list (option Z))
| OShufClients (stream : list Z)
| OSrb (batches : list (list Z)).

(* exhaustive grid: for N = 0, 1, 2, ... rows in all (split over one, two or three clients by `split`):
   (number of batches, number of rows of the last batch) *)
Definition grid_sizes (split N : nat) : list (Z * Z * nat) :=
  match split with
  | O => [(0, 0, N)]
  | S O => [(0, 0, (N / 3)%nat); (0, 0, (N - N / 3)%nat)]
  | _ => [(0, 0, (N / 2)%nat); (0, 0, 0%nat); (0, 0, (N - N / 2)%nat)]
  end.

Definition grid_point (bs nb : Z) (split N : nat) : option (nat * nat) :=
  match padded_batch_client_datasets 0 (fun x => x) bs nb (mk_datasets 0 (grid_sizes split N)) with
  | PDone out => Some (length out, length (b_rows (last out (mk_batch [] []))))
  | _ => None
  end.

Fixpoint grid_agree (bs nb : Z) (split N : nat) (obs : list (nat * nat)) : bool :=
  match obs with
  | [] => true
  | (k, r) :: obs' =>
    match grid_point bs nb split N with
    | Some (k', r') => Nat.eqb k k' && Nat.eqb r r' && grid_agree bs nb split (S N) obs'
    | None => false
    end
  end.

Definition optz_eqb (x y : option Z) : bool :=
  match x, y with Some a, Some b => a =? b | None, None => true | _, _ => false end.

Definition C15_agree (c : C15_case) (o : C15_obs) : bool :=
  match c, o with
  | CPadded bs nb a b ds, OPadded err batches =>
    match padded_batch_client_datasets 0 (affine a b) bs nb (mk_datasets 0 ds) with
    | PDone out => negb err && list_beq pb_eqb (map (fun x => (b_rows x, b_mask x)) out) batches
    | PValueError out => err && list_beq pb_eqb (map (fun x => (b_rows x, b_mask x)) out) batches
    | PStuck => false
    end
  | CPadGrid bs nb split, OPadGrid counts => grid_agree bs nb split 0 counts
  | CShuffle B code draws n, OShuffle out =>
    match buffered_shuffle B code draws (idx n) false with
    | SOk l => lz_eqb l out
    | _ => false
    end
  | CShuffleL B code draws src, OShuffle out =>
    match buffered_shuffle B code draws src false with
    | SOk l => lz_eqb l out
    | _ => false
    end
  | CShufBatch bs B a b code draws ds, OShufBatch err batches =>
    match buffered_shuffle_batch_client_datasets (affine a b) bs B code draws (mk_datasets 0 ds) with
    | Some (out, e) => Bool.eqb e err && llz_eqb out batches
    | None => false
    end
  | CRepeat container n calls, ORepeat trace =>
    list_beq optz_eqb (rit_trace calls (rit_init container (idx n))) trace
  | CRepeatOps container n ops, ORepeat trace =>
    list_beq optz_eqb (rit_run ops (rit_init container (idx n))) trace
  | CShufClients B oracles n, OShufClients stream =>
    match shuffled_clients_passes B oracles (idx n) with
    | Some passes => lz_eqb (concat passes) stream
    | None => false
    end
  | CSrb bs B code draws prefix take, OSrb batches =>
    match shuffle_repeat_prefix (fun x => x) bs B code draws prefix take with
    | Some out => llz_eqb out batches
    | None => false
    end
  | _, _ => false
  end.
