(* C19 executable model: the effect sequences of downloads.maybe_download and
   downloads.maybe_lzma_decompress over the AtomFS directory, driven by a source
   oracle (what the network / the LZMA stream delivers: a block, end of data, or an
   I/O error).  A crash is a truncation of the sequence; an I/O error is an exception,
   after which the `with` statement still closes the partial file.

   Translated on every run (gen/Gen_downloads.v): the temporary-name suffixes, the
   transfer block size and the block-count arithmetic.  Hand-written and tied by the
   effect-trace correspondence of tools/harness/c19.py: the order of the effects.
   A file's content is the list of the blocks written to it. *)
From Coq Require Import ZArith List Bool.
From FV Require Import Common.ListX Common.PySem Common.PyStr Common.AtomFS gen.Gen_downloads gen.Gen_cifar100_cache.
Import ListNotations.
Local Open Scope Z_scope.

Definition streqb : str -> str -> bool := list_beq Z.eqb.

Section Model.
Context {Blk : Type}.

Notation dir := (@AtomFS.dir str (list Blk)).

Inductive ev19 :=
| DMk                          (* os.makedirs(cache_dir, exist_ok=True) *)
| DEx (n : str)                (* os.path.exists(n) *)
| DCr (n : str)                (* open(n, 'wb') *)
| DWr (n : str)                (* one write call on n *)
| DCl (n : str) (b : list Blk) (* n is closed, holding b *)
| DClErr (n : str)             (* closing n failed with an I/O error on the final flush: n stays torn *)
| DRn (a b : str)              (* os.rename(a, b) *)
| DGet                         (* requests.get(url, stream=True) *)
| DStatus                      (* r.raise_for_status(); r.headers['content-length'] *)
| DRead (j : nat)              (* j-th r.raw.read(block_size) *)
| DZOpen (n : str)             (* lzma.open(n, 'rb') *)
| DZRead (j : nat)             (* j-th read of the decompressed stream by shutil.copyfileobj *)
| DRm (n : str)                (* os.remove(n) *)
| DClient (j : nat)            (* the converter pulls the j-th client from the TFF iterator *)
| DValidate (n : str).         (* downloads.validate_file(n, size, sha256) *)

Definition fs_step19 (e : ev19) : @AtomFS.step str (list Blk) :=
  match e with
  | DCr n => Create n
  | DCl n b => Complete n b
  | DRn a b => Rename a b
  | DRm n => Remove n
  | _ => Glob
  end.
Definition apply19 (d : dir) (e : ev19) : dir := AtomFS.apply streqb d (fs_step19 e).
Definition applys19 (d : dir) (l : list ev19) : dir := fold_left apply19 l d.

(* what the j-th read delivers: Some b = a block, None = an I/O error; past the end
   of the list = end of data *)
Record source := mkSource {
  s_get : bool;                 (* requests.get returns (false: connection error) *)
  s_status : bool;              (* raise_for_status passes *)
  s_length : option Z;          (* the content-length header (None: missing / not an int) *)
  s_reads : list (option Blk);
  s_close : bool                (* closing the written file succeeds (false: I/O error on the final flush) *)
}.

Definition close_ev (ok : bool) (n : str) (b : list Blk) : ev19 := if ok then DCl n b else DClErr n.

Fixpoint dl_loop (part : str) (n j : nat) (l : list (option Blk)) (acc : list Blk)
  : list ev19 * list Blk * bool :=
  match n with
  | O => ([], acc, true)
  | S n' =>
    match l with
    | [] => let '(e, a, ok) := dl_loop part n' (S j) [] acc in (DRead j :: DWr part :: e, a, ok)
    | None :: _ => ([DRead j], acc, false)
    | Some b :: l' => let '(e, a, ok) := dl_loop part n' (S j) l' (acc ++ [b]) in (DRead j :: DWr part :: e, a, ok)
    end
  end.

(* maybe_download(url, cache_dir) with path = cache_dir/basename(url):
   (effects, true = returned path / false = raised) *)
Definition download (d : dir) (path : str) (src : source) : list ev19 * bool :=
  let part := path ++ download_partial_suffix in
  match lookup streqb d path with
  | Some _ => ([DMk; DEx path], true)
  | None =>
    let pre := [DMk; DEx path; DCr part; DGet] in
    let cl := close_ev (s_close src) part in
    if negb (s_get src) then (pre ++ [cl []], false)
    else if negb (s_status src) then (pre ++ [DStatus; cl []], false)
    else match s_length src with
         | None => (pre ++ [DStatus; cl []], false)
         | Some len =>
           let '(e, acc, ok) := dl_loop part (Z.to_nat (download_num_blocks len download_block_size)) 0 (s_reads src) [] in
           if ok && s_close src then (pre ++ [DStatus] ++ e ++ [DCl part acc] ++ [DRn part path], true)
           else (pre ++ [DStatus] ++ e ++ [cl acc], false)
         end
  end.

Record zsource := mkZ {
  z_open : bool;                (* lzma.open succeeds *)
  z_chunks : list (option Blk); (* decompressed stream as copyfileobj reads it *)
  z_close : bool                (* closing the written file succeeds *)
}.

Fixpoint cp_loop (dpart : str) (j : nat) (l : list (option Blk)) (acc : list Blk) : list ev19 * list Blk * bool :=
  match l with
  | [] => ([DZRead j], acc, true)
  | None :: _ => ([DZRead j], acc, false)
  | Some b :: l' => let '(e, a, ok) := cp_loop dpart (S j) l' (acc ++ [b]) in (DZRead j :: DWr dpart :: e, a, ok)
  end.

(* maybe_lzma_decompress(dpath ++ ".lzma") *)
Definition decompress (d : dir) (dpath : str) (z : zsource) : list ev19 * bool :=
  let path := dpath ++ decompress_ext in
  let dpart := dpath ++ decompress_partial_suffix in
  match lookup streqb d dpath with
  | Some _ => ([DEx dpath], true)
  | None =>
    if negb (z_open z) then ([DEx dpath; DZOpen path], false)
    else let '(e, acc, ok) := cp_loop dpart 0 (z_chunks z) [] in
         if ok && z_close z then ([DEx dpath; DZOpen path; DCr dpart] ++ e ++ [DCl dpart acc] ++ [DRn dpart dpath], true)
         else ([DEx dpath; DZOpen path; DCr dpart] ++ e ++ [close_ev (z_close z) dpart acc], false)
  end.

(* cifar100.load_split's own cache file: the TFF database converted to one record per client.
   x_clients: what the TFF iterator yields (Some = a client, None = an exception; end of list =
   StopIteration); x_valid: the size + sha256 check of the produced file, as a predicate on its content. *)
Record csource := mkCS {
  x_clients : list (option Blk);
  x_valid : list Blk -> bool
}.

Fixpoint cv_loop (j : nat) (l : list (option Blk)) (acc : list Blk) : list ev19 * list Blk * bool :=
  match l with
  | [] => ([DClient j], acc, true)
  | None :: _ => ([DClient j], acc, false)
  | Some b :: l' => let '(e, a, ok) := cv_loop (S j) l' (acc ++ [b]) in (DClient j :: e, a, ok)
  end.

(* the conversion branch of load_split, spath = <cache>/federated_cifar100_<split>.sqlite.
   The rows are inserted in one transaction: an exception in the iterator leaves an empty table. *)
Definition convert (d : dir) (spath : str) (x : csource) : list ev19 * bool :=
  let part := spath ++ split_partial_suffix in
  match lookup streqb d spath with
  | Some _ => ([DEx spath], true)
  | None =>
    let stale := match lookup streqb d part with Some _ => [DEx part; DRm part] | None => [DEx part] end in
    let '(e, acc, ok) := cv_loop 0 (x_clients x) [] in
    if ok then
      if x_valid x acc
      then ([DEx spath] ++ stale ++ [DCr part] ++ e ++ [DCl part acc; DValidate part] ++ [DRn part spath], true)
      else ([DEx spath] ++ stale ++ [DCr part] ++ e ++ [DCl part acc; DValidate part], false)
    else ([DEx spath] ++ stale ++ [DCr part] ++ e ++ [DCl part []], false)
  end.

(* a sequence of calls on one cache directory, each possibly killed after k effects *)
Inductive call := CDownload (path : str) (src : source) | CDecompress (dpath : str) (z : zsource)
                | CConvert (spath : str) (x : csource).

Definition call_events (d : dir) (c : call) : list ev19 * bool :=
  match c with
  | CDownload p s => download d p s
  | CDecompress p z => decompress d p z
  | CConvert p x => convert d p x
  end.

Inductive outcome := Returned | Raised | Crashed.

Definition one_call (d : dir) (c : call) (crash : option nat) : list ev19 * dir * outcome :=
  let '(evs, ok) := call_events d c in
  match crash with
  | Some k => if (k <? length evs)%nat then (firstn k evs, applys19 d (firstn k evs), Crashed)
              else (evs, applys19 d evs, if ok then Returned else Raised)
  | None => (evs, applys19 d evs, if ok then Returned else Raised)
  end.

Fixpoint calls (d : dir) (l : list (call * option nat)) : list (list ev19 * dir * outcome) :=
  match l with
  | [] => []
  | (c, k) :: l' => let r := one_call d c k in r :: calls (snd (fst r)) l'
  end.

End Model.

Arguments ev19 : clear implicits.
Arguments source : clear implicits.
Arguments zsource : clear implicits.
Arguments csource : clear implicits.
Arguments call : clear implicits.

(* ---------------------------------------------------------------------------
   Correspondence (tools/harness/c19.py): a block is represented by its length; a
   file's observed content is the length n of the payload prefix it equals. *)

Inductive oev19 :=
| OMk | OEx (final : bool) | OCr (partial : bool) | OWr | OCl (n : Z) | OClErr | ORn | OGet | OStatus | ORead (j : nat)
| OZOpen | OZRead (j : nat) | ORm | OClient (j : nat) | OValidate | OBad.

Inductive ofile := OWhole (n : Z) | OGarbage.      (* == payload[:n] / anything else *)
Record ocall := mkOCall {
  oc_trace : list oev19;
  oc_outcome : Z;                 (* 0 returned, 1 raised, 2 crashed *)
  oc_final : option ofile;        (* the final cache path after the call *)
  oc_partial : option ofile       (* the .partial file after the call *)
}.

Inductive ccall :=
| KDownload (get status : bool) (len : option Z) (reads : list (option Z)) (close : bool)
| KDecompress (opened : bool) (chunks : list (option Z)) (close : bool)
| KConvert (clients : list (option Z)) (expected : list Z).   (* validate_file passes iff the content is `expected` *)

Record C19_case := mkC19 {
  k_calls : list (ccall * option nat);
  k_stale : bool     (* a stale .partial file (arbitrary content) is in the cache before the first call *)
}.
Record C19_obs := mkO19 { o_calls : list ocall }.

Definition the_path : str := [100; 97; 116; 97; 46; 108; 122; 109; 97].   (* "data.lzma" *)
Definition the_dpath : str := [100; 97; 116; 97].                           (* "data" *)
Definition the_spath : str := split_file_name [116; 114; 97; 105; 110].     (* federated_cifar100_train.sqlite *)

Definition to_call (c : ccall) : call Z :=
  match c with
  | KDownload g s len rd cl => CDownload the_path (mkSource g s len rd cl)
  | KDecompress o ch cl => CDecompress the_dpath (mkZ o ch cl)
  | KConvert cs ex => CConvert the_spath (mkCS cs (fun c => list_beq Z.eqb c ex))
  end.

Definition sumz (l : list Z) : Z := fold_left Z.add l 0.

Definition ev19_agree (c : ccall) (e : ev19 Z) (o : oev19) : bool :=
  let final := match c with KDownload _ _ _ _ _ => the_path | KDecompress _ _ _ => the_dpath | KConvert _ _ => the_spath end in
  let part := match c with
              | KDownload _ _ _ _ _ => the_path ++ download_partial_suffix
              | KDecompress _ _ _ => the_dpath ++ decompress_partial_suffix
              | KConvert _ _ => the_spath ++ split_partial_suffix
              end in
  match e, o with
  | DMk, OMk => true
  | DEx n, OEx true => streqb n final
  | DEx n, OEx false => streqb n part
  | DRm n, ORm => streqb n part
  | DClient j, OClient j' => (j =? j')%nat
  | DValidate n, OValidate => streqb n part
  | DCr n, OCr true => streqb n part
  | DWr n, OWr => streqb n part
  | DCl n b, OCl k => streqb n part && (sumz b =? k)
  | DClErr n, OClErr => streqb n part
  | DRn a b, ORn => streqb a part && streqb b final
  | DGet, OGet => true
  | DStatus, OStatus => true
  | DRead j, ORead j' => (j =? j')%nat
  | DZOpen n, OZOpen => streqb n (the_dpath ++ decompress_ext)
  | DZRead j, OZRead j' => (j =? j')%nat
  | _, _ => false
  end.

Fixpoint trace19_agree (c : ccall) (l : list (ev19 Z)) (o : list oev19) : bool :=
  match l, o with
  | [], [] => true
  | e :: l', x :: o' => ev19_agree c e x && trace19_agree c l' o'
  | _, _ => false
  end.

Definition file_agree (m : option (@AtomFS.content (list Z))) (o : option ofile) : bool :=
  match m, o with
  | None, None => true
  | Some Torn, Some _ => true                       (* a torn file may hold anything *)
  | Some (Whole b), Some (OWhole n) => sumz b =? n
  | _, _ => false
  end.

Definition outcome_code (o : outcome) : Z := match o with Returned => 0 | Raised => 1 | Crashed => 2 end.

Fixpoint calls_agree (cs : list (ccall * option nat)) (rs : list (list (ev19 Z) * @AtomFS.dir str (list Z) * outcome))
  (os : list ocall) : bool :=
  match cs, rs, os with
  | [], [], [] => true
  | (c, _) :: cs', (tr, d, out) :: rs', o :: os' =>
    let final := match c with KDownload _ _ _ _ _ => the_path | KDecompress _ _ _ => the_dpath | KConvert _ _ => the_spath end in
    let part := match c with
                | KDownload _ _ _ _ _ => the_path ++ download_partial_suffix
                | KDecompress _ _ _ => the_dpath ++ decompress_partial_suffix
                | KConvert _ _ => the_spath ++ split_partial_suffix
                end in
    trace19_agree c tr (oc_trace o) && (outcome_code out =? oc_outcome o) &&
    file_agree (lookup streqb d final) (oc_final o) && file_agree (lookup streqb d part) (oc_partial o) &&
    calls_agree cs' rs' os'
  | _, _, _ => false
  end.

(* decompression cases start with the compressed file in the cache *)
Definition initial_dir (c : C19_case) : @AtomFS.dir str (list Z) :=
  match k_calls c with
  | (KDecompress _ _ _, _) :: _ =>
      (if k_stale c then [(the_dpath ++ decompress_partial_suffix, Torn)] else []) ++ [(the_path, Whole [])]
  | (KDownload _ _ _ _ _, _) :: _ => if k_stale c then [(the_path ++ download_partial_suffix, Torn)] else []
  | (KConvert _ _, _) :: _ => if k_stale c then [(the_spath ++ split_partial_suffix, Torn)] else []
  | [] => []
  end.

Definition C19_agree (c : C19_case) (o : C19_obs) : bool :=
  calls_agree (k_calls c)
              (calls (initial_dir c) (map (fun ck => (to_call (fst ck), snd ck)) (k_calls c)))
              (o_calls o).
