(* C05 executable model.  Translated on every run: the Stat algebra (MeanStat.new / merge /
   reduce / result, SumStat.*, the zero() of the built-in metrics: gen/Gen_metrics.v), safe_div
   (gen/Gen_util.v), metrics.apply_mask and metrics.evaluate_batch (gen/Gen_metrics.v, section
   batch_eval), models._evaluate_model_step / evaluate_model and the ModelEvaluator client functions
   (gen/Gen_models.v).  Hand-written here: higher-rank statistics as equal-length lists with
   pointwise lifting of the rank-0 operations (vzero / vmerge / vreduce / vresult), the
   instantiation of the translated functions with them, and the correspondence predicate. *)
From Coq Require Import ZArith QArith List Bool.
From FV Require Import Common.ListX Common.Batch Common.CMonoid Common.NanQ gen.Gen_util gen.Gen_metrics gen.Gen_models.
Import ListNotations.
Local Open Scope Q_scope.

Notation mstat := (NanQ.t * NanQ.t)%type (only parsing).

(* a rank-0 statistic type with its operations *)
Record stat_alg (A : Type) := mk_alg {
  sa_zero : A;                      (* Metric.zero() *)
  sa_merge : A -> A -> A;           (* Stat.merge *)
  sa_reduce : list A -> A;          (* Stat.reduce(axis=0) of a 1-d batch of rank-0 statistics *)
  sa_result : A -> NanQ.t           (* Stat.result *)
}.
Arguments sa_zero {A}. Arguments sa_merge {A}. Arguments sa_reduce {A}. Arguments sa_result {A}.

Definition mean_alg : stat_alg mstat :=
  mk_alg mstat mean_metric_zero
         (fun s1 s2 => meanstat_merge (fst s1) (snd s1) (fst s2) (snd s2))
         (fun rows => meanstat_reduce (map fst rows) (map snd rows))
         (fun s => meanstat_result (fst s) (snd s)).

Definition sum_alg : stat_alg NanQ.t :=
  mk_alg NanQ.t sum_metric_zero sumstat_merge sumstat_reduce sumstat_result.

Section Eval.
Context {A : Type} (alg : stat_alg A).

(* a statistic of higher rank with K entries (per position, per domain, confusion
   matrix ...) is the list of its K rank-0 entries; all operations act pointwise *)
Definition vzero (K : nat) : list A := repeat (sa_zero alg) K.
Definition vmerge : list A -> list A -> list A := map2 (sa_merge alg).
Definition vresult : list A -> list NanQ.t := map (sa_result alg).
Definition column (k : nat) (rows : list (list A)) : list A := map (fun r => nth k r (sa_zero alg)) rows.
(* reduce over the batch axis: entry k of the result reduces entry k of every row *)
Definition vreduce (K : nat) (rows : list (list A)) : list A :=
  map (fun k => sa_reduce alg (column k rows)) (seq 0 K).

(* a batch for one metric: the mask feature (None when the batch has no mask key) and the per-row
   statistics vmap(evaluate_example) of ALL rows *)
Definition batch_t : Type := (option (list bool) * list (list A))%type.
Definition mask_of (b : batch_t) : list bool :=
  match fst b with Some m => m | None => repeat true (length (snd b)) end.

(* the translated functions, instantiated with the rank-K operations *)
Definition evaluate_batch (K : nat) (mask : option (list bool)) (rows : list (list A)) : list A :=
  Gen_metrics.evaluate_batch (vzero K) (vreduce K) rows mask.
Definition evaluate_model_stat (K : nat) (batches : list batch_t) : list A :=
  Gen_models.evaluate_model_stat (vzero K) vmerge (vreduce K) batches.
Definition evaluate_model (K : nat) (batches : list batch_t) : list NanQ.t :=
  Gen_models.evaluate_model (vzero K) vmerge (vreduce K) vresult batches.
Definition evaluator_client (K : nat) (batches : list batch_t) : list NanQ.t :=
  Gen_models.evaluator_client (vzero K) vmerge (vreduce K) vresult batches.

(* PerDomainMetric.evaluate_example (translated per_domain_example): the statistic of an example with domain id i is,
   per domain d, the base statistic if d = i and the base zero otherwise, flattened domain-major *)
Definition pd_row (Dn K : nat) (r : nat * list A) : list A :=
  concat (per_domain_example Dn (fst r) (snd r) (vzero K)).
Definition domain_rows (d : nat) (rows : list (nat * list A)) : list (list A) :=
  map snd (filter (fun r => Nat.eqb d (fst r)) rows).

(* the property's reference: merge the single-example statistics one by one *)
Definition merge_examples (K : nat) (examples : list (list A)) : list A := mfold vmerge (vzero K) examples.
Definition real_examples (batches : list batch_t) : list (list A) :=
  concat (map (fun b => strip (snd b) (mask_of b)) batches).
End Eval.

(* ---------------- correspondence ---------------- *)
(* which API produced the observation *)
Inductive C05_api :=
| ApiModel                      (* fedjax.evaluate_model: results after folding all batches *)
| ApiEvaluator                  (* ModelEvaluator.evaluate_*: init / step / final of one client *)
| ApiBatch.                     (* metrics.evaluate_batch(metric, ex, pred, mask or None) on the first batch *)

Inductive C05_case :=
| CMean (api : C05_api) (K : nat) (batches : list (option (list bool) * list (list mstat)))
| CSum (api : C05_api) (K : nat) (batches : list (option (list bool) * list (list NanQ.t)))
(* PerDomainMetric(base, Dn): the real rows as (domain id, BASE statistic); the model builds the wrapper's statistics *)
| CMeanPD (Dn K : nat) (rows : list (nat * list mstat))
| CSumPD (Dn K : nat) (rows : list (nat * list NanQ.t))
(* the Stat algebra called directly *)
| CNew (a w : NanQ.t)
| CMerge (a1 w1 a2 w2 : NanQ.t)
| CReduce (accums weights : list NanQ.t)
| CResult (a w : NanQ.t)
| CSafeDiv (a b : NanQ.t)
| CSumMerge (a1 a2 : NanQ.t)
| CSumReduce (accums : list NanQ.t).

(* observation: tolerance (0 = exact), the result() entries, and for the APIs that
   expose the Stat its fields flattened as [accum_0; weight_0; accum_1; ...] (MeanStat)
   or [accum_0; ...] (SumStat) *)
Record C05_obs := mkO05 { o_tol : Q; o_result : list NanQ.t; o_stat : option (list NanQ.t) }.

Definition flat_mstats (l : list mstat) : list NanQ.t := flat_map (fun s => [fst s; snd s]) l.

Definition first_batch {A} (alg : stat_alg A) K (batches : list (option (list bool) * list (list A))) : list A :=
  match batches with
  | b :: _ => evaluate_batch alg K (fst b) (snd b)
  | [] => vzero alg K
  end.

Definition C05_run (c : C05_case) : list NanQ.t * option (list NanQ.t) :=
  match c with
  | CMean ApiModel K bs => (evaluate_model mean_alg K bs, None)
  | CMean ApiEvaluator K bs => (evaluator_client mean_alg K bs, None)
  | CMean ApiBatch K bs => let s := first_batch mean_alg K bs in (vresult mean_alg s, Some (flat_mstats s))
  | CSum ApiModel K bs => (evaluate_model sum_alg K bs, None)
  | CSum ApiEvaluator K bs => (evaluator_client sum_alg K bs, None)
  | CSum ApiBatch K bs => let s := first_batch sum_alg K bs in (vresult sum_alg s, Some s)
  | CMeanPD Dn K rows => (vresult mean_alg (merge_examples mean_alg (Dn * K) (map (pd_row mean_alg Dn K) rows)), None)
  | CSumPD Dn K rows => (vresult sum_alg (merge_examples sum_alg (Dn * K) (map (pd_row sum_alg Dn K) rows)), None)
  | CNew a w => let s := meanstat_new a w in ([], Some [fst s; snd s])
  | CMerge a1 w1 a2 w2 => let s := meanstat_merge a1 w1 a2 w2 in ([meanstat_result (fst s) (snd s)], Some [fst s; snd s])
  | CReduce accums weights => let s := meanstat_reduce accums weights in ([meanstat_result (fst s) (snd s)], Some [fst s; snd s])
  | CResult a w => ([meanstat_result a w], None)
  | CSafeDiv a b => ([safe_div a b], None)
  | CSumMerge a1 a2 => ([sumstat_result (sumstat_merge a1 a2)], Some [sumstat_merge a1 a2])
  | CSumReduce accums => ([sumstat_result (sumstat_reduce accums)], Some [sumstat_reduce accums])
  end.

Definition C05_agree (c : C05_case) (o : C05_obs) : bool :=
  let cmp := if Qeq_bool (o_tol o) 0 then NanQ.same else NanQ.close (o_tol o) in
  let '(res, st) := C05_run c in
  list_beq cmp res (o_result o) &&
  match o_stat o, st with
  | Some os, Some ms => list_beq cmp ms os
  | None, _ => true
  | Some _, None => false
  end.
