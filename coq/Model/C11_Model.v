(* C11 executable model (definitions only): the stochastic quantizers of
   fedjax/aggregators/compression.py over NanQ.t (None = non-finite float), with the
   uniform draw u in [0,1) per coordinate as an explicit oracle argument; the four
   compression aggregators (weighted mean = the translated tree_mean of
   gen/Gen_tree_util.v); PRNG keys as paths of split indices; bit counters as
   (base, a, b) = a * log2 base + b (translated, gen/Gen_compression.v). *)
From Coq Require Import ZArith QArith Qcanon Qabs Qround Qminmax List Bool.
From FV Require Import Common.ListX Common.CMonoid Common.NanQ Common.NanVec Common.KeyPath Common.RingVec
  gen.Gen_tree_util gen.Gen_compression gen.Gen_walsh_hadamard Model.C18_Model.
Import ListNotations.
Local Open Scope Q_scope.

Notation nq := NanQ.t.
(* nfloor, nceil, nsign, amin, amax: Common/NanVec.v *)

(* v = nan_to_num((v - v_min) / (v_max - v_min)); v = maximum(0, minimum(v, 1)) *)
Definition rescale (vmin vmax x : nq) : nq :=
  let r := NanQ.nan_to_num (NanQ.div (NanQ.sub x vmin) (NanQ.sub vmax vmin)) in
  NanQ.max NanQ.zero (NanQ.min r NanQ.one).

(* binary_stochastic_quantize, one coordinate: where(rand >= v, v_min, v_max) *)
Definition bsq1 (vmin vmax x : nq) (u : Q) : nq :=
  NanQ.where_ (NanQ.geb (Some u) (rescale vmin vmax x)) vmin vmax.
Definition bsq (v : list nq) (u : list Q) : list nq := map2 (bsq1 (amin v) (amax v)) v u.

(* uniform_stochastic_quantize, one coordinate *)
Definition usq_floor (Lm1 c : nq) : nq := NanQ.div (nfloor (NanQ.mul c Lm1)) Lm1.
Definition usq_ceil (Lm1 c : nq) : nq := NanQ.div (nceil (NanQ.mul c Lm1)) Lm1.
Definition usq_threshold (Lm1 c : nq) : nq :=
  NanQ.nan_to_num (NanQ.div (NanQ.sub c (usq_floor Lm1 c)) (NanQ.sub (usq_ceil Lm1 c) (usq_floor Lm1 c))).
Definition usq1 (vmin vmax : nq) (L : Z) (x : nq) (u : Q) : nq :=
  let Lm1 := NanQ.sub (NanQ.of_Z L) NanQ.one in
  let c := rescale vmin vmax x in
  let quantized := NanQ.where_ (NanQ.gtb (Some u) (usq_threshold Lm1 c)) (usq_floor Lm1 c) (usq_ceil Lm1 c) in
  NanQ.add vmin (NanQ.mul quantized (NanQ.sub vmax vmin)).
Definition usq (v : list nq) (L : Z) (u : list Q) : list nq := map2 (usq1 (amin v) (amax v) L) v u.

(* terngrad_quantize; sigma = jnp.std(v) is a parameter (sigma^2 == var v in the theorems) *)
Definition tern_clip : Q := tern_clip_num # tern_clip_den.
Definition tern_clipped (sigma : Q) (x : nq) : nq :=
  let b := Some (tern_clip * sigma) in
  NanQ.where_ (NanQ.gtb (NanQ.abs x) b) (NanQ.mul b (nsign x)) x.
Definition tern (sigma : Q) (v : list nq) (u : list Q) : list nq :=
  let vc := map (tern_clipped sigma) v in
  let s := amax (map NanQ.abs vc) in
  map2 (fun x ui => NanQ.mul (bsq1 NanQ.zero s (NanQ.abs x) ui) (nsign x)) vc u.

(* drive_pytree, one leaf *)
Definition drive_leaf (x : list nq) : list nq :=
  let norm1 := NanQ.sum (map NanQ.abs x) in
  let ss := NanQ.sum (map (fun a => NanQ.mul a a) x) in
  let den := NanQ.where_ (NanQ.gtb norm1 NanQ.zero) norm1 NanQ.one in
  map (fun a => NanQ.div (NanQ.mul ss (nsign a)) den) x.

(* ---- structured rotation over Q, for padded sizes d = r^2 (sqrt d rational) ---- *)
Definition qsqrt_exact (z : Z) : option Q :=
  let r := Z.sqrt z in if (r * r =? z)%Z && (0 <? z)%Z then Some (inject_Z r) else None.
Definition all_some {A} (l : list (option A)) : option (list A) :=
  fold_right (fun a acc => match a, acc with Some x, Some r => Some (x :: r) | _, _ => None end) (Some []) l.
(* The rotation is evaluated over Qc (canonical rationals: a commutative ring with LEIBNIZ equality, so
   the C18 theorems apply verbatim; every operation reduces its result, which also keeps the fractions small). *)
Definition q2c (l : list Q) : list Qc := map Q2Qc l.
Definition c2q (l : list Qc) : list Q := map this l.
Definition cscale (r : Q) (l : list Qc) : list Qc := map (fun a => Qcmult (Qcinv (Q2Qc r)) a) l.
Definition crot (s : list bool) (x : list Qc) : option (list Qc) :=
  match rot (Q2Qc 0) Qcplus Qcminus Qcopp s x with
  | WOk (u, z) => match qsqrt_exact z with Some r => Some (cscale r u) | None => None end
  | _ => None
  end.
Definition cinv (s : list bool) (y : list Qc) (size : Z) : option (list Qc) :=
  match inv_rot (Q2Qc 0) Qcplus Qcminus Qcopp s y [size] with
  | WOk (w, z, _) => match qsqrt_exact z with Some r => Some (cscale r w) | None => None end
  | _ => None
  end.
Definition qrot (s : list bool) (x : list Q) : option (list Q) := option_map c2q (crot s (q2c x)).
Definition qinv (s : list bool) (y : list Q) (size : Z) : option (list Q) := option_map c2q (cinv s (q2c y) size).

(* ---- aggregators: weighted mean (translated tree_mean) of the per-client quantised trees ---- *)
Definition tree := list (list nq).     (* leaves *)
Definition aggregate (cl : list (tree * nq)) : option (list nq) :=
  tree_mean (map (fun c => (concat (fst c), snd c)) cl).

Definition usq_tree (L : Z) (t : tree) (us : list (list Q)) : tree := map2 (fun leaf u => usq leaf L u) t us.
Definition tern_tree (sig : list Q) (t : tree) (us : list (list Q)) : tree :=
  map2 (fun lu sg => tern sg (fst lu) (snd lu)) (combine t us) sig.

Definition usq_agg (L : Z) (cl : list (tree * nq)) (us : list (list (list Q))) : option (list nq) :=
  aggregate (map2 (fun c u => (usq_tree L (fst c) u, snd c)) cl us).
Definition tern_agg (cl : list (tree * nq)) (sig : list (list Q)) (us : list (list (list Q))) : option (list nq) :=
  aggregate (map2 (fun cu sg => (tern_tree sg (fst (fst cu)) (snd cu), snd (fst cu))) (combine cl us) sig).

(* rotated: rotate each leaf (signs per leaf), quantise in the rotated space, rotate back *)
Definition lift (v : list Q) : list nq := map Some v.
Definition lower (v : list nq) : option (list Q) := all_some v.
Definition through_rotation (f : list nq -> list nq) (s : list bool) (x : list nq) : option (list nq) :=
  match lower x with
  | Some xq => match qrot s xq with
               | Some y => match lower (f (lift y)) with
                           | Some yq => option_map lift (qinv s yq (Z.of_nat (length xq)))
                           | None => None
                           end
               | None => None
               end
  | None => None
  end.
Definition rusq_tree (L : Z) (signs : list (list bool)) (t : tree) (us : list (list Q)) : option tree :=
  all_some (map2 (fun ls u => through_rotation (fun y => usq y L u) (snd ls) (fst ls)) (combine t signs) us).
Definition drive_tree (signs : list (list bool)) (t : tree) : option tree :=
  all_some (map2 (fun leaf s => through_rotation drive_leaf s leaf) t signs).
Definition rusq_agg (L : Z) (signs : list (list bool)) (cl : list (tree * nq)) (us : list (list (list Q)))
  : option (list nq) :=
  match all_some (map2 (fun c u => option_map (fun t => (t, snd c)) (rusq_tree L signs (fst c) u)) cl us) with
  | Some q => aggregate q
  | None => None
  end.
Definition drive_agg (signs : list (list (list bool))) (cl : list (tree * nq)) : option (list nq) :=
  match all_some (map2 (fun c s => option_map (fun t => (t, snd c)) (drive_tree s (fst c))) cl signs) with
  | Some q => aggregate q
  | None => None
  end.

(* ---- keys: paths of jax.random.split indices from the aggregator's root key ---- *)
Definition path := list nat.
(* seq_key (hk.PRNGSequence): Common/KeyPath.v *)
(* rng, use_rng = split(state.rng): the state after t rounds, and the keys of round t *)
Definition usq_state (t : nat) : path := repeat 0%nat t.
Definition usq_key (t c l : nat) : path := seq_key (usq_state t ++ [1%nat]) c ++ [l].
Definition tern_state := usq_state.
Definition tern_key := usq_key.
Definition drive_state (t : nat) : path := repeat 0%nat t.
Definition drive_key (t c l : nat) : path := seq_key (drive_state t ++ [1%nat]) c ++ [l].   (* rotation key *)
(* rotated: rng, rotation_rng = split(state.rng); rng, use_rng = split(rng) *)
Definition rusq_state (t : nat) : path := repeat 0%nat (2 * t).
Definition rusq_rot_key (t l : nat) : path := rusq_state t ++ [1%nat; l].
Definition rusq_key (t c l : nat) : path := seq_key (rusq_state t ++ [0%nat; 1%nat]) c ++ [l].

(* all (client, leaf) keys of round t, in call order *)
Definition round_keys (key : nat -> nat -> nat -> path) (t clients leaves : nat) : list path :=
  flat_map (fun c => map (fun l => key t c l) (seq 0 leaves)) (seq 0 clients).

(* ---- bit counters ---- *)
Local Open Scope Z_scope.
Definition bits_after (f : Z -> Z -> Z -> Z * Z * Z) (L P leaves : Z) (rounds : Z) : Z * Z * Z :=
  let '(base, a, b) := f L P leaves in (base, rounds * a, rounds * b).
Local Close Scope Z_scope.

(* ------------------------------------------------------------------ *)
(* correspondence                                                      *)

Definition qclose (tol : Q) (a : nq) (b : Q) : bool := NanQ.close tol a (Some b).
Fixpoint all2 {A B} (f : A -> B -> bool) (a : list A) (b : list B) : bool :=
  match a, b with
  | [], [] => true
  | x :: a', y :: b' => f x y && all2 f a' b'
  | _, _ => false
  end.

(* u-sweep observation of one coordinate: value at u = (G-1)/G ("low"), value at u = 1/G
   ("high"), and gstar = the largest grid index g >= 1 with output(g/G) = high.
   (u = 0 exactly is a boundary point of measure zero; it is judged by the oracle.) *)
Record sweep := mkSw { sw_lo : Q; sw_hi : Q; sw_g : Z }.
Definition tolq : Q := 1 # 100000.

(* |a - b| <= 1e-5 * sc, sc = the scale of the input vector *)
Definition sclose (sc : Q) (a : nq) (b : Q) : bool :=
  match a with Some x => Qle_bool (Qabs (x - b)) (tolq * sc) | None => false end.

(* the four model values of one coordinate: at u = 1/G, (G-1)/G, and just inside the two
   ends of the located cell [g/G, (g+1)/G) (slack 1e-3 of a cell) *)
Definition sweep_ok (sc : Q) (G : Z) (o : sweep) (m : nq * (nq * (nq * nq))) : bool :=
  let '(m_hi, (m_lo, (m_a, m_b))) := m in
  sclose sc m_hi (sw_hi o) && sclose sc m_lo (sw_lo o) &&
  (if Qle_bool (Qabs (sw_lo o - sw_hi o)) (tolq * sc) then true
   else sclose sc m_a (sw_hi o) && ((sw_g o + 1 >=? G)%Z || sclose sc m_b (sw_lo o))).

Inductive qfn := FUsq (L : Z) | FBsq | FTern (sigma : Q) | FUsqB (L : Z) (a b : Q) | FBsqB (a b : Q).

(* the correspondence evaluates the TRANSLATED bodies (= usq / bsq / tern / drive_leaf by
   C11_translated_quantizers_are_model) *)
Definition qvec (fn : qfn) (v : list nq) (us : list Q) : list nq :=
  match fn with
  | FUsq L => gen_usq v (NanQ.of_Z L) (map Some us) None None
  | FBsq => gen_bsq v (map Some us) None None
  | FTern sg => gen_tern (fun _ => Some sg) v (map Some us)
  (* explicit v_min / v_max *)
  | FUsqB L a b => gen_usq v (NanQ.of_Z L) (map Some us) (Some (Some a)) (Some (Some b))
  | FBsqB a b => gen_bsq v (map Some us) (Some (Some a)) (Some (Some b))
  end.

Definition uagree (fn : qfn) (v : list Q) (G : Z) (obs : list sweep) : bool :=
  let n := length v in
  let lv := lift v in
  let sc := fold_right (fun x acc => Qred (Qabs x + acc)) 0 v in
  let o_hi := qvec fn lv (repeat (1 / inject_Z G) n) in
  let o_lo := qvec fn lv (repeat (inject_Z (G - 1) / inject_Z G) n) in
  let o_a := qvec fn lv (map (fun o => (inject_Z (sw_g o) - (1 # 1000)) / inject_Z G) obs) in
  let o_b := qvec fn lv (map (fun o => (inject_Z (sw_g o) + 1 + (1 # 1000)) / inject_Z G) obs) in
  (length obs =? n)%nat && (length o_hi =? n)%nat && (length o_lo =? n)%nat && (length o_a =? n)%nat && (length o_b =? n)%nat &&
  forallb (fun om => sweep_ok sc G (fst om) (snd om)) (combine obs (combine o_hi (combine o_lo (combine o_a o_b)))).

Definition dagree (x : list Q) (obs : list Q) : bool := all2 (qclose tolq) (gen_drive_leaf (lift x)) obs.

Inductive akind := AUsq (L : Z) | ATern (sig : list (list Q)) | ARusq (L : Z) (signs : list (list bool))
                 | ADrive (signs : list (list (list bool))).
Record around := mkRound {
  a_kind : akind;
  a_clients : list (list (list Q) * Q);      (* leaves, weight *)
  a_us : list (list (list Q));               (* per client, per leaf: the uniform draws *)
  a_round : nat;                             (* 0-based round number *)
  a_nleaves : nat;
}.
Record aobs := mkAObs {
  o_agg : list Q;                            (* aggregated params, flattened *)
  o_paths : list path;                       (* recovered key path of every quantisation / rotation key, call order *)
  o_state : path;                            (* recovered path of the new state's rng *)
  o_bits : Q;                                (* state.num_bits after this round (float) *)
  o_log2 : Q;                                (* float value of log2(base), used only to compare o_bits *)
}.

Definition lift_clients (cl : list (list (list Q) * Q)) : list (tree * nq) :=
  map (fun c => (map lift (fst c), Some (snd c))) cl.
Definition path_eqb (a b : path) : bool := list_beq Nat.eqb a b.

Definition aagree (c : around) (o : aobs) : bool :=
  let cl := lift_clients (a_clients c) in
  let t := a_round c in
  let nc := length (a_clients c) in
  let P := Z.of_nat (length (concat (fst (hd ([], 0) (a_clients c))))) in
  let '(model, keys, st, bitsf, L) :=
    match a_kind c with
    | AUsq L => (usq_agg L cl (a_us c), round_keys usq_key t nc (a_nleaves c), usq_state (S t), usq_bits, L)
    | ATern sig => (tern_agg cl sig (a_us c), round_keys tern_key t nc (a_nleaves c), tern_state (S t), tern_bits, 0%Z)
    | ARusq L signs => (rusq_agg L signs cl (a_us c), round_keys rusq_key t nc (a_nleaves c), rusq_state (S t), rusq_bits, L)
    | ADrive signs => (drive_agg signs cl, round_keys drive_key t nc (a_nleaves c), drive_state (S t), drive_bits, 0%Z)
    end in
  match model with
  | Some m => all2 (qclose (1 # 10000)) m (o_agg o)
  | None => false
  end &&
  list_beq path_eqb keys (o_paths o) && path_eqb st (o_state o) &&
  (let '(base, a, b) := bits_after bitsf L P (Z.of_nat (a_nleaves c)) (Z.of_nat (S t)) in
   Qle_bool (Qabs (inject_Z a * o_log2 o + inject_Z b - o_bits o)) ((1 # 10000) * (1 + Qabs (o_bits o)))).

(* exhaustive bit-formula grid (wave 5): for every level count of a range, the counter after one round against the
   TRANSLATED triple (base, a, b); kind 0 = uniform, 1 = rotated uniform, 2 = TernGrad, 3 = DRIVE; each entry is
   (num_levels, observed counter, float value of log2 of the expected base) *)
Definition bits_fn (kind : Z) : Z -> Z -> Z -> Z * Z * Z :=
  if (kind =? 0)%Z then usq_bits else if (kind =? 1)%Z then rusq_bits else if (kind =? 2)%Z then tern_bits else drive_bits.
Definition bits_entry_ok (kind P n : Z) (e : Z * Q * Q) : bool :=
  let '(L, obs, l2) := e in
  let '(base, a, b) := bits_fn kind L P n in
  (base =? (if (kind <=? 1)%Z then L else if (kind =? 2)%Z then 3 else 1))%Z &&
  Qle_bool (Qabs (inject_Z a * l2 + inject_Z b - obs)) ((1 # 100000) * (1 + Qabs obs)).
Definition bits_grid_agree (kind P n : Z) (es : list (Z * Q * Q)) : bool := forallb (bits_entry_ok kind P n) es.

Inductive C11_case :=
| CU (fn : qfn) (v : list Q) (G : Z)
| CD (x : list Q)
| CAs (cs : list around)
| CBits (kind P n : Z) (es : list (Z * Q * Q)).
Inductive C11_obs :=
| OU (obs : list sweep)
| OD (obs : list Q)
| OAs (os : list aobs)
| OBits.

Definition C11_agree (c : C11_case) (o : C11_obs) : bool :=
  match c, o with
  | CU fn v G, OU obs => uagree fn v G obs
  | CD x, OD obs => dagree x obs
  | CAs cs, OAs os => all2 aagree cs os
  | CBits kind P n es, OBits => bits_grid_agree kind P n es
  | _, _ => false
  end.
