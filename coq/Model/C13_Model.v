(* C13 executable model (definitions only).

   UniformGetClientSampler / UniformShuffledClientSampler of
   fedjax/core/client_samplers.py as state machines.  The arithmetic of
   get_pseudo_random_state and the round-number updates are the TRANSLATED functions
   of gen/Gen_client_samplers.v.  NumPy enters as oracles (`rs_randint`, `choice`);
   JAX keys are split paths. *)
From Coq Require Import ZArith List Bool Zpow_facts.
From FV Require Import Common.ListX gen.Gen_client_samplers.
Import ListNotations.
Local Open Scope Z_scope.

(* a JAX key is the path of split indices from a root: PRNGKey(r) = KRoot r,
   jax.random.split(k, num)[i] = KSplit k num i *)
Inductive kpath := KRoot (seed : Z) | KSplit (parent : kpath) (num : Z) (i : nat).

Definition split (k : kpath) (num : Z) : list kpath := map (KSplit k num) (seq 0 (Z.to_nat num)).

Fixpoint kpath_eqb (a b : kpath) : bool :=
  match a, b with
  | KRoot x, KRoot y => x =? y
  | KSplit p n i, KSplit q m j => kpath_eqb p q && (n =? m) && Nat.eqb i j
  | _, _ => false
  end.

Inductive op := Sample | SetRound (r : Z).

(* ------------------------------------------------------------------ *)
(* UniformGetClientSampler                                              *)

Section GetSampler.
Context {Id D : Type}.
Variable id_eqb : Id -> Id -> bool.
(* prs seed r = the seed of the RandomState that get_pseudo_random_state(seed, r) returns.
   The theorems instantiate it with the TRANSLATED `get_pseudo_random_state rs_randint`;
   the correspondence evaluates it with `fast_random_state rs_randint`, proved equal
   (square-and-multiply instead of 16807^r, so that any round number is cheap). *)
Variable prs : Z -> Z -> option Z.
(* choice s ids n = list(np.random.RandomState(s).choice(np.array(ids, dtype=object), size=n, replace=False)) *)
Variable choice : Z -> list Id -> Z -> list Id.
(* the federated dataset: (client id, client dataset) in client_ids() order *)
Variable fd : list (Id * D).
Variable num_clients : Z.
Variable seed : Z.

Fixpoint lookup (id : Id) (l : list (Id * D)) : option D :=
  match l with
  | [] => None
  | (i, d) :: l' => if id_eqb id i then Some d else lookup id l'
  end.

(* fd.get_clients(ids): yields (id, dataset) in the requested order; None = KeyError *)
Fixpoint get_clients (ids : list Id) : option (list (Id * D)) :=
  match ids with
  | [] => Some []
  | id :: ids' => match lookup id fd, get_clients ids' with
                  | Some d, Some rest => Some ((id, d) :: rest)
                  | _, _ => None
                  end
  end.

(* sample() at round number r; None = an exception (the round number then stays) *)
Definition sample_at (r : Z) : option (list (Id * D * kpath)) :=
  match prs seed r with
  | None => None
  | Some s =>
    let client_ids := choice s (map fst fd) num_clients in
    let client_rngs := split (KRoot r) num_clients in
    match get_clients client_ids with
    | None => None
    | Some cl => Some (combine cl client_rngs)
    end
  end.

Definition next_round (r : Z) : Z := match get_sampler_next_round r with Some r' => r' | None => r end.
Definition set_round (cur r : Z) : Z := match get_sampler_set_round cur r with Some r' => r' | None => cur end.

(* one operation: new round number, and the value returned by sample() if any *)
Definition gstep (st : Z) (o : op) : Z * list (option (list (Id * D * kpath))) :=
  match o with
  | Sample => match sample_at st with
              | Some out => (next_round st, [Some out])
              | None => (st, [None])
              end
  | SetRound r => (set_round st r, [])
  end.

Fixpoint state_after (ops : list op) (st : Z) : Z :=
  match ops with [] => st | o :: ops' => state_after ops' (fst (gstep st o)) end.

(* the values returned by the Sample operations of a history, in order *)
Fixpoint outputs (ops : list op) (st : Z) : list (option (list (Id * D * kpath))) :=
  match ops with [] => [] | o :: ops' => snd (gstep st o) ++ outputs ops' (fst (gstep st o)) end.
End GetSampler.

(* get_pseudo_random_state with the power computed by square-and-multiply
   (Zpow_facts.Zpow_mod); equal to the translated function: Proofs/C13_Proofs.fast_is_translated *)
Definition fast_random_state (rs_randint : Z -> Z -> Z -> Z) (seed round_num : Z) : option Z :=
  let mlcg_modulus := 2 ^ 31 - 1 in
  Some ((Zpow_mod 16807 round_num mlcg_modulus * rs_randint seed 1 (mlcg_modulus - 1)) mod mlcg_modulus).

(* ------------------------------------------------------------------ *)
(* UniformShuffledClientSampler over a client stream                    *)

Section StreamSampler.
Context {C : Type}.
Variable stream : nat -> C.      (* k-th item next() returns on the shuffled_clients iterator *)
Variable num_clients : Z.

(* `count` calls of next(): only the position moves *)
Fixpoint advance (count : nat) (pos : nat) : nat :=
  match count with O => pos | S c => advance c (S pos) end.

(* __init__: for _ in range(start): for _ in range(num_clients): next(it) *)
Definition s_init (start : Z) : nat * Z :=
  (Nat.iter (Z.to_nat start) (advance (Z.to_nat num_clients)) 0%nat, start).

(* for i in range(num_clients): id, ds = next(it); clients.append((id, ds, client_rngs[i])) *)
Fixpoint take (count : nat) (pos : nat) (rngs : list kpath) : list (C * kpath) :=
  match count, rngs with
  | S c, k :: rngs' => (stream pos, k) :: take c (S pos) rngs'
  | _, _ => []
  end.

Definition s_sample (st : nat * Z) : list (C * kpath) * (nat * Z) :=
  let '(pos, r) := st in
  let client_rngs := split (KRoot r) num_clients in
  let n := Z.to_nat num_clients in
  (take n pos client_rngs,
   (advance n pos, match shuffled_sampler_next_round r with Some r' => r' | None => r end)).

Fixpoint s_outputs (k : nat) (st : nat * Z) : list (list (C * kpath)) :=
  match k with O => [] | S k' => let (o, st') := s_sample st in o :: s_outputs k' st' end.
End StreamSampler.

(* ------------------------------------------------------------------ *)
(* correspondence                                                       *)

Definition bytes_eqb := list_beq Z.eqb.

Fixpoint assoc {V} (k : Z) (l : list (Z * V)) : option V :=
  match l with [] => None | (k', v) :: l' => if k =? k' then Some v else assoc k l' end.

(* the recorded NumPy answers *)
Definition table_choice {Id} (table : list (Z * list nat)) (dflt : Id) (s : Z) (ids : list Id) (n : Z) : list Id :=
  match assoc s table with
  | Some idxs => map (fun i => nth i ids dflt) idxs
  | None => []
  end.
Definition const_randint (seed start : Z) (s a b : Z) : Z :=
  if (s =? seed) && (a =? 1) && (b =? 2 ^ 31 - 2) then start else 0.

Inductive C13_case :=
| CGet (ids : list (list Z)) (data : list (list Z)) (n seed start : Z)
       (table : list (Z * list nat)) (round0 : Z) (ops : list op)
| CStream (n start : Z) (stream : list Z) (k : nat)
| CPrs (seed start r : Z).          (* get_pseudo_random_state(seed, r) called directly *)

(* a key is reported as (round, index) when it is split(PRNGKey(round), n)[index] *)
Inductive C13_obs :=
| OGet (outs : list (option (list (list Z * list Z * (Z * Z)))))
| OStream (outs : list (list (Z * (Z * Z))))
| OPrs (rs_seed : Z).               (* the s for which the returned state equals RandomState(s) *)

Definition path_pair (n : Z) (k : kpath) : Z * Z :=
  match k with
  | KSplit (KRoot r) m i => if m =? n then (r, Z.of_nat i) else (-1, -1)
  | _ => (-1, -1)
  end.

Definition pair_eqb (a b : Z * Z) : bool := (fst a =? fst b) && (snd a =? snd b).
Definition client_eqb (a b : list Z * list Z * (Z * Z)) : bool :=
  bytes_eqb (fst (fst a)) (fst (fst b)) && bytes_eqb (snd (fst a)) (snd (fst b)) && pair_eqb (snd a) (snd b).
Definition out_eqb (a b : option (list (list Z * list Z * (Z * Z)))) : bool :=
  match a, b with
  | Some x, Some y => list_beq client_eqb x y
  | None, None => true
  | _, _ => false
  end.

Definition C13_agree (c : C13_case) (o : C13_obs) : bool :=
  match c, o with
  | CGet ids data n seed start table round0 ops, OGet outs =>
    let model := outputs bytes_eqb (fast_random_state (const_randint seed start)) (table_choice table []) (combine ids data) n seed ops round0 in
    list_beq out_eqb
      (map (fun r => match r with
                     | Some l => Some (map (fun x => (fst (fst x), snd (fst x), path_pair n (snd x))) l)
                     | None => None end) model)
      outs
  | CStream n start stream k, OStream outs =>
    let model := s_outputs (fun j => nth j stream (-1)) n k (s_init n start) in
    list_beq (list_beq (fun a b => (fst a =? fst b) && pair_eqb (snd a) (snd b)))
      (map (map (fun x => (fst x, path_pair n (snd x)))) model) outs
  | CPrs seed start r, OPrs s =>
    match fast_random_state (const_randint seed start) seed r with Some m => m =? s | None => false end
  | _, _ => false
  end.
