(* C02 executable model of fedjax/core/for_each_client.py.  Definitions only.

   Part 1 (generic in the client program): the sequential fold `run_seq` (the
   property's definition), the jit and debug backends as the accumulator loops the
   code runs, `_blockify` mirrored statement by statement, the pmap backend
   (lane step with jnp.where masks, block run, output filtering by client_mask,
   truncation of the step results to num_batches).
   Part 2: the thread-local backend choice (Set / Enter / Exit / Get per thread).
   Part 3: a concrete client-program DSL over NanQ (exact rationals + "non-finite")
   and the correspondence predicate `C02_agree` evaluated by the check.

   `step` is an ARBITRARY function everywhere in part 1: nothing is assumed about
   its value on the all-zero padding batch (NaN / Inf are values like any other). *)
From Coq Require Import ZArith QArith List Bool.
From FV Require Import Common.ListX Common.PySem Common.NanQ Common.C02Lib gen.Gen_for_each_client.
Import ListNotations.
Local Open Scope Z_scope.

(* ------------------------------------------------------------------------ *)
(* stable sort (python list.sort) and small list helpers                   *)

(* clients.sort(key=lambda x: len(x[1]), reverse=True): python's sort is stable,
   also with reverse=True.  `sort_by key reverse` is the stable insertion sort. *)
Section Sort.
Context {A : Type} (key : A -> Z) (reverse : bool).
(* x has to come strictly after y *)
Definition after (x y : A) : bool := if reverse then key x <? key y else key y <? key x.
Fixpoint insert_stable (x : A) (l : list A) : list A :=
  match l with
  | [] => [x]
  | y :: l' => if after x y then y :: insert_stable x l' else x :: y :: l'
  end.
Definition sort_by (l : list A) : list A := fold_right insert_stable [] l.
End Sort.

(* The index / decision kernels of _blockify and of the pmap backend are NOT written
   here: they are the definitions translated from the source on every run,
   gen/Gen_for_each_client.v: blockify_sort_reverse, blockify_blocks,
   blockify_num_padding, blockify_has_batches, blockify_batch_range,
   blockify_batch_is_real, pmap_select_state, pmap_skip, pmap_truncate, pmap_emit (the
   whole output-splitting loop of the pmap backend's run). *)

Fixpoint map3 {A B C D} (f : A -> B -> C -> D) (la : list A) (lb : list B) (lc : list C) : list D :=
  match la, lb, lc with
  | a :: la', b :: lb', c :: lc' => f a b c :: map3 f la' lb' lc'
  | _, _, _ => []
  end.


(* ------------------------------------------------------------------------ *)
Section Generic.
Context {Id Sh Cin S B R Out : Type}.
Variable init : Sh -> Cin -> S.
Variable step : S -> B -> S * R.
Variable final : Sh -> S -> Out.
Variable zero_r : R -> R.       (* jnp.zeros_like on a step result *)
Variable zero_b : B -> B.       (* jnp.zeros_like on a batch *)
Variable zero_cin : Cin -> Cin. (* jnp.zeros_like on a client input *)

Definition client : Type := Id * list B * Cin.
(* a yielded triple; the id of a padding client is None *)
Definition result : Type := option Id * Out * list R.

(* ---- the definition in the property: final(shared, fold(step, init(shared, cin), batches)) *)
Definition next (s : S) (b : B) : S := fst (step s b).
Fixpoint step_results (s : S) (bs : list B) : list R :=
  match bs with
  | [] => []
  | b :: bs' => snd (step s b) :: step_results (next s b) bs'
  end.
Definition run_seq (sh : Sh) (c : client) : result :=
  let '(id, bs, cin) := c in
  (Some id, final sh (fold_left next bs (init sh cin)), step_results (init sh cin) bs).

(* ---- jit backend: run_client's loop with its accumulators.  `copy` is the
   jax.tree_util.tree_map(jnp.copy, state) of jit_client_init (a value-level identity;
   its role is ownership, see the store model in Proofs) *)
Definition loop_body (acc : S * list R) (b : B) : S * list R :=
  let (state, results) := acc in
  let (state', r) := step state b in (state', results ++ [r]).
Definition jit_run_client (copy : S -> S) (sh : Sh) (bs : list B) (cin : Cin) : Out * list R :=
  (* run_client is GENERATED (gen: jit_run_client_gen); jit_client_init = copy o client_init *)
  jit_run_client_gen (fun sh cin => copy (init sh cin)) step final sh bs cin.
Definition jit_run (copy : S -> S) (sh : Sh) (clients : list client) : list result :=
  map (fun c => let '(id, bs, cin) := c in
                let (o, rs) := jit_run_client copy sh bs cin in (Some id, o, rs)) clients.

(* ---- debug backend: the same loop without jit and without the copy (body of the
   per-client loop GENERATED: debug_run_client_gen) *)
Definition debug_run (sh : Sh) (clients : list client) : list result :=
  map (fun c => let '(id, bs, cin) := c in
                let (o, rs) := debug_run_client_gen init step final sh bs cin in (Some id, o, rs)) clients.

(* ---- _blockify ---- *)
Definition pclient : Type := option Id * list B * Cin.
Definition pc_id (c : pclient) : option Id := fst (fst c).
Definition pc_batches (c : pclient) : list B := snd (fst c).
Definition pc_cin (c : pclient) : Cin := snd c.
Definition nbatches (c : pclient) : Z := Z.of_nat (length (pc_batches c)).

Record block := mk_block {
  blk_id : list (option Id);
  blk_mask : list bool;
  blk_nb : list Z;
  blk_mb : list (list B * list bool);
  blk_cin : list Cin }.

(* "Pad to size n": returns the padded block and client_mask *)
Definition pad_block (block_size : Z) (blk : list pclient) : list pclient * list bool :=
  let client_mask := map (fun _ => true) blk in
  match blk with
  | c0 :: _ =>
      let n := Z.to_nat (blockify_num_padding (Z.of_nat (length blk)) block_size) in
      (blk ++ repeat (None, [], zero_cin (pc_cin c0)) n, client_mask ++ repeat false n)
  | [] => (blk, client_mask)          (* range(0, len, block_size) never gives an empty slice *)
  end.

(* "Pad to a fixed number of batches" *)
Definition cell (padding_batch : B) (j : Z) (c : pclient) : B :=
  if blockify_batch_is_real j (nbatches c) then nth (Z.to_nat j) (pc_batches c) padding_batch else padding_batch.

Definition masked_batches (blk : list pclient) : list (list B * list bool) :=
  let num_batches := map nbatches blk in
  let max_num_batches := hd 0 num_batches in            (* num_batches[0] *)
  if blockify_has_batches max_num_batches then
    match blk with
    | (_, batch_template :: _, _) :: _ =>               (* block[0][1][0] *)
        let padding_batch := zero_b batch_template in
        map (fun j => (map (cell padding_batch j) blk, map (fun c => blockify_batch_is_real j (nbatches c)) blk))
            (blockify_batch_range max_num_batches)
    | _ => []
    end
  else [].

Definition make_block (block_size : Z) (blk : list pclient) : block :=
  let (pb, client_mask) := pad_block block_size blk in
  mk_block (map pc_id pb) client_mask (map nbatches pb) (masked_batches pb) (map pc_cin pb).

Definition blockify (block_size : Z) (clients : list client) : list block :=
  let cl := map (fun c : client => let '(id, bs, cin) := c in (Some id, bs, cin)) clients in
  map (make_block block_size) (blockify_blocks (sort_by nbatches blockify_sort_reverse cl) block_size).

(* ---- pmap backend ---- *)
(* p_client_step on one device: jnp.where(mask, next_state, state),
   jnp.where(mask, step_result, zeros_like(step_result)) *)
Definition lane_step (s : S) (b : B) (m : bool) : S * R :=
  let (s', r) := step s b in (pmap_select_state m s' s, if m then r else zero_r r).

(* one lane (device) on its own, fed its column of (batch, mask) pairs *)
Fixpoint lane_fold (s : S) (col : list (B * bool)) : S * list R :=
  match col with
  | [] => (s, [])
  | (b, m) :: col' =>
      let (s', r) := lane_step s b m in
      let (s'', rs) := lane_fold s' col' in (s'', r :: rs)
  end.

Definition p_loop_body (acc : list S * list (list R)) (mb : list B * list bool) : list S * list (list R) :=
  let (p_state, p_step_results) := acc in
  let (p_batch, p_mask) := mb in
  let (p_state', p_step_result) := split (map3 lane_step p_state p_batch p_mask) in
  (p_state', p_step_results ++ [p_step_result]).

(* run_block is GENERATED (pmap_run_block_gen); jax.pmap(f) is modelled as f mapped over the
   device axis: p_client_init / p_client_step / p_client_final below *)
Definition run_block (sh : Sh) (blk : block) : list Out * list (list R) :=
  pmap_run_block_gen (fun sh cins => map (init sh) cins)
                     (fun p_state p_batch p_mask => split (map3 lane_step p_state p_batch p_mask))
                     (fun sh p_state => map (final sh) p_state)
                     sh (blk_cin blk) (blk_mb blk).

(* the body of `for block in _blockify(...)`: run the block, then split / filter /
   truncate / yield -- pmap_emit is GENERATED from that code (gen/Gen_for_each_client.v) *)
Definition emit_block (sh : Sh) (blk : block) : list result :=
  let (p_client_output, p_step_results) := run_block sh blk in
  pmap_emit (blk_id blk) (blk_mask blk) (blk_nb blk) p_client_output p_step_results.

Definition pmap_run (block_size : Z) (sh : Sh) (clients : list client) : list result :=
  flat_map (emit_block sh) (blockify block_size clients).

End Generic.

(* ------------------------------------------------------------------------ *)
(* Part 2: thread-local backend choice.
   A backend is a code (Z); `None` is the unset field (get() then installs and
   returns DEFAULT_BACKEND, code 0).  Each thread has its own field (threading.local)
   and its own stack of `old` values, one per active context-manager frame. *)

Inductive bop :=
| BSet (b : option Z)      (* set_for_each_client_backend(b), b valid *)
| BSetBad                  (* ... with an unsupported name: ValueError, nothing assigned *)
| BEnter (b : option Z)    (* entering `with for_each_client_backend(b)` *)
| BEnterBad                (* unsupported name: ValueError inside try, finally restores old *)
| BExit                    (* leaving the block normally *)
| BExitExc                 (* leaving the block by an exception *)
| BGet.                    (* get_for_each_client_backend() *)

Record tstate := mk_ts { ts_cur : option Z; ts_stack : list (option Z) }.
Definition ts0 : tstate := mk_ts None [].
Definition default_backend : Z := 0.

(* the transitions are GENERATED from the source: ctx_enter / ctx_exit / ctx_exit_on_exception
   (the context manager) and choice_get (BackendChoice.get) *)
Definition exec_op (o : bop) (s : tstate) : tstate * option Z :=
  match o with
  | BSet b => (mk_ts b (ts_stack s), None)
  | BSetBad => (s, None)
  | BEnter b => let (cur, old) := ctx_enter b (ts_cur s) in (mk_ts cur (old :: ts_stack s), None)
  | BEnterBad =>      (* old saved, the set raises before assigning; `finally` (if any) runs *)
      let old := snd (ctx_enter None (ts_cur s)) in
      (mk_ts (if ctx_exit_on_exception then ctx_exit old (ts_cur s) else ts_cur s) (ts_stack s), None)
  | BExit =>
      match ts_stack s with
      | old :: st => (mk_ts (ctx_exit old (ts_cur s)) st, None)
      | [] => (s, None)
      end
  | BExitExc =>
      match ts_stack s with
      | old :: st => (mk_ts (if ctx_exit_on_exception then ctx_exit old (ts_cur s) else ts_cur s) st, None)
      | [] => (s, None)
      end
  | BGet => let (cur, r) := choice_get default_backend (ts_cur s) in (mk_ts cur (ts_stack s), r)
  end.

Definition gstate := nat -> tstate.
Definition gupd (g : gstate) (t : nat) (s : tstate) : gstate := fun t' => if Nat.eqb t' t then s else g t'.

(* a global schedule: which thread performs which operation, in real-time order;
   the result is the list of (thread, value read) of the Get operations *)
Fixpoint run_sched (g : gstate) (sched : list (nat * bop)) : gstate * list (nat * Z) :=
  match sched with
  | [] => (g, [])
  | (t, o) :: rest =>
      let (s', r) := exec_op o (g t) in
      let (g', reads) := run_sched (gupd g t s') rest in
      (g', match r with Some v => (t, v) :: reads | None => reads end)
  end.

(* one thread on its own *)
Fixpoint run_thread (s : tstate) (ops : list bop) : tstate * list Z :=
  match ops with
  | [] => (s, [])
  | o :: rest =>
      let (s', r) := exec_op o s in
      let (s'', reads) := run_thread s' rest in
      (s'', match r with Some v => v :: reads | None => reads end)
  end.

(* the operations / reads of thread t inside a global schedule / read log *)
Definition ops_of (t : nat) (sched : list (nat * bop)) : list bop :=
  map snd (filter (fun p => Nat.eqb (fst p) t) sched).
Definition reads_of (t : nat) (rs : list (nat * Z)) : list Z :=
  map snd (filter (fun p => Nat.eqb (fst p) t) rs).

(* well-nested operation sequences of one thread: every Enter has its Exit
   (normal or exceptional); anything may happen in between, including Set *)
Definition is_exit (o : bop) : bool := match o with BExit | BExitExc => true | _ => false end.
Definition is_simple (o : bop) : bool :=
  match o with BSet _ | BSetBad | BEnterBad | BGet => true | _ => false end.
Inductive balanced : list bop -> Prop :=
| bal_nil : balanced []
| bal_simple o ops : is_simple o = true -> balanced ops -> balanced (o :: ops)
| bal_with b body ex rest : balanced body -> is_exit ex = true -> balanced rest ->
    balanced (BEnter b :: body ++ ex :: rest).

(* ------------------------------------------------------------------------ *)
(* Part 2b: ownership of buffers under the jit backend's donation discipline.
   A pytree is the list of the buffer ids of its leaves.  A jitted call f(a, b)
   produces, per output leaf, a fresh buffer or -- when the runtime forwards
   pass-through outputs (`forwarding`; some JAX versions do, 0.11.2 does not) -- the
   very buffer of an input leaf.  Every buffer of a donated argument is deleted by the
   call (an output taken from a donated argument owns a new id).  Using a deleted
   buffer is an error (None).  Donation happens only at the donate_argnums sites the
   translator found: jit_init_donates / jit_step_donates / jit_final_donates, and
   jit_client_init copies its result iff jit_init_copies. *)
Inductive osrc := OFresh | OFromA (j : nat) | OFromB (j : nat).
Definition bufs := list nat.
Record ostore := mk_os { os_next : nat; os_dead : list nat }.

Definition donated (don : list Z) (pos : Z) : bool := existsb (Z.eqb pos) don.
Definition alive (st : ostore) (b : nat) : bool := negb (existsb (Nat.eqb b) (os_dead st)).

(* output leaves, allocating fresh ids from n *)
Fixpoint alloc_outputs (forwarding : bool) (don : list Z) (shape : list osrc) (a b : bufs) (n : nat) : bufs * nat :=
  match shape with
  | [] => ([], n)
  | o :: rest =>
      let keep :=
        match o with
        | OFresh => None
        | OFromA j => if forwarding && negb (donated don 0) then nth_error a j else None
        | OFromB j => if forwarding && negb (donated don 1) then nth_error b j else None
        end in
      match keep with
      | Some buf => let (out, n') := alloc_outputs forwarding don rest a b n in (buf :: out, n')
      | None => let (out, n') := alloc_outputs forwarding don rest a b (Datatypes.S n) in (n :: out, n')
      end
  end.

Definition jcall (forwarding : bool) (don : list Z) (shape : list osrc) (a b : bufs) (st : ostore)
  : option (bufs * ostore) :=
  if forallb (alive st) a && forallb (alive st) b then
    let (out, n') := alloc_outputs forwarding don shape a b (os_next st) in
    let dead := (if donated don 0 then a else []) ++ (if donated don 1 then b else []) ++ os_dead st in
    Some (out, mk_os n' dead)
  else None.

(* jnp.copy of every leaf: fresh buffers *)
Definition copy_bufs (x : bufs) (st : ostore) : bufs * ostore :=
  (seq (os_next st) (length x), mk_os (os_next st + length x) (os_dead st)).

Record oprog := mk_oprog { op_init : list osrc; op_step : list osrc; op_final : list osrc }.

Fixpoint own_steps (fw : bool) (p : oprog) (state : bufs) (batches : list bufs) (st : ostore) : option (bufs * ostore) :=
  match batches with
  | [] => Some (state, st)
  | b :: rest =>
      match jcall fw jit_step_donates (op_step p) state b st with
      | Some (state', st') => own_steps fw p state' rest st'
      | None => None
      end
  end.

(* run_client of the jit backend: init (+ copy), steps, final *)
Definition own_client (fw copies : bool) (p : oprog) (shared : bufs) (c : list bufs * bufs) (st : ostore) : option ostore :=
  let (batches, cin) := c in
  match jcall fw jit_init_donates (op_init p) shared cin st with
  | None => None
  | Some (state0, st0) =>
      let (state, st1) := if copies then copy_bufs state0 st0 else (state0, st0) in
      match own_steps fw p state batches st1 with
      | None => None
      | Some (state', st2) =>
          match jcall fw jit_final_donates (op_final p) shared state' st2 with
          | Some (_, st3) => Some st3
          | None => None
          end
      end
  end.

Fixpoint own_run (fw copies : bool) (p : oprog) (shared : bufs) (clients : list (list bufs * bufs)) (st : ostore) : option ostore :=
  match clients with
  | [] => Some st
  | c :: rest =>
      match own_client fw copies p shared c st with
      | Some st' => own_run fw copies p shared rest st'
      | None => None
      end
  end.

(* the caller's buffers of a call: shared input, client inputs, batches *)
Definition caller_bufs (shared : bufs) (clients : list (list bufs * bufs)) : bufs :=
  shared ++ flat_map (fun c => concat (fst c) ++ snd c) clients.

(* the call completes and every caller buffer is still alive *)
Definition own_ok (fw copies : bool) (p : oprog) (shared : bufs) (clients : list (list bufs * bufs)) (st : ostore) : bool :=
  match own_run fw copies p shared clients st with
  | Some st' => forallb (alive st') (caller_bufs shared clients)
  | None => false
  end.

(* ------------------------------------------------------------------------ *)
(* Part 3: the client-program DSL of the correspondence check.
   A leaf is the flattened array (list NanQ.t), a tree the list of its leaves. *)

Definition leaf := list NanQ.t.
Definition tree := list leaf.
Record dbatch := mk_db { bx : leaf; by_ : leaf }.

Record leafprog := mk_lp {
  lp_int : bool;                  (* int32 leaf (uses sum(batch.y)) or float32 leaf (uses sum(batch.x)) *)
  lp_shape : list Z;              (* array shape of the leaf (the model computes on the flattened leaf) *)
  lp_dtype : Z;                   (* 0 float32, 1 int32, 3 float16, 4 bfloat16, 5 int8, 6 uint8, 7 bool, 8 complex64 (re, im pairs) *)
  lp_init : Z;  lp_ia : Q; lp_ib : Q;   (* 0: shared[k]   1: cin[k]   2: ia*shared[k] + ib*cin[k] *)
  lp_step : Z;  lp_a : Q; lp_b : Q; lp_d : Q; lp_e : Q; lp_inv : Z;
                                  (* 0: a*s + (b*g + d [+ e*(1/bsum) | + e*(bsum/bsum)])  1: batch.x  2: s  3: s + d  4: not s (bool: 1 - s) *)
  lp_final : Z; lp_fa : Q; lp_fb : Q    (* 0: s   1: fa*s + fb*shared[k]   2: shared[k] *)
}.
Record prog := mk_prog {
  pr_leaves : list leafprog;
  pr_ru : Q; pr_rv : Q; pr_rw : Q; pr_rinv : Z; pr_rleaf : nat   (* step result: (ru*bsum + rv [+ rw*inv], new[rleaf]) *)
}.

Definition q (x : Q) : NanQ.t := Some x.
Definition lmap2 (f : NanQ.t -> NanQ.t -> NanQ.t) (a b : leaf) : leaf := map (fun p => f (fst p) (snd p)) (combine a b).
Definition scale (c : Q) (a : leaf) : leaf := map (NanQ.mul (q c)) a.
Definition shift (c : NanQ.t) (a : leaf) : leaf := map (fun v => NanQ.add v c) a.

Definition inv_term (mode : Z) (coef : Q) (bsum : NanQ.t) : NanQ.t :=
  if mode =? 1 then NanQ.mul (q coef) (NanQ.div NanQ.one bsum)
  else if mode =? 2 then NanQ.mul (q coef) (NanQ.div bsum bsum)
  else NanQ.zero.

Definition nth_leaf (t : tree) (k : nat) : leaf := nth k t [].

Definition d_init (p : prog) (sh cin : tree) : tree :=
  map (fun kl => let '(k, lp) := kl in
    if lp_init lp =? 0 then nth_leaf sh k
    else if lp_init lp =? 1 then nth_leaf cin k
    else lmap2 NanQ.add (scale (lp_ia lp) (nth_leaf sh k)) (scale (lp_ib lp) (nth_leaf cin k)))
  (combine (seq 0 (length (pr_leaves p))) (pr_leaves p)).

Definition d_step_state (p : prog) (st : tree) (b : dbatch) : tree :=
  let bsum := NanQ.sum (bx b) in
  let bn := NanQ.sum (by_ b) in
  map (fun kl => let '(k, lp) := kl in
    let s := nth_leaf st k in
    if lp_step lp =? 1 then bx b
    else if lp_step lp =? 2 then s
    else if lp_step lp =? 3 then shift (q (lp_d lp)) s
    else if lp_step lp =? 4 then map (fun v => NanQ.sub NanQ.one v) s
    else
      let g := if lp_int lp then bn else bsum in
      let c := NanQ.add (NanQ.add (NanQ.mul (q (lp_b lp)) g) (q (lp_d lp))) (inv_term (lp_inv lp) (lp_e lp) bsum) in
      shift c (scale (lp_a lp) s))
  (combine (seq 0 (length (pr_leaves p))) (pr_leaves p)).

(* with_step_result=False is `wsr = false`: the step result is the empty tree *)
Definition d_step (p : prog) (wsr : bool) (st : tree) (b : dbatch) : tree * tree :=
  let new := d_step_state p st b in
  if wsr then
    let bsum := NanQ.sum (bx b) in
    let r0 := NanQ.add (NanQ.add (NanQ.mul (q (pr_ru p)) bsum) (q (pr_rv p))) (inv_term (pr_rinv p) (pr_rw p) bsum) in
    (new, [[r0]; nth_leaf new (pr_rleaf p)])
  else (new, []).

Definition d_final (p : prog) (sh st : tree) : tree :=
  map (fun kl => let '(k, lp) := kl in
    if lp_final lp =? 0 then nth_leaf st k
    else if lp_final lp =? 1 then lmap2 NanQ.add (scale (lp_fa lp) (nth_leaf st k)) (scale (lp_fb lp) (nth_leaf sh k))
    else nth_leaf sh k)
  (combine (seq 0 (length (pr_leaves p))) (pr_leaves p)).

Definition zeros_leaf (l : leaf) : leaf := map (fun _ => NanQ.zero) l.
Definition zeros_tree (t : tree) : tree := map zeros_leaf t.
Definition zeros_batch (b : dbatch) : dbatch := mk_db (zeros_leaf (bx b)) (zeros_leaf (by_ b)).

Definition dclient : Type := Z * list dbatch * tree.
Definition dresult : Type := option Z * tree * list tree.

Definition d_seq (p : prog) (wsr : bool) (sh : tree) (cl : list dclient) : list dresult :=
  map (run_seq (d_init p) (d_step p wsr) (d_final p) sh) cl.
Definition d_jit (p : prog) (wsr : bool) (sh : tree) (cl : list dclient) : list dresult :=
  jit_run (d_init p) (d_step p wsr) (d_final p) (fun s => s) sh cl.
Definition d_debug (p : prog) (wsr : bool) (sh : tree) (cl : list dclient) : list dresult :=
  debug_run (d_init p) (d_step p wsr) (d_final p) sh cl.
Definition d_pmap (p : prog) (wsr : bool) (D : Z) (sh : tree) (cl : list dclient) : list dresult :=
  pmap_run (d_init p) (d_step p wsr) (d_final p) zeros_tree zeros_batch zeros_tree D sh cl.

(* ---- comparison: as MULTISETS of yielded triples (yield order is not part of the
   property; duplicate client ids give one triple per input entry).  An observed leaf
   carries its dtype code (see lp_dtype; 2 = any other dtype) and array shape. *)
Definition oleaf : Type := Z * list Z * leaf.
Definition oresult : Type := option Z * list oleaf * list (list oleaf).

Definition leaf_close (tol : Q) (a b : leaf) : bool := list_beq (NanQ.close tol) a b.
Definition oid_eqb (a b : option Z) : bool :=
  match a, b with Some x, Some y => x =? y | None, None => true | _, _ => false end.

(* dtype / shape the program gives each output leaf and each step-result leaf *)
Definition leaf_meta (lp : leafprog) : Z * list Z := (lp_dtype lp, lp_shape lp).
Definition out_meta (p : prog) : list (Z * list Z) := map leaf_meta (pr_leaves p).
Definition res_meta (p : prog) : list (Z * list Z) :=
  [(0, []); match nth_error (pr_leaves p) (pr_rleaf p) with Some lp => leaf_meta lp | None => (2, []) end].

Definition meta_eqb (a b : Z * list Z) : bool := (fst a =? fst b) && list_beq Z.eqb (snd a) (snd b).
(* model tree with the predicted metas against an observed tree *)
Definition otree_close (tol : Q) (metas : list (Z * list Z)) (t : tree) (o : list oleaf) : bool :=
  list_beq (fun (mt : (Z * list Z) * leaf) (ol : oleaf) =>
              meta_eqb (fst mt) (fst ol) && leaf_close tol (snd mt) (snd ol))
           (combine metas t) o
  && Nat.eqb (length metas) (length t).

Fixpoint list_beq2 {A B} (eqb : A -> B -> bool) (l1 : list A) (l2 : list B) : bool :=
  match l1, l2 with
  | [], [] => true
  | x :: l1', y :: l2' => eqb x y && list_beq2 eqb l1' l2'
  | _, _ => false
  end.

Definition result_close (p : prog) (tol : Q) (a : dresult) (b : oresult) : bool :=
  oid_eqb (fst (fst a)) (fst (fst b)) && otree_close tol (out_meta p) (snd (fst a)) (snd (fst b)) &&
  list_beq2 (otree_close tol (res_meta p)) (snd a) (snd b).

(* remove the first element of l that matches *)
Fixpoint remove_first {A} (f : A -> bool) (l : list A) : option (list A) :=
  match l with
  | [] => None
  | x :: l' => if f x then Some l' else option_map (cons x) (remove_first f l')
  end.
Fixpoint mset_match {A B} (eqb : A -> B -> bool) (model : list A) (obs : list B) : bool :=
  match model with
  | [] => match obs with [] => true | _ => false end
  | x :: model' => match remove_first (eqb x) obs with
                   | Some obs' => mset_match eqb model' obs'
                   | None => false
                   end
  end.

(* with_step_result=False: for_each_client drops the third component of every yield *)
Definition drop_results (wsr : bool) (l : list dresult) : list dresult :=
  if wsr then l else map (fun r => (fst r, [])) l.
Definition results_close (p : prog) (wsr : bool) (tol : Q) (model : list dresult) (obs : list oresult) : bool :=
  mset_match (result_close p tol) (drop_results wsr model) obs.

(* ---- the ownership model instantiated for a DSL program: which output leaf is a
   pass-through of which input leaf; buffers numbered shared, then per client its
   batches (x, y) and its input leaves *)
Definition oprog_of (p : prog) : oprog :=
  let ks := combine (seq 0 (length (pr_leaves p))) (pr_leaves p) in
  mk_oprog
    (map (fun kl => let '(k, lp) := kl in
            if lp_init lp =? 0 then OFromA k else if lp_init lp =? 1 then OFromB k else OFresh) ks)
    (map (fun kl => let '(k, lp) := kl in
            if lp_step lp =? 1 then OFromB 0 else if lp_step lp =? 2 then OFromA k else OFresh) ks)
    (map (fun kl => let '(k, lp) := kl in
            if lp_final lp =? 0 then OFromB k else if lp_final lp =? 2 then OFromA k else OFresh) ks).

Fixpoint number_batches (n : nat) (bs : list dbatch) : list bufs * nat :=
  match bs with
  | [] => ([], n)
  | _ :: rest => let (r, n') := number_batches (n + 2) rest in ([n; Datatypes.S n] :: r, n')
  end.
Fixpoint number_clients (nleaves n : nat) (cl : list dclient) : list (list bufs * bufs) * nat :=
  match cl with
  | [] => ([], n)
  | (_, bs, _) :: rest =>
      let (bb, n1) := number_batches n bs in
      let (r, n2) := number_clients nleaves (n1 + nleaves) rest in
      ((bb, seq n1 nleaves) :: r, n2)
  end.
(* forwarding = false: the runtime of the check (JAX 0.11.2) returns fresh buffers *)
Definition d_buffers_ok (p : prog) (cl : list dclient) : bool :=
  let nl := length (pr_leaves p) in
  let (cb, n) := number_clients nl nl cl in
  own_ok false jit_init_copies (oprog_of p) (seq 0 nl) cb (mk_os n []).

(* ---- exhaustive grid over _blockify: every vector of per-client batch counts in
   [0, base)^n for a block size D.  Client i has id i+1, batches 100(i+1)+1.., input 1000+i;
   zeros_like gives 0.  A blockify result is compared through a digest of its complete
   content (ids with None as 0, client_mask, num_batches, every masked batch row, inputs). *)
Fixpoint count_vectors (n : nat) (base : nat) : list (list nat) :=
  match n with
  | O => [[]]
  | Datatypes.S n' => flat_map (fun c => map (cons c) (count_vectors n' base)) (seq 0 base)
  end.

Definition grid_clients (counts : list nat) : list (Z * list Z * Z) :=
  map (fun ic => let '(i, c) := ic in
         (Z.of_nat i + 1, map (fun j => 100 * (Z.of_nat i + 1) + Z.of_nat j + 1) (seq 0 c), 1000 + Z.of_nat i))
      (combine (seq 0 (length counts)) counts).

Definition b2z (b : bool) : Z := if b then 1 else 0.
Definition encode_block (blk : @block Z Z Z) : list Z :=
  map (fun o => match o with Some i => i | None => 0 end) (blk_id blk) ++ [-1] ++
  map b2z (blk_mask blk) ++ [-2] ++ blk_nb blk ++ [-3] ++
  flat_map (fun row => fst row ++ map b2z (snd row) ++ [-4]) (blk_mb blk) ++ blk_cin blk ++ [-5].
Definition digest (l : list Z) : Z := fold_left (fun h x => (h * 131 + x + 7) mod 1000000007) l 0.
Definition grid_digest (D : Z) (counts : list nat) : Z :=
  digest (flat_map encode_block (blockify (fun _ : Z => 0) (fun _ : Z => 0) D (grid_clients counts))).

Inductive C02_case :=
| CGrid (D : Z) (n base : nat)
| CRun (p : prog) (wsr : bool) (tol : Q) (D : Z) (sh : tree) (clients : list dclient)
| CThreads (sched : list (nat * bop)).

Inductive C02_obs :=
| ORun (jit debug pmap : list oresult) (buffers_ok : bool)
| OThreads (reads : list (nat * Z))
| OGrid (digests : list Z).

(* reads are compared by backend KIND: DEFAULT_BACKEND (0) is a jit backend *)
Definition read_eqb (a b : nat * Z) : bool := Nat.eqb (fst a) (fst b) && (snd a =? snd b).

Definition C02_agree (c : C02_case) (o : C02_obs) : bool :=
  match c, o with
  | CRun p wsr tol D sh cl, ORun oj od op ok =>
      results_close p wsr tol (d_jit p wsr sh cl) oj &&
      results_close p wsr tol (d_debug p wsr sh cl) od &&
      results_close p wsr tol (d_pmap p wsr D sh cl) op &&
      Bool.eqb ok (d_buffers_ok p cl)     (* no caller buffer deleted or changed *)
  | CGrid D n base, OGrid ds => list_beq Z.eqb (map (grid_digest D) (count_vectors n base)) ds
  | CThreads sched, OThreads reads =>
      list_beq read_eqb (snd (run_sched (fun _ => ts0) sched)) reads
  | _, _ => false
  end.
