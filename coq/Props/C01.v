(* C01 -- A federated-averaging round equals its mathematical definition.
   Property theorems only; every proof is `exact <lemma>` (Proofs/C01_Proofs.v).
   `fedavg_apply` / `fedavg_run` (Model/C01_Model.v) mirror fed_avg.apply statement by
   statement over tree_zeros_like / tree_add / tree_weight / tree_inverse_weight, which
   are translated on this run from fedjax/core/tree_util.py (gen/Gen_tree_util.v).
   `ls_apply` / `ls_run` are the instances the correspondence check evaluates. *)
From Coq Require Import ZArith QArith List Permutation Bool.
From FV Require Import Common.NanQ Common.QVec Common.WMean gen.Gen_tree_util gen.Gen_fed_avg Model.C01_Model Proofs.C01_Proofs
  Proofs.C01_Gen_Proofs.
From FV Require gen.Gen_tree_l2 gen.Gen_client_datasets.
Import ListNotations.
Local Open Scope Q_scope.

(* T: the guard of tree_inverse_weight as written in tree_util.py today:
   every leaf is multiplied by (1/w if w > 0 else 0); no division by zero is evaluated *)
Theorem C01_inverse_weight_guard : forall (p : list Q) (w : Q),
  tree_inverse_weight (vlift p) (Some w) = vlift (map (fun l => l * (if Qltb 0 w then 1 / w else 0)) p).
Proof. exact gen_inverse_weight_spec. Qed.

Section C01.
(* the client program (client_init / client_step / params of the step state) and the
   server optimizer are arbitrary *)
Context {K B CS OS : Type}.
Variable cinit : list Q -> K -> CS.
Variable cstep : CS -> B -> CS.
Variable cparams : CS -> list Q.
Variable sopt : list Q -> OS -> list Q -> OS * list Q.
Notation client := (@client K B).
Notation local_delta := (run_client cinit cstep cparams).          (* initial - locally trained *)
Notation apply := (fedavg_apply cinit cstep cparams sopt).
Notation run := (fedavg_run cinit cstep cparams sopt).
Notation weighted_deltas := (deltas cinit cstep cparams).          (* [(num_examples, local_delta)] *)

(* a round never produces a non-finite mean (in particular not when no example was seen) *)
Theorem C01_never_nan : forall st (clients : list client), exists r, apply st clients = Some r.
Proof. exact (apply_total cinit cstep cparams sopt). Qed.

(* new state = server optimizer applied to the example-count weighted mean of the deltas *)
Theorem C01_round_is_weighted_mean : forall d params os (clients : list client),
  wf_round cinit cstep cparams d params clients ->
  exists g, g =v= wmean_batch d (weighted_deltas params clients) /\
    apply (params, os) clients =
    Some (snd (sopt g os params), fst (sopt g os params),
          map (fun c => (c_id c, sumsq (local_delta params c))) clients).
Proof. exact (round_is_weighted_mean cinit cstep cparams sopt). Qed.

(* ... which is literally sum n_i delta_i / sum n_i when some example was seen *)
Theorem C01_mean_formula : forall d params (clients : list client),
  wf_round cinit cstep cparams d params clients -> 0 < wtot (weighted_deltas params clients) ->
  forall i, (i < d)%nat ->
    vnth i (wmean_batch d (weighted_deltas params clients)) ==
    qsum (map (fun c => inject_Z (c_n c) * vnth i (local_delta params c)) clients) /
    qsum (map (fun c => inject_Z (c_n c)) clients).
Proof. exact (round_mean_formula cinit cstep cparams). Qed.

(* the order in which the clients are listed does not matter *)
Theorem C01_order_independent : forall d params os (clients clients' : list client),
  wf_round cinit cstep cparams d params clients -> Permutation clients clients' ->
  exists g g' dg dg', g =v= g' /\ Permutation dg dg' /\
    apply (params, os) clients = Some (snd (sopt g os params), fst (sopt g os params), dg) /\
    apply (params, os) clients' = Some (snd (sopt g' os params), fst (sopt g' os params), dg').
Proof. exact (order_independent cinit cstep cparams sopt). Qed.

(* nor does the backend: any for_each_client that yields the sequential outputs in some order *)
Theorem C01_backend_independent : forall d params os (clients : list client) outputs,
  wf_round cinit cstep cparams d params clients ->
  Permutation outputs (train_for_each_client cinit cstep cparams params clients) ->
  exists g g', g =v= g' /\
    apply_from_outputs sopt params os (client_num_examples clients) outputs =
      Some (snd (sopt g os params), fst (sopt g os params), fold_left dstep outputs []) /\
    apply (params, os) clients =
      Some (snd (sopt g' os params), fst (sopt g' os params),
            map (fun c => (c_id c, sumsq (local_delta params c))) clients) /\
    Permutation (fold_left dstep outputs []) (map (fun c => (c_id c, sumsq (local_delta params c))) clients).
Proof. exact (backend_independent cinit cstep cparams sopt). Qed.

(* exactly one diagnostics entry per participating client *)
Theorem C01_one_diag_per_client : forall st (clients : list client) p os dg,
  NoDup (map c_id clients) -> apply st clients = Some (p, os, dg) ->
  map fst dg = map c_id clients /\ length dg = length clients /\ NoDup (map fst dg).
Proof. exact (one_diag_per_client cinit cstep cparams sopt). Qed.

(* clients with zero examples carry zero weight: dropping them does not change the mean *)
Theorem C01_zero_example_clients_weightless : forall d params os (clients : list client),
  wf_round cinit cstep cparams d params clients ->
  exists g g' dg dg', g =v= g' /\
    apply (params, os) clients = Some (snd (sopt g os params), fst (sopt g os params), dg) /\
    apply (params, os) (filter has_examples clients) =
      Some (snd (sopt g' os params), fst (sopt g' os params), dg').
Proof. exact (zero_example_clients_weightless cinit cstep cparams sopt). Qed.

(* a round that saw no example hands the zero vector to the server optimizer *)
Theorem C01_empty_round_mean_zero : forall d params os (clients : list client),
  wf_round cinit cstep cparams d params clients -> Forall (fun c => c_n c = 0%Z) clients ->
  exists g, g =v= vzero d /\
    apply (params, os) clients =
    Some (snd (sopt g os params), fst (sopt g os params), map (fun c => (c_id c, sumsq (local_delta params c))) clients).
Proof. exact (empty_round_mean_zero cinit cstep cparams sopt). Qed.

(* multi-round: a run always returns, every round is the server optimizer applied to the
   weighted mean of that round's deltas (run_spec), one diagnostics map per round *)
Hypothesis local_length : forall p k bs, length (cparams (fold_left cstep bs (cinit p k))) = length p.
Hypothesis sopt_length : forall g s p, length g = length p -> length (snd (sopt g s p)) = length p.

Theorem C01_multi_round : forall (cohorts : list (list client)) p os,
  Forall (fun cl => NoDup (map c_id cl)) cohorts ->
  exists p' os' dgs, run (p, os) cohorts = Some (p', os', dgs) /\
    run_spec cinit cstep cparams sopt (length p) (p, os) cohorts (p', os') /\ length p' = length p /\
    Forall2 (fun cl dg => map fst dg = map c_id cl) cohorts dgs.
Proof. exact (multi_round cinit cstep cparams sopt local_length sopt_length). Qed.

(* multi-round order independence, for client programs and server optimizers that respect == *)
Variable os_eq : OS -> OS -> Prop.
Hypothesis sopt_proper : forall g g' s s' p p', g =v= g' -> os_eq s s' -> p =v= p' ->
  os_eq (fst (sopt g s p)) (fst (sopt g' s' p')) /\ snd (sopt g s p) =v= snd (sopt g' s' p').
Hypothesis local_proper : forall p p' k bs, p =v= p' ->
  cparams (fold_left cstep bs (cinit p k)) =v= cparams (fold_left cstep bs (cinit p' k)).

Theorem C01_multi_round_order_independent : forall (cohorts cohorts' : list (list client)) p p' os os',
  Forall2 (@Permutation client) cohorts cohorts' ->
  Forall (fun cl => NoDup (map c_id cl)) cohorts -> p =v= p' -> os_eq os os' ->
  exists q s dgs q' s' dgs',
    run (p, os) cohorts = Some (q, s, dgs) /\ run (p', os') cohorts' = Some (q', s', dgs') /\
    q =v= q' /\ os_eq s s' /\ Forall2 (fun dg dg' => Permutation (map fst dg) (map fst dg')) dgs dgs'.
Proof. exact (run_order_independent cinit cstep cparams sopt local_length os_eq sopt_proper local_proper). Qed.
End C01.

(* ---- the instance evaluated by the correspondence check satisfies every hypothesis ---- *)
Theorem C01_ls_round_is_weighted_mean : forall co srv params os (clients : list (client (K := key) (B := list example))),
  NoDup (map c_id clients) ->
  exists g, g =v= wmean_batch (length params) (deltas (ls_init co) (ls_step co) s_params params clients) /\
    ls_apply co srv (params, os) clients =
    Some (snd (srv g os params), fst (srv g os params),
          map (fun c => (c_id c, sumsq (run_client (ls_init co) (ls_step co) s_params params c))) clients).
Proof. exact ls_round_is_weighted_mean. Qed.

(* all clients empty + plain SGD on the server: parameters unchanged, and a state IS returned *)
Theorem C01_empty_round_identity_sgd : forall co so params os (clients : list (client (K := key) (B := list example))),
  NoDup (map c_id clients) -> o_mom so == 0 -> Forall (fun c => c_n c = 0%Z) clients ->
  exists p' os' dg, ls_apply co (srv_sgd so) (params, os) clients = Some (p', os', dg) /\ p' =v= params.
Proof. exact ls_empty_round_identity_sgd. Qed.

Theorem C01_ls_multi_round : forall co so (cohorts : list (list (client (K := key) (B := list example)))) p os,
  Forall (fun cl => NoDup (map c_id cl)) cohorts ->
  exists p' os' dgs, ls_run co so (p, os) cohorts = Some (p', os', dgs) /\
    run_spec (ls_init co) (ls_step co) s_params (srv_sgd so) (length p) (p, os) cohorts (p', os') /\
    length p' = length p /\ Forall2 (fun cl dg => map fst dg = map c_id cl) cohorts dgs.
Proof. exact ls_multi_round. Qed.

Theorem C01_ls_multi_round_order_independent : forall co so cohorts cohorts' p os,
  Forall2 (@Permutation (client (K := key) (B := list example))) cohorts cohorts' ->
  Forall (fun cl => NoDup (map c_id cl)) cohorts ->
  exists q s dgs q' s' dgs',
    ls_run co so (p, os) cohorts = Some (q, s, dgs) /\ ls_run co so (p, os) cohorts' = Some (q', s', dgs') /\
    q =v= q' /\ srv_eq s s' /\ Forall2 (fun dg dg' => Permutation (map fst dg) (map fst dg')) dgs dgs'.
Proof. exact ls_run_order_independent. Qed.

(* T: the round code of fed_avg.py as it is today.  `Gen_fed_avg.apply` / `client_init` /
   `client_step` are translated on this run from federated_averaging.apply (+ server_update)
   and create_train_for_each_client; the translated apply IS the model's round run with the
   translated client program (so every theorem above is about that code), and the instance
   the correspondence evaluates is that program with the least-squares gradient and optax.sgd.
   A client of the model is the code's (client_id, dataset, rng) with dataset = (length, batches). *)
Theorem C01_source_apply_is_the_model :
  forall {K U B S OS : Type} (grad_fn : list Q -> B -> U -> list Q) (split : K -> K * U) (copt_init : list Q -> S)
         (copt_apply : list Q -> S -> list Q -> S * list Q) (sopt : list Q -> OS -> list Q -> OS * list Q)
         st (clients : list (client (K := K) (B := B))),
  Gen_fed_avg.apply grad_fn split copt_init copt_apply sopt fst snd st (map as_tuple clients) =
  option_map (fun r : list Q * OS * list (Z * Q) => ((fst (fst r), snd (fst r)), snd r))
    (fedavg_apply (Gen_fed_avg.client_init copt_init) (Gen_fed_avg.client_step grad_fn split copt_apply)
                  (@Gen_fed_avg.f_params K S) sopt st clients).
Proof. exact (@gen_apply_is_fedavg_apply). Qed.

Theorem C01_evaluated_instance_is_source_apply :
  forall co srv st (clients : list (client (K := key) (B := list example))),
  option_map (fun r : list Q * srv_state * list (Z * Q) => ((fst (fst r), snd (fst r)), snd r)) (ls_apply co srv st clients) =
  Gen_fed_avg.apply batch_grad split_key (fun q => vzero (length q)) (sgd_apply co) srv fst snd st (map as_tuple clients).
Proof. exact ls_apply_is_gen_apply. Qed.

(* further translated pieces: the diagnostics value of the model is the square of tree_l2_norm; init; the wiring *)
Theorem C01_diagnostics_value_is_squared_l2_norm : forall v, Gen_tree_l2.tree_l2_norm_squared v = sumsq v.
Proof. exact gen_l2_norm_squared_is_sumsq. Qed.

Theorem C01_source_init_and_wiring : forall {OS : Type} (sinit : list Q -> OS) p,
  Gen_fed_avg.init sinit p = (p, sinit p) /\ Gen_fed_avg.fed_avg_wiring = true.
Proof. exact (fun OS sinit p => conj (gen_fedavg_init sinit p) gen_fedavg_wiring). Qed.

(* batching hyper-parameters: the number of local steps a client takes (translated from
   ShuffleRepeatBatchView.__init__; C01_agree checks every recorded stream against it) is the documented one *)
Theorem C01_client_step_count_is_documented : forall N bs e s (drop : bool),
  Gen_client_datasets.shuffle_num_steps N bs e s drop =
  Some (match e with
        | Some e => let full := (if drop then (N * e) / bs else (N * e + bs - 1) / bs)%Z in
                    Some (match s with Some s => Z.min s full | None => full end)
        | None => s
        end).
Proof. exact shuffle_num_steps_documented. Qed.

(* nothing in fed_avg.py / tree_util.py depends on the interpreter process (no hash(), id(), time, uuid, os.environ,
   unseeded random): recogniser; the harness also runs cases in a second interpreter with another PYTHONHASHSEED *)
Theorem C01_source_is_process_independent : Gen_fed_avg.process_independent = true /\ Gen_tree_l2.process_independent = true.
Proof. exact gen_fedavg_process_independent. Qed.

(* the hypotheses of the round theorems are satisfiable: a concrete cohort with distinct ids and shape-preserving
   local training (wf_round), one client without examples *)
Example C01_hypotheses_satisfiable :
  let co := mkSgd (1 # 2) (1 # 2) true in
  wf_round (ls_init co) (ls_step co) s_params 2 [0; 1]
    [mkClient 7%Z 2%Z [0; 0] [[([1; 0], 1); ([0; 1], 1)]]; mkClient 3%Z 0%Z [] []; mkClient 5%Z 1%Z [1 # 4] [[([1; 1], 0)]]].
Proof.
  split; [repeat constructor; cbn; intuition discriminate|]. split; [reflexivity|]. repeat constructor.
Qed.

(* non-vacuity: two clients with 2 and 1 examples, one round, SGD(1/2) clients, SGD(1) server *)
Example C01_example :
  let co := mkSgd (1 # 2) 0 false in
  let c1 := mkClient 1%Z 2%Z [0; 0] [[([1; 0], 1); ([0; 1], 1)]] in
  let c2 := mkClient 2%Z 1%Z [0] [[([1; 1], 0)]] in
  match ls_apply co (srv_sgd (mkSgd 1 0 false)) ([0; 0], ([0; 0], [])) [c1; c2] with
  | Some (p, _, dg) => vclose_b 0 p [(1 # 6); (1 # 6)] = true /\ map fst dg = [1%Z; 2%Z]
  | None => False
  end.
Proof. vm_compute. split; reflexivity. Qed.

Print Assumptions C01_inverse_weight_guard.
Print Assumptions C01_never_nan.
Print Assumptions C01_round_is_weighted_mean.
Print Assumptions C01_mean_formula.
Print Assumptions C01_order_independent.
Print Assumptions C01_backend_independent.
Print Assumptions C01_one_diag_per_client.
Print Assumptions C01_zero_example_clients_weightless.
Print Assumptions C01_empty_round_mean_zero.
Print Assumptions C01_multi_round.
Print Assumptions C01_multi_round_order_independent.
Print Assumptions C01_ls_round_is_weighted_mean.
Print Assumptions C01_empty_round_identity_sgd.
Print Assumptions C01_ls_multi_round.
Print Assumptions C01_ls_multi_round_order_independent.
Print Assumptions C01_source_apply_is_the_model.
Print Assumptions C01_evaluated_instance_is_source_apply.
Print Assumptions C01_diagnostics_value_is_squared_l2_norm.
Print Assumptions C01_source_init_and_wiring.
Print Assumptions C01_client_step_count_is_documented.
Print Assumptions C01_source_is_process_independent.
