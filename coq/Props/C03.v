(* C03 -- Sequential batching is an exact, order-preserving partition.
   Property theorems only; every proof is `exact <lemma>` (Proofs/C03_Proofs.v).
   `batch_view`, `padded_view`, `pick` are the functions translated on this run
   from BatchView.__iter__, PaddedBatchView.__iter__, _pick_final_batch_size;
   `gen_pad_examples`, `gen_attach_mask`, `gen_slice_examples`, `gen_preprocessor_call`,
   `padded_batch_view_iter_checked` (inside `padded_view_checked`) are translated on
   this run from pad_examples, attach_mask, slice_examples, BatchPreprocessor.__call__ and once more
   PaddedBatchView.__iter__; `gen_dataset_len`, `gen_dataset_getitem` from
   ClientDataset.__len__ / __getitem__ (gen/Gen_client_datasets_pad.v, which also pins
   the constructor / hparams / view-__init__ plumbing verbatim). *)
From Coq Require Import ZArith List Bool.
From FV Require Import Common.PySem Common.Batch Common.Chunk Common.NpArr Model.C03_Model Proofs.C03_Proofs.
From FV Require Import gen.Gen_client_datasets_pad Proofs.C03_PadProofs.
Import ListNotations.
Local Open Scope Z_scope.

Section C03.
Context {A : Type} (zero : A) (f : A -> A).

(* drop_remainder=False: batches concatenate to the preprocessed dataset, in order *)
Theorem C03_batches_concat : forall (raw : list A) bs, 1 <= bs ->
  concat (batch_view (map f) raw bs false) = map f raw.
Proof. exact (plain_partition f). Qed.

(* every batch is non-empty and <= bs rows; every batch except the last has exactly bs *)
Theorem C03_batch_sizes : forall (raw : list A) bs, 1 <= bs ->
  let bl := batch_view (map f) raw bs false in
  Forall (fun c => (1 <= length c <= Z.to_nat bs)%nat) bl /\
  (forall pre c post, bl = pre ++ c :: post -> post <> [] -> length c = Z.to_nat bs).
Proof. exact (plain_sizes f). Qed.

(* drop_remainder=True removes only an incomplete final batch *)
Theorem C03_drop_remainder_only_last : forall (raw : list A) bs, 1 <= bs ->
  exists tail, batch_view (map f) raw bs false = batch_view (map f) raw bs true ++ tail /\
    (tail = [] \/ exists c, tail = [c] /\ (1 <= length c < Z.to_nat bs)%nat) /\
    Forall (fun c => length c = Z.to_nat bs) (batch_view (map f) raw bs true).
Proof. exact (drop_remainder_only_last f). Qed.

(* padded mode: real rows of all batches = the preprocessed dataset, each once, in order *)
Theorem C03_padded_strip : forall (raw : list A) bs nb, 1 <= bs ->
  exists bl, padded_view zero (map f) raw bs nb = Some bl /\ concat (map real_rows bl) = map f raw.
Proof. exact (padded_partition zero f). Qed.

(* mask is a prefix of True on exactly the real rows; padded rows are the zero row;
   all batches but the last are full with batch_size rows; the last has batch_size or
   the picked final size *)
Theorem C03_mask_is_prefix_pad_rows_zero : forall (raw : list A) bs nb, 1 <= bs ->
  exists final bl, pick (Z.of_nat (length raw)) bs nb = Some final /\
    padded_view zero (map f) raw bs nb = Some bl /\
    Forall (fun b => wf_padded zero (Z.to_nat bs) b \/ wf_padded zero (Z.to_nat final) b) bl /\
    (forall pre b post, bl = pre ++ b :: post -> post <> [] ->
       b_mask b = repeat true (Z.to_nat bs) /\ length (b_rows b) = Z.to_nat bs) /\
    (forall pre b, bl = pre ++ [b] ->
       length (b_rows b) = length (b_mask b) /\
       (length (b_rows b) = Z.to_nat bs \/ length (b_rows b) = Z.to_nat final)).
Proof. exact (padded_shape zero f). Qed.

(* the final batch size is the smallest of bs halved 0..buckets-1 times that holds the remainder *)
Theorem C03_final_size_minimal_bucket : forall N bs nb, 0 <= N -> 1 <= bs ->
  exists r, pick N bs nb = Some r /\
   (if N mod bs =? 0 then r = bs
    else exists k, 0 <= k /\ (k = 0 \/ k < nb) /\ r = bs / 2 ^ k /\ N mod bs <= r /\
                   (nb <= k + 1 \/ bs / 2 ^ (k + 1) < N mod bs)).
Proof. exact pick_total. Qed.

(* batching commutes with any batch preprocessor *)
Theorem C03_preprocess_commutes : forall (pre : list A -> list A) (raw : list A) bs drop, 1 <= bs ->
  batch_view pre raw bs drop = map pre (batch_view (fun x => x) raw bs drop).
Proof. exact preprocess_commutes. Qed.

(* the helper the padded loop calls is the TRANSLATED pad_examples: whenever its own guard
   `current_size > size` does not fire it returns the modelled batch (mask =
   arange(size) < current_size, rows = zeros with the first current_size overwritten),
   and it raises exactly when the guard fires *)
Theorem C03_pad_examples_translated : forall (rows : list A) size,
  (Z.of_nat (length rows) <= size -> gen_pad_examples zero rows size = Some (pad_examples zero rows size)) /\
  (size < Z.of_nat (length rows) -> gen_pad_examples zero rows size = None).
Proof. exact (fun rows size => conj (gen_pad_examples_spec zero rows size) (gen_pad_examples_raises zero rows size)). Qed.

Theorem C03_attach_mask_translated : forall (rows : list A) m,
  gen_attach_mask rows m = Some (attach_mask rows m).
Proof. exact gen_attach_mask_spec. Qed.

(* slice_examples (translated) is the python slice used by the translated loops *)
Theorem C03_slice_examples_translated : forall (rows : list A) a b,
  gen_slice_examples rows (a, b) = Some (py_slice rows a b).
Proof. exact gen_slice_examples_spec. Qed.

(* ClientDataset.__len__ (translated) is the number of rows of the dataset's own examples --
   the `data_size` every view is instantiated with (`batch_view`, `padded_view` use
   Z.of_nat (length raw)) -- also for a dataset obtained by slicing (translated __getitem__) *)
Theorem C03_dataset_len_translated : forall (rows : list A) a b,
  gen_dataset_len rows = Some (Z.of_nat (length rows)) /\
  gen_dataset_getitem rows (a, b) = Some (py_slice rows a b) /\
  (forall r, gen_dataset_getitem rows (a, b) = Some r -> gen_dataset_len r = Some (Z.of_nat (length (py_slice rows a b)))).
Proof. exact (fun rows a b => conj (gen_dataset_len_spec rows) (gen_dataset_getitem_spec rows a b)). Qed.

(* num_examples (translated) is the row count, validated or not *)
Theorem C03_num_examples_translated : forall (rows : list A) v,
  gen_num_examples rows v = Some (Z.of_nat (length rows)).
Proof. exact gen_num_examples_spec. Qed.

(* PaddedBatchView.__iter__ with the translated pad_examples (None = it raised) yields
   exactly the modelled view: the ValueError guard never fires, for every N, bs, buckets *)
Theorem C03_padded_view_never_raises : forall (raw : list A) bs nb, 1 <= bs ->
  padded_view_checked zero (map f) raw bs nb = padded_view zero (map f) raw bs nb.
Proof. exact (padded_view_checked_rowwise zero f). Qed.
End C03.

(* assert_consistent_rows (translated, over the columns' row counts): accepts exactly the
   non-empty dicts whose columns all have the same number of rows -- the invariant under
   which a dataset is ONE list of rows *)
Theorem C03_consistent_rows_translated : forall sizes,
  gen_assert_consistent_rows sizes = Some tt <-> exists s rest, sizes = s :: rest /\ Forall (fun v => v = s) rest.
Proof. exact gen_assert_consistent_rows_spec. Qed.

(* defaults of BatchHParams / PaddedBatchHParams (translated from the class bodies) are the
   documented ones: drop_remainder = False, num_batch_size_buckets = 1 *)
Theorem C03_hparams_defaults :
  hp_batch_drop_remainder_default = false /\ hp_padded_num_batch_size_buckets_default = 1.
Proof. exact hparams_defaults_c03. Qed.

(* BatchPreprocessor.__call__ (translated): the chain loop is the left fold in
   registration order, for arbitrary batch functions and in particular per-example ones *)
Theorem C03_preprocessor_call_translated : forall {A} (fs : list (A -> A)) (fns : list (list A -> list A)) rows,
  gen_preprocessor_call fns rows = Some (fold_left (fun r g => g r) fns rows) /\
  gen_preprocessor_call (map (@map A A) fs) rows = Some (chain fs rows).
Proof. exact (fun A fs fns rows => conj (gen_preprocessor_call_fold fns rows) (gen_preprocessor_call_spec fs rows)). Qed.

(* chains of per-example preprocessors run in registration order and are per-example maps *)
Theorem C03_chain_is_rowwise : forall {A} (fs : list (A -> A)) rows,
  chain fs rows = map (fun x => fold_left (fun v g => g v) fs x) rows.
Proof. exact @chain_is_map. Qed.

(* non-vacuity: a concrete dataset of 7 rows, bs 4, 3 buckets *)
Example C03_example :
  padded_view 0 (map (fun x => x + 10)) [1; 2; 3; 4; 5; 6; 7] 4 3
  = Some [mk_batch [11; 12; 13; 14] [true; true; true; true];
          mk_batch [15; 16; 17; 0] [true; true; true; false]]
  /\ pick 7 4 3 = Some 4 /\ pick 9 8 3 = Some 2 /\ pick 9 8 1 = Some 8
  /\ gen_pad_examples 0 [5; 6] 3 = Some (mk_batch [5; 6; 0] [true; true; false])
  /\ gen_pad_examples 0 [5; 6] 1 = None
  /\ gen_preprocessor_call [map (fun x => x + 1); map (fun x => x * 2)] [1; 2] = Some [4; 6].
Proof. vm_compute. repeat split. Qed.

Print Assumptions C03_batches_concat.
Print Assumptions C03_batch_sizes.
Print Assumptions C03_drop_remainder_only_last.
Print Assumptions C03_padded_strip.
Print Assumptions C03_mask_is_prefix_pad_rows_zero.
Print Assumptions C03_final_size_minimal_bucket.
Print Assumptions C03_preprocess_commutes.
Print Assumptions C03_chain_is_rowwise.
Print Assumptions C03_pad_examples_translated.
Print Assumptions C03_attach_mask_translated.
Print Assumptions C03_slice_examples_translated.
Print Assumptions C03_dataset_len_translated.
Print Assumptions C03_num_examples_translated.
Print Assumptions C03_consistent_rows_translated.
Print Assumptions C03_hparams_defaults.
Print Assumptions C03_padded_view_never_raises.
Print Assumptions C03_preprocessor_call_translated.
