(* C03 -- Sequential batching is an exact, order-preserving partition.
   Property theorems only; every proof is `exact <lemma>` (Proofs/C03_Proofs.v).
   `batch_view`, `padded_view`, `pick` are the functions translated on this run
   from BatchView.__iter__, PaddedBatchView.__iter__, _pick_final_batch_size. *)
From Coq Require Import ZArith List Bool.
From FV Require Import Common.PySem Common.Batch Common.Chunk Model.C03_Model Proofs.C03_Proofs.
Import ListNotations.
Local Open Scope Z_scope.

Section C03.
Context {A : Type} (zero : A) (f : A -> A).

(* drop_remainder=False: batches concatenate to the preprocessed dataset, in order *)
Theorem C03_batches_concat : forall (raw : list A) bs, 1 <= bs ->
  concat (batch_view (map f) raw bs false) = map f raw.
Proof. exact (plain_partition f). Qed.

(* every batch is non-empty and <= bs rows; every batch except the last has exactly bs *)
Theorem C03_batch_sizes : forall (raw : list A) bs, 1 <= bs ->
  let bl := batch_view (map f) raw bs false in
  Forall (fun c => (1 <= length c <= Z.to_nat bs)%nat) bl /\
  (forall pre c post, bl = pre ++ c :: post -> post <> [] -> length c = Z.to_nat bs).
Proof. exact (plain_sizes f). Qed.

(* drop_remainder=True removes only an incomplete final batch *)
Theorem C03_drop_remainder_only_last : forall (raw : list A) bs, 1 <= bs ->
  exists tail, batch_view (map f) raw bs false = batch_view (map f) raw bs true ++ tail /\
    (tail = [] \/ exists c, tail = [c] /\ (1 <= length c < Z.to_nat bs)%nat) /\
    Forall (fun c => length c = Z.to_nat bs) (batch_view (map f) raw bs true).
Proof. exact (drop_remainder_only_last f). Qed.

(* padded mode: real rows of all batches = the preprocessed dataset, each once, in order *)
Theorem C03_padded_strip : forall (raw : list A) bs nb, 1 <= bs ->
  exists bl, padded_view zero (map f) raw bs nb = Some bl /\ concat (map real_rows bl) = map f raw.
Proof. exact (padded_partition zero f). Qed.

(* mask is a prefix of True on exactly the real rows; padded rows are the zero row;
   all batches but the last are full with batch_size rows; the last has batch_size or
   the picked final size *)
Theorem C03_mask_is_prefix_pad_rows_zero : forall (raw : list A) bs nb, 1 <= bs ->
  exists final bl, pick (Z.of_nat (length raw)) bs nb = Some final /\
    padded_view zero (map f) raw bs nb = Some bl /\
    Forall (fun b => wf_padded zero (Z.to_nat bs) b \/ wf_padded zero (Z.to_nat final) b) bl /\
    (forall pre b post, bl = pre ++ b :: post -> post <> [] ->
       b_mask b = repeat true (Z.to_nat bs) /\ length (b_rows b) = Z.to_nat bs) /\
    (forall pre b, bl = pre ++ [b] ->
       length (b_rows b) = length (b_mask b) /\
       (length (b_rows b) = Z.to_nat bs \/ length (b_rows b) = Z.to_nat final)).
Proof. exact (padded_shape zero f). Qed.

(* the final batch size is the smallest of bs halved 0..buckets-1 times that holds the remainder *)
Theorem C03_final_size_minimal_bucket : forall N bs nb, 0 <= N -> 1 <= bs ->
  exists r, pick N bs nb = Some r /\
   (if N mod bs =? 0 then r = bs
    else exists k, 0 <= k /\ (k = 0 \/ k < nb) /\ r = bs / 2 ^ k /\ N mod bs <= r /\
                   (nb <= k + 1 \/ bs / 2 ^ (k + 1) < N mod bs)).
Proof. exact pick_total. Qed.

(* batching commutes with any batch preprocessor *)
Theorem C03_preprocess_commutes : forall (pre : list A -> list A) (raw : list A) bs drop, 1 <= bs ->
  batch_view pre raw bs drop = map pre (batch_view (fun x => x) raw bs drop).
Proof. exact preprocess_commutes. Qed.
End C03.

(* chains of per-example preprocessors run in registration order and are per-example maps *)
Theorem C03_chain_is_rowwise : forall {A} (fs : list (A -> A)) rows,
  chain fs rows = map (fun x => fold_left (fun v g => g v) fs x) rows.
Proof. exact @chain_is_map. Qed.

(* non-vacuity: a concrete dataset of 7 rows, bs 4, 3 buckets *)
Example C03_example :
  padded_view 0 (map (fun x => x + 10)) [1; 2; 3; 4; 5; 6; 7] 4 3
  = Some [mk_batch [11; 12; 13; 14] [true; true; true; true];
          mk_batch [15; 16; 17; 0] [true; true; true; false]]
  /\ pick 7 4 3 = Some 4 /\ pick 9 8 3 = Some 2 /\ pick 9 8 1 = Some 8.
Proof. vm_compute. repeat split. Qed.

Print Assumptions C03_batches_concat.
Print Assumptions C03_batch_sizes.
Print Assumptions C03_drop_remainder_only_last.
Print Assumptions C03_padded_strip.
Print Assumptions C03_mask_is_prefix_pad_rows_zero.
Print Assumptions C03_final_size_minimal_bucket.
Print Assumptions C03_preprocess_commutes.
Print Assumptions C03_chain_is_rowwise.
