(* C02 -- All for-each-client backends equal the sequential per-client fold.
   Property theorems only; every proof is `exact <lemma>` (Proofs/C02_Proofs.v).
   The definitions are those of Model/C02_Model.v, the same ones the correspondence
   check evaluates (instantiated with the client-program DSL); the index / decision
   kernels inside them (sort direction, block slicing, padding count, batch mask test,
   jnp.where argument order, client_mask test, step-result slice) are the definitions
   translated from fedjax/core/for_each_client.py on this run (gen/Gen_for_each_client.v).  `init`, `step`,
   `final` and the three zeros_like functions are ARBITRARY: in particular nothing is
   assumed about the value of `step` on the all-zero padding batch. *)
From Coq Require Import ZArith List Bool Permutation.
From FV Require Import Common.PySem gen.Gen_for_each_client Model.C02_Model Proofs.C02_Proofs.
Import ListNotations.
Local Open Scope Z_scope.

Section C02.
Context {Id Sh Cin S B R Out : Type}.
Variable init : Sh -> Cin -> S.
Variable step : S -> B -> S * R.
Variable final : Sh -> S -> Out.
Variable zero_r : R -> R.
Variable zero_b : B -> B.
Variable zero_cin : Cin -> Cin.

(* pmap backend, any block size (device count) D >= 1, any client collection (any
   number of clients, any batch counts incl. 0): the yielded triples are a
   permutation of the sequential results -- one per input client, none for padding *)
Theorem C02_pmap_equals_seq : forall (sh : Sh) (D : Z) (clients : list (Id * list B * Cin)), 1 <= D ->
  Permutation (pmap_run init step final zero_r zero_b zero_cin D sh clients)
              (map (run_seq init step final sh) clients).
Proof. exact (pmap_equals_seq init step final zero_r zero_b zero_cin). Qed.

(* the yielded ids are exactly the input ids (with multiplicity); the id None of a
   padding client never appears *)
Theorem C02_pmap_one_result_per_id : forall (sh : Sh) (D : Z) (clients : list (Id * list B * Cin)), 1 <= D ->
  Permutation (map (fun r : option Id * Out * list R => fst (fst r))
                   (pmap_run init step final zero_r zero_b zero_cin D sh clients))
              (map (fun c : Id * list B * Cin => Some (fst (fst c))) clients).
Proof. exact (pmap_ids init step final zero_r zero_b zero_cin). Qed.

(* a lane fed `batches ++ k padding batches` (masks true.. false..) ends in the state of
   the unpadded fold, and its step results are those of the unpadded fold followed by k
   zeroed results -- for any step function and any padding batch *)
Theorem C02_masked_steps_invisible : forall (bs : list B) (k : nat) (pad : B) (s : S),
  lane_fold step zero_r s (map (fun b => (b, true)) bs ++ repeat (pad, false) k)
  = (fold_left (next step) bs s,
     step_results step s bs ++ repeat (zero_r (snd (step (fold_left (next step) bs s) pad))) k).
Proof. exact (masked_steps_invisible step zero_r). Qed.

(* truncation to num_batches removes exactly the results of the padding batches; every
   yielded triple carries as many step results as its client has batches *)
Theorem C02_step_results_truncated :
  (forall (bs : list B) (k : nat) (pad : B) (s : S),
     pmap_truncate (snd (lane_fold step zero_r s (map (fun b => (b, true)) bs ++ repeat (pad, false) k)))
              (Z.of_nat (length bs)) = step_results step s bs) /\
  (forall (sh : Sh) (D : Z) (clients : list (Id * list B * Cin)), 1 <= D ->
     Forall (fun r : option Id * Out * list R =>
               exists c, In c clients /\ r = run_seq init step final sh c /\
                         length (snd r) = length (snd (fst c)))
            (pmap_run init step final zero_r zero_b zero_cin D sh clients)).
Proof.
  exact (conj (step_results_truncated step zero_r) (pmap_result_lengths init step final zero_r zero_b zero_cin)).
Qed.

(* debug backend: the accumulator loop is the fold, in input order *)
Theorem C02_debug_equals_seq : forall (sh : Sh) (clients : list (Id * list B * Cin)),
  debug_run init step final sh clients = map (run_seq init step final sh) clients.
Proof. exact (debug_equals_seq init step final). Qed.

(* jit backend: the same, given that jnp.copy is the identity on values *)
Theorem C02_jit_equals_seq : forall (copy : S -> S) (sh : Sh) (clients : list (Id * list B * Cin)),
  (forall s, copy s = s) ->
  jit_run init step final copy sh clients = map (run_seq init step final sh) clients.
Proof. exact (jit_equals_seq init step final). Qed.
(* Wave 4 -- translated = model: the loops GENERATED from run_client (jit), from the body of the
   per-client loop of the debug backend and from run_block (pmap) are the accumulator folds *)
Theorem C02_translated_jit_loop : forall (i : Sh -> Cin -> S) sh bs cin,
  jit_run_client_gen i step final sh bs cin
  = let (st, rs) := fold_left (loop_body step) bs (i sh cin, []) in (final sh st, rs).
Proof. exact (jit_run_client_gen_fold step final). Qed.

Theorem C02_translated_debug_loop : forall sh bs cin,
  debug_run_client_gen init step final sh bs cin
  = let (st, rs) := fold_left (loop_body step) bs (init sh cin, []) in (final sh st, rs).
Proof. exact (debug_run_client_gen_fold init step final). Qed.

Theorem C02_translated_run_block : forall sh (blk : @block Id Cin B),
  run_block init step final zero_r sh blk
  = let (p_state, p_res) := fold_left (p_loop_body step zero_r) (blk_mb blk) (map (init sh) (blk_cin blk), []) in
    (map (final sh) p_state, p_res).
Proof. exact (run_block_unfold init step final zero_r). Qed.
End C02.

(* thread scoping: for every interleaving (global schedule) of the operations of any
   number of threads, what thread t reads and the state it ends in are those of t's own
   operations run alone; hence they agree between any two schedules that contain the
   same operations of t *)
Theorem C02_backend_thread_scoped : forall sched1 sched2 g1 g2 t,
  ops_of t sched1 = ops_of t sched2 -> g1 t = g2 t ->
  reads_of t (snd (run_sched g1 sched1)) = snd (run_thread (g1 t) (ops_of t sched1)) /\
  reads_of t (snd (run_sched g1 sched1)) = reads_of t (snd (run_sched g2 sched2)) /\
  fst (run_sched g1 sched1) t = fst (run_sched g2 sched2) t.
Proof. exact thread_scoped_full. Qed.

(* a context block restores the thread's selection (and its saved outer selections)
   when it is left, normally (BExit) or by an exception (BExitExc), whatever well-nested
   operations -- Set included -- ran inside; so Get afterwards returns what Get would
   have returned before the block *)
Theorem C02_backend_restored_on_exit : forall b body ex s,
  balanced body -> is_exit ex = true ->
  fst (run_thread s (BEnter b :: body ++ [ex])) = s /\
  snd (exec_op BGet (fst (run_thread s (BEnter b :: body ++ [ex])))) = snd (exec_op BGet s).
Proof. exact restored_on_exit_full. Qed.

(* ownership (store model of the jit backend's donation discipline; `fw` = the runtime
   forwards pass-through outputs as the very input buffer): the call completes without
   using a deleted buffer and every caller buffer -- shared input, client inputs,
   batches -- is alive afterwards.  On a forwarding runtime client_step must not return
   its batch as part of the new state (C02_step_alias_refuted shows why). *)
Theorem C02_caller_buffers_not_donated : forall fw p shared clients st,
  (fw = true -> no_from_b (op_step p)) ->
  os_wf st ->
  Forall (fun b => (b < os_next st)%nat /\ alive st b = true) (caller_bufs shared clients) ->
  own_ok fw jit_init_copies p shared clients st = true.
Proof. exact caller_buffers_not_donated. Qed.

(* without the copy in jit_client_init a pass-through init donates the caller's shared
   input at the first step (forwarding runtime) *)
Theorem C02_no_copy_refuted :
  exists p shared clients st, no_from_b (op_step p) /\ os_wf st /\
    Forall (fun b => (b < os_next st)%nat /\ alive st b = true) (caller_bufs shared clients) /\
    own_ok true false p shared clients st = false.
Proof. exact no_copy_refuted. Qed.

(* and, on a forwarding runtime, a client_step that returns its batch gets that batch
   donated at the next step even with the copy *)
Theorem C02_step_alias_refuted :
  exists p shared clients st, os_wf st /\
    Forall (fun b => (b < os_next st)%nat /\ alive st b = true) (caller_bufs shared clients) /\
    own_ok true jit_init_copies p shared clients st = false.
Proof. exact step_alias_refuted. Qed.

(* the code has the structure the models mirror (recognised in the source on this run):
   thread-local choice object, get() installs the default, the context manager saves the
   field, sets inside try, restores the saved value in finally; jit_client_init copies;
   donation only of the state argument of step (0) and final (1) in the jit backend (the
   pmapped functions only ever receive internal device_put copies of caller arrays); the
   jit and debug backends are the sequential init / step+append / final / yield loop the
   model's jit_run / debug_run mirror; for_each_client binds its backend through
   get_for_each_client_backend() and, without step results, wraps the step as (step, ())
   and drops the third component *)
Theorem C02_model_anchored :
  backend_choice_thread_local = true /\ backend_get_installs_default = true /\
  ctx_saves_field = true /\ ctx_sets_in_try = true /\ ctx_restores_old_in_finally = true /\
  jit_init_copies = true /\ jit_init_donates = [] /\ jit_step_donates = [0] /\ jit_final_donates = [1] /\
  blockify_sort_reverse = true /\ jit_run_is_sequential_loop = true /\ debug_run_is_sequential_loop = true /\
  api_binds_via_get = true /\ api_passes_step_results_through = true /\ api_drops_unit_step_results = true /\
  pmap_inputs_are_stacked_copies = true /\ module_has_no_nondeterminism_source = true.
Proof. exact model_anchored. Qed.

(* Wave 4 -- what the context manager and BackendChoice.get, translated from the source, compute *)
Theorem C02_translated_backend_choice :
  (forall b cur, ctx_enter b cur = (b, cur)) /\
  (forall old cur, ctx_exit old cur = old) /\
  ctx_exit_on_exception = true /\
  (forall d cur, choice_get d cur =
     (Some (match cur with Some b => b | None => d end), Some (match cur with Some b => b | None => d end))).
Proof. exact choice_code_translated. Qed.

(* sentinel collision: a real client whose id is the value None / -1 is kept (Id := option Z) *)
Example C02_real_none_id_kept :
  let init (sh cin : Z) := sh + cin in
  let step (s b : Z) := (s + b, s) in
  let final (sh s : Z) := s in
  let zero (_ : Z) := 0 in
  let clients : list (option Z * list Z * Z) := [(None, [1; 2], 10); (Some (-1), [], 20); (Some 7, [5], 30)] in
  let out := pmap_run init step final zero zero zero 2 100 clients in
  length out = 3%nat /\ In (Some None, 113, [110; 111]) out /\ In (Some (Some (-1)), 120, []) out /\
  In (Some (Some 7), 135, [130]) out /\ ~ In None (map (fun r => fst (fst r)) out).
Proof. exact real_none_id_kept. Qed.

(* the hypotheses of the theorems (balanced, os_wf, no_from_b, caller buffers alive) have
   non-trivial instances *)
Example C02_hypotheses_inhabited :
  balanced [BSet (Some 2); BEnter (Some 3); BGet; BEnter None; BSet (Some 2); BExitExc; BEnterBad; BExit; BGet] /\
  os_wf (mk_os 5 [3%nat; 1%nat]) /\ no_from_b [OFresh; OFromA 1%nat] /\
  Forall (fun b => (b < os_next (mk_os 5 [3%nat]))%nat /\ alive (mk_os 5 [3%nat]) b = true)
         (caller_bufs [0%nat] [([[1%nat]; [2%nat]], [4%nat])]).
Proof. exact hypotheses_inhabited. Qed.

(* non-vacuity: 3 clients with 2, 0 and 3 batches on 2 devices; step divides by the
   batch (so the padding batch 0 hits the unconstrained branch, here 999) *)
Example C02_example :
  let init (sh cin : Z) := sh + cin in
  let step (s b : Z) := if b =? 0 then (999, 999) else (s + 12 / b, s) in
  let final (sh s : Z) := s - sh in
  let zero (_ : Z) := 0 in
  let clients := [(7, [1; 2], 10); (8, [], 20); (9, [3; 4; 6], 30)] in
  (let out := pmap_run init step final zero zero zero 2 100 clients in   (* in whatever yield order *)
   length out = 3%nat /\ In (Some 9, 39, [130; 134; 137]) out /\ In (Some 7, 28, [110; 122]) out /\
   In (Some 8, 20, []) out)
  /\ map (run_seq init step final 100) clients
  = [(Some 7, 28, [110; 122]); (Some 8, 20, []); (Some 9, 39, [130; 134; 137])]
  /\ snd (run_sched (fun _ => ts0)
            [(0%nat, BEnter (Some 2)); (1%nat, BGet); (0%nat, BSet (Some 3)); (0%nat, BGet);
             (1%nat, BSet (Some 3)); (0%nat, BExitExc); (0%nat, BGet); (1%nat, BGet)])
  = [(1%nat, 0); (0%nat, 3); (0%nat, 0); (1%nat, 3)]
  /\ own_ok true jit_init_copies (mk_oprog [OFromA 0%nat; OFromB 0%nat] [OFromA 1%nat; OFresh] [OFromB 0%nat; OFromA 0%nat])
        [0%nat] [([[1%nat]; [2%nat]], [3%nat]); ([], [4%nat])] (mk_os 5 []) = true.
Proof. vm_compute. intuition. Qed.

Print Assumptions C02_pmap_equals_seq.
Print Assumptions C02_pmap_one_result_per_id.
Print Assumptions C02_masked_steps_invisible.
Print Assumptions C02_step_results_truncated.
Print Assumptions C02_debug_equals_seq.
Print Assumptions C02_jit_equals_seq.
Print Assumptions C02_backend_thread_scoped.
Print Assumptions C02_backend_restored_on_exit.
Print Assumptions C02_caller_buffers_not_donated.
Print Assumptions C02_no_copy_refuted.
Print Assumptions C02_step_alias_refuted.
Print Assumptions C02_model_anchored.
Print Assumptions C02_translated_jit_loop.
Print Assumptions C02_translated_debug_loop.
Print Assumptions C02_translated_run_block.
Print Assumptions C02_translated_backend_choice.
