(* C18 -- Walsh-Hadamard transform is exact; structured rotation invertible.
   Property theorems only; every proof is `exact <lemma>` (Proofs/C18_Proofs.v).
   `schedule` is the reshape-schedule prefix of walsh_hadamard_transform translated on
   this run (gen/Gen_walsh_hadamard.v: wht_shape); `wht_impl` reshapes by it and
   contracts every axis with the Sylvester matrix; `rot` / `inv_rot` use the translated
   padded size, pad widths, sqrt arguments and take-count of structured_rotation /
   inverse_structured_rotation.  All statements hold for every commutative ring R
   (reals, rationals, integers); a rotated vector is a pair (u, z) standing for
   u / sqrt z, so that (1/sqrt z) * (1/sqrt z) = 1/z is the only fact used about sqrt. *)
From Coq Require Import ZArith List Bool Ring Lia.
From FV Require Import Common.RingVec gen.Gen_walsh_hadamard Model.C18_Model Proofs.C18_Proofs.
Import ListNotations.
Local Open Scope Z_scope.

(* the schedule terminates (never out of fuel), its dims are powers of two <= small_n,
   multiply to n, there are ceil(k/j) of them, and ValueError is raised iff more than 8 *)
Theorem C18_schedule_product : forall k j, 0 <= k -> 1 <= j ->
  exists dims, schedule (2 ^ k) (2 ^ j) = (if k <=? 8 * j then Some (Some dims) else Some None) /\
    Forall (fun d => exists e, 1 <= e <= j /\ d = 2 ^ e) dims /\ prodZ dims = 2 ^ k /\
    Z.of_nat (length dims) = (k + j - 1) / j.
Proof. exact schedule_spec. Qed.

Section C18.
Context {R : Type} (rO rI : R) (radd rmul rsub : R -> R -> R) (ropp : R -> R).
Context (Rth : ring_theory rO rI radd rmul rsub ropp eq).
Notation vadd := (vadd radd). Notation vzero := (vzero rO). Notation vsign := (vsign ropp).
Notation vscale := (vscale rmul). Notation sumsq := (sumsq rO radd rmul).
Notation wht := (wht radd rsub). Notation wht_impl := (wht_impl rO radd rsub).
Notation kron_apply := (kron_apply rO radd rsub).
Notation rot := (rot rO radd rsub ropp). Notation inv_rot := (inv_rot rO radd rsub ropp).
Notation rot_u := (rot_u rO radd rsub ropp). Notation rpow2 := (rpow2 rI radd).

(* for n = 2^k and block 2^j (j >= 1): the transform is the Sylvester recursion when
   k <= 8j and ValueError otherwise -- never a wrong result; a block <= 1 is rejected *)
Theorem C18_guard_exact : forall (k : nat) (j : Z) (x : list R), 1 <= j -> length x = (2 ^ k)%nat ->
  wht_impl (2 ^ j) x = if Z.of_nat k <=? 8 * j then WOk (wht k x) else WValueError.
Proof. exact (wht_impl_spec rO rI radd rmul rsub ropp Rth). Qed.

Theorem C18_small_block_rejected : forall sn (x : list R), sn <= 1 -> wht_impl sn x = WValueError.
Proof. exact (wht_impl_small_block rO radd rsub). Qed.

(* reshaping to ANY list of power-of-two axes and contracting each axis with its small
   Hadamard matrix is the Sylvester transform of the total order *)
Theorem C18_kron_is_wht : forall (es : list nat) (x : list R), length x = (2 ^ sumn es)%nat ->
  kron_apply es x = wht (sumn es) x.
Proof. exact (kron_apply_is_wht rO rI radd rmul rsub ropp Rth). Qed.

(* ... and the Sylvester transform is multiplication by the Sylvester-Hadamard matrix *)
Theorem C18_wht_is_matrix : forall (k : nat) (x : list R), length x = (2 ^ k)%nat ->
  wht k x = matvec rO radd rmul (Hmat rI ropp k) x.
Proof.
  exact (fun k x H => eq_trans (wht_is_hmul rO rI radd rmul rsub ropp Rth k x H)
                               (hmul_is_matvec rO rI radd rmul rsub ropp Rth k x)).
Qed.

Theorem C18_linear : forall (k : nat) c1 c2 (x y : list R), length x = (2 ^ k)%nat -> length y = (2 ^ k)%nat ->
  wht k (vadd (vscale c1 x) (vscale c2 y)) = vadd (vscale c1 (wht k x)) (vscale c2 (wht k y)).
Proof. exact (wht_linear rO rI radd rmul rsub ropp Rth). Qed.

Theorem C18_involution : forall (k : nat) (x : list R), length x = (2 ^ k)%nat ->
  wht k (wht k x) = vscale (rpow2 k) x.
Proof. exact (wht_involution rO rI radd rmul rsub ropp Rth). Qed.

Theorem C18_parseval : forall (k : nat) (x : list R), length x = (2 ^ k)%nat ->
  sumsq (wht k x) = rmul (rpow2 k) (sumsq x).
Proof. exact (wht_parseval rO rI radd rmul rsub ropp Rth). Qed.

(* structured_rotation on an input of any size 1 <= size <= 2^56 (flattened x, sign vector s):
   returns (u, d) with d = 2^K the padded size and |u|^2 = d |x|^2, i.e. |u / sqrt d| = |x| *)
Theorem C18_rotation_preserves_norm : forall (s : list bool) (x : list R),
  (1 <= length x)%nat -> Z.log2_up (Z.of_nat (length x)) <= 56 -> length s = length x ->
  rot s x = WOk (rot_u s x, 2 ^ Z.of_nat (rdim (length x))) /\
  length (rot_u s x) = (2 ^ rdim (length x))%nat /\ (length x <= 2 ^ rdim (length x))%nat /\
  sumsq (rot_u s x) = rmul (rpow2 (rdim (length x))) (sumsq x).
Proof.
  exact (fun s x H1 H2 H3 => conj (rot_spec rO rI radd rmul rsub ropp Rth s x H1 H2 H3)
     (conj (rot_u_length rO rI radd rmul rsub ropp Rth s x H1 H3)
     (conj (proj2 (rdim_spec (length x) H1)) (rot_norm rO rI radd rmul rsub ropp Rth s x H1 H3)))).
Qed.

(* inverse_structured_rotation with the same sign vector on the rotated vector returns
   (d x, d, shape): with the two symbolic factors 1/sqrt d this is x, cropped to the
   original size, in the original shape (any shape whose sizes multiply to the size) *)
Theorem C18_inverse_restores : forall (s : list bool) (x : list R) (shape : list Z),
  (1 <= length x)%nat -> Z.log2_up (Z.of_nat (length x)) <= 56 -> length s = length x ->
  prodZ shape = Z.of_nat (length x) ->
  inv_rot s (rot_u s x) shape = WOk (vscale (rpow2 (rdim (length x))) x, 2 ^ Z.of_nat (rdim (length x)), shape).
Proof. exact (inverse_restores rO rI radd rmul rsub ropp Rth). Qed.

(* the signs the key draws for the padding coordinates never matter *)
Theorem C18_pad_signs_irrelevant : forall (s t t' : list bool) (x : list R),
  length s = length x -> length t = length t' ->
  vsign (s ++ t) (x ++ vzero (length t)) = vsign (s ++ t') (x ++ vzero (length t)).
Proof. exact (rot_pad_signs_irrelevant rO rI radd rmul rsub ropp Rth). Qed.

(* different sign vectors (on the input coordinates) give different rotations, in any
   ring where 1 <> -1 (a + a = 0 -> a = 0, 1 <> 0) *)
Theorem C18_rotation_injective_in_signs :
  (forall a : R, radd a a = rO -> a = rO) -> rI <> rO ->
  forall s s' : list bool, length s = length s' -> (1 <= length s)%nat -> s <> s' ->
  exists x : list R, length x = length s /\ rot_u s x <> rot_u s' x.
Proof. exact (rot_injective_in_signs rO rI radd rmul rsub ropp Rth). Qed.

(* parameter trees: leaf-wise, every leaf with its own sign vector, the same one in the
   rotation and in the inverse *)
Theorem C18_tree_inverse_restores : forall leaves : list (list bool * list R * list Z),
  Forall (fun l => let '(s, x, shape) := l in
            (1 <= length x)%nat /\ Z.log2_up (Z.of_nat (length x)) <= 56 /\ length s = length x /\
            prodZ shape = Z.of_nat (length x)) leaves ->
  map (fun l => let '(s, x, shape) := l in rot s x) leaves =
    map (fun l => let '(s, x, shape) := l in WOk (rot_u s x, 2 ^ Z.of_nat (rdim (length x)))) leaves /\
  map (fun l => let '(s, x, shape) := l in inv_rot s (rot_u s x) shape) leaves =
    map (fun l => let '(s, x, shape) := l in
                  WOk (vscale (rpow2 (rdim (length x))) x, 2 ^ Z.of_nat (rdim (length x)), shape)) leaves.
Proof. exact (tree_inverse_restores rO rI radd rmul rsub ropp Rth). Qed.
End C18.

(* trees, key side (translated from structured_rotation_pytree / inverse_structured_rotation_pytree):
   leaf l is rotated and un-rotated with the same key, split index l of the tree key; leaves differ *)
Theorem C18_tree_leaf_keys : forall (k : list nat) (l l' : nat),
  (rot_pytree_leaf_key k l = inv_pytree_leaf_key k l /\ rot_pytree_leaf_key k l = (k ++ [l])%list) /\
  (rot_pytree_leaf_key k l = rot_pytree_leaf_key k l' -> l = l').
Proof. exact (fun k l l' => conj (leaf_keys_shared k l) (leaf_keys_distinct k l l')). Qed.

(* non-vacuity: the integer instance the correspondence evaluates *)
Example C18_example :
  zwht 2 [1; 2; 3; 4] = WOk [10; -2; -4; 0] /\ zwht 4 [1; 2; 3; 4] = WOk [10; -2; -4; 0] /\
  schedule 16384 4 = Some (Some [4; 4; 4; 4; 4; 4; 4]) /\ schedule 512 2 = Some None /\
  (exists dims, schedule 2048 128 = Some (Some dims) /\ prodZ dims = 2048 /\ length dims = 2%nat) /\
  zrot [true; false; true] [1; 2; 3] = WOk ([-2; -6; 4; 0], 4) /\
  zinv [true; false; true] [-2; -6; 4; 0] [3] = WOk ([4; 8; 12], 4, [3]) /\
  (forall x : list Z, length x = 8%nat -> wht Z.add Z.sub 3 (wht Z.add Z.sub 3 x) = vscale Z.mul 8 x).
Proof.
  repeat split; try (vm_compute; reflexivity).
  - eexists. vm_compute. repeat split.
  - exact (C18_involution 0 1 Z.add Z.mul Z.sub Z.opp Zth 3%nat).
Qed.

(* the hypotheses of the rotation theorems are satisfiable: size 3 (padded 4), size 129 (padded 256) *)
Example C18_hypotheses_example :
  let x : list Z := [5; -7; 2] in let s := [true; false; true] in
  (1 <= length x)%nat /\ Z.log2_up (Z.of_nat (length x)) <= 56 /\ length s = length x /\
  prodZ [3; 1] = Z.of_nat (length x) /\ rdim 3 = 2%nat /\ rdim 129 = 8%nat /\ Z.log2_up 129 <= 56 /\
  zinv s (rot_u 0 Z.add Z.sub Z.opp s x) [3; 1] = WOk ([20; -28; 8], 4, [3; 1]).
Proof. cbv zeta. repeat split; try (vm_compute; reflexivity); try (vm_compute; discriminate); cbn; lia. Qed.

Print Assumptions C18_schedule_product.
Print Assumptions C18_guard_exact.
Print Assumptions C18_small_block_rejected.
Print Assumptions C18_kron_is_wht.
Print Assumptions C18_wht_is_matrix.
Print Assumptions C18_linear.
Print Assumptions C18_involution.
Print Assumptions C18_parseval.
Print Assumptions C18_rotation_preserves_norm.
Print Assumptions C18_inverse_restores.
Print Assumptions C18_pad_signs_irrelevant.
Print Assumptions C18_rotation_injective_in_signs.
Print Assumptions C18_tree_inverse_restores.
Print Assumptions C18_tree_leaf_keys.
