(* C20 -- Packaged dataset preprocessors and models agree with each other.
   Property theorems only; every proof is `exact <lemma>` (Proofs/C20_Proofs.v).
   `tokenise`, `center_window`, `random_window`, `plain_window`, `adj2` are the functions the
   correspondence check evaluates; they are assembled from index arithmetic and constants
   translated on this run (SH = gen/Gen_ds_shakespeare, SHM = Gen_md_shakespeare,
   SO = Gen_ds_stackoverflow, SOM = Gen_md_stackoverflow, CF = Gen_ds_cifar100,
   EM = Gen_ds_emnist, TK = Gen_tasks). *)
From Coq Require Import ZArith QArith List Bool.
From FV Require Import Common.Chunk Model.C20_Model Proofs.C20_Proofs.
Import ListNotations.
Local Open Scope Z_scope.

(* Shakespeare: for every snippet list (empty list, empty snippets, any byte values) and every
   sequence length >= 2 the preprocessor succeeds; the rows, concatenated, are the
   begin/characters/end label stream without its last label (inputs) resp. without its first
   label (targets), followed by fewer than L pads; every row has exactly L labels *)
Theorem C20_shakespeare_lossless : forall snips L, 2 <= L ->
  exists xs ys k, tokenise snips L = Some (xs, ys) /\
    concat xs = removelast (stream snips) ++ repeat SH.PAD k /\
    concat ys = tl (stream snips) ++ repeat SH.PAD k /\
    (k < Z.to_nat L)%nat /\
    Forall (fun r => length r = Z.to_nat L) xs /\ Forall (fun r => length r = Z.to_nat L) ys /\
    length xs = length ys.
Proof. exact shakespeare_lossless. Qed.

(* targets = inputs shifted by one position *)
Theorem C20_targets_are_shifted_inputs : forall snips,
  tl (removelast (stream snips)) = removelast (tl (stream snips)).
Proof. exact targets_are_shifted_inputs. Qed.

(* every label is inside the vocabulary *)
Theorem C20_labels_in_vocab : forall snips L xs ys, 2 <= L -> bytes_ok snips -> tokenise snips L = Some (xs, ys) ->
  Forall (Forall (fun t => 0 <= t < SH.VOCAB_SIZE)) xs /\ Forall (Forall (fun t => 0 <= t < SH.VOCAB_SIZE)) ys.
Proof. exact labels_in_vocab. Qed.

(* PAD occurs only in the tail: no real label is PAD *)
Theorem C20_pad_only_at_end : forall snips, bytes_ok snips ->
  Forall (fun t => t <> SH.PAD) (removelast (stream snips)) /\ Forall (fun t => t <> SH.PAD) (tl (stream snips)).
Proof. exact pad_only_at_end. Qed.

(* the look-up table is "vocab[i] -> num_reserved + i (last occurrence), everything else -> OOV" *)
Theorem C20_table_is_documented : forall c, 0 <= c < 256 -> lookup c = spec_lookup c.
Proof. exact lookup_is_spec. Qed.

(* CIFAR-100 eval: the centre crop is the centred window of the requested shape *)
Theorem C20_center_crop_window : forall ch cw, 1 <= ch <= 32 -> 1 <= cw <= 32 ->
  exists hlo hhi wlo whi, center_window ch cw = Some ((hlo, hhi), (wlo, whi)) /\
    0 <= hlo /\ hhi = hlo + ch /\ hhi <= IMG /\ hlo <= IMG - hhi <= hlo + 1 /\
    0 <= wlo /\ whi = wlo + cw /\ whi <= IMG /\ wlo <= IMG - whi <= wlo + 1.
Proof. exact center_crop_window. Qed.

Theorem C20_crop_size_guard : forall ch cw, ~ (1 <= ch <= 32 /\ 1 <= cw <= 32) -> center_window ch cw = None.
Proof. exact center_crop_rejects. Qed.

(* CIFAR-100 training: for every draw the random crop is a sub-window of the requested shape,
   offsets in [0, 32 - crop], and every such offset is reachable *)
Theorem C20_random_crop_in_bounds : forall ch cw uh uw, 1 <= ch <= 32 -> 1 <= cw <= 32 -> 0 <= uh -> 0 <= uw ->
  exists ho he wo we, random_window ch cw uh uw = Some ((ho, he), (wo, we)) /\
    0 <= ho <= IMG - ch /\ he = ho + ch /\ he <= IMG /\ 0 <= wo <= IMG - cw /\ we = wo + cw /\ we <= IMG.
Proof. exact random_crop_in_bounds. Qed.

Theorem C20_random_crop_reaches_all : forall crop o, 1 <= crop <= 32 -> 0 <= o <= IMG - crop ->
  CF.rand_offset o (CF.rand_limit IMG crop) = o.
Proof. exact random_crop_reaches. Qed.

(* preprocess_image(is_train=True): a 32x32 window of the image zero-padded by num_paddings *)
Theorem C20_plain_crop_in_bounds : forall i j,
  0 <= i < CF.plain_rand_high CF.plain_num_paddings -> 0 <= j < CF.plain_rand_high CF.plain_num_paddings ->
  let '((hlo, hhi), (wlo, whi)) := plain_window i j in
  0 <= hlo /\ hhi = hlo + IMG /\ hhi <= IMG + 2 * CF.plain_num_paddings /\
  0 <= wlo /\ whi = wlo + IMG /\ whi <= IMG + 2 * CF.plain_num_paddings.
Proof. exact plain_crop_in_bounds. Qed.

(* standardisation: the translated expressions are TensorFlow's definition
   (x - mean) / max(stddev, 1/sqrt(num_pixels)) over the last three axes ... *)
Theorem C20_standardisation_is_tf : forall {R} (rone : R) rdiv rsub rmax rsqrt s n x m a,
  CF.std_adjusted rone rdiv rmax rsqrt s n = rmax s (rdiv rone (rsqrt n)) /\
  CF.std_result rdiv rsub x m a = rdiv (rsub x m) a /\
  CF.std_mean_axes = [-1; -2; -3] /\ CF.std_std_axes = [-1; -2; -3] /\ CF.std_num_pixels_from_axis = -3.
Proof. exact @std_floor_is_tf. Qed.

(* ... and, squared, its floor is max(variance, 1/num_pixels) -- what the correspondence
   check (`adj2`) compares the implementation with -- and is positive (no division by zero,
   constant images included).  s, r: rational witnesses of the two square roots. *)
Theorem C20_standardisation_floor : forall (s r var N : Q), (0 <= s)%Q -> (0 < r)%Q -> (s * s == var)%Q -> (r * r == N)%Q ->
  let adj := CF.std_adjusted 1%Q Qdiv Qmax (fun _ => r) s N in
  (adj * adj == Qmax var (1 / N))%Q /\ (0 < adj)%Q.
Proof. exact std_adjusted_squared. Qed.

(* EMNIST: writers f2100..f2599 (NIST hsf_4, the high-school partition) are domain 0, all
   other well-formed ids domain 1, in both id formats *)
Theorem C20_domain_ranges : forall (pre suf : list Z) d1 d2 d3 d4,
  (length pre = 18%nat \/ length pre = 1%nat) -> length suf = 3%nat ->
  is_digit d1 -> is_digit d2 -> is_digit d3 -> is_digit d4 ->
  EM.domain_id (pre ++ [d1; d2; d3; d4] ++ suf) =
    Some (if (2100 <=? digits_value d1 d2 d3 d4) && (digits_value d1 d2 d3 d4 <=? 2599) then 0 else 1).
Proof. exact domain_ranges. Qed.

Theorem C20_domain_rejects_other_lengths : forall id, length id <> 25%nat -> length id <> 8%nat -> EM.domain_id id = None.
Proof. exact domain_rejects_other_lengths. Qed.

(* label ids and vocabulary sizes: packaged model = packaged dataset (translated constants) *)
Theorem C20_shakespeare_ids_agree :
  let V := SHM.sh_default_vocab_size in
  V = len SH.VOCAB_BYTES /\
  SHM.sh_pad V = SH.PAD /\ SHM.sh_bos V = SH.BOS /\ SHM.sh_eos V = SH.EOS /\ SHM.sh_oov V = SH.OOV /\
  SHM.sh_full_vocab_size V = SH.VOCAB_SIZE /\
  SHM.sh_logits_masked V = [SH.PAD; SH.BOS; SH.EOS; SH.OOV] /\ SHM.sh_logits_len V = SH.VOCAB_SIZE /\
  SHM.sh_embed_rows V = SH.VOCAB_SIZE /\ SHM.sh_logits_dim V = SH.VOCAB_SIZE /\
  SHM.sh_train_loss_masked V = SH.PAD /\
  SHM.sh_accuracy_in_vocab_masked_target_values V = [SH.PAD; SH.EOS] /\ SHM.sh_accuracy_in_vocab_uses_logits_mask = true /\
  SHM.sh_accuracy_no_eos_masked_target_values V = [SH.PAD; SH.EOS] /\ SHM.sh_accuracy_no_eos_uses_logits_mask = false /\
  SHM.sh_num_tokens_masked_target_values V = [SH.PAD] /\ SHM.sh_sequence_length_masked_target_values V = [SH.PAD] /\
  SHM.sh_sequence_loss_masked_target_values V = [SH.PAD] /\ SHM.sh_token_loss_masked_target_values V = [SH.PAD] /\
  SHM.sh_token_oov_rate_masked_target_values V = [SH.PAD] /\ SHM.sh_token_oov_rate_oov_target_values V = [SH.OOV] /\
  SH.join_first_label = SH.BOS /\ SH.join_last_label = SH.EOS /\ SH.x_fill = SH.PAD /\ SH.y_fill = SH.PAD /\
  SH.OOV = SH.lut_fill SH.NUM_RESERVED (len SH.VOCAB_BYTES).
Proof. exact shakespeare_ids_agree. Qed.

Theorem C20_stackoverflow_ids_agree :
  let V := SOM.so_default_vocab_size in
  V = SO.tok_default_vocab_size /\ SO.tok_default_num_oov_buckets = 1 /\ SO.tok_default_num_oov_buckets_base = 1 /\
  SOM.so_pad V = SO.tok_PAD /\ SOM.so_bos V = SO.tok_BOS /\ SOM.so_eos V = SO.tok_EOS /\
  SOM.so_oov V = so_first_oov_id V /\
  SOM.so_full_vocab_size V = so_dataset_vocab V SO.tok_default_num_oov_buckets /\
  SOM.so_logits_masked V = [SO.tok_PAD; SO.tok_BOS; SO.tok_EOS; so_first_oov_id V] /\
  SOM.so_logits_len V = SOM.so_full_vocab_size V /\ SOM.so_embed_rows V = SOM.so_full_vocab_size V /\
  SOM.so_logits_dim V = SOM.so_full_vocab_size V /\ SOM.so_train_loss_masked V = SO.tok_PAD /\
  SOM.so_accuracy_in_vocab_masked_target_values V = [SO.tok_PAD; SO.tok_EOS] /\ SOM.so_accuracy_in_vocab_uses_logits_mask = true /\
  SOM.so_accuracy_no_eos_masked_target_values V = [SO.tok_PAD; SO.tok_EOS] /\ SOM.so_accuracy_no_eos_uses_logits_mask = false /\
  SOM.so_num_tokens_masked_target_values V = [SO.tok_PAD] /\ SOM.so_sequence_length_masked_target_values V = [SO.tok_PAD] /\
  SOM.so_sequence_loss_masked_target_values V = [SO.tok_PAD] /\ SOM.so_token_loss_masked_target_values V = [SO.tok_PAD] /\
  SOM.so_token_oov_rate_masked_target_values V = [SO.tok_PAD] /\ SOM.so_token_oov_rate_oov_target_values V = [so_first_oov_id V] /\
  SOM.so_truncation_rate_masked_target_values V = [SO.tok_PAD] /\ SOM.so_truncation_rate_eos_target_value V = SO.tok_EOS /\
  SO.tok_x_lo = None /\ SO.tok_x_hi = Some (-1) /\ SO.tok_y_lo = Some 1 /\ SO.tok_y_hi = None.
Proof. exact stackoverflow_ids_agree. Qed.

Theorem C20_stackoverflow_ids_agree_any_vocab : forall V,
  SOM.so_pad V = SO.tok_PAD /\ SOM.so_bos V = SO.tok_BOS /\ SOM.so_eos V = SO.tok_EOS /\
  SOM.so_oov V = so_first_oov_id V /\ SOM.so_full_vocab_size V = so_dataset_vocab V 1.
Proof. exact stackoverflow_ids_agree_any. Qed.

(* training.tasks.get_task wires each dataset to a model with the same vocabulary / lengths / shapes *)
Theorem C20_tasks_wiring :
  so_dataset_vocab (dflt TK.task_so_tok_default_vocab_size SO.tok_default_vocab_size)
                   (dflt TK.task_so_tok_num_oov_buckets SO.tok_default_num_oov_buckets)
    = SOM.so_full_vocab_size (dflt TK.task_so_model_vocab_size SOM.so_default_vocab_size) /\
  TK.task_so_train_max_length = TK.task_so_test_max_length /\ TK.task_so_train_max_length <> None /\
  SHM.sh_full_vocab_size (dflt TK.task_sh_model_vocab_size SHM.sh_default_vocab_size) = SH.VOCAB_SIZE /\
  2 <= dflt TK.task_sh_sequence_length Gen_ds_shakespeare_defaults.sh_default_sequence_length /\
  TK.task_cifar_uses_tff_defaults = true /\
  Gen_md_cifar100.cifar_model_sample_shape =
    [1; Gen_ds_cifar100_defaults.cifar_default_crop_height; Gen_ds_cifar100_defaults.cifar_default_crop_width; 3] /\
  (* EMNIST: dataset and model agree on digits-only (10 classes) vs all 62 classes *)
  TK.task_emnist_conv_data_only_digits = TK.task_emnist_conv_model_only_digits /\
  TK.task_emnist_logistic_data_only_digits = TK.task_emnist_logistic_model_only_digits /\
  TK.task_emnist_dense_data_only_digits = TK.task_emnist_dense_model_only_digits.
Proof. exact tasks_wiring. Qed.

(* language models, per-example TRAINING loss: the translated loss (mask by `targets != pad`,
   then a reduction over the row only -- the translator refuses any reduction across rows)
   gives every row the loss it gets alone, whatever the other rows of the batch are; and a
   padded position contributes nothing whatever its logits *)
Theorem C20_lm_train_loss_row_independent : forall tail pad el (pre post : list (list Q * list Z)) r,
  nth_error (lm_batch_loss tail pad el (pre ++ r :: post)) (length pre) = Some (lm_row_loss tail pad el r) /\
  lm_batch_loss tail pad el [r] = [lm_row_loss tail pad el r] /\
  length (lm_batch_loss tail pad el (pre ++ r :: post)) = length (pre ++ r :: post).
Proof. exact lm_loss_row_independent. Qed.

Theorem C20_lm_train_loss_ignores_pad_positions : forall pad l l' y ls ys, y = pad ->
  mask_row pad (l :: ls) (y :: ys) = mask_row pad (l' :: ls) (y :: ys).
Proof. exact mask_row_ignores_pad. Qed.

(* _build_look_up_table for ANY vocabulary (duplicate bytes allowed) and any number of reserved labels:
   a byte gets num_reserved + the index of its LAST occurrence, every other byte gets
   oov = num_reserved + len(vocab); the table has 256 entries.  `build_table` interprets the translated
   fill value / entry expression / table size. *)
Theorem C20_table_last_occurrence_wins : forall vocab nr (c : nat), Forall (fun v => 0 <= v < 256) vocab -> (c < 256)%nat ->
  nth c (build_table vocab nr) 0 =
    match last_index (Z.of_nat c) vocab 0 None with Some i => nr + i | None => SH.lut_oov nr (len vocab) end /\
  length (build_table vocab nr) = 256%nat.
Proof. exact table_last_occurrence_wins. Qed.

(* cifar100.preprocess_image: the translated constants are the documented per-channel mean / stddev
   and the translated expression is (x / 255 - mean) / stddev *)
Theorem C20_plain_normalisation :
  Forall2 Qeq Gen_ds_cifar100_norm.plain_mean [4914 # 10000; 4822 # 10000; 4465 # 10000]%Q /\
  Forall2 Qeq Gen_ds_cifar100_norm.plain_std [2023 # 10000; 1994 # 10000; 2010 # 10000]%Q /\
  forall v m s, ~ (s == 0)%Q -> (Gen_ds_cifar100_norm.plain_normalise v m s == (v / 255 - m) / s)%Q.
Proof. exact plain_normalisation. Qed.

(* recognised on this run: the Shakespeare / Stack Overflow / EMNIST dataset modules use no hash(), id(), time, uuid,
   random, os.environ or np.random: their outputs cannot differ between processes (exercised: kind xproc) *)
Theorem C20_preprocessors_process_independent :
  SH.shakespeare_is_process_independent = true /\ SO.stackoverflow_is_process_independent = true /\
  EM.emnist_is_process_independent = true.
Proof. exact preprocessors_process_independent. Qed.

(* argument plumbing (recognised, fail-closed): preprocess_batch_tff -> preprocess_image_tff, preprocess_batch ->
   preprocess_image, every load_data -> load_split (and sequence_length into the Shakespeare preprocessor), the
   Stack Overflow tokenizer constructors, as_preprocess_batch -> create_token_to_ids_fn, get_task -> load_data:
   each parameter is handed to the like-named parameter (exercised with all-distinct non-default values: kind plumb) *)
Theorem C20_argument_forwarding :
  CF.cifar_batch_tff_forwards = true /\ CF.cifar_batch_forwards = true /\ CF.cifar_load_data_forwards = true /\
  EM.emnist_load_data_forwards = true /\ SH.sh_load_data_forwards = true /\ SH.sh_load_data_binds_sequence_length = true /\
  SO.so_load_data_forwards = true /\ SO.so_tokenizer_forwards_vocab_size = true /\ SO.so_tokenizer_forwards_buckets = true /\
  SO.so_as_preprocess_batch_forwards = true /\ TK.tasks_forward_mode_and_cache_dir = true.
Proof. exact argument_forwarding. Qed.

(* the hypotheses of C20_domain_ranges / C20_labels_in_vocab are satisfiable by non-trivial instances *)
Example C20_hypotheses_example :
  (length [48; 49; 50; 51; 52; 53; 54; 55; 56; 57; 97; 98; 99; 100; 101; 102; 58; 102] = 18%nat /\ length [95; 48; 55] = 3%nat /\
   is_digit 50 /\ is_digit 53 /\ is_digit 57 /\ is_digit 57 /\ digits_value 50 53 57 57 = 2599) /\
  bytes_ok [[0; 1; 2; 255]; []; [65]] /\
  nth 97 (build_table [97; 98; 97] 3) 0 = 5 /\ nth 99 (build_table [97; 98; 97] 3) 0 = 6.
Proof. vm_compute. repeat split; try discriminate; repeat constructor; try discriminate. Qed.

(* non-vacuity: the docstring example of preprocess_client; crops; a Pythagorean standardisation
   instance (3x1 crop: 9 values, sqrt 9 = 3; low contrast: std 0 <= 1/3) *)
Example C20_example :
  tokenise [[65; 66; 67; 68]; [69]] 3 =
    Some ([[1; 73; 51]; [29; 10; 2]; [1; 74; 0]], [[73; 51; 29]; [10; 2; 1]; [74; 2; 0]]) /\
  tokenise [] 2 = Some ([], []) /\ tokenise [[]] 5 = Some ([[1; 0; 0; 0; 0]], [[2; 0; 0; 0; 0]]) /\
  center_window 24 24 = Some ((4, 28), (4, 28)) /\ center_window 31 1 = Some ((0, 31), (15, 16)) /\
  random_window 24 30 100 7 = Some ((1, 25), (1, 31)) /\
  EM.domain_id [102; 50; 53; 57; 57; 95; 48; 49] = Some 0 /\ EM.domain_id [102; 50; 54; 48; 48; 95; 48; 49] = Some 1 /\
  (let adj := CF.std_adjusted 1%Q Qdiv Qmax (fun _ => 3%Q) 0%Q 9%Q in (adj * adj == Qmax 0 (1 / 9))%Q) /\
  sh_batch_loss None [([1%Q; 2%Q; 3%Q; 7%Q], [5; 6; 7; 0]); ([4%Q; 4%Q; 4%Q; 4%Q], [5; 5; 5; 5])] = [(6 # 4)%Q; (16 # 4)%Q].
Proof. vm_compute. repeat split. Qed.

Print Assumptions C20_shakespeare_lossless.
Print Assumptions C20_targets_are_shifted_inputs.
Print Assumptions C20_labels_in_vocab.
Print Assumptions C20_pad_only_at_end.
Print Assumptions C20_table_is_documented.
Print Assumptions C20_center_crop_window.
Print Assumptions C20_crop_size_guard.
Print Assumptions C20_random_crop_in_bounds.
Print Assumptions C20_random_crop_reaches_all.
Print Assumptions C20_plain_crop_in_bounds.
Print Assumptions C20_standardisation_is_tf.
Print Assumptions C20_standardisation_floor.
Print Assumptions C20_domain_ranges.
Print Assumptions C20_domain_rejects_other_lengths.
Print Assumptions C20_shakespeare_ids_agree.
Print Assumptions C20_stackoverflow_ids_agree.
Print Assumptions C20_stackoverflow_ids_agree_any_vocab.
Print Assumptions C20_tasks_wiring.
Print Assumptions C20_lm_train_loss_row_independent.
Print Assumptions C20_lm_train_loss_ignores_pad_positions.
Print Assumptions C20_table_last_occurrence_wins.
Print Assumptions C20_plain_normalisation.
Print Assumptions C20_preprocessors_process_independent.
Print Assumptions C20_argument_forwarding.
