(* C07 -- Aggregation is the exact weighted mean and never harms its inputs.
   Property theorems only; every proof is `exact <lemma>` (Proofs/C07_Proofs.v).
   tree_sum, tree_mean, tree_add(_eq), tree_weight(_eq), tree_inverse_weight(_eq),
   tree_clip_by_global_norm and the *_donates tables are the definitions translated on
   this run from fedjax/core/tree_util.py (gen/Gen_tree_util.v).  A pytree is its
   flattened coordinate list; a finite input tree is `vlift v`; a client is
   (params, weight); results that are `Some (vlift v)` are finite in every coordinate
   (never NaN / Inf). *)
From Coq Require Import ZArith QArith List Permutation Bool.
From FV Require Import Common.CMonoid Common.NanQ Common.QVec Common.WMean gen.Gen_tree_util gen.Gen_aggregator
  Model.C07_Model Proofs.C07_Proofs.
Import ListNotations.
Local Open Scope Q_scope.

(* leaf by leaf, coordinate by coordinate: sum(w_i * p_i) / sum(w_i) *)
Theorem C07_tree_mean_is_wmean : forall n (cl : list (list Q * Q)),
  cl <> [] -> Forall (fun c => length (fst c) = n) cl -> 0 < qsum (map snd cl) ->
  exists v, tree_mean (map lift_client cl) = Some (vlift v) /\ length v = n /\
    forall i, (i < n)%nat ->
      vnth i v == qsum (map (fun c => snd c * vnth i (fst c)) cl) / qsum (map snd cl).
Proof. exact mean_is_wmean. Qed.

(* total weight zero (or not positive): all zeros, finite *)
Theorem C07_zero_total_zero_not_nan : forall n (cl : list (list Q * Q)),
  cl <> [] -> Forall (fun c => length (fst c) = n) cl -> qsum (map snd cl) <= 0 ->
  exists v, tree_mean (map lift_client cl) = Some (vlift v) /\ v =v= vzero n.
Proof. exact mean_zero_total. Qed.

(* any client order gives the same mean (exact arithmetic: "up to rounding") *)
Theorem C07_order_independent : forall n (cl cl' : list (list Q * Q)),
  cl <> [] -> Forall (fun c => length (fst c) = n) cl -> Permutation cl cl' ->
  exists v v', tree_mean (map lift_client cl) = Some (vlift v) /\
               tree_mean (map lift_client cl') = Some (vlift v') /\ v =v= v'.
Proof. exact mean_order_independent. Qed.

(* non-negative weights, positive total: inside the coordinatewise [min, max] of the inputs *)
Theorem C07_inside_hull : forall n (c : list Q * Q) (cl : list (list Q * Q)),
  Forall (fun c => length (fst c) = n) (c :: cl) -> Forall (fun c => 0 <= snd c) (c :: cl) ->
  0 < qsum (map snd (c :: cl)) ->
  exists v, tree_mean (map lift_client (c :: cl)) = Some (vlift v) /\
    vle (vmins (fst c) (map fst cl)) v /\ vle v (vmaxs (fst c) (map fst cl)).
Proof. exact mean_inside_hull. Qed.

(* tree_sum is the coordinatewise sum, in any order *)
Theorem C07_tree_sum_is_sum : forall n (ts : list (list Q)),
  ts <> [] -> Forall (fun t => length t = n) ts ->
  exists v, tree_sum (map vlift ts) = Some (vlift v) /\ v =v= vsum n ts /\
    forall i, (i < n)%nat -> vnth i v == qsum (map (vnth i) ts).
Proof. exact sum_is_sum. Qed.

Theorem C07_tree_sum_order_independent : forall n (ts ts' : list (list Q)),
  ts <> [] -> Forall (fun t => length t = n) ts -> Permutation ts ts' ->
  exists v v', tree_sum (map vlift ts) = Some (vlift v) /\ tree_sum (map vlift ts') = Some (vlift v') /\ v =v= v'.
Proof. exact sum_order_independent. Qed.

(* the mean aggregator is tree_mean of the (params, weight) pairs; the state is returned unchanged *)
Theorem C07_aggregator_is_tree_mean : forall (S : Type) (cl : list (Z * list Q * Q)) (st : S),
  mean_aggregator_apply (map (fun c => (fst (fst c), vlift (snd (fst c)), Some (snd c))) cl) st =
  (tree_mean (map lift_client (map (fun c => (snd (fst c), snd c)) cl)), st).
Proof. exact @aggregator_is_tree_mean. Qed.

(* one pass: both functions are a single left fold of a step function over the input,
   so the state reached after a prefix is all the remaining elements need; each
   element is consumed once (the translator additionally refuses any other use of the
   iterable inside or after the loop) *)
Theorem C07_single_pass : forall l1 l2 m1 m2,
  fold_left tree_mean_step (l1 ++ l2) tree_mean_init =
    fold_left tree_mean_step l2 (fold_left tree_mean_step l1 tree_mean_init) /\
  fold_left tree_sum_step (m1 ++ m2) tree_sum_init =
    fold_left tree_sum_step m2 (fold_left tree_sum_step m1 tree_sum_init).
Proof. exact single_pass. Qed.

(* ownership script (Model/C07_Model.v) with the translated donate_argnums tables: no
   location that existed before the call is deleted by it (inputs are not donated), and
   the result of a non-empty call lives in a location allocated by the call, so it is
   none of the caller's arrays, also for a single-element input, and it is live *)
Theorem C07_inputs_not_donated : forall s0 inputs, wf_store s0 ->
  (forall l, (l < next_loc s0)%nat -> In l (deleted (snd (own_tree_sum inputs s0))) -> In l (deleted s0)) /\
  (forall l, (l < next_loc s0)%nat -> In l (deleted (snd (own_tree_mean inputs s0))) -> In l (deleted s0)).
Proof. exact inputs_not_donated. Qed.

Theorem C07_result_fresh : forall s0 inputs, wf_store s0 -> inputs <> [] ->
  (exists a, fst (own_tree_sum inputs s0) = Some a /\ (next_loc s0 <= a)%nat /\
             ~ In a (deleted (snd (own_tree_sum inputs s0)))) /\
  (exists a, fst (own_tree_mean inputs s0) = Some a /\ (next_loc s0 <= a)%nat /\
             ~ In a (deleted (snd (own_tree_mean inputs s0)))).
Proof. exact result_fresh. Qed.

(* the translated tree_l2_squared is the sum of squares of all coordinates; tree_l2_norm is
   jnp.sqrt of it (checked by the anchor), i.e. the n >= 0 with n * n = sumsq used below *)
Theorem C07_l2_norm_is_sqrt_sumsq : forall n (x : list Q),
  is_l2_norm n (vlift x) <-> (0 <= n /\ n * n == sumsq x).
Proof. exact l2_norm_spec. Qed.

(* clipping by global norm, bound c >= 0; n is the global norm of x (n >= 0, n*n = sum of
   squares): the result has squared norm at most c^2, is x itself when n <= c (the zero
   tree included), and is s*x with 0 <= s <= 1, s > 0 for c > 0, s = c/n above the bound *)
Theorem C07_clip_norm_le_bound : forall (x : list Q) c n, 0 <= c -> 0 <= n -> n * n == sumsq x ->
  exists y, clip_model (Some n) (vlift x) (Some c) = vlift y /\ sumsq y <= c * c.
Proof. exact clip_norm_le_bound. Qed.

Theorem C07_clip_identity_below_bound : forall (x : list Q) c n, 0 <= c -> 0 <= n -> n <= c ->
  exists y, clip_model (Some n) (vlift x) (Some c) = vlift y /\ y =v= x.
Proof. exact clip_identity_below_bound. Qed.

Theorem C07_clip_keeps_direction : forall (x : list Q) c n, 0 <= c -> 0 <= n ->
  exists y s, clip_model (Some n) (vlift x) (Some c) = vlift y /\ 0 <= s <= 1 /\ (0 < c -> 0 < s) /\
              y =v= vscale s x /\ (c < n -> s == c / n).
Proof. exact clip_keeps_direction. Qed.

(* the remaining translated helpers *)
Theorem C07_tree_weight_is_scale : forall (p : list Q) w,
  tree_weight (vlift p) (Some w) = vlift (rscale w p) /\ rscale w p =v= vscale w p.
Proof. exact tree_weight_is_scale. Qed.

Theorem C07_tree_add_is_vadd : forall a b : list Q, tree_add (vlift a) (vlift b) = vlift (vadd a b).
Proof. exact tree_add_is_vadd. Qed.

Theorem C07_zeros_like : forall x : list Q, tree_zeros_like (vlift x) = vlift (vzero (length x)).
Proof. exact tree_zeros_like_lift. Qed.

(* a non-finite coordinate (None) of ANY input tree, whatever its weight, makes exactly that coordinate of
   tree_sum / tree_mean non-finite: it is never dropped or turned into a finite number *)
Theorem C07_nonfinite_propagates :
  (forall n i trees, (i < n)%nat -> Forall (fun t => length t = n) trees ->
     Exists (fun t => coord i t = None) trees ->
     exists v, tree_sum trees = Some v /\ length v = n /\ coord i v = None) /\
  (forall n i cl, (i < n)%nat -> Forall (fun c => length (fst c) = n) cl ->
     Exists (fun c => coord i (fst c) = None) cl ->
     exists v, tree_mean cl = Some v /\ length v = n /\ coord i v = None).
Proof. exact nonfinite_propagates. Qed.

(* T: both translated inverse-weight guards are WMean.inv_weight (1/w if w > 0 else 0) *)
Theorem C07_inverse_weight_guard : forall (p : list Q) w,
  tree_inverse_weight (vlift p) (Some w) = vlift (rscale (inv_weight w) p) /\
  tree_inverse_weight_eq (vlift p) (Some w) = vlift (rscale (inv_weight w) p).
Proof. exact gen_inverse_weight_spec. Qed.

(* non-vacuity: three clients, one of weight 0; an all-zero-weight cohort; a 3-4-5 clip *)
Example C07_example :
  C07_agree (KMean [([1; 2], 1); ([3; 6], 3); ([100; 100], 0)]) (mkO07 0 (Some (vlift [(10 # 4); 5]))) = true /\
  C07_agree (KMean [([1; 2], 0); ([3; 6], 0)]) (mkO07 0 (Some (vlift [0; 0]))) = true /\
  C07_agree (KMean []) (mkO07 0 None) = true /\
  C07_agree (KSum [[1; 2]; [3; 4]]) (mkO07 0 (Some (vlift [4; 6]))) = true /\
  C07_agree (KClip [3; 4] 1 5) (mkO07 0 (Some (vlift [(3 # 5); (4 # 5)]))) = true /\
  C07_agree (KClip [0; 0] 1 0) (mkO07 0 (Some (vlift [0; 0]))) = true /\
  C07_agree (KClip [0; 0] 0 0) (mkO07 0 (Some (vlift [0; 0]))) = true /\
  C07_agree (KMean [([1; 2], 1)]) (mkO07 0 (Some (vlift [1; 3]))) = false /\
  fst (own_tree_sum [0%nat] (mk_store 1 [])) = Some 1%nat /\
  wf_store (mk_store 1 []).
Proof. vm_compute. repeat split. intros l []. Qed.

(* the hypotheses of the theorems are satisfiable on non-trivial instances *)
Example C07_hypotheses :
  is_l2_norm 5 (vlift [3; 4]) /\ (5 * 5 == sumsq [3; 4]) /\
  Forall (fun c : list Q * Q => 0 <= snd c) [([1; 2], 1); ([3; 6], 0)] /\ 0 < qsum (map snd [([1; 2], 1); ([3; 6], (0 : Q))]) /\
  Exists (fun t => coord 1 t = None) [[Some 1; None]; [Some 2; Some 3]] /\
  C07_agree (KMeanNQ [([Some 1; None], Some 1); ([Some 3; Some 5], Some 1)]) (mkO07 0 (Some [Some 2; None])) = true.
Proof.
  split; [split; [discriminate|reflexivity]|]. split; [reflexivity|]. split; [repeat constructor; discriminate|].
  split; [reflexivity|]. split; [left; reflexivity|vm_compute; reflexivity].
Qed.

Print Assumptions C07_tree_mean_is_wmean.
Print Assumptions C07_zero_total_zero_not_nan.
Print Assumptions C07_order_independent.
Print Assumptions C07_inside_hull.
Print Assumptions C07_tree_sum_is_sum.
Print Assumptions C07_tree_sum_order_independent.
Print Assumptions C07_aggregator_is_tree_mean.
Print Assumptions C07_single_pass.
Print Assumptions C07_inputs_not_donated.
Print Assumptions C07_result_fresh.
Print Assumptions C07_l2_norm_is_sqrt_sumsq.
Print Assumptions C07_clip_norm_le_bound.
Print Assumptions C07_clip_identity_below_bound.
Print Assumptions C07_clip_keeps_direction.
Print Assumptions C07_tree_weight_is_scale.
Print Assumptions C07_tree_add_is_vadd.
Print Assumptions C07_zeros_like.
Print Assumptions C07_nonfinite_propagates.
Print Assumptions C07_inverse_weight_guard.
