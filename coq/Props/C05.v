(* C05 -- Evaluation is invariant to batching and padding (metric monoid).
   Property theorems only; every proof is `exact <lemma>` (Proofs/C05_Proofs.v).
   meanstat_new / merge / reduce / result, sumstat_*, safe_div, mean_metric_zero,
   sum_metric_zero are the definitions translated on this run from
   fedjax/core/metrics.py and fedjax/core/util.py (gen/Gen_metrics.v, gen/Gen_util.v);
   mean_alg / sum_alg package them; evaluate_batch / evaluate_model / evaluator_client are
   metrics.apply_mask + evaluate_batch (gen/Gen_metrics.v) and models._evaluate_model_step,
   evaluate_model, ModelEvaluator's client functions (gen/Gen_models.v), also translated on
   this run, instantiated with the rank-K liftings of Model/C05_Model.v.
   A statistic of rank > 0 (per position, per domain, confusion matrix) is the list of
   its K rank-0 entries.  A batch is (mask or None = no mask key, rows); rows are the per-example statistics
   of ALL rows, real and padding.  Values live in NanQ.t = option Q, None = a non-finite
   float: the rows whose mask bit is false are arbitrary, None included. *)
From Coq Require Import ZArith QArith List Permutation Bool.
From FV Require Import Common.Batch Common.CMonoid Common.NanQ gen.Gen_util gen.Gen_metrics gen.Gen_models
  Model.C05_Model Proofs.C05_Proofs.
Import ListNotations.
Local Open Scope Q_scope.

(* MeanStat.merge is a commutative monoid with identity zero() on the documented domain
   Dmean = {(0,0)} u {(a,b) | b > 0} (finite values): closed, associative, commutative,
   identity -- the fields of `cmonoid_on` -- also lifted pointwise to rank-K statistics;
   on the domain, merge adds the fields *)
Theorem C05_merge_monoid :
  cmonoid_on stat_eq Dmean mmerge mzero /\
  (forall K, cmonoid_on (Forall2 stat_eq) (vecD (D := Dmean) K) (vmerge mean_alg) (vzero mean_alg K)) /\
  (forall p q, qD p -> qD q -> stat_eq (mmerge (qlift p) (qlift q)) (qlift (fst p + fst q, snd p + snd q))).
Proof. exact merge_monoid. Qed.

(* SumStat.merge: commutative monoid on the finite values, identity zero() = 0 *)
Theorem C05_sum_stat_monoid :
  cmonoid_on NanQ.eq NanQ.finite smerge szero /\
  (forall K, cmonoid_on (Forall2 NanQ.eq) (vecD (D := NanQ.finite) K) (vmerge sum_alg) (vzero sum_alg K)) /\
  (forall p q, smerge (Some p) (Some q) = Some (p + q)).
Proof. exact sum_stat_monoid. Qed.

(* MeanStat.new: the result is always in the domain; every finite (a, w) outside the
   domain (w <= 0) becomes the identity (0, 0); inside the domain nothing changes *)
Theorem C05_new_sanitises : forall a w : Q,
  Dmean (meanstat_new (Some a) (Some w)) /\
  (w <= 0 -> stat_eq (meanstat_new (Some a) (Some w)) (Some 0, Some 0)) /\
  (0 < w -> stat_eq (meanstat_new (Some a) (Some w)) (Some a, Some w)).
Proof. exact new_sanitises_all. Qed.

(* for ANY list of batches -- any partition, any batch order, any number of masked rows
   with arbitrary content -- whose real rows are a permutation of `examples` (in-domain
   statistics of rank K): the accumulated statistic is the one-by-one merge of the
   single-example statistics, and so is the result.  First conjunct MeanStat-valued
   metrics, second SumStat-valued ones. *)
Theorem C05_batch_is_fold_of_examples :
  (forall K batches examples,
     Permutation (real_examples batches) examples -> Forall (vecD (D := Dmean) K) examples ->
     Forall2 stat_eq (evaluate_model_stat mean_alg K batches) (merge_examples mean_alg K examples) /\
     Forall2 NanQ.eq (evaluate_model mean_alg K batches) (vresult mean_alg (merge_examples mean_alg K examples))) /\
  (forall K batches examples,
     Permutation (real_examples batches) examples -> Forall (vecD (D := NanQ.finite) K) examples ->
     Forall2 NanQ.eq (evaluate_model_stat sum_alg K batches) (merge_examples sum_alg K examples) /\
     Forall2 NanQ.eq (evaluate_model sum_alg K batches) (vresult sum_alg (merge_examples sum_alg K examples))).
Proof. exact batch_is_fold_of_examples. Qed.

(* consequently two batchings of the same examples give the same results *)
Theorem C05_batchings_agree :
  (forall K batches batches', Permutation (real_examples batches) (real_examples batches') ->
     Forall (vecD (D := Dmean) K) (real_examples batches) ->
     Forall2 NanQ.eq (evaluate_model mean_alg K batches) (evaluate_model mean_alg K batches')) /\
  (forall K batches batches', Permutation (real_examples batches) (real_examples batches') ->
     Forall (vecD (D := NanQ.finite) K) (real_examples batches) ->
     Forall2 NanQ.eq (evaluate_model sum_alg K batches) (evaluate_model sum_alg K batches')).
Proof. exact batchings_agree. Qed.

(* metrics.evaluate_batch alone, with a mask or with mask None *)
Theorem C05_evaluate_batch_is_fold :
  (forall K m rows, Forall (vecD (D := Dmean) K) (strip rows m) ->
     Forall2 stat_eq (evaluate_batch mean_alg K (Some m) rows) (merge_examples mean_alg K (strip rows m))) /\
  (forall K rows, Forall (vecD (D := Dmean) K) rows ->
     Forall2 stat_eq (evaluate_batch mean_alg K None rows) (merge_examples mean_alg K rows)) /\
  (forall K m rows, Forall (vecD (D := NanQ.finite) K) (strip rows m) ->
     Forall2 NanQ.eq (evaluate_batch sum_alg K (Some m) rows) (merge_examples sum_alg K (strip rows m))) /\
  (forall K rows, Forall (vecD (D := NanQ.finite) K) rows ->
     Forall2 NanQ.eq (evaluate_batch sum_alg K None rows) (merge_examples sum_alg K rows)).
Proof. exact evaluate_batch_is_fold. Qed.

(* no batch, or only batches whose rows are all masked (whatever they contain): every
   entry of the result is 0 -- Some 0, never None *)
Theorem C05_empty_is_zero_not_nan :
  (forall K (batches : list (option (list bool) * list (list (NanQ.t * NanQ.t)))),
     Forall (fun b => Forall (fun m => m = false) (mask_of b)) batches ->
     Forall2 NanQ.eq (evaluate_model mean_alg K batches) (repeat (Some 0) K)) /\
  (forall K (batches : list (option (list bool) * list (list NanQ.t))),
     Forall (fun b => Forall (fun m => m = false) (mask_of b)) batches ->
     Forall2 NanQ.eq (evaluate_model sum_alg K batches) (repeat (Some 0) K)).
Proof. exact empty_is_zero_not_nan. Qed.

(* ModelEvaluator (global or per-client params): the translated client_init / client_step /
   client_final, folded over one client's batches, are evaluate_model of those batches, so all the
   statements above hold per client (for_each_client = sequential fold per client is C02) *)
Theorem C05_evaluator_is_evaluate_model :
  (forall K batches, evaluator_client mean_alg K batches = evaluate_model mean_alg K batches) /\
  (forall K batches, evaluator_client sum_alg K batches = evaluate_model sum_alg K batches).
Proof. exact evaluator_client_is_evaluate_model. Qed.

(* a batch without a mask key gets the all-True mask: every row is a real example *)
Theorem C05_no_mask_key_all_real :
  (forall (rows : list (list (NanQ.t * NanQ.t))), real_examples [(None, rows)] = rows) /\
  (forall (rows : list (list NanQ.t)), real_examples [(None, rows)] = rows).
Proof. exact no_mask_key_all_real. Qed.

(* PerDomainMetric (per_domain_example is PerDomainMetric.evaluate_example, translated): merging the wrapper's
   statistics of a set of examples = for every domain d, merging the BASE statistics of the examples of domain d
   (blocks in domain order).  With C05_batch_is_fold_of_examples: evaluate_model of the wrapper is the base metric
   evaluated per domain, for any batching *)
Theorem C05_per_domain_definition :
  (forall Dn K rows, Forall (fun r => vecD (D := Dmean) K (snd r)) rows ->
     Forall2 stat_eq (merge_examples mean_alg (Dn * K) (map (pd_row mean_alg Dn K) rows))
                     (concat (map (fun d => merge_examples mean_alg K (domain_rows d rows)) (seq 0 Dn)))) /\
  (forall Dn K rows, Forall (fun r => vecD (D := NanQ.finite) K (snd r)) rows ->
     Forall2 NanQ.eq (merge_examples sum_alg (Dn * K) (map (pd_row sum_alg Dn K) rows))
                     (concat (map (fun d => merge_examples sum_alg K (domain_rows d rows)) (seq 0 Dn)))).
Proof. exact per_domain_definition. Qed.

(* zero() of every built-in metric class is the identity of its Stat type (mean_metric_zero is
   CrossEntropyLoss.zero, sum_metric_zero is SequenceTokenCount.zero; ConfusionMatrix / PerDomainMetric
   zeros are arrays / broadcasts of these, checked structurally by the anchor) *)
Theorem C05_builtin_zeros :
  zero_Accuracy = mean_metric_zero /\ zero_TopKAccuracy = mean_metric_zero /\
  zero_SequenceTokenCrossEntropyLoss = mean_metric_zero /\ zero_SequenceCrossEntropyLoss = mean_metric_zero /\
  zero_SequenceTokenAccuracy = mean_metric_zero /\ zero_SequenceTokenTopKAccuracy = mean_metric_zero /\
  zero_SequenceTruncationRate = mean_metric_zero /\ zero_SequenceTokenOOVRate = mean_metric_zero /\
  zero_SequenceLength = mean_metric_zero /\
  zero_SequenceCount = sum_metric_zero /\ zero_ConfusionMatrix_entry = sum_metric_zero.
Proof. exact builtin_zeros. Qed.

(* result() on the domain: accum / weight, 0 when the weight is 0 (safe_div) *)
Theorem C05_result_on_domain : forall a w, qD (a, w) ->
  NanQ.eq (sa_result mean_alg (qlift (a, w))) (Some (if Qeq_bool w 0 then 0 else a / w)).
Proof. exact mean_result_on_domain. Qed.

(* non-vacuity: accuracy-like statistics, 3 real examples in two padded batches whose
   padding rows hold NaN; a fully masked batch; out-of-domain values sanitised *)
Example C05_example :
  C05_agree (CMean ApiModel 1
      [(Some [true; false; true], [[(Some 1, Some 1)]; [(None, None)]; [(Some 0, Some 1)]]);
       (Some [false; true], [[(None, Some 5)]; [(Some 1, Some 1)]])])
    (mkO05 0 [Some (2 # 3)] None) = true /\
  C05_agree (CMean ApiEvaluator 1 [(None, [[(Some 1, Some 1)]; [(Some 0, Some 1)]])]) (mkO05 0 [Some (1 # 2)] None) = true /\
  C05_agree (CMean ApiModel 2 [(Some [false], [[(None, None); (Some 7, Some 1)]])]) (mkO05 0 [Some 0; Some 0] None) = true /\
  C05_agree (CSum ApiModel 1 [(Some [true; true], [[Some 2]; [Some 3]]); (None, [])]) (mkO05 0 [Some 5] None) = true /\
  C05_agree (CSum ApiBatch 1 [(None, [[Some 2]; [Some 3]])]) (mkO05 0 [Some 5] (Some [Some 5])) = true /\
  C05_agree (CNew (Some 5) (Some (-1))) (mkO05 0 [] (Some [Some 0; Some 0])) = true /\
  C05_agree (CMean ApiModel 1 [(Some [true], [[(Some 1, Some 1)]])]) (mkO05 0 [Some 0] None) = false /\
  C05_agree (CMeanPD 2 1 [(1%nat, [(Some 1, Some 1)]); (0%nat, [(Some 0, Some 1)]); (1%nat, [(Some 0, Some 1)])])
    (mkO05 0 [Some 0; Some (1 # 2)] None) = true /\
  Dmean (qlift (1, 1)) /\ qD (0, 0).
Proof.
  vm_compute. repeat split; try (left; split; reflexivity).
  exists (1, 1). split; [reflexivity|right; reflexivity].
Qed.

Print Assumptions C05_merge_monoid.
Print Assumptions C05_sum_stat_monoid.
Print Assumptions C05_new_sanitises.
Print Assumptions C05_batch_is_fold_of_examples.
Print Assumptions C05_batchings_agree.
Print Assumptions C05_evaluate_batch_is_fold.
Print Assumptions C05_empty_is_zero_not_nan.
Print Assumptions C05_evaluator_is_evaluate_model.
Print Assumptions C05_no_mask_key_all_real.
Print Assumptions C05_per_domain_definition.
Print Assumptions C05_builtin_zeros.
Print Assumptions C05_result_on_domain.
