(* C09 -- An interrupted experiment resumes to the uninterrupted result.
   Property theorems only; every proof is `exact <lemma>` (Proofs/C09_Proofs.v).

   `run`, `history`, `save_events` (Model/C09_Model.v) are the effect sequences of
   run_federated_experiment / save_checkpoint as the harness observes them; the name
   format, name filter, numeric sort key, retention slice, restart round, round range
   and due-predicates inside them are the functions translated on this run from
   fedjax/training/checkpoint.py and federated_experiment.py (gen/).

   Section variables (they appear as premises of every theorem):
     step       one round: state after training on the cohort the sampler draws for
                round k -- "round-deterministic algorithm + round-indexed sampler" (C10, C13)
     load_save  load_state (save_state s) = s (C16)
     cf         the configuration, with 0 <= num_rounds < 10^8 and keep >= 1
   A crash is a truncation of the effect sequence; `reachable d` = d is the content of
   the experiment directory after any number of calls each killed at any effect index
   (or left to complete), starting from any `fresh` directory: no name in it passes the checkpoint
   filter (near misses such as checkpoint_1 or checkpoint_000000011 are allowed) and it holds no
   final-evaluation file yet; the empty directory is fresh. *)
From Coq Require Import ZArith List Bool.
From FV Require Import Common.PySem Common.PyStr Common.AtomFS gen.Gen_checkpoint gen.Gen_federated_experiment gen.Gen_state_io
  Model.C09_Model Proofs.C09_Proofs.
Import ListNotations.
Local Open Scope Z_scope.

Section C09.
Context {S B : Type} (step : S -> Z -> S) (init : S) (save : S -> B) (load : B -> S) (tsv : Z -> S -> Z -> B).
Hypothesis load_save : forall s, load (save s) = s.
Variable cf : C09_cfg.
Hypothesis HR : 0 <= c_R cf < 10 ^ 8.
Hypothesis Hkeep : 1 <= c_keep cf.

Notation reachable := (reachable step init save load tsv cf).
Notation run := (run step init save load tsv cf).
Notation history := (history step init save load tsv cf).
Notation state_at := (state_at step init).
Notation fresh := (@fresh B).

(* a file visible under a name that passes the checkpoint filter is never torn, at any crash point *)
Theorem C09_visible_checkpoint_complete : forall d, reachable d ->
  no_torn_final str_eqb (ckpt_path_matches base) d.
Proof. exact (visible_complete step init save load tsv load_save cf HR). Qed.

(* the file named checkpoint_<r> holds the state after r rounds of the uninterrupted experiment *)
Theorem C09_checkpoint_holds_round_state : forall d, reachable d -> forall r c, 0 <= r < 10 ^ 8 ->
  lookup str_eqb d (checkpoint_path base r) = Some c -> c = Whole (save (state_at r)) /\ r <= c_R cf.
Proof. exact (holds_round_state step init save load tsv load_save cf HR). Qed.

(* load_latest_checkpoint never raises and picks a file whose NUMERIC round is maximal
   among all names that pass the filter (for every directory listing) *)
Theorem C09_newest_wins : forall l : list str, exists sel, load_latest_select base l = Some sel /\
  match sel with
  | None => forall n, In n l -> ckpt_path_matches base n = false
  | Some (p, r) => In p l /\ ckpt_path_matches base p = true /\ ckpt_sort_key base p = Some r /\
      forall n r', In n l -> ckpt_path_matches base n = true -> ckpt_sort_key base n = Some r' -> r' <= r
  end.
Proof. exact newest_wins. Qed.

(* right after every completed save_checkpoint of every run at most `keep` names pass the filter *)
Theorem C09_retention : forall d tr s r, reachable d -> run d = Some (tr, s, r) ->
  forall m r', nth_error tr m = Some (ESaved r') ->
    (length (filter (ckpt_path_matches base) (names (apply_evs d (firstn (Datatypes.S m) tr)))) <= Z.to_nat (c_keep cf))%nat.
Proof. exact (retention step init save load tsv load_save cf HR Hkeep). Qed.

(* for every crash sequence (indices beyond the end of a run = restart after completion,
   indices inside the final evaluation included) the last call returns the state of the
   uninterrupted run, evaluates at the same round number, and leaves the same complete tsv files *)
Theorem C09_resume_equals_uninterrupted : forall d0 (ks : list nat), fresh d0 -> exists ds tr df tr0 df0,
  history d0 ks = Some (ds, tr, df, state_at (c_R cf), c_R cf) /\
  history d0 [] = Some ([], tr0, df0, state_at (c_R cf), c_R cf) /\
  forall i, (i < c_nev cf)%nat ->
    lookup str_eqb df (tsv_name (Z.of_nat i)) = Some (Whole (tsv (Z.of_nat i) (state_at (c_R cf)) (c_R cf))) /\
    lookup str_eqb df0 (tsv_name (Z.of_nat i)) = lookup str_eqb df (tsv_name (Z.of_nat i)).
Proof. exact (resume_equals_uninterrupted step init save load tsv load_save cf HR). Qed.

(* the recovery run is never stuck: from every reachable directory the call completes *)
Theorem C09_rerun_completes : forall d, reachable d ->
  exists tr, run d = Some (tr, state_at (c_R cf), c_R cf).
Proof. exact (rerun_completes step init save load tsv load_save cf HR). Qed.

(* the final-evaluation files are written in place (open, two writes, close): in every reachable
   directory -- in particular after a crash anywhere in the final evaluation -- <eval i>.tsv is absent,
   torn, or complete with exactly the uninterrupted run's content; C09_resume_equals_uninterrupted
   adds that the completing re-run leaves every one of them complete *)
Theorem C09_tsv_absent_torn_or_correct : forall d, reachable d -> forall i c,
  lookup str_eqb d (tsv_name i) = Some c -> c = Torn \/ c = Whole (tsv i (state_at (c_R cf)) (c_R cf)).
Proof. exact (reachable_tsv_ok step init save load tsv load_save cf HR). Qed.

(* every directory a history passes through is reachable (so the theorems above apply to it) *)
Theorem C09_history_dirs_reachable : forall d0 ks ds tr df s r, fresh d0 ->
  history d0 ks = Some (ds, tr, df, s, r) -> Forall reachable ds /\ reachable df.
Proof. exact (history_dirs_reachable step init save load tsv cf). Qed.

(* the strict name filter: a file whose name does not pass the filter and is none of the names the
   experiment itself uses (checkpoint_<8 digits>, its .tmp, <eval>.tsv) is never created, changed,
   renamed or removed by any run, at any crash point -- from ANY directory *)
Theorem C09_foreign_files_untouched : forall n d tr s r m,
  ckpt_path_matches base n = false -> (forall k, n <> checkpoint_path base k) ->
  (forall k, n <> tmp_path (checkpoint_path base k)) -> (forall i, n <> tsv_name i) ->
  run d = Some (tr, s, r) -> lookup str_eqb (apply_evs d (firstn m tr)) n = lookup str_eqb d n.
Proof. exact (fun n d tr s r m H1 H2 H3 H4 => foreign_untouched step init save load tsv cf n d tr s r m (conj H1 (conj H2 (conj H3 H4)))). Qed.

(* from ANY directory in which no checkpoint name is torn (not only reachable ones): the run's
   file-system steps follow the rename discipline of Common/AtomFS.v (a checkpoint name is
   never opened for writing, only a closed temporary is renamed onto it), hence by
   tmp_then_rename_atomic no crash point shows a torn checkpoint *)
Theorem C09_run_follows_rename_discipline : forall d tr s r, run d = Some (tr, s, r) ->
  disciplined_run str_eqb (ckpt_path_matches base) d (map (@fs_step B) tr).
Proof. exact (DR_run step init save load tsv cf). Qed.

Theorem C09_run_never_tears : forall d tr s r k, run d = Some (tr, s, r) ->
  no_torn_final str_eqb (ckpt_path_matches base) d ->
  no_torn_final str_eqb (ckpt_path_matches base) (apply_evs d (firstn k tr)).
Proof. exact (run_never_tears step init save load tsv cf). Qed.

End C09.

(* save_state / load_state are plain pickle.dump / pickle.load of the caller's object (recognised on this run,
   fail-closed): what the hypothesis load_save stands for *)
Theorem C09_state_io_anchored : save_state_is_plain_pickle = true /\ load_state_is_plain_unpickle = true.
Proof. exact state_io_anchored. Qed.

(* recognised on this run (fail-closed): checkpoint.py and run_federated_experiment use no hash(), id(), uuid,
   random, os.environ, pid; the clock only flows into logged durations -- so a resumed call in a NEW process (other
   PYTHONHASHSEED) is the same function of the directory *)
Theorem C09_code_is_process_independent :
  checkpoint_code_is_process_independent = true /\ Gen_federated_experiment.experiment_loop_is_process_independent = true.
Proof. exact process_independent. Qed.

(* the empty directory and the harness's directory of near-miss names are fresh *)
Theorem C09_fresh_examples : @Proofs.C09_Proofs.fresh (list Z) [] /\ @Proofs.C09_Proofs.fresh (list Z) foreign_dir.
Proof. exact fresh_examples. Qed.

(* the state after R uninterrupted rounds is `iter step R init` *)
Theorem C09_state_at_is_iter : forall {S} (step : S -> Z -> S) init (n : nat),
  state_at step init (Z.of_nat n) = iter_step step init n /\
  iter_step step init (Datatypes.S n) = step (iter_step step init n) (Z.of_nat (Datatypes.S n)).
Proof. intros. unfold state_at. rewrite Nat2Z.id. split; reflexivity. Qed.

(* the generic rename discipline of Common/AtomFS.v that the checkpoint writer follows *)
Theorem C09_tmp_then_rename_atomic : forall (final : str -> bool) (l : list (@AtomFS.step str (list Z))) d k,
  no_torn_final str_eqb final d -> disciplined_run str_eqb final d l ->
  no_torn_final str_eqb final (AtomFS.run str_eqb d (crash k l)).
Proof. exact (tmp_then_rename_atomic str_eqb str_eqb_spec). Qed.

(* non-vacuity: the toy experiment of the harness, 5 rounds, checkpoint every 2nd round, keep 2,
   killed inside the write of checkpoint 4 (effect 24), then inside the final evaluation, then after
   completion: same state and round number as the uninterrupted run, which is 5 rounds of toy_step *)
Example C09_example :
  let c := fun ks => mkC09 5 2 2 1 2 [3; 1; 4; 1; 5] ks true in
  match C09_history (c [24%nat; 40%nat; 99%nat]), C09_history (c []) with
  | Some (ds, _, df, s, r), Some (_, _, df0, s0, r0) =>
      s = s0 /\ r = r0 /\ r = 5 /\ s = iter_step (toy_step [3; 1; 4; 1; 5]) (0, 0) 5 /\
      length ds = 3%nat /\ map fst df <> map fst df0 (* the retained checkpoints may differ: 5, 4 vs 4, 2 *) /\
      lookup str_eqb df (tsv_name 1) = lookup str_eqb df0 (tsv_name 1)
  | _, _ => False
  end.
Proof. vm_compute. repeat split; discriminate. Qed.

(* the hypotheses are satisfiable: the harness's toy serialization round-trips *)
Example C09_hypotheses_satisfiable : (forall s, toy_load (toy_save s) = s) /\ 0 <= 6 < 10 ^ 8.
Proof. split; [intros [c h]; reflexivity|vm_compute; split; [intro H; discriminate H|reflexivity]]. Qed.

Print Assumptions C09_visible_checkpoint_complete.
Print Assumptions C09_checkpoint_holds_round_state.
Print Assumptions C09_newest_wins.
Print Assumptions C09_retention.
Print Assumptions C09_resume_equals_uninterrupted.
Print Assumptions C09_rerun_completes.
Print Assumptions C09_tsv_absent_torn_or_correct.
Print Assumptions C09_history_dirs_reachable.
Print Assumptions C09_run_follows_rename_discipline.
Print Assumptions C09_run_never_tears.
Print Assumptions C09_foreign_files_untouched.
Print Assumptions C09_state_io_anchored.
Print Assumptions C09_code_is_process_independent.
Print Assumptions C09_fresh_examples.
Print Assumptions C09_state_at_is_iter.
Print Assumptions C09_tmp_then_rename_atomic.
