(* C16 -- Serialization round-trips every supported value exactly.
   Property theorems only; every proof is `exact <lemma>` (Proofs/C16_Proofs.v).
   `encode` / `decode` INTERPRET the tables translated on this run from
   fedjax/core/serialization.py (gen/Gen_serialization.v: ext-type codes, the isinstance chain of
   _msgpack_ext_pack in source order, the steps of _ndarray_to_bytes, tuple layouts, decoders;
   (shape, dtype name, C-order bytes) triples, bytes-object arrays as (shape, flat list));
   these are the definitions the correspondence check evaluates on the real inputs.
   Trusted inverse pairs: msgpack on the document tree, numpy tobytes('C')/frombuffer,
   zlib, pickle, SQLite row order. *)
From Coq Require Import ZArith List Bool.
From FV Require Import Common.SerTags Model.C16_Model Proofs.C16_Proofs.
Import ListNotations.
Local Open Scope Z_scope.

(* every supported value (nested dict/list of numeric / bool arrays of any layout and
   byte order, jax arrays, bytes-object arrays, numpy scalars, python scalars in
   msgpack's integer domain, complex) decodes to its canonical form *)
Theorem C16_roundtrip_supported : forall v, wf v = true -> supported v = true ->
  roundtrip v = Some (canon v).
Proof. exact roundtrip_supported. Qed.

(* ... and the canonical form of an array has the same dtype, shape and logical
   (row-major) values, in native byte order *)
Theorem C16_canonical_array_same_content : forall a,
  a_dt (astype_native a) = a_dt a /\ a_shape (astype_native a) = a_shape a /\
  a_order (astype_native a) = Native /\ logical (astype_native a) = logical a.
Proof. exact content_preserved. Qed.

(* the logical content of the C-contiguous array that decode builds is exactly the
   decoded element list (row-major addressing) *)
Theorem C16_c_order_is_row_major : forall d shape els, length els = prod shape ->
  logical (mk_carr d shape els) = els.
Proof. exact logical_carr. Qed.

(* leaves outside the supported set (tuples, sets, string / void / structured arrays and
   scalars, object arrays holding a non-bytes item, python ints outside msgpack's range)
   are rejected, while serialising or while deserialising *)
Theorem C16_unsupported_rejected : forall v, wf v = true -> supported v = false -> roundtrip v = None.
Proof. exact unsupported_rejected. Qed.

(* nothing ever comes back altered: whenever both directions succeed the value was
   supported and the result is its canonical form *)
Theorem C16_never_altered : forall v v', wf v = true -> roundtrip v = Some v' ->
  supported v = true /\ v' = canon v.
Proof. exact never_altered. Qed.

(* finite sweep over the type-tag grid (15 dtypes x byte order, jax, numpy scalars,
   object arrays, other dtypes x hasobject x aligned x empty, python scalars,
   containers): each tag takes the expected ext-type branch and round-trips or is
   rejected as the general theorems say *)
Theorem C16_dispatch_total : forall t, In t all_tags -> tag_ok t = true.
Proof. exact dispatch_total. Qed.

(* SQLite builder -> reader: ids in insertion order, sizes = number of examples,
   examples = canonical form of what was written *)
Theorem C16_sqlite_roundtrip : forall cs, forallb client_ok cs = true ->
  exists db, db_build cs = Some db /\ db_ids db = map fst cs /\
    Forall2 (fun c r => r_id r = fst c /\ num_examples (snd (snd c)) = Some (r_n r)) cs db /\
    db_clients db = Some (map (fun c => (fst c, canon (client_value c))) cs).
Proof. exact sqlite_roundtrip. Qed.

(* checkpoints: after save_checkpoint(state s, round r, keep >= 1) into a directory whose
   rounds are all <= r -- including a directory that ALREADY holds round r, with any state --
   the call succeeds and load_latest_checkpoint returns (s, r): the last save wins.
   `ck_save` interprets the effect sequence translated from save_checkpoint
   (write .tmp, rename over the final name with overwrite, remove all but the last `keep`). *)
Theorem C16_checkpoint_last_save_wins : forall d r s keep, 1 <= keep -> Forall (fun e => fst e <= r) d ->
  exists d', ck_save d r s keep = Some d' /\ ck_load d' = Some (r, s).
Proof. exact checkpoint_last_save_wins. Qed.

(* the translated tables are mutually consistent: what _ndarray_to_bytes / _bytes_ndarray_to_bytes
   pack is what _ndarray_from_bytes / _object_ndarray_from_bytes unpack, field by field, and every
   ext code a pack branch emits has its decoder *)
Theorem C16_tables_consistent :
  ndarray_tuple_fields = ndarray_unpack_fields /\ bytes_tuple_fields = bytes_unpack_fields /\
  forallb (fun b => existsb (fun u => fst u =? snd (fst b)) unpack_dispatch) pack_dispatch = true /\
  serialize_strict_types = true.
Proof. exact tables_consistent. Qed.

(* the round trip applied twice: the decoded value is supported again, is its own canonical form and
   round-trips to itself (re-serialising what was loaded loses nothing) *)
Theorem C16_roundtrip_idempotent : forall v, wf v = true -> supported v = true ->
  roundtrip (canon v) = Some (canon v) /\ canon (canon v) = canon v /\ supported (canon v) = true.
Proof. exact roundtrip_idempotent. Qed.

(* the SQLite schema as translated: the INSERT tuple order is the CREATE TABLE column order, the
   three listings select the columns they yield, rowid order, a fresh cursor per query *)
Theorem C16_sqlite_schema_consistent :
  builder_tuple = table_columns /\ table_columns = [ColId; ColData; ColCount] /\
  select_ids_cols = [ColId] /\ select_sizes_cols = [ColId; ColCount] /\ select_clients_cols = [ColId; ColData] /\
  sqlite_row_is_id_blob_count = true /\ sqlite_reads_in_rowid_order = true /\ sqlite_fresh_cursor_per_query = true /\
  sqlite_views_forward_constructor_arguments = true.
Proof. exact sqlite_schema_consistent. Qed.

(* recognised on this run: serialization.py uses no hash(), id(), time, uuid, random, os.environ: the bytes written
   are a function of the value alone (exercised across processes: kind handover) *)
Theorem C16_serialization_process_independent : serialization_has_no_process_dependent_input = true.
Proof. exact serialization_process_independent. Qed.

(* non-vacuity: a byte-swapped, reversed int16 view inside a dict, next to a bytes
   array, a numpy scalar and a big python int *)
Example C16_example :
  let v := VDict [[120]; [121]; [122]; [119]]
                 [VArr (mkArr I16 Swapped [3%nat] [-1] 2 [513; 2; 65535]);
                  VObj [2%nat] [OBytes []; OBytes [0; 255]]; VNpScalar F16 32768; VInt (2 ^ 64 - 1)] in
  wf v = true /\ supported v = true /\
  roundtrip v = Some (VDict [[120]; [121]; [122]; [119]]
                            [VArr (mk_carr I16 [3%nat] [65535; 2; 513]);
                             VObj [2%nat] [OBytes []; OBytes [0; 255]]; VNpScalar F16 32768; VInt (2 ^ 64 - 1)]) /\
  roundtrip (VList [VTuple []]) = None /\ roundtrip (VInt (2 ^ 64)) = None /\
  ck_run [CkSave 0 1 1; CkSave 0 2 1; CkLoad; CkSave 5 3 2; CkSave 3 4 2; CkLoad; CkSave 5 6 1; CkLoad] [] =
    Some [Some (0, 2); Some (5, 3); Some (5, 6)].
Proof. vm_compute. repeat split. Qed.

Print Assumptions C16_roundtrip_supported.
Print Assumptions C16_canonical_array_same_content.
Print Assumptions C16_c_order_is_row_major.
Print Assumptions C16_unsupported_rejected.
Print Assumptions C16_never_altered.
Print Assumptions C16_dispatch_total.
Print Assumptions C16_sqlite_roundtrip.
Print Assumptions C16_checkpoint_last_save_wins.
Print Assumptions C16_tables_consistent.
Print Assumptions C16_roundtrip_idempotent.
Print Assumptions C16_sqlite_schema_consistent.
Print Assumptions C16_serialization_process_independent.
