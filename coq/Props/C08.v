(* C08 -- All federated-dataset implementations expose the same mapping.
   Property theorems only; every proof is `exact <lemma>` (Proofs/C08_Proofs.v).

   `impl_run p ds ops` runs one of the four implementation pipelines (in-memory, SQLite,
   subset-wrapped over each) of Model/C08_Model.v -- the definitions C08_agree evaluates
   against the real code -- on the logical dataset `ds` (ids in insertion order) and the
   operation sequence `ops`.  Their slice filter / range intersection / WHERE predicate /
   point-lookup range test are the functions translated on this run from
   federated_data.py, in_memory_federated_data.py and sqlite_federated_data.py (gen/).
   `spec_run` is the abstract view: ranges and subsets requested, the two chains. *)
From Coq Require Import ZArith NArith List Bool Permutation.
From FV Require Import Common.Bytes Common.PyIter Model.C08_Model Proofs.C08_Proofs.
From FV Require Import gen.Gen_client_datasets_pre gen.Gen_federated_data gen.Gen_in_memory_federated_data gen.Gen_sqlite_federated_data.
Import ListNotations.
Local Open Scope Z_scope.

(* For every dataset with distinct ids, every operation sequence and every implementation:
   the run succeeds, refuses exactly the subsets the abstract view refuses, and every
   observation equals the abstract view's: the number of clients; client_ids / client_sizes /
   clients enumerate exactly the view's ids (each once, in an implementation-chosen order `o`,
   `bsort o` = the view's sorted ids) with the stored sizes and the preprocessed datasets;
   client_size, get_client, get_clients agree on EVERY id and EVERY request. *)
Theorem C08_impls_refine_spec : forall (ds : list (bytes * list Z)) (ops : list op) (p : pipeline),
  NoDup (map fst ds) ->
  exists d fl, impl_run p ds ops = Some (d, fl) /\
    snd (spec_run ds view0 ops) = fl /\
    let v := fst (spec_run ds view0 ops) in
    fd_num d = Val (spec_num ds v) /\
    (exists o, fd_ids d = Val o /\ bsort o = spec_ids ds v) /\
    (exists o, fd_sizes d = Val (map (fun i => (i, spec_size_of ds i)) o) /\ bsort o = spec_ids ds v) /\
    (exists o, fd_clients d = (map (fun i => (i, spec_dataset_of ds v i)) o, Done) /\ bsort o = spec_ids ds v) /\
    (forall i, fd_size d i = spec_size ds v i) /\
    (forall i, fd_get d i = spec_get ds v i) /\
    (forall req, fd_gets d req = spec_gets ds v req).
Proof. exact impls_refine_spec. Qed.

(* slicing never enlarges a view *)
Theorem C08_slice_never_enlarges : forall (ds : list (bytes * list Z)), NoDup (map fst ds) ->
  forall p ops s e,
  exists o o', ids_of p ds ops = Some o /\ ids_of p ds (ops ++ [OSlice s e]) = Some o' /\
    incl o' o /\ (length o' <= length o)%nat.
Proof. exact slice_never_enlarges. Qed.

(* the range is half open; start >= stop gives the empty view; nested slices intersect *)
Theorem C08_range_is_half_open : forall (ds : list (bytes * list Z)), NoDup (map fst ds) ->
  forall p ops s e,
  exists o o', ids_of p ds ops = Some o /\ ids_of p ds (ops ++ [OSlice s e]) = Some o' /\
    (forall i, In i o' <-> In i o /\ in_range (s, e) i = true) /\
    (forall s0 e0, s = Some s0 -> e = Some e0 -> bleb e0 s0 = true -> o' = []) /\
    (forall s2 e2, exists o2 oi,
        ids_of p ds (ops ++ [OSlice s e; OSlice s2 e2]) = Some o2 /\
        ids_of p ds (ops ++ [OSlice (omax s s2) (omin e e2)]) = Some oi /\
        (forall i, In i o2 <-> In i oi) /\
        (forall i, In i o2 <-> In i o /\ in_range (s, e) i = true /\ in_range (s2, e2) i = true)).
Proof. exact range_is_half_open. Qed.

(* ids outside the view raise KeyError on every point access path; ids inside never do *)
Theorem C08_outside_view_keyerror : forall (ds : list (bytes * list Z)), NoDup (map fst ds) ->
  forall p ops,
  exists d fl o, impl_run p ds ops = Some (d, fl) /\ fd_ids d = Val o /\
    (forall i, ~ In i o ->
       fd_get d i = KeyErr /\ fd_size d i = KeyErr /\
       (forall req, In i req -> snd (fd_gets d req) = EKey)) /\
    (forall i, In i o -> (exists dd, fd_get d i = Val dd) /\ (exists z, fd_size d i = Val z)).
Proof. exact outside_view_keyerror. Qed.

(* preprocessors: client-level before batch-level, each chain in registration order *)
Theorem C08_preprocess_order : forall (ds : list (bytes * list Z)), NoDup (map fst ds) ->
  forall p ops,
  exists d fl o, impl_run p ds ops = Some (d, fl) /\ fd_ids d = Val o /\
    forall i r, In i o -> In (i, r) ds ->
      fd_get d i = Val (run_c i (ops_c ops) r, ops_b ops) /\
      observe (run_c i (ops_c ops) r, ops_b ops) =
        (run_c i (ops_c ops) r, run_b (ops_b ops) (run_c i (ops_c ops) r)).
Proof. exact preprocess_order. Qed.

(* registration order means: the function registered last is applied last *)
Theorem C08_chain_append : forall i cs f bs g r,
  run_c i (cs ++ [f]) r = app_c i f (run_c i cs r) /\ run_b (bs ++ [g]) r = app_b g (run_b bs r).
Proof. exact chain_append. Qed.

(* the TRANSLATED ClientPreprocessor / BatchPreprocessor / ClientDataset.all_examples (gen/): append
   adds at the end of the chain and __call__ applies the chain from the left, for any functions *)
Theorem C08_translated_chains : forall {F G E : Type} (applyc : F -> bytes -> E -> E) (applyb : G -> E -> E),
  (forall (fns : list F) fn, client_preprocessor_append fns fn = fns ++ [fn]) /\
  (forall (fns : list G) fn, batch_preprocessor_append fns fn = fns ++ [fn]) /\
  (forall fns i ex, client_preprocessor_call applyc fns i ex = fold_left (fun out f => applyc f i out) fns ex) /\
  (forall fns ex, batch_preprocessor_call applyb fns ex = fold_left (fun out f => applyb f out) fns ex) /\
  (forall raw pre, client_dataset_all_examples applyb raw pre = fold_left (fun out f => applyb f out) pre raw).
Proof. exact @translated_chains. Qed.

(* each pass of shuffled_clients visits every client of the view exactly once, with its
   preprocessed dataset, for every buffer size >= 1 and every outcome of the random draws
   (code = Lehmer code of rng.shuffle(buf), draws = rng.randint(buffer_size) values, each >= -B);
   buffered_shuffle is the mirror proved a permutation in C15 (C15_buffered_shuffle_perm) *)
Theorem C08_shuffled_pass_visits_each_once : forall (ds : list (bytes * list Z)), NoDup (map fst ds) ->
  forall p ops B code draws, 1 <= B -> Forall (fun dd => - B <= dd) draws ->
  exists d fl out, impl_run p ds ops = Some (d, fl) /\
    fd_shuffled_pass d B code draws = Some out /\
    Permutation out (spec_clients ds (fst (spec_run ds view0 ops))).
Proof. exact shuffled_pass_visits_each_once. Qed.

(* iteration order is deterministic: client_ids() and clients() enumerate the view in an order that is
   a function of (dataset, operations) alone -- sorted by id for the in-memory and subset-wrapped
   datasets, insertion (rowid) order for a bare SQLite dataset *)
Theorem C08_iteration_order : forall (ds : list (bytes * list Z)), NoDup (map fst ds) ->
  forall p ops,
  exists d fl, impl_run p ds ops = Some (d, fl) /\
    let v := fst (spec_run ds view0 ops) in
    let order := if top_is_sql d then filter (visible v) (map fst ds) else spec_ids ds v in
    fd_ids d = Val (if top_is_sql d then order else spec_ids ds v) /\
    map fst (fst (fd_clients d)) = order /\ snd (fd_clients d) = Done.
Proof. exact iteration_order. Qed.

(* handing the whole chains to the constructors (InMemoryFederatedData(mapping, ClientPreprocessor(fns),
   BatchPreprocessor(gns)), SQLiteFederatedData(conn, parse, None, None, ..)) and applying only the
   slices / subsets afterwards is observationally the dataset obtained by registering them one by one
   at any points of the operation sequence (obs_equiv: every observation equals the abstract view's) *)
Theorem C08_ctor_chain_equiv : forall (ds : list (bytes * list Z)), NoDup (map fst ds) ->
  forall ops (sql : bool),
  let d0 := if sql then Sql ds None None (ops_c ops) (ops_b ops) else Mem ds (ops_c ops) (ops_b ops) in
  exists d fl, fd_run d0 (view_ops ops) = Some (d, fl) /\ obs_equiv ds (fst (spec_run ds view0 ops)) d.
Proof. exact ctor_chain_equiv. Qed.

(* the TRANSLATED SQL statements / cursor loops / generator loops / shuffle bodies (gen/) in closed form:
   range SELECTs list exactly the rows inside [start, stop) in table order; point lookups test the
   range, then the key; get_clients walks the request in order; the subset wrapper raises KeyError at
   the first foreign id and filters sizes; a shuffled pass is one shuffle of the source *)
Theorem C08_translated_methods : forall st sp (tbl : list (bytes * list Z)) cs bs,
  let rows := filter (fun kv => in_range (st, sp) (fst kv)) tbl in
  sqlite_num_clients st sp tbl = Some (Z.of_nat (length rows)) /\
  sqlite_client_ids st sp tbl = Some (map fst rows) /\
  sqlite_client_sizes col_num_examples st sp tbl = Some (map (fun kv => (fst kv, stored_len (snd kv))) rows) /\
  sqlite_read_clients col_data st sp tbl = Some (map (fun kv => (fst kv, snd kv)) rows) /\
  (forall i, sqlite_client_size col_num_examples st sp tbl i =
             if in_range (st, sp) i then match bassoc i tbl with Some r => Val (stored_len r) | None => KeyErr end else KeyErr) /\
  (forall i, sqlite_get_client col_data (sql_dataset_of cs bs) st sp tbl i =
             if in_range (st, sp) i then match bassoc i tbl with Some r => Val (client_dataset i cs bs r) | None => KeyErr end else KeyErr) /\
  (forall get req, in_memory_get_clients get req = gets get req) /\
  (forall get req, sqlite_get_clients get req = gets get req) /\
  (forall ids get req, (forall i, get i <> Crash) ->
     subset_get_clients ids (gets get req) = gets (fun i => if bmem i ids then get i else KeyErr) req) /\
  (forall ids (l : list (bytes * Z)), subset_client_sizes ids l = filter (fun kv => bmem (fst kv) ids) l) /\
  (forall S (shuffle : list S -> option (list S)) l,
     in_memory_shuffled_pass shuffle l = shuffle l /\ subset_shuffled_pass shuffle l = shuffle l).
Proof. exact translated_methods. Qed.

(* deriving a view never changes its parent: the child is a function of the parent's value,
   and the parent is the run of the prefix whatever is derived afterwards *)
Theorem C08_derive_is_persistent : forall p ds ops more d' fl',
  impl_run p ds (ops ++ more) = Some (d', fl') ->
  exists d fl fl2, impl_run p ds ops = Some (d, fl) /\ fd_run d more = Some (d', fl2) /\ fl' = fl ++ fl2.
Proof. exact derive_is_persistent. Qed.

(* bulk get: request order, repetitions kept; KeyError exactly at the first id outside the view *)
Theorem C08_get_clients_request_order : forall (ds : list (bytes * list Z)), NoDup (map fst ds) ->
  forall p ops,
  exists d fl o (g : bytes -> dataset), impl_run p ds ops = Some (d, fl) /\ fd_ids d = Val o /\
    (forall i, In i o -> fd_get d i = Val (g i)) /\
    (forall req, (forall i, In i req -> In i o) -> fd_gets d req = (map (fun i => (i, g i)) req, Done)) /\
    (forall pre i post, (forall j, In j pre -> In j o) -> ~ In i o ->
       fd_gets d (pre ++ i :: post) = (map (fun j => (j, g j)) pre, EKey)).
Proof. exact get_clients_request_order. Qed.

(* the iteration order of the in-memory dict / of a python set is unobservable: two tables that
   are permutations of one another answer every query identically and slice to the SAME table *)
Theorem C08_mem_dict_order_irrelevant : forall tbl tbl' cs bs,
  NoDup (map fst tbl) -> Permutation tbl tbl' ->
  let d := Mem tbl cs bs in let d' := Mem tbl' cs bs in
  fd_num d = fd_num d' /\ fd_ids d = fd_ids d' /\ fd_sizes d = fd_sizes d' /\ fd_clients d = fd_clients d' /\
  (forall i, fd_size d i = fd_size d' i /\ fd_get d i = fd_get d' i) /\
  (forall req, fd_gets d req = fd_gets d' req) /\
  (forall s e, fd_slice d s e = fd_slice d' s e).
Proof. exact mem_dict_order_irrelevant. Qed.

(* the order of ids (python bytes = SQLite BLOB order) is total; prefixes and trailing zero bytes *)
Theorem C08_bytes_order_total :
  (forall a b, bleb a b = true \/ bleb b a = true) /\
  (forall a b, bleb a b = true -> bleb b a = true -> a = b) /\
  (forall a b c, bleb a b = true -> bleb b c = true -> bleb a c = true) /\
  (forall a b, bltb a b = negb (bleb b a)) /\
  (forall a x t, bltb a (a ++ x :: t) = true) /\
  (forall a c, bltb a c = true -> bltb c (a ++ [0%N]) = true -> False) /\
  (forall a, bleb [] a = true).
Proof. exact bytes_order_total. Qed.

(* non-vacuity: ids a, a\0, a\0\0, the empty id and \xff in insertion order; slice [a, a\0\0)
   then a subset, a client-level and a batch-level function, on all four pipelines *)
Example C08_example :
  let ds := [(B [97; 0], [1; 2]); (B [], [3]); (B [97; 0; 0], []); (B [97], [4; 5; 6]); (B [255], [7])] in
  let ops := [OSlice (Some (B [97])) (Some (B [97; 0; 0])); OPreBatch (BMul 2); OSubset [B [97; 0]];
              OSubset [B [255]]; OPreClient CDup; OPreClient (CAdd 1)] in
  NoDup (map fst ds) /\
  ids_of PSql ds (firstn 1 ops) = Some [B [97; 0]; B [97]] /\
  ids_of PMem ds (firstn 1 ops) = Some [B [97]; B [97; 0]] /\
  forall p, match impl_run p ds ops with
            | Some (d, fl) => fl = [false; false; false; true; false; false] /\
                              fd_ids d = Val [B [97; 0]] /\
                              fd_get d (B [97; 0]) = Val ([2; 3; 2; 3], [BMul 2]) /\
                              fd_get d (B [97]) = KeyErr /\
                              fd_size d (B [97; 0]) = Val 2
            | None => False
            end.
Proof.
  cbv zeta. split.
  - repeat constructor; cbn; intuition discriminate.
  - split; [vm_compute; reflexivity|]. split; [vm_compute; reflexivity|].
    intros p; destruct p; vm_compute; repeat split.
Qed.

(* the hypotheses of C08_shuffled_pass_visits_each_once are satisfiable: buffer 2, a recorded oracle *)
Example C08_shuffle_example :
  let ds := [(B [98], [1]); (B [97], [2; 3]); (B [99], [])] in
  1 <= 2 /\ Forall (fun dd => - 2 <= dd) [1] /\
  match impl_run PSql ds [OPreClient (CAdd 1)] with
  | Some (d, _) => option_map (map fst) (fd_shuffled_pass d 2 [1%nat; 0%nat] [1]) = Some [B [97]; B [99]; B [98]]
  | None => False
  end.
Proof. cbv zeta. split; [easy|]. split; [repeat constructor; easy|]. vm_compute. reflexivity. Qed.

Print Assumptions C08_impls_refine_spec.
Print Assumptions C08_slice_never_enlarges.
Print Assumptions C08_range_is_half_open.
Print Assumptions C08_outside_view_keyerror.
Print Assumptions C08_preprocess_order.
Print Assumptions C08_chain_append.
Print Assumptions C08_translated_chains.
Print Assumptions C08_shuffled_pass_visits_each_once.
Print Assumptions C08_iteration_order.
Print Assumptions C08_ctor_chain_equiv.
Print Assumptions C08_translated_methods.
Print Assumptions C08_derive_is_persistent.
Print Assumptions C08_get_clients_request_order.
Print Assumptions C08_mem_dict_order_irrelevant.
Print Assumptions C08_bytes_order_total.
