(* C10 -- A training round is a pure function of (server state, clients).
   Property theorems only; every proof is `exact <lemma>` (Proofs/C10_Proofs.v,
   Common/Store.v, Common/StoreSim.v).  `script_of a W K rd` is the Store-calculus
   script of algorithm / aggregator `a` for one call of apply() (Model/C10_Model.v);
   `exec`, `apply_round`, `run_hist` are what C10_agree runs on the observed
   histories of the real implementation.

   Reading.  A store is the Python heap; the two arguments of apply() are the
   locations st (server state) and cl (client tuple); `same_value` / a `consistent`
   relation is bisimilarity of heap graphs: arrays with equal value and `donated`
   flag, containers with equal keys / length and related contents. *)
From Coq Require Import ZArith List Bool.
From FV Require Import Common.Store Common.StoreSim Model.C10_Model Proofs.C10_Proofs.
From FV Require gen.Gen_for_each_client gen.Gen_tree_util gen.Gen_c10_optimizers.
Import ListNotations.

(* every location that existed before the call -- in particular everything reachable from the
   input state or the client tuple -- holds the same cell afterwards: same array value, not
   donated, same dict keys / list elements.  For every algorithm, aggregator, client list,
   window size, cluster count and assignment. *)
Theorem C10_apply_frames_input : forall a W K rd s st cl σ',
  exec (script_of a W K rd) (mkSt s [(st_r, st); (cl_r, cl)]) = Some σ' ->
  (forall l, l < length s -> nth_error (sto σ') l = nth_error s l) /\
  written (length s) s (sto σ') = [] /\ length s <= length (sto σ').
Proof. exact apply_frames_input. Qed.

(* two heaps that agree on the values reachable from the arguments (however they share or
   whatever else they contain) give results with equal values -- or fail alike *)
Theorem C10_apply_is_function_of_values : forall a W K rd s1 s2 st1 cl1 st2 cl2 (R : nat -> nat -> Prop) σ1,
  consistent R s1 s2 -> R st1 st2 -> R cl1 cl2 ->
  exec (script_of a W K rd) (mkSt s1 [(st_r, st1); (cl_r, cl1)]) = Some σ1 ->
  exists σ2 R', exec (script_of a W K rd) (mkSt s2 [(st_r, st2); (cl_r, cl2)]) = Some σ2 /\
    consistent R' (sto σ1) (sto σ2) /\ (forall x y, R x y -> R' x y) /\ results_related R' σ1 σ2.
Proof. exact apply_is_function_of_values. Qed.

(* calling again with the same arguments, in the heap the first call left behind, returns a
   new state and diagnostics with the same values *)
Theorem C10_repeatable : forall a W K rd s st cl σ1,
  closed s -> st < length s -> cl < length s ->
  exec (script_of a W K rd) (mkSt s [(st_r, st); (cl_r, cl)]) = Some σ1 ->
  exists σ2 R', exec (script_of a W K rd) (mkSt (sto σ1) [(st_r, st); (cl_r, cl)]) = Some σ2 /\
    consistent R' (sto σ1) (sto σ2) /\ results_related R' σ1 σ2.
Proof. exact repeatable. Qed.

(* whenever load-after-save re-creates a state of the same value, every history continued
   from the restored copy ends (after any number of rounds) in a state of the same value *)
Theorem C10_restore_and_continue : forall (load_save : store -> nat -> store * nat),
  (forall s l, same_value s l (fst (load_save s l)) (snd (load_save s l))) ->
  forall a W K rds rnd s st s' st',
  run_hist a W K s st rnd rds = Some (s', st') ->
  exists s2' st2', run_hist a W K (fst (load_save s st)) (snd (load_save s st)) rnd rds = Some (s2', st2') /\
                   same_value s' st' s2' st2'.
Proof. exact restore_and_continue. Qed.

(* the key in the new aggregator state is split-child 0 of the old one (twice for the rotated
   quantizer); keys drawn during the round hang below child 1 *)
Theorem C10_rng_state_threaded : forall a W K rd s st cl bits rng k σ', is_agg a = true ->
  nth_error s st = Some (CRec [bits; rng]) -> nth_error s rng = Some (CArr k false) ->
  exec (script_of a W K rd) (mkSt s [(st_r, st); (cl_r, cl)]) = Some σ' ->
  exists ns nb nr, lookup (ven σ') res_state = Some ns /\ nth_error (sto σ') ns = Some (CRec [nb; nr]) /\
                   nth_error (sto σ') nr = Some (CArr (next_key a k) false).
Proof. exact rng_state_threaded. Qed.

(* T: the container effects found in the TEXT of every apply() (translated on this run by
   tools/anchors/c10_effects.py into gen/Gen_c10_*.v) write only objects created by the call, donate
   nothing that the caller owns and touch no state that outlives the call ... *)
Theorem C10_source_effects_wf : forallb (forallb ewf) source_effects = true.
Proof. exact source_effects_wf. Qed.

(* ... and the scripts the other theorems are about perform exactly these effects, in this order *)
Theorem C10_scripts_match_source :
  forallb (fun t => match t with (s1, s2, src) => ecmds_eqb s1 src && ecmds_eqb s2 src end) effect_instances = true.
Proof. exact scripts_match_source. Qed.

(* T: the threaded key of C10_rng_state_threaded is the one the source stores: the first component of
   `source_key_depth a` nested jax.random.split of the old key (translated from each quantizer's apply) *)
Theorem C10_next_key_is_source_depth : forall a k, is_agg a = true ->
  next_key a k = Nat.iter (source_key_depth a) split0 k.
Proof. exact next_key_is_source_depth. Qed.

(* T: what for_each_client's jit backend, tree_util's in-place helpers and the optax wrapper donate
   (the scripts are built from these translated constants) *)
Theorem C10_library_donations :
  Gen_for_each_client.jit_init_copies = true /\ Gen_for_each_client.jit_init_donates = [] /\
  Gen_for_each_client.jit_step_donates = [0%Z] /\ Gen_for_each_client.jit_final_donates = [1%Z] /\
  Gen_tree_util.tree_weight_donates = [] /\ Gen_tree_util.tree_add_donates = [] /\
  Gen_tree_util.tree_add_eq_donates = [0] /\ Gen_tree_util.tree_weight_eq_donates = [0] /\
  Gen_c10_optimizers.optax_apply_donates = [].
Proof. exact library_donations. Qed.

(* T: the sources under apply() use no process- or time-dependent value (hash, id, time, uuid, os.environ, unseeded
   random): a round is a function of (state, clients) ACROSS interpreter processes too *)
Theorem C10_no_process_dependent_values : process_dependent_uses_total = 0.
Proof. exact no_process_dependent_values. Qed.

(* the new state, the diagnostics and the aggregate are NEW objects: none of them is an object of the arguments *)
Theorem C10_new_objects_are_fresh : forall a W K rd s st cl σ',
  exec (script_of a W K rd) (mkSt s [(st_r, st); (cl_r, cl)]) = Some σ' ->
  forall k l, lookup (ven σ') (ROwn k) = Some l -> length s <= l.
Proof. exact new_objects_are_fresh. Qed.

(* `closed`, the hypothesis of C10_repeatable, is implied by the boolean that C10_agree asserts on every round's store *)
Theorem C10_closedb_closed : forall s, closedb s = true -> closed s.
Proof. exact closedb_closed. Qed.

(* the check is not vacuous: the pre-fix APFL script (in-place write into the input table) is
   rejected by the well-formedness check and does change an input cell when run *)
Example C10_apfl_inplace_refuted :
  wf_script (script_apfl_gen true [7%Z]) = false /\
  match init_store [SA 0; SA 1; SD []] with (s, st) =>
    match add_clients s 0 [7%Z] with
    | Some (s1, cl) =>
        match exec (script_apfl_gen true [7%Z]) (mkSt s1 [(st_r, st); (cl_r, cl)]),
              exec (script_apfl [7%Z]) (mkSt s1 [(st_r, st); (cl_r, cl)]) with
        | Some σ, Some σ' => (length (written (length s1) s1 (sto σ)), length (written (length s1) s1 (sto σ'))) = (1, 0)
        | _, _ => False
        end
    | None => False
    end
  end.
Proof. vm_compute. split; reflexivity. Qed.

(* non-vacuity of the hypotheses: a concrete 3-round FedAvg history runs, the identity is a
   load_save satisfying the hypothesis on it, and its initial store is closed *)
Example C10_example :
  let c := mkC10 AFedAvg 1 2 [SA 0; SA 1] [mkRd [1; 2]%Z [] []; mkRd [2]%Z [] []; mkRd [1; 3]%Z [] []] in
  match C10_run c with Some obs => length obs = 3 | None => False end /\
  match init_store (c_init c) with (s, st) => run_hist AFedAvg 1 2 s st 0 (c_rounds c) <> None end.
Proof. vm_compute. split; [reflexivity | discriminate]. Qed.

(* a round WITHOUT clients runs in every script (the accumulators start as None), and its stores are closed *)
Example C10_empty_cohort_example :
  forallb (fun a => match C10_run (mkC10 a 2 2 (match a with
                                                 | AAgnostic => [SA 0; SA 1; SA 2; SL [3; 3]]
                                                 | AHyp => [SL [0; 1]; SL [2; 3]]
                                                 | AApfl => [SA 0; SA 1; SD []]
                                                 | _ => [SA 0; SA 1] end)
                                        [mkRd [2; 0]%Z [1; 0] [true; true]; mkRd [] [] [false; false]; mkRd [1]%Z [0] [true; false]]) with
                    | Some obs => Nat.eqb (length obs) 3 | None => false end)
          [AFedAvg; AMime; AMimeLite; AAgnostic; AHyp; AApfl; QUniform; QUniformArith; QRotated; QDrive; QTern] = true.
Proof. vm_compute. reflexivity. Qed.

Print Assumptions C10_apply_frames_input.
Print Assumptions C10_apply_is_function_of_values.
Print Assumptions C10_repeatable.
Print Assumptions C10_restore_and_continue.
Print Assumptions C10_rng_state_threaded.
Print Assumptions C10_source_effects_wf.
Print Assumptions C10_scripts_match_source.
Print Assumptions C10_library_donations.
Print Assumptions C10_next_key_is_source_depth.
Print Assumptions C10_new_objects_are_fresh.
Print Assumptions C10_closedb_closed.
Print Assumptions C10_no_process_dependent_values.
