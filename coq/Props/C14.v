(* C14 -- Every built-in metric equals its definition on its whole domain.
   Property theorems only; every proof is `exact <lemma>` (Proofs/C14_Proofs.v).
   All statements are about the functions of Model/C14_Model.v that C14_agree
   evaluates against Metric.evaluate_example on every check run. *)
From Coq Require Import ZArith QArith List Bool Sorting.Sorted Sorting.Permutation.
From FV Require Import Common.PySem Model.C14_Model Proofs.C14_Proofs.
Import ListNotations.
Local Open Scope Z_scope.

(* top-1 accuracy equals accuracy: for every score vector over Z u {-inf,+inf}
   including ties (per class vector, per example, and per token under any logits mask) *)
Theorem C14_top1_eq_accuracy :
  (forall (s : list ext) t, s <> [] -> topk_correct 1 s t = acc_correct s t) /\
  (forall s t, s <> [] -> m_topk 1 s t = m_accuracy s t) /\
  (forall masked lm pp targets scores, Forall (fun row => mask_scores lm row <> []) scores ->
     m_seq_token_topk 1 masked lm pp targets scores = m_seq_token_acc masked lm pp targets scores).
Proof. exact (conj top1_eq_accuracy (conj m_top1_eq_accuracy m_seq_top1_eq_accuracy)). Qed.

(* ties are broken toward the lowest class index: argmax is the FIRST index of the
   maximum, and the order used by top-k is the unique arrangement of all class
   indices by decreasing score, equal scores by increasing index *)
Theorem C14_ties_lowest_index : forall s : list ext, s <> [] ->
  ((argmax s < length s)%nat /\
   (forall i, (i < length s)%nat -> ext_le (nth i s NInf) (nth (argmax s) s NInf)) /\
   (forall i, (i < argmax s)%nat -> ext_lt (nth i s NInf) (nth (argmax s) s NInf))) /\
  Permutation (argsort (map ext_neg s)) (seq 0 (length s)) /\
  StronglySorted (dlt s) (argsort (map ext_neg s)).
Proof. exact (fun s H => conj (argmax_spec s H) (conj (argsort_desc_perm s) (argsort_desc_sorted s))). Qed.

(* k >= number of classes gives 1 *)
Theorem C14_topk_ge_classes_is_one :
  (forall k (s : list ext) t, Z.of_nat (length s) <= k -> 0 <= t < Z.of_nat (length s) -> topk_correct k s t = 1) /\
  (forall k s t, Z.of_nat (length s) <= k -> 0 <= t < Z.of_nat (length s) -> m_topk k s t = (1, 1)).
Proof. exact (conj topk_ge_classes_is_one m_topk_ge_classes). Qed.

(* every k < 1 gives 0 (also for negative k) *)
Theorem C14_topk_lt_one_is_zero :
  (forall k (s : list ext) t, k < 1 -> topk_correct k s t = 0) /\
  (forall k s t, k < 1 -> m_topk k s t = (0, 1)) /\
  (forall k masked lm pp targets scores, k < 1 ->
     Forall (fun p => fst p = 0) (m_seq_token_topk k masked lm pp targets scores)).
Proof. exact (conj topk_lt_one_is_zero (conj m_topk_lt_one m_seq_topk_lt_one)). Qed.

(* the confusion matrix has exactly one count, at (target, predicted) *)
Theorem C14_confusion_one_count : forall nc s t m, m_confusion nc s t = Some m -> 0 <= t < nc ->
  total m = 1 /\
  forall r c, (r < Z.to_nat nc)%nat -> (c < Z.to_nat nc)%nat ->
    nth c (nth r m []) 0 = if (Z.of_nat r =? t) && (c =? argmax (map Fin s))%nat then 1 else 0.
Proof. exact m_confusion_one_count. Qed.

(* (trace, total) of the confusion matrix is the accuracy statistic (accum, weight) *)
Theorem C14_confusion_trace_is_accuracy : forall nc s t m, m_confusion nc s t = Some m -> 0 <= t < nc ->
  (trace m, total m) = m_accuracy s t.
Proof. exact m_confusion_trace. Qed.

(* per-domain statistics restricted to a domain equal the base metric on that
   domain's examples: row d of one example is the base statistic iff the example is in
   domain d, and accumulating over any list of examples with any merge that has `zero`
   as right identity gives, in row d, the fold of the base statistics of domain d *)
Theorem C14_per_domain_restricts : forall (A : Type) (merge : A -> A -> A) (zero : A),
  (forall x, merge x zero = x) ->
  forall nd d, (d < nd)%nat ->
  (forall dom x, nth d (per_domain nd dom zero x) zero = if Z.of_nat d =? dom then x else zero) /\
  (forall exs, nth d (pd_accumulate merge zero nd exs (repeat zero nd)) zero =
     fold_left merge (map snd (filter (fun e => Z.of_nat d =? fst e) exs)) zero).
Proof.
  exact (fun A merge zero Hz nd d Hd =>
    conj (fun dom x => per_domain_nth nd dom zero x d Hd)
         (fun exs => eq_trans (pd_accumulate_nth merge zero Hz nd d Hd exs (repeat zero nd) (repeat_length zero nd))
                              (f_equal (fold_left merge _) (nth_repeat zero nd d)))).
Qed.

(* masked targets carry weight 0 (so the scores / losses at masked positions are
   irrelevant), and a fully masked sequence is the zero statistic for every sequence metric *)
Theorem C14_sequence_weights : forall masked,
  (forall t, target_weight masked t = if mem t masked then 0 else 1) /\
  (forall pp ws vals vals', length vals = length vals' ->
     (forall i, nth i ws 0 <> 0 -> nth i vals 0 = nth i vals' 0) ->
     seq_stat pp vals ws = seq_stat pp vals' ws) /\
  (forall targets, Forall (fun t => In t masked) targets ->
     (forall lm pp scores, Forall (fun p => p = (0, 0)) (m_seq_token_acc masked lm pp targets scores)) /\
     (forall k lm pp scores, Forall (fun p => p = (0, 0)) (m_seq_token_topk k masked lm pp targets scores)) /\
     (forall oovs pp, Forall (fun p => p = (0, 0)) (m_seq_oov oovs masked pp targets)) /\
     (forall pp ce, Forall (fun p => p = (0%Q, 0)) (m_seq_token_ce masked pp targets ce)) /\
     (forall ce, m_seq_ce masked targets ce = (0%Q, 0)) /\
     m_seq_token_count masked targets = 0 /\
     m_seq_count masked targets = 0 /\
     (forall eos, m_seq_trunc eos masked targets = (0, 0)) /\
     m_seq_length masked targets = (0, 0)).
Proof. exact sequence_weights. Qed.

(* the OOV rate counts a non-masked token iff it equals ANY of the OOV values *)
Theorem C14_oov_rate_counts_any_oov_value : forall oovs masked,
  (forall t, target_oov oovs t = if mem t oovs then 1 else 0) /\
  (forall targets, m_seq_oov oovs masked false targets =
     [mean_new (Z.of_nat (length (filter (fun t => negb (mem t masked) && mem t oovs) targets)))
               (Z.of_nat (length (filter (fun t => negb (mem t masked)) targets)))]) /\
  (forall targets, map snd (m_seq_oov oovs masked true targets) = map (fun t => if mem t masked then 0 else 1) targets) /\
  (forall targets, map fst (m_seq_oov oovs masked true targets) =
     map (fun t => if negb (mem t masked) && mem t oovs then 1 else 0) targets).
Proof. exact oov_any_value. Qed.

(* the functions TRANSLATED on this run from the evaluate_example bodies (and
   get_target_weight) of fedjax/core/metrics.py -- the ones the correspondence
   evaluates -- are exactly the specification functions m_* the theorems are about *)
Theorem C14_translated_metrics_are_model :
  (forall T ms, gen_get_target_weight T ms = weights ms T) /\
  (forall t p ce, gen_cross_entropy t p ce = m_cross_entropy ce) /\
  (forall t s, gen_accuracy t s = m_accuracy s t) /\
  (forall k t s, gen_topk k t s = m_topk k s t) /\
  (forall masked pp T P ce, gen_seq_token_ce masked pp T P ce = m_seq_token_ce masked pp T ce) /\
  (forall masked T P ce, gen_seq_ce masked T P ce = m_seq_ce masked T ce) /\
  (forall masked lm pp T P, gen_seq_token_acc masked lm pp T P = m_seq_token_acc masked lm pp T P) /\
  (forall k masked lm pp T P, gen_seq_token_topk k masked lm pp T P = m_seq_token_topk k masked lm pp T P) /\
  (forall masked T, gen_seq_token_count masked T = m_seq_token_count masked T) /\
  (forall masked T, gen_seq_count masked T = m_seq_count masked T) /\
  (forall eos masked T, gen_seq_trunc eos masked T = m_seq_trunc eos masked T) /\
  (forall oovs masked pp T, gen_seq_oov oovs masked pp T = m_seq_oov oovs masked pp T) /\
  (forall masked T, gen_seq_length masked T = m_seq_length masked T) /\
  (forall nc t s, gen_confusion nc t s = m_confusion nc s t) /\
  (forall c, eval_base c = eval_base_spec c) /\
  (forall (A : Type) nd dom (zero x : A), gen_per_domain nd dom zero x = per_domain nd dom zero x).
Proof. exact translated_metrics_are_model. Qed.

(* top-k is the rank condition of the docstring: the target is counted iff fewer than
   k classes precede it, where class j precedes class t iff its score is higher, or
   equal with a lower index (all k, all score vectors over Z u {-inf,+inf}) *)
Theorem C14_topk_is_rank : forall k (s : list ext) t, (t < length s)%nat ->
  topk_correct k s (Z.of_nat t) = b2z (Z.of_nat (rank s t) <? k).
Proof. exact topk_is_rank. Qed.

(* non-vacuity: the docstring examples and a tie *)
Example C14_example :
  m_topk 2 [0; 5; 2] 2 = (1, 1) /\ m_topk (-2) [0; 5; 2] 1 = (0, 1) /\
  m_accuracy [3; 7; 7] 1 = (1, 1) /\ m_accuracy [3; 7; 7] 2 = (0, 1) /\
  argsort (map ext_neg [Fin 1; PInf; Fin 1; NInf; PInf]) = [1; 4; 0; 2; 3]%nat /\
  m_seq_token_acc [0] (Some [Fin 0; Fin 0; Fin 0; NInf]) false [1; 2; 2; 1; 3; 0]
    [[0; 1; 0; 0]; [1; 0; 0; 0]; [0; 0; 1; 0]; [0; 1; 0; 0]; [0; 0; 0; 1]; [1; 0; 0; 0]] = [(3, 5)] /\
  m_seq_oov [2; 4] [0] false [1; 2; 2; 3; 4; 0; 0] = [(3, 5)] /\
  m_confusion 3 [0; 1; 0] 2 = Some [[0; 0; 0]; [0; 0; 0]; [0; 1; 0]] /\
  m_seq_trunc 4 [0] [1; 2; 2; 3; 3; 3; 3] = (1, 1) /\ m_seq_length [0] [1; 2; 3; 4; 0; 0] = (4, 1) /\
  per_domain 3 1 (0, 0) (1, 1) = [(0, 0); (1, 1); (0, 0)] /\
  rank [Fin 1; PInf; Fin 1; NInf; PInf] 2 = 3%nat /\ gen_topk 4 2 [1; 9; 1; 0; 9] = (1, 1) /\ gen_topk 3 2 [1; 9; 1; 0; 9] = (0, 1).
Proof. vm_compute. repeat split. Qed.

Print Assumptions C14_top1_eq_accuracy.
Print Assumptions C14_ties_lowest_index.
Print Assumptions C14_topk_ge_classes_is_one.
Print Assumptions C14_topk_lt_one_is_zero.
Print Assumptions C14_confusion_one_count.
Print Assumptions C14_confusion_trace_is_accuracy.
Print Assumptions C14_per_domain_restricts.
Print Assumptions C14_sequence_weights.
Print Assumptions C14_oov_rate_counts_any_oov_value.
Print Assumptions C14_translated_metrics_are_model.
Print Assumptions C14_topk_is_rank.
