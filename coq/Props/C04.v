(* C04 -- Shuffled batching samples without replacement, exact count, seeded.
   `shuffle_num_steps` is translated on this run from ShuffleRepeatBatchView.__init__;
   `batches` (Model/C04_Model.v) mirrors ShuffleRepeatBatchView.__iter__ with the
   k-th call of rng.shuffle as the oracle `shuf k` and is the function the
   correspondence check evaluates against the real iterator.
   `srb_iter` (gen/Gen_client_datasets_shuffle.v) is the whole generator
   ShuffleRepeatBatchView.__iter__ translated on this run (early return for an empty
   buffer, main loop guard, inner refill loop, rng.shuffle guarded by skip_shuffle, slice
   store, counters); C04_iterator_translated proves it computes exactly `batches`. *)
From Coq Require Import ZArith List Bool Arith Permutation.
From FV Require Import Common.ListX Common.NpArr gen.Gen_client_datasets gen.Gen_client_datasets_shuffle.
From FV Require Import Model.C04_Model Proofs.C04_Proofs Proofs.C04_IterProofs.
Import ListNotations.

(* the number of batches is the documented function of (N, bs, epochs, steps, drop) *)
Theorem C04_num_steps_formula : forall N bs e s drop, (1 <= bs)%Z ->
  exists r, shuffle_num_steps N bs e s drop = Some r /\
  match e, s with
  | None, None => r = None                                   (* forever *)
  | None, Some s' => r = Some s'                             (* exactly num_steps *)
  | Some e', None => exists k, r = Some k /\ epoch_steps_ok N bs e' drop k
  | Some e', Some s' => exists k, r = Some (Z.min s' k) /\ epoch_steps_ok N bs e' drop k
  end.
Proof. exact num_steps_spec. Qed.

Section C04.
Variable shuf : nat -> list nat -> list nat.          (* k-th reshuffle *)
Variable N : nat.
Hypothesis Npos : 1 <= N.
Hypothesis shuf_perm : forall k b, Permutation (shuf k b) b.   (* numpy contract: shuffle permutes *)

(* every batch has exactly bs rows; there are exactly `steps` batches; the drawn
   stream is the prefix of window_1 ++ window_2 ++ ..., window_{j+1} being the j-th
   reshuffle of window_j (one reshuffle per window, in order); every window is a
   permutation of the dataset.  Holds for bs > N and windows straddling batches. *)
Theorem C04_stream_is_window_concat : forall steps bs W, steps * bs <= W * N ->
  concat (batches shuf N steps bs) = firstn (steps * bs) (concat (stream_windows shuf N W)) /\
  Forall (fun b => length b = bs) (batches shuf N steps bs) /\
  length (batches shuf N steps bs) = steps /\
  Forall (fun w => Permutation w (seq 0 N)) (stream_windows shuf N W).
Proof. exact (stream_is_window_concat shuf N Npos shuf_perm). Qed.

(* the first ceil(N/bs) batches (any `steps` with steps*bs >= N) cover every example *)
Theorem C04_first_batches_cover : forall steps bs W, steps * bs <= W * N -> N <= steps * bs ->
  forall x, x < N -> In x (firstn N (concat (batches shuf N steps bs))).
Proof. exact (first_batches_cover shuf N Npos shuf_perm). Qed.

(* usage counts never differ by more than one, at every prefix of the stream *)
Theorem C04_usage_balanced : forall steps bs W p x y, steps * bs <= W * N -> x < N -> y < N ->
  count_occ Nat.eq_dec (firstn p (concat (batches shuf N steps bs))) x
  <= S (count_occ Nat.eq_dec (firstn p (concat (batches shuf N steps bs))) y).
Proof. exact (usage_balanced shuf N Npos shuf_perm). Qed.

(* the translated generator IS the mirror: asked for a finite count it returns (GDone)
   after exactly the batches of `batches`; an unbounded stream (num_epochs = num_steps =
   None) observed for `steps` batches has produced `batches ... steps`; with
   skip_shuffle the oracle is never consulted (identity oracle).  Inner-loop fuel bs+1
   and main-loop fuel steps+1 suffice (GErr / fuel exhaustion excluded by the equality). *)
Theorem C04_iterator_translated : forall steps bs,
  srb_iter shuf (S steps) (S bs) (Z.of_nat N) (Z.of_nat bs) (Some (Z.of_nat steps)) false = GDone (batches shuf N steps bs) /\
  srb_iter shuf (S steps) (S bs) (Z.of_nat N) (Z.of_nat bs) (Some (Z.of_nat steps)) true = GDone (batches idshuf N steps bs) /\
  (1 <= N -> srb_iter shuf steps (S bs) (Z.of_nat N) (Z.of_nat bs) None false = GMore (batches shuf N steps bs)) /\
  (1 <= N -> srb_iter shuf steps (S bs) (Z.of_nat N) (Z.of_nat bs) None true = GMore (batches idshuf N steps bs)).
Proof. exact (srb_iter_is_batches shuf N (fun k b => Permutation_length (shuf_perm k b))). Qed.
End C04.

(* the same for every num_steps value the step-count computation can return (negative
   counts give no batch), every dataset size including 0 (early return), any fuel *)
Theorem C04_iterator_translated_any_count : forall shuf N, (forall k b, length (shuf k b) = length b) ->
  forall skip fuel bs desired,
  srb_iter shuf fuel (S bs) (Z.of_nat N) (Z.of_nat bs) desired skip
  = if N =? 0 then GDone []
    else match desired with
         | None => GMore (batches (eff_shuf shuf skip) N fuel bs)
         | Some d => if Z.to_nat d <? fuel then GDone (batches (eff_shuf shuf skip) N (Z.to_nat d) bs)
                     else GMore (batches (eff_shuf shuf skip) N fuel bs)
         end.
Proof. exact srb_iter_eq. Qed.

(* "successive windows are re-shuffled", exact part: after `steps` batches of `bs` indices the
   oracle has been consulted k times with steps*bs <= k*N < steps*bs + N, i.e. exactly once
   per window of N draws STARTED (k = ceil(steps*bs / N)); no hypothesis on the oracle.
   `final_state` is the state `run` threads through its batches (second conjunct). *)
Theorem C04_reshuffle_once_per_window : forall shuf N, 1 <= N -> forall steps bs,
  (let k := nsh (final_state shuf N steps bs (init N)) in steps * bs <= k * N < steps * bs + N) /\
  (forall s, run shuf N (S steps) bs s
     = run shuf N steps bs s ++ [snd (fill shuf N (S bs) bs (final_state shuf N steps bs s) [])]).
Proof. exact (fun shuf N HN steps bs => conj (reshuffles_are_windows_started shuf N HN steps bs)
                                          (run_along_final_state shuf N steps bs)). Qed.

(* defaults of ShuffleRepeatBatchHParams (translated from the class body) are the documented
   ones: one epoch, no step limit, keep the remainder, no seed, shuffle *)
Theorem C04_hparams_defaults :
  hp_shuffle_num_epochs_default = Some 1%Z /\ hp_shuffle_num_steps_default = None /\
  hp_shuffle_drop_remainder_default = false /\ hp_shuffle_seed_default = None /\
  hp_shuffle_skip_shuffle_default = false.
Proof. exact hparams_defaults_c04. Qed.

(* with shuffling disabled the stream is the cyclic original order *)
Theorem C04_skip_shuffle_cyclic : forall N steps bs p, 1 <= N -> p < steps * bs ->
  nth p (concat (batches idshuf N steps bs)) 0 = p mod N.
Proof. exact skip_shuffle_cyclic. Qed.

(* an empty dataset yields no batches (it used to spin forever) *)
Theorem C04_empty_dataset_no_batches : forall shuf steps bs, batches shuf 0 steps bs = [].
Proof. reflexivity. Qed.

(* non-vacuity: N = 3, bs = 2, the oracle rotates the buffer *)
Example C04_example :
  let rot := fun (_ : nat) (b : list nat) => match b with [] => [] | x :: t => t ++ [x] end in
  batches rot 3 4 2 = [[1; 2]; [0; 2]; [0; 1]; [0; 1]] /\
  shuffle_num_steps 3 2 (Some 2%Z) None false = Some (Some 3%Z) /\
  shuffle_num_steps 3 2 (Some 2%Z) (Some 7%Z) true = Some (Some 3%Z) /\
  shuffle_num_steps 3 2 None None true = Some None /\
  srb_iter rot 5 3 3 2 (Some 4%Z) false = GDone [[1; 2]; [0; 2]; [0; 1]; [0; 1]] /\
  srb_iter rot 2 3 3 2 None true = GMore [[0; 1]; [2; 0]] /\
  srb_iter rot 5 3 0 2 None false = GDone [].
Proof. vm_compute. repeat split. Qed.

(* the hypotheses of Section C04 are satisfiable by a non-trivial oracle: rotation by one *)
Example C04_hypotheses_example :
  let rot := fun (_ : nat) (b : list nat) => match b with [] => [] | x :: t => t ++ [x] end in
  (forall k b, Permutation (rot k b) b) /\ 1 <= 3 /\ rot 0 [0; 1; 2] <> [0; 1; 2].
Proof.
  cbv zeta. split; [|split; [repeat constructor|discriminate]].
  intros _ [|x t]; [constructor|]. symmetry. change (x :: t) with ([x] ++ t). apply Permutation_app_comm.
Qed.

Print Assumptions C04_num_steps_formula.
Print Assumptions C04_stream_is_window_concat.
Print Assumptions C04_first_batches_cover.
Print Assumptions C04_usage_balanced.
Print Assumptions C04_iterator_translated.
Print Assumptions C04_iterator_translated_any_count.
Print Assumptions C04_reshuffle_once_per_window.
Print Assumptions C04_hparams_defaults.
Print Assumptions C04_skip_shuffle_cyclic.
Print Assumptions C04_empty_dataset_no_batches.
