(* C13 -- Client sampling is a pure function of (seed, round number).
   Property theorems only; every proof is `exact <lemma>` (Proofs/C13_Proofs.v).
   `get_pseudo_random_state`, and the round-number updates inside `next_round` /
   `set_round` / `s_sample`, are the functions translated on this run from
   fedjax/core/client_samplers.py; `sample_at`, `outputs`, `s_outputs` are the
   hand-written mirrors (Model/C13_Model.v) that the correspondence check evaluates.
   NumPy is an oracle constrained only by its documented contract (section
   hypotheses below); JAX keys are split paths. *)
From Coq Require Import ZArith List Bool.
From FV Require Import Common.ListX gen.Gen_client_samplers Model.C13_Model gen.Gen_client_samplers_model Proofs.C13_Proofs.
Import ListNotations.
Local Open Scope Z_scope.

(* the Lehmer step: the product formed before the final `%` stays below 2^62 (so it
   is exact even in np.int64), and the value handed to np.random.RandomState is in
   [1, 2^31 - 1), a valid seed *)
Theorem C13_lehmer_no_overflow : forall (rs_randint : Z -> Z -> Z -> Z) seed r,
  (forall s a b, a < b -> a <= rs_randint s a b < b) ->      (* RandomState(s).randint(a, b) in [a, b) *)
  0 <= r ->
  let start := rs_randint seed 1 (2 ^ 31 - 1 - 1) in
  get_pseudo_random_state rs_randint seed r = Some (lehmer start r) /\
  0 <= (16807 ^ r) mod (2 ^ 31 - 1) < 2 ^ 31 - 1 /\
  0 <= (16807 ^ r) mod (2 ^ 31 - 1) * start < 2 ^ 62 /\
  1 <= lehmer start r < 2 ^ 31 - 1.
Proof. exact lehmer_no_overflow. Qed.

Section C13.
Context {Id D : Type}.
Variable id_eqb : Id -> Id -> bool.
Variable rs_randint : Z -> Z -> Z -> Z.
Variable choice : Z -> list Id -> Z -> list Id.
Variable fd : list (Id * D).     (* the dataset: (client id, client dataset) *)
Variable n : Z.                  (* cohort size *)
Variable seed : Z.

(* python equality of client ids (bytes, trailing zero bytes significant) *)
Hypothesis id_eqb_eq : forall x y, id_eqb x y = true <-> x = y.
(* NumPy contract of RandomState(s).choice(ids, size=n, replace=False) *)
Hypothesis choice_length : forall s ids, 0 <= n <= Z.of_nat (length ids) -> length (choice s ids n) = Z.to_nat n.
Hypothesis choice_incl : forall s ids, incl (choice s ids n) ids.
Hypothesis choice_NoDup : forall s ids, NoDup ids -> NoDup (choice s ids n).
(* cohort size 0..number of clients; client ids are distinct *)
Hypothesis cohort : 0 <= n <= Z.of_nat (length fd).
Hypothesis ids_distinct : NoDup (map fst fd).

Notation sample_at := (sample_at id_eqb (get_pseudo_random_state rs_randint) choice fd n seed).
Notation outputs := (outputs id_eqb (get_pseudo_random_state rs_randint) choice fd n seed).

(* After ANY history h from ANY initial round st, set_round_num(r) followed by k calls
   of sample() returns F(r), F(r+1), ... where F = sample_at depends on nothing but
   (dataset, cohort size, seed, round number). *)
Theorem C13_history_independent : forall (h : list op) (st r : Z) (k : nat),
  outputs (h ++ SetRound r :: repeat Sample k) st =
  outputs h st ++ map (fun j => sample_at (r + Z.of_nat j)) (seq 0 k).
Proof. exact (history_independent id_eqb rs_randint choice fd n seed id_eqb_eq choice_length choice_incl choice_NoDup cohort ids_distinct). Qed.

(* A sampler constructed with start_round_num = r + j, or seated there by
   set_round_num after any history, reproduces the remainder of a run started at r. *)
Theorem C13_restart_reproduces : forall (r : Z) (j k : nat) (h : list op) (st : Z),
  outputs (repeat Sample (j + k)) r =
    outputs (repeat Sample j) r ++ outputs (repeat Sample k) (r + Z.of_nat j) /\
  outputs (h ++ SetRound (r + Z.of_nat j) :: repeat Sample k) st =
    outputs h st ++ outputs (repeat Sample k) (r + Z.of_nat j).
Proof.
  intros r j k h st. split.
  - exact (restart_reproduces id_eqb rs_randint choice fd n seed id_eqb_eq choice_length choice_incl choice_NoDup cohort ids_distinct r j k).
  - exact (restart_by_set_round id_eqb rs_randint choice fd n seed id_eqb_eq choice_length choice_incl choice_NoDup cohort ids_distinct h st (r + Z.of_nat j) k).
Qed.

(* Every round: exactly n clients, no client twice, every (id, dataset) pair is a
   client of the dataset with its own dataset, the ids are NumPy's choice for the
   Lehmer seed of (seed, round), the keys are split(PRNGKey(round), n). *)
Theorem C13_no_repeat_subset_of_dataset : forall r,
  exists out, sample_at r = Some out /\
    length out = Z.to_nat n /\
    NoDup (map (fun x => fst (fst x)) out) /\
    (forall id d k, In (id, d, k) out -> In (id, d) fd) /\
    map (fun x => fst (fst x)) out = choice (lehmer (rs_randint seed 1 (M31 - 1)) r) (map fst fd) n /\
    map snd out = split (KRoot r) n.
Proof. exact (fun r => sample_no_repeat_subset id_eqb rs_randint choice fd n seed id_eqb_eq choice_length choice_incl choice_NoDup r cohort ids_distinct). Qed.

(* keys (as split paths): pairwise distinct within a round, equal for equal rounds, and
   no key of one round is a key of another round *)
Theorem C13_keys_distinct_within_and_across_rounds : forall r r' out out',
  sample_at r = Some out -> sample_at r' = Some out' ->
  NoDup (map snd out) /\
  (r = r' -> map snd out = map snd out') /\
  (r <> r' -> forall k k', In k (map snd out) -> In k' (map snd out') -> k <> k').
Proof. exact (fun r r' out out' => sample_keys id_eqb rs_randint choice fd n seed id_eqb_eq choice_length choice_incl choice_NoDup r r' out out' cohort ids_distinct). Qed.
(* ... and prefix-free: no key of any round is derived from a key of any round *)
Theorem C13_keys_prefix_free : forall r r' out out',
  sample_at r = Some out -> sample_at r' = Some out' ->
  forall k k', In k (map snd out) -> In k' (map snd out') -> ~ ancestor k k' /\ ~ ancestor k' k.
Proof. exact (fun r r' out out' => sample_keys_prefix_free id_eqb rs_randint choice fd n seed id_eqb_eq choice_length choice_incl choice_NoDup r r' out out' cohort ids_distinct). Qed.
End C13.

(* The correspondence evaluates the sampler with the power computed by square-and-multiply
   (so that every round number is cheap); that model is the one the theorems are about. *)
Theorem C13_run_model_is_theorem_model : forall {Id D} (id_eqb : Id -> Id -> bool) rs choice (fd : list (Id * D)) n seed ops st,
  (forall s r, fast_random_state rs s r = get_pseudo_random_state rs s r) /\
  outputs id_eqb (fast_random_state rs) choice fd n seed ops st =
  outputs id_eqb (get_pseudo_random_state rs) choice fd n seed ops st.
Proof. exact (fun Id D e rs ch fd n seed ops st => conj (fast_is_translated rs) (run_model_is_theorem_model e rs ch fd n seed ops st)). Qed.

(* (T) UniformGetClientSampler.sample, UniformShuffledClientSampler.__init__ / sample as
   translated on this run (choice over an object array without replacement, keys
   split(PRNGKey(round), n), i-th client paired with i-th key, skip of start * n stream
   items) are the functions of the model *)
Theorem C13_translated_is_model : forall {Id D C} (id_eqb : Id -> Id -> bool) prs choice (fd : list (Id * D)) n seed r
    (stream : nat -> C) pos start,
  get_sample_gen id_eqb prs choice fd n seed r = sample_at id_eqb prs choice fd n seed r /\
  stream_init_gen n start = s_init n start /\
  s_sample stream n (pos, r) =
    (fst (stream_take_gen stream n pos r),
     (snd (stream_take_gen stream n pos r), match shuffled_sampler_next_round r with Some r' => r' | None => r end)).
Proof.
  exact (fun Id D C e prs ch fd n seed r stream pos start =>
    conj (gen_get_sample_spec e prs ch fd n seed r) (conj (gen_stream_init_spec n start) (gen_stream_sample_spec stream n pos r))).
Qed.

(* The streaming sampler started at round `start` returns exactly rounds start,
   start+1, ... of the sampler started at round 0 over the same client stream. *)
Theorem C13_streaming_restart : forall {C} (stream : nat -> C) (n start : Z) (k : nat), 0 <= start ->
  s_outputs stream n k (s_init n start) =
  skipn (Z.to_nat start) (s_outputs stream n (Z.to_nat start + k) (s_init n 0)).
Proof. exact @streaming_restart. Qed.

(* a streaming sampler constructed at round `start` and sampled k times has made exactly
   (start + k) * n calls of next() on the client stream (never more), and is at round start + k *)
Theorem C13_stream_position : forall {C} (stream : nat -> C) (n start : Z) (k : nat),
  s_after stream n k (s_init n start) = (((Z.to_nat start + k) * Z.to_nat n)%nat, start + Z.of_nat k).
Proof. exact @stream_position. Qed.

(* each of its rounds takes the next n stream items with keys split(PRNGKey(round), n) *)
Theorem C13_streaming_rounds : forall {C} (stream : nat -> C) (n start : Z) (k : nat),
  s_outputs stream n k (s_init n start) =
  map (fun j => map (fun i => (stream ((Z.to_nat start + j) * Z.to_nat n + i)%nat,
                               KSplit (KRoot (start + Z.of_nat j)) n i)) (seq 0 (Z.to_nat n)))
      (seq 0 k).
Proof. exact @streaming_rounds. Qed.

(* non-vacuity: the hypotheses are satisfiable (choice = first n ids), and a concrete run *)
Example C13_example :
  let ch := fun (_ : Z) (ids : list Z) (n : Z) => firstn (Z.to_nat n) ids in
  ((forall s ids, 0 <= 2 <= Z.of_nat (length ids) -> length (ch s ids 2) = Z.to_nat 2) /\
   (forall s ids, incl (ch s ids 2) ids) /\
   (forall s (ids : list Z), NoDup ids -> NoDup (ch s ids 2))) /\
  outputs Z.eqb (get_pseudo_random_state (fun _ _ _ => 5)) ch [(10, 100); (11, 101); (12, 102)] 2 7 [Sample; SetRound 9; Sample] 3
  = [Some [(10, 100, KSplit (KRoot 3) 2 0); (11, 101, KSplit (KRoot 3) 2 1)];
     Some [(10, 100, KSplit (KRoot 9) 2 0); (11, 101, KSplit (KRoot 9) 2 1)]] /\
  get_pseudo_random_state (fun _ _ _ => 5) 7 3 = Some ((16807 ^ 3 mod (2 ^ 31 - 1) * 5) mod (2 ^ 31 - 1)).
Proof. split; [exact (choice_firstn_contract 2)|split; vm_compute; reflexivity]. Qed.

Print Assumptions C13_lehmer_no_overflow.
Print Assumptions C13_history_independent.
Print Assumptions C13_restart_reproduces.
Print Assumptions C13_no_repeat_subset_of_dataset.
Print Assumptions C13_keys_distinct_within_and_across_rounds.
Print Assumptions C13_keys_prefix_free.
Print Assumptions C13_run_model_is_theorem_model.
Print Assumptions C13_translated_is_model.
Print Assumptions C13_streaming_restart.
Print Assumptions C13_stream_position.
Print Assumptions C13_streaming_rounds.
