(* C06 -- Masked gradients and losses ignore padding and batch geometry.
   Property theorems only; every proof is `exact <lemma>` (Proofs/C06_Proofs.v).
   All statements are about the functions of Model/C06_Model.v that C06_agree
   evaluates against the real fedjax code on every check run; `safe_div` is the
   definition translated from fedjax/core/util.py on this run (gen/Gen_util.v).
   `vals` are the per-row values of ONE quantity: the per-example losses, or -- by
   linearity of jax.grad (assumption) -- the per-example partial derivatives
   w.r.t. one parameter coordinate, with `r` the regulariser's value resp. partial
   derivative.  Rows are finite rationals (type Q): real rows anywhere in the batch,
   padded rows with arbitrary finite content.  `strip vals m` = the real rows. *)
From Coq Require Import ZArith QArith List Bool.
From FV Require Import Common.Batch Common.NanQ Common.QVec gen.Gen_tree_util Model.C06_Model Proofs.C06_Proofs.
Import ListNotations.
Local Open Scope Q_scope.

(* gradient / loss of a padded batch = that of its real rows without padding; any two
   paddings of the same real rows (positions, padded size, padded content) agree *)
Theorem C06_grad_padded_eq_unpadded : forall vals m r, length vals = length m ->
  (strip vals m <> [] -> NanQ.eq (scalar_loss vals (Some m) r) (scalar_loss (strip vals m) None r)) /\
  (forall vals' m', length vals' = length m' -> strip vals m = strip vals' m' ->
     NanQ.eq (scalar_loss vals (Some m) r) (scalar_loss vals' (Some m') r)).
Proof.
  exact (fun vals m r H => conj (grad_padded_eq_unpadded vals m r H)
                                (fun vals' m' H' E => grad_padding_irrelevant vals m vals' m' r H H' E)).
Qed.

(* the regulariser contributes exactly once: to a batch, to a client's average loss
   over any number of batches, and to the full-batch gradient over any number of
   batches and clients *)
Theorem C06_regularizer_once : forall r,
  (forall vals m, length vals = length m ->
     NanQ.eq (scalar_loss vals (Some m) (Some r)) (Some (mean_q (strip vals m) + r))) /\
  (forall bs, Forall wf_s bs -> NanQ.eq (avg_loss bs (Some r)) (Some (mean_q (sall bs) + r))) /\
  (forall cl, cl <> [] -> Forall (Forall wf_m) cl -> call cl <> [] ->
     NanQ.eq (mime_fullbatch (Some r) cl) (Some (mean_q (call cl) + r))).
Proof.
  exact (fun r => conj (fun vals m H => scalar_loss_masked_closed vals m (Some r) H)
    (conj (fun bs H => avg_loss_closed bs (Some r) H)
          (fun cl Hne H Hreal => mime_fullbatch_nonempty (Some r) cl Hne H Hreal))).
Qed.

(* a batch without real rows: never NaN, exactly the regulariser term (0 without one) *)
Theorem C06_all_padded_is_reg_only : forall vals m r, Forall (fun b => b = false) m ->
  scalar_loss vals (Some m) r = Some (match r with Some r => 0 + r | None => 0 end).
Proof. exact (fun vals m r H => eq_trans (all_padded_is_reg_only vals m r H) (add_reg_Some 0 r)). Qed.

(* a client's average loss depends only on the real rows: any partition into batches,
   any padded sizes / bucket counts, masked or unmasked batches *)
Theorem C06_avg_loss_geometry_free : forall r bs, Forall wf_s bs ->
  NanQ.eq (avg_loss bs r) (Some (mean_q (sall bs) + dq r)) /\
  (forall bs', Forall wf_s bs' -> sall bs = sall bs' -> NanQ.eq (avg_loss bs r) (avg_loss bs' r)).
Proof.
  exact (fun r bs H => conj (avg_loss_closed bs r H) (fun bs' H' E => avg_loss_geometry_free bs bs' r H H' E)).
Qed.

(* no real example at all (no batches, or only padding): 0 (+ regulariser), not NaN *)
Theorem C06_avg_loss_empty_zero : forall r bs, Forall wf_s bs -> sall bs = [] ->
  NanQ.eq (avg_loss bs r) (Some (dq r)).
Proof. exact (fun r bs => avg_loss_empty bs r). Qed.

(* Mime's full-batch gradient = mean of the per-example gradients + grad r, whatever the
   batches and the split into clients; an empty cohort gives 0 *)
Theorem C06_fullbatch_grad_geometry_free : forall dr cl, cl <> [] -> Forall (Forall wf_m) cl ->
  NanQ.eq (mime_fullbatch dr cl) (Some (if Qeq_bool (qlen (call cl)) 0 then 0 else mean_q (call cl) + dq dr)) /\
  (forall cl', cl' <> [] -> Forall (Forall wf_m) cl' -> call cl = call cl' ->
     NanQ.eq (mime_fullbatch dr cl) (mime_fullbatch dr cl')).
Proof.
  exact (fun dr cl N H => conj (mime_fullbatch_closed dr cl N H)
                               (fun cl' N' H' E => mime_fullbatch_geometry_free dr cl cl' N N' H H' E)).
Qed.

(* per-domain loss sums and counts without a regulariser: the sums over the real
   (loss, domain) pairs, independent of the batches *)
Theorem C06_domain_sums_geometry_free : forall nd bs,
  (Forall2 Qeq (fst (domain_metrics nd None bs))
               (map (fun d => dom_sum (Z.of_nat d) (concat (map dreal bs))) (seq 0 nd)) /\
   Forall2 Qeq (snd (domain_metrics nd None bs))
               (map (fun d => dom_cnt (Z.of_nat d) (concat (map dreal_ids bs))) (seq 0 nd))) /\
  (forall bs', concat (map dreal bs) = concat (map dreal bs') ->
     concat (map dreal_ids bs) = concat (map dreal_ids bs') ->
     Forall2 Qeq (fst (domain_metrics nd None bs)) (fst (domain_metrics nd None bs')) /\
     Forall2 Qeq (snd (domain_metrics nd None bs)) (snd (domain_metrics nd None bs'))).
Proof. exact (fun nd bs => conj (domain_sums_closed nd bs) (fun bs' => domain_sums_geometry_free nd bs bs')). Qed.

(* with a regulariser the code adds r once per BATCH to EVERY domain: the per-domain
   loss is (sum of the real losses) + (#batches)*r, hence geometry dependent
   (finding agnostic.domain-metrics.regularizer-per-batch) *)
Theorem C06_domain_sums_regularizer_refuted :
  (forall nd r bs, Forall2 Qeq (fst (domain_metrics nd (Some r) bs))
      (map (fun d => dom_sum (Z.of_nat d) (concat (map dreal bs)) + qlen bs * r) (seq 0 nd))) /\
  exists nd r bs bs',
    concat (map dreal bs) = concat (map dreal bs') /\ concat (map dreal_ids bs) = concat (map dreal_ids bs') /\
    ~ Forall2 Qeq (fst (domain_metrics nd (Some r) bs)) (fst (domain_metrics nd (Some r) bs')).
Proof. exact (conj domain_sums_regularizer_closed domain_sums_regularizer_refuted). Qed.

(* the kernels TRANSLATED on this run -- models.grad.scalar_loss,
   _evaluate_average_loss_step + _finalize_average_loss, the client_step of
   mime.create_grads_for_each_client with the server-gradient normalisation of
   mime.apply / mime_lite.apply, the client_step of
   agnostic_fed_avg.create_domain_metrics_for_each_client -- run on finite inputs,
   are exactly the specification functions the theorems above are about; the t_*
   functions are what the correspondence evaluates.  (The same generated module also
   records that agnostic_federated_averaging calls create_domain_metrics_for_each_client
   WITHOUT a regularizer: a forwarded regularizer is a translation failure.) *)
Theorem C06_translated_kernels :
  (forall vals m r, t_scalar_loss vals m r = scalar_loss vals m r) /\
  (forall bs r, t_avg_loss bs r = avg_loss bs r) /\
  (forall dr bs, t_mime_client dr bs = ([fst (mime_client dr bs)], snd (mime_client dr bs))) /\
  (forall lite dr cl, t_mime_fullbatch lite dr cl = mime_fullbatch dr cl) /\
  (forall nd r bs, t_domain_metrics nd r bs = (inj (fst (domain_metrics nd r bs)), inj (snd (domain_metrics nd r bs)))).
Proof. exact translated_kernels. Qed.

(* the sum over the clients' (grads_sum, num_sum) outputs that the Mime models use is the
   TRANSLATED tree_util.tree_sum (gen/Gen_tree_util.v) applied to the clients' flat leaf lists *)
Theorem C06_client_sum_is_tree_sum : forall dr cl, cl <> [] ->
  tree_sum (map flat (map (t_mime_client dr) cl)) = Some (flat (tpair_sum (map (t_mime_client dr) cl))).
Proof. exact mime_clients_tree_sum. Qed.

(* the hypotheses of the theorems above are satisfiable by non-trivial instances: batches whose mask and
   values have equal length (the only well-formedness the harness-generated cases are asserted to have) *)
Example C06_hypotheses_example :
  Forall wf_s [([2; 99], Some [true; false]); ([4; 6], None); ([1; 1], Some [false; false])] /\
  Forall (Forall wf_m) [[([2; 99], [true; false]); ([0; 0], [false; false])]; [([4; 6; 0; 0], [true; true; false; false])]] /\
  call [[([2; 99], [true; false]); ([0; 0], [false; false])]; [([4; 6; 0; 0], [true; true; false; false])]] = [2; 4; 6] /\
  sall [([2; 99], Some [true; false]); ([4; 6], None); ([1; 1], Some [false; false])] = [2; 4; 6].
Proof. repeat split; repeat constructor. Qed.

(* non-vacuity: 3 real rows (2, 4, 6) in a padded batch of 5 with garbage padding, regulariser 1/2 *)
Example C06_example :
  scalar_loss [2; 99; 4; 6; -7] (Some [true; false; true; true; false]) (Some (1 # 2)) = Some (12 / 3 + (1 # 2)) /\
  scalar_loss [5; 7] (Some [false; false]) None = Some 0 /\
  NanQ.same (avg_loss [([2; 99], Some [true; false]); ([4; 6], None); ([1; 1], Some [false; false])] (Some (1 # 2)))
            (Some (9 # 2)) = true /\
  NanQ.same (mime_fullbatch (Some 1) [[([2; 99], [true; false]); ([0; 0], [false; false])]; [([4; 6; 0; 0], [true; true; false; false])]])
            (Some 5) = true /\
  NanQ.same (mime_fullbatch (Some 1) [[([3; 3], [false; false])]; []]) (Some 0) = true /\
  NanQ.same (t_mime_fullbatch true (Some 1) [[([3; 3], [false; false])]; []]) (Some 0) = true /\
  NanQ.same (t_avg_loss [([2; 99], Some [true; false]); ([4; 6], None)] (Some (1 # 2))) (Some (9 # 2)) = true.
Proof. vm_compute. repeat split. Qed.

Print Assumptions C06_grad_padded_eq_unpadded.
Print Assumptions C06_regularizer_once.
Print Assumptions C06_all_padded_is_reg_only.
Print Assumptions C06_avg_loss_geometry_free.
Print Assumptions C06_avg_loss_empty_zero.
Print Assumptions C06_fullbatch_grad_geometry_free.
Print Assumptions C06_domain_sums_geometry_free.
Print Assumptions C06_domain_sums_regularizer_refuted.
Print Assumptions C06_translated_kernels.
Print Assumptions C06_client_sum_is_tree_sum.
