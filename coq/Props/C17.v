(* C17 -- Algorithm-specific invariants hold along every training history.
   Property theorems only; every proof is `exact <lemma>` (Proofs/C17_Proofs.v).  All
   functions named here are the definitions of Model/C17_Model.v that C17_agree
   evaluates on the observations of the real algorithms. *)
From Coq Require Import ZArith QArith Qminmax List Bool.
From FV Require Import Common.ListX Common.CMonoid Common.NanQ Common.QVec Model.C17_Model Proofs.C17_Proofs.
From FV Require gen.Gen_c17_agnostic gen.Gen_c17_hyp_cluster gen.Gen_c17_apfl gen.Gen_c17_mime_lite gen.Gen_c17_optimizers gen.Gen_tree_util gen.Gen_util.
Import ListNotations.
Local Open Scope Q_scope.

(* AgnosticFedAvg: one exponentiated-gradient step maps non-negative weights with a
   positive sum to a probability vector, for ANY positive factors e_i (= exp(lr*loss_i)) *)
Theorem C17_eg_stays_on_simplex : forall w e, length w = length e ->
  Forall (fun x => 0 <= x) w -> 0 < qsum w -> Forall (fun x => 0 < x) e ->
  Forall (fun x => 0 <= x) (eg_update w e) /\ qsum (eg_update w e) == 1.
Proof. exact eg_simplex. Qed.

(* ... hence along every history of rounds *)
Theorem C17_eg_history_on_simplex : forall es w, simplex w ->
  Forall (fun e => length e = length w /\ Forall (fun x => 0 < x) e) es -> simplex (eg_run w es).
Proof. exact eg_run_simplex. Qed.

(* the window keeps its length W >= 1 and holds the most recent W entries, oldest first *)
Theorem C17_window_is_last_W_counts : forall {A} (hist init : list A), (1 <= length init)%nat ->
  length (window_run init hist) = length init /\
  window_run init hist = skipn (length hist) (init ++ hist).
Proof. exact @window_run_spec. Qed.

(* APFL: whatever the optimizer step does, clipping after every step keeps the coefficient in [0,1] *)
Theorem C17_apfl_coefficients_in_unit_box : forall {G} (upd : Q -> G -> Q) gs a0,
  0 <= a0 <= 1 -> 0 <= clipped_run upd a0 gs <= 1.
Proof. exact @clipped_run_box. Qed.

Theorem C17_apfl_model_is_clipped_run : forall lr a0 gs, apfl_run lr a0 gs = clipped_run (fun a g => a - lr * g) a0 gs.
Proof. exact apfl_run_is_clipped_run. Qed.

(* APFL: the table of client states has exactly the clients that participated in some round;
   a round leaves the entries of non-participants alone *)
Theorem C17_apfl_state_only_for_participants : forall {V} (rounds : list (list (Z * V))) k,
  In k (map fst (table_run rounds)) <-> exists r, In r rounds /\ In k (map fst r).
Proof. exact @table_run_keys. Qed.

Theorem C17_apfl_non_participant_state_kept : forall {V} (outs : list (Z * V)) t k,
  ~ In k (map fst outs) -> table_get (table_step t outs) k = table_get t k.
Proof. exact @table_step_other. Qed.

(* HypCluster: the assigned cluster has minimal loss and is the first such index *)
Theorem C17_hypcluster_argmin : forall l, l <> [] ->
  let a := argmin_first l in
  (a < length l)%nat /\ (forall j, (j < length l)%nat -> nth a l 0 <= nth j l 0) /\
  (forall j, (j < a)%nat -> nth a l 0 < nth j l 0).
Proof. exact argmin_first_spec. Qed.

(* HypCluster: the running sum kept for cluster k is exactly the fold over the clients
   assigned to k (in order), so the cluster's update is a function of its own clients only *)
Theorem C17_cluster_updated_from_own_clients : forall K dim cl k, (k < K)%nat ->
  nth k (cluster_deltas K dim cl) None = cluster_delta (fold_left own_step (own k cl) (vzero dim, 0)).
Proof. exact cluster_delta_own. Qed.

(* HypCluster: a cluster whose clients hold no example keeps params and optimizer state,
   whatever the server optimizer is *)
Theorem C17_empty_cluster_untouched : forall {S} (opt : vec -> S -> vec -> S * vec) K dim cl k s p, (k < K)%nat ->
  Forall (fun c => snd (fst c) == 0) (own k cl) ->
  hyp_server_step opt (nth k (cluster_deltas K dim cl) None) s p = (s, p).
Proof. exact @empty_cluster_untouched. Qed.

(* MimeLite: what is aggregated are the clipped deltas, and each has norm <= bound
   (n is the Euclidean norm of the delta: 0 <= n, n*n == sumsq delta) *)
Theorem C17_mimelite_aggregates_clipped : forall bound cl, 0 <= bound ->
  Forall (fun c => 0 <= snd c /\ snd c * snd c == sumsq (snd (fst c))) cl ->
  Forall (fun c => sumsq (snd c) <= bound * bound) (clipped_clients bound cl) /\
  forall slr p, mimelite_params bound slr p cl = vsub p (vscale slr (mean_clients (length p) (clipped_clients bound cl))).
Proof. exact mimelite_aggregates_clipped. Qed.

(* ignore_grads: named leaves are returned identical (same position, same value), the other
   leaves and the optimizer state are exactly the base optimizer's on the restricted trees *)
Section C17_ignore.
Context {K V S : Type} (named : K -> bool) (keqb : K -> K -> bool).
Hypothesis keqb_eq : forall a b, keqb a b = true <-> a = b.

Theorem C17_ignore_grads : forall (base : list (K * V) -> S -> list (K * V) -> S * list (K * V)) g s p,
  NoDup (map fst p) ->
  map fst (snd (base (restrict named g) s (restrict named p))) = map fst (restrict named p) ->
  let res := ignore_apply named keqb base g s p in
  let b := base (restrict named g) s (restrict named p) in
  map fst (snd res) = map fst p /\
  (forall i kv, nth_error p i = Some kv -> named (fst kv) = true -> nth_error (snd res) i = Some kv) /\
  restrict named (snd res) = snd b /\ fst res = fst b.
Proof. exact (ignore_apply_spec named keqb keqb_eq). Qed.
End C17_ignore.

(* ---- T: ties to the code translated on this run (tools/anchors/c17_algorithms.py, tree_util.py) ---- *)
(* update_domain_weights('eg') as translated IS eg_update on finite inputs (e = exp(lr * loss)) *)
Theorem C17_eg_is_the_code : forall w e, ~ qsum (eg_raw w e) == 0 ->
  Gen_c17_agnostic.update_domain_weights_eg (map Some w) (map Some e) = map Some (eg_update w e).
Proof. exact eg_matches_code. Qed.

(* tree_clip_by_global_norm as translated IS clip_delta (the norm being supplied) *)
Theorem C17_clip_is_the_code : forall (l2 : list NanQ.t -> NanQ.t) bound d n, 0 <= bound -> l2 (map Some d) = Some n ->
  Gen_tree_util.tree_clip_by_global_norm l2 (map Some d) (Some bound) = map Some (clip_delta bound d n).
Proof. exact clip_matches_code. Qed.

(* the window shift, the None-branch of the HypCluster server step, the `n > 0` guard of the cluster
   average and the clip bounds of APFL ARE the translated definitions *)
Theorem C17_model_uses_translated_code :
  (forall A (win : list A) x, window_update win x = Gen_c17_agnostic.window_shift win x) /\
  (forall S (opt : vec -> S -> vec -> S * vec) d s p,
     hyp_server_step opt d s p = Gen_c17_hyp_cluster.hyp_server_step_gen opt d s p) /\
  (forall st, cluster_delta st = Gen_c17_hyp_cluster.cluster_delta_gen (fun s n => vscale (/ n) s) (fst st) (snd st)) /\
  (forall x, clip01 x = Qmin (Qmax x Gen_c17_apfl.apfl_clip_lo) Gen_c17_apfl.apfl_clip_hi).
Proof. exact model_uses_translated_code. Qed.

(* structure of the code around those kernels *)
Theorem C17_code_structure :
  Gen_c17_agnostic.server_update_passes_weights_through = true /\
  Gen_c17_agnostic.empty_cohort_gives_zeros = true /\
  Gen_c17_hyp_cluster.accumulate_into_assigned_cluster = true /\
  Gen_c17_hyp_cluster.assignment_is_argmin = true /\
  Gen_c17_mime_lite.clip_before_aggregate = true /\ Gen_c17_mime_lite.clip_uses_global_norm = true /\
  Gen_c17_mime_lite.mean_is_rescaled_again = false /\
  Gen_c17_apfl.clip_follows_optimizer_step = true /\ Gen_c17_apfl.table_is_copied_then_set = true /\
  Gen_c17_apfl.apfl_clip_lo == 0 /\ Gen_c17_apfl.apfl_clip_hi == 1 /\
  Gen_c17_optimizers.ignore_masks_named_to_none = true /\ Gen_c17_optimizers.ignore_restores_named_from_input = true.
Proof. exact code_structure. Qed.

(* AgnosticFedAvg's client scaling as translated (alpha = safe_div(w, window mean), beta = sum(alpha * counts),
   loss = safe_div(sum(alpha * domain losses), beta)) stays finite for ALL finite inputs, a zero window mean
   (starved domain) and a zero beta included *)
Theorem C17_agnostic_scaling_finite : forall w m num sl,
  exists al be, Gen_c17_agnostic.alpha_gen (map Some w) (map Some m) = map Some al /\
                Gen_c17_agnostic.beta_gen (map Some al) (map Some num) = Some be /\
                exists lo, Gen_c17_agnostic.scaled_loss_gen (map Some al) (map Some sl) (Some be) = Some lo.
Proof. exact agnostic_scaling_finite. Qed.

(* the model's per-cluster running sums ARE the translated loop body of expectation_step *)
Theorem C17_cluster_step_is_the_code : forall acc a n d,
  (map fst (cluster_step acc (a, n, d)), map snd (cluster_step acc (a, n, d))) =
  Gen_c17_hyp_cluster.expectation_accumulate vadd (fun dl w => vscale w dl) (map fst acc) (map snd acc) a d n.
Proof. exact cluster_step_is_code. Qed.

(* ... and vadd / vscale are the translated tree_add / tree_weight / tree_inverse_weight on finite values *)
Theorem C17_tree_ops_are_vector_ops :
  (forall a b, Gen_tree_util.tree_add (map Some a) (map Some b) = map Some (vadd a b)) /\
  (forall d n, Forall2 NanQ.eq (Gen_tree_util.tree_weight (map Some d) (Some n)) (map Some (vscale n d))) /\
  (forall s n, 0 < n -> Forall2 NanQ.eq (Gen_tree_util.tree_inverse_weight (map Some s) (Some n)) (map Some (vscale (/ n) s))).
Proof. exact tree_ops_are_vector_ops. Qed.

(* the hypotheses of the theorems above hold on non-trivial instances (hyp_ok is what C17_agree asserts on every case) *)
Example C17_hypotheses_example :
  forallb hyp_ok [IEg [1 # 4; 0; 3 # 4] [2; 1; 1 # 2]; IWin [[3; 0]%Z; [0; 2]%Z] [1; 1]%Z; IApfl 1 2 [1; -1];
                  IClip (1 # 4) 1 [0; 0] [(4, [3; 4], 5); (0, [0; 0], 0)]; IClipD 0 [0; 0] 0;
                  ICluster 2 1 (1 # 2) [[0]; [1]] [[0]; [0]] [(1%nat, 4, [1])]; IArgmin [2; 2]] = true /\
  NoDup (map fst [(0%nat, 5); (1%nat, 6); (2%nat, 7)]).
Proof. split; [vm_compute; reflexivity | repeat constructor; cbn; intuition discriminate]. Qed.

(* non-vacuity: concrete instances of every hypothesis *)
Example C17_example :
  list_beq Qeq_bool (eg_update [1 # 2; 1 # 2] [2; 1]) [2 # 3; 1 # 3] = true /\
  window_run [[1; 1]%Z; [1; 1]%Z] [[4; 0]%Z; [0; 3]%Z; [2; 2]%Z] = [[0; 3]%Z; [2; 2]%Z] /\
  Qeq_bool (apfl_run 2 (1 # 2) [1; -3]) 1 = true /\
  argmin_first [3; 1; 2; 1] = 1%nat /\
  match cluster_deltas 3 1 [(2%nat, 4, [1]); (0%nat, 0, [5]); (2%nat, 4, [3])] with
  | [None; None; Some [x]] => Qeq_bool x 2 | _ => false end = true /\
  list_beq Qeq_bool (clip_delta 5 [6; 8] 10) [3; 4] = true /\
  list_beq Qeq_bool (map snd (snd (ignore_apply (fun k => Nat.eqb k 1) Nat.eqb (sgd_tree 1)
     [(0%nat, 1); (1%nat, 1); (2%nat, 1)] tt [(0%nat, 5); (1%nat, 6); (2%nat, 7)]))) [4; 6; 6] = true.
Proof. vm_compute. repeat split. Qed.

Print Assumptions C17_eg_stays_on_simplex.
Print Assumptions C17_eg_history_on_simplex.
Print Assumptions C17_window_is_last_W_counts.
Print Assumptions C17_apfl_coefficients_in_unit_box.
Print Assumptions C17_apfl_model_is_clipped_run.
Print Assumptions C17_apfl_state_only_for_participants.
Print Assumptions C17_apfl_non_participant_state_kept.
Print Assumptions C17_hypcluster_argmin.
Print Assumptions C17_cluster_updated_from_own_clients.
Print Assumptions C17_empty_cluster_untouched.
Print Assumptions C17_mimelite_aggregates_clipped.
Print Assumptions C17_ignore_grads.
Print Assumptions C17_eg_is_the_code.
Print Assumptions C17_clip_is_the_code.
Print Assumptions C17_model_uses_translated_code.
Print Assumptions C17_code_structure.
Print Assumptions C17_agnostic_scaling_finite.
Print Assumptions C17_cluster_step_is_the_code.
Print Assumptions C17_tree_ops_are_vector_ops.
