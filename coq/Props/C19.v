(* C19 -- Downloaded and decompressed cache files appear only when complete.
   Property theorems only; every proof is `exact <lemma>` (Proofs/C19_Proofs.v).

   `download`, `decompress`, `one_call`, `calls` (Model/C19_Model.v) are the effect
   sequences of downloads.maybe_download / maybe_lzma_decompress as the harness observes
   them; the temporary-name suffixes, the block size and the block count inside them are
   translated on this run from fedjax/datasets/downloads.py (gen/Gen_downloads.v).

   A file's content is the list of blocks written to it.  The source oracle
   (`source`, `zsource`) says for each read whether it yields a block, the end of the data
   or an I/O error (and whether the final flush at close succeeds); `honest_source P` / `honest_z P`: absent an error the blocks are P in
   order (and content-length gives the right count).  A crash is `firstn k` of the
   effects; an I/O error is an exception (the partial file is still closed). *)
From Coq Require Import ZArith List Bool.
From FV Require Import Common.PySem Common.PyStr Common.AtomFS Common.Chunk gen.Gen_downloads gen.Gen_cifar100_cache
  Model.C19_Model Proofs.C19_Proofs.
Import ListNotations.
Local Open Scope Z_scope.

Section C19.
Context {Blk : Type}.
Notation dir := (@AtomFS.dir str (list Blk)).

(* at every crash point of a call, with an I/O error anywhere or none, the final path is
   absent or complete -- provided it was so before the call *)
Theorem C19_download_final_absent_or_complete : forall path P (d : dir) (src : source Blk),
  (lookup streqb d path = None \/ lookup streqb d path = Some (Whole P)) -> honest_source P src ->
  forall k, let d' := applys19 d (firstn k (fst (download d path src))) in
    lookup streqb d' path = None \/ lookup streqb d' path = Some (Whole P).
Proof. exact download_prefix_good. Qed.

(* any sequence of interrupted calls (crash index or I/O error in each), then a fault-free
   call: it returns and the final path holds the complete content *)
Theorem C19_retry_repairs : forall path P l (d : dir) src len,
  (lookup streqb d path = None \/ lookup streqb d path = Some (Whole P)) ->
  Forall (fun ck => exists s, fst ck = CDownload path s /\ honest_source P s) l ->
  s_get src = true -> s_status src = true -> s_length src = Some len ->
  Z.to_nat (download_num_blocks len download_block_size) = length P -> s_reads src = map Some P ->
  s_close src = true ->
  exists evs d', one_call (after d l) (CDownload path src) None = (evs, d', Returned) /\
    lookup streqb d' path = Some (Whole P).
Proof. exact retry_download. Qed.

(* a cached file is reused: the effects are makedirs + exists, whatever the source oracle
   is -- it is not consulted *)
Theorem C19_complete_cache_reused_without_network : forall path (d : dir) c (src : source Blk),
  lookup streqb d path = Some c -> download d path src = ([DMk; DEx path], true).
Proof. exact download_reuse. Qed.

Theorem C19_decompress_final_absent_or_complete : forall dpath P (d : dir) (z : zsource Blk),
  (lookup streqb d dpath = None \/ lookup streqb d dpath = Some (Whole P)) -> honest_z P z ->
  forall k, let d' := applys19 d (firstn k (fst (decompress d dpath z))) in
    lookup streqb d' dpath = None \/ lookup streqb d' dpath = Some (Whole P).
Proof. exact decompress_prefix_good. Qed.

Theorem C19_decompress_retry_repairs : forall dpath P l (d : dir) z,
  (lookup streqb d dpath = None \/ lookup streqb d dpath = Some (Whole P)) ->
  Forall (fun ck => exists s, fst ck = CDecompress dpath s /\ honest_z P s) l ->
  z_open z = true -> z_chunks z = map Some P -> z_close z = true ->
  exists evs d', one_call (after d l) (CDecompress dpath z) None = (evs, d', Returned) /\
    lookup streqb d' dpath = Some (Whole P).
Proof. exact retry_decompress. Qed.

Theorem C19_decompress_cache_reused : forall dpath (d : dir) c (z : zsource Blk),
  lookup streqb d dpath = Some c -> decompress d dpath z = ([DEx dpath], true).
Proof. exact decompress_reuse. Qed.

(* `after` is the last directory of the `calls` sequence the correspondence evaluates *)
Theorem C19_after_is_calls : forall l (d : dir),
  after d l = last (map (fun r => snd (fst r)) (calls d l)) d.
Proof. exact calls_after. Qed.

(* whatever the source does -- even a dishonest one -- the final path is never TORN at any
   crash point: both functions follow the rename discipline of Common/AtomFS.v
   (tmp_then_rename_atomic) *)
Theorem C19_download_never_torn : forall path (d : dir) (src : source Blk) m,
  no_torn_final streqb (is_final path) d ->
  no_torn_final streqb (is_final path) (applys19 d (firstn m (fst (download d path src)))).
Proof. exact download_never_tears. Qed.

Theorem C19_decompress_never_torn : forall dpath (d : dir) (z : zsource Blk) m,
  no_torn_final streqb (is_final dpath) d ->
  no_torn_final streqb (is_final dpath) (applys19 d (firstn m (fst (decompress d dpath z)))).
Proof. exact decompress_never_tears. Qed.

(* cifar100.load_split's converted file federated_cifar100_<split>.sqlite: at every crash point,
   whatever the TFF iterator yields or raises, the final split file is absent or complete --
   provided only the complete content passes validate_file (honest_valid) *)
Theorem C19_split_final_absent_or_complete : forall spath P (d : dir) (x : csource Blk),
  (lookup streqb d spath = None \/ lookup streqb d spath = Some (Whole P)) -> honest_valid P x ->
  forall k, let d' := applys19 d (firstn k (fst (convert d spath x))) in
    lookup streqb d' spath = None \/ lookup streqb d' spath = Some (Whole P).
Proof. exact convert_prefix_good. Qed.

Theorem C19_split_retry_repairs : forall spath P l (d : dir) x,
  (lookup streqb d spath = None \/ lookup streqb d spath = Some (Whole P)) ->
  Forall (fun ck => exists s, fst ck = CConvert spath s /\ honest_valid P s) l ->
  x_clients x = map Some P -> x_valid x P = true ->
  exists evs d', one_call (after d l) (CConvert spath x) None = (evs, d', Returned) /\
    lookup streqb d' spath = Some (Whole P).
Proof. exact retry_convert. Qed.

Theorem C19_split_cache_reused : forall spath (d : dir) c (x : csource Blk),
  lookup streqb d spath = Some c -> convert d spath x = ([DEx spath], true).
Proof. exact convert_reuse. Qed.

Theorem C19_split_never_torn : forall spath (d : dir) (x : csource Blk) m,
  no_torn_final streqb (is_final spath) d ->
  no_torn_final streqb (is_final spath) (applys19 d (firstn m (fst (convert d spath x)))).
Proof. exact convert_never_tears. Qed.

End C19.

(* the translated block count: (length + block_size - 1) // block_size reads of block_size
   bytes cover the payload exactly -- it is the number of chunks, and they concatenate to it *)
Theorem C19_block_count : forall {A} (payload : list A) (bs : Z), 1 <= bs ->
  Z.to_nat (download_num_blocks (Z.of_nat (length payload)) bs) = length (chunks (Z.to_nat bs) payload) /\
  concat (chunks (Z.to_nat bs) payload) = payload.
Proof. exact @block_count. Qed.

(* the hypotheses honest_source / honest_z / honest_valid are satisfiable by the harness's sources (a read error
   in block 1, a failing final flush, a two-chunk stream, the content check that stands for validate_file) *)
Theorem C19_hypotheses_satisfiable :
  honest_source [262144; 262144; 1] (mkSource true true (Some 524289) [Some 262144; None] true) /\
  honest_source [262144; 262144; 1] (mkSource true true (Some 524289) [Some 262144; Some 262144; Some 1] false) /\
  honest_z [65536; 5] (mkZ true [Some 65536; Some 5] true) /\
  (forall cs, honest_valid [1; 1; 1] (mkCS cs (fun c => Common.ListX.list_beq Z.eqb c [1; 1; 1]))).
Proof. exact hypotheses_examples. Qed.

(* recognised on this run (fail-closed): downloads.py uses no hash(), id(), uuid, random, os.environ, pid, and the
   clock only inside the progress display *)
Theorem C19_code_is_process_independent : downloads_code_is_process_independent = true.
Proof. exact process_independent. Qed.

(* non-vacuity: 2 blocks + 1 byte; an I/O error in read 1, a crash inside write 1, an I/O error on the
   final flush, then success,
   then a call whose source would fail if consulted *)
Example C19_example :
  let good := KDownload true true (Some 524289) [Some 262144; Some 262144; Some 1] true in
  let c := mkC19 [(KDownload true true (Some 524289) [Some 262144; None] true, None); (good, Some 8%nat);
                  (KDownload true true (Some 524289) [Some 262144; Some 262144; Some 1] false, None);
                  (good, None); (KDownload false false None [] false, None)] true in
  map (fun r => (outcome_code (snd r), option_map (fun _ => 0) (lookup streqb (snd (fst r)) the_path)))
      (calls (initial_dir c) (map (fun ck => (to_call (fst ck), snd ck)) (k_calls c)))
  = [(1, None); (2, None); (1, None); (0, Some 0); (0, Some 0)] /\
  download_num_blocks 524289 download_block_size = 3.
Proof. vm_compute. split; reflexivity. Qed.

Print Assumptions C19_download_final_absent_or_complete.
Print Assumptions C19_retry_repairs.
Print Assumptions C19_complete_cache_reused_without_network.
Print Assumptions C19_decompress_final_absent_or_complete.
Print Assumptions C19_decompress_retry_repairs.
Print Assumptions C19_decompress_cache_reused.
Print Assumptions C19_after_is_calls.
Print Assumptions C19_download_never_torn.
Print Assumptions C19_decompress_never_torn.
Print Assumptions C19_split_final_absent_or_complete.
Print Assumptions C19_split_retry_repairs.
Print Assumptions C19_split_cache_reused.
Print Assumptions C19_split_never_torn.
Print Assumptions C19_code_is_process_independent.
Print Assumptions C19_hypotheses_satisfiable.
Print Assumptions C19_block_count.
