(* C12 -- Degenerate hyper-parameters reduce every algorithm to FedAvg.
   Property theorems only; every proof is `exact <lemma>` (Proofs/C12_Proofs.v).
   The round skeletons are in Model/C12_Model.v; FedAvg is Model/C01_Model.v. *)
From Coq Require Import ZArith QArith List Permutation Bool.
From FV Require Import Common.NanQ Common.QVec Common.WMean Model.C01_Model Proofs.C01_Proofs Model.C12_Model Proofs.C12_Proofs.
Import ListNotations.
Local Open Scope Q_scope.

Section C12.
Context {K U B S OS : Type}.
Variable grad : list Q -> B -> U -> list Q.
Variable split : K -> K * U.
Variable split3 : K -> K * U * U.
Variable split_pair : K -> K * K.
Variable copt_init : list Q -> S.
Variable copt_apply : list Q -> S -> list Q -> S * list Q.
Variable sopt : list Q -> OS -> list Q -> OS * list Q.
Notation client := (@client K B).

(* FedProx (any mu) = FedAvg on the loss augmented with the proximal penalty toward the
   round's server parameters: the whole round result is identical, hence every run *)
Theorem C12_fedprox_is_fedavg_on_prox_loss : forall mu st (clients : list client),
  fedprox grad split copt_init copt_apply sopt mu st clients =
  fedavg_on_prox grad split copt_init copt_apply sopt mu st clients.
Proof. exact (fedprox_is_fedavg_on_prox grad split copt_init copt_apply sopt). Qed.

(* APFL's global model = FedAvg when the gradient ignores its key, round by round and along runs *)
Theorem C12_apfl_global_eq_fedavg : forall st (clients : list client),
  (forall p b u u', grad p b u = grad p b u') ->
  apfl_global grad split3 copt_init copt_apply sopt st clients = fedavg grad split copt_init copt_apply sopt st clients.
Proof. exact (apfl_global_eq_fedavg grad split split3 copt_init copt_apply sopt). Qed.

Theorem C12_apfl_global_eq_fedavg_multi_round : forall st (cohorts : list (list client)),
  (forall p b u u', grad p b u = grad p b u') ->
  apfl_global_runs grad split3 copt_init copt_apply sopt st cohorts = fedavg_runs grad split copt_init copt_apply sopt st cohorts.
Proof. exact (apfl_global_runs_eq_fedavg grad split split3 copt_init copt_apply sopt). Qed.
End C12.

Print Assumptions C12_fedprox_is_fedavg_on_prox_loss.
Print Assumptions C12_apfl_global_eq_fedavg.
Print Assumptions C12_apfl_global_eq_fedavg_multi_round.
