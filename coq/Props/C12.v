(* C12 -- Degenerate hyper-parameters reduce every algorithm to FedAvg.
   Property theorems only; every proof is `exact <lemma>` (Proofs/C12_Proofs.v).
   Round skeletons: Model/C12_Model.v (fedprox / fedavg_on_prox / apfl_global are the
   accumulation loop of fed_avg.apply with their own client programs; hypcluster, mimelite,
   mime have their own round functions, over the tree_util functions translated on this
   run).  FedAvg is `fedavg` = Model/C01_Model.fedavg_apply with the gradient-descent
   client program.  `=v=` is coordinatewise == on Q. *)
From Coq Require Import ZArith QArith List Permutation Bool.
From FV Require Import Common.NanQ Common.QVec Common.WMean Model.C01_Model Proofs.C01_Proofs Model.C12_Model Proofs.C12_Proofs
  Proofs.C01_Gen_Proofs Proofs.C12_Gen_Proofs.
From FV Require gen.Gen_fed_avg gen.Gen_fed_prox gen.Gen_apfl gen.Gen_mime gen.Gen_mime_lite gen.Gen_hyp_cluster.
Import ListNotations.
Local Open Scope Q_scope.

Section C12.
Context {K U B S OS : Type}.
Variable grad : list Q -> B -> U -> list Q.              (* grad_fn(params, batch, rng) *)
Variable split : K -> K * U.                             (* jax.random.split(rng) *)
Variable split3 : K -> K * U * U.                        (* jax.random.split(rng, 3) *)
Variable split_pair : K -> K * K.                        (* HypCluster's per-client split *)
Variable copt_init : list Q -> S.                        (* client / base optimizer *)
Variable copt_apply : list Q -> S -> list Q -> S * list Q.
Variable sopt : list Q -> OS -> list Q -> OS * list Q.   (* server optimizer *)
Notation client := (@client K B).
Notation mclient := (@mclient K B).

(* ---- exact (Leibniz) reductions: no assumption on the ingredients ---- *)

(* FedProx, any mu  =  FedAvg on the loss augmented with the proximal penalty toward the
   round's server parameters (whole round result, hence every run) *)
Theorem C12_fedprox_is_fedavg_on_prox_loss : forall mu st (clients : list client),
  fedprox grad split copt_init copt_apply sopt mu st clients =
  fedavg_on_prox grad split copt_init copt_apply sopt mu st clients.
Proof. exact (fedprox_is_fedavg_on_prox grad split copt_init copt_apply sopt). Qed.

(* APFL's global model = FedAvg when the gradient ignores its key *)
Theorem C12_apfl_global_eq_fedavg : forall st (clients : list client),
  (forall p b u u', grad p b u = grad p b u') ->
  apfl_global grad split3 copt_init copt_apply sopt st clients = fedavg grad split copt_init copt_apply sopt st clients.
Proof. exact (apfl_global_eq_fedavg grad split split3 copt_init copt_apply sopt). Qed.

Theorem C12_apfl_global_eq_fedavg_multi_round : forall st (cohorts : list (list client)),
  (forall p b u u', grad p b u = grad p b u') ->
  apfl_global_runs grad split3 copt_init copt_apply sopt st cohorts = fedavg_runs grad split copt_init copt_apply sopt st cohorts.
Proof. exact (apfl_global_runs_eq_fedavg grad split split3 copt_init copt_apply sopt). Qed.

(* HypCluster with one cluster keeps (params, opt_state) in a round that saw no example
   (FedAvg applies the server optimizer to the zero mean there: C01_empty_round_mean_zero) *)
Theorem C12_hypcluster_empty_round_keeps_state : forall p os (clients : list client),
  NoDup (map c_id clients) -> (total_examples clients <= 0)%Z ->
  hypcluster grad split split_pair copt_init copt_apply sopt (fun _ => O) [(p, os)] clients = Some [(p, os)].
Proof. exact (hypcluster_empty_round_keeps_state grad split split_pair copt_init copt_apply sopt). Qed.

(* ---- reductions up to == on Q: the ingredients respect == and keep lengths ---- *)
Variable S_eq : S -> S -> Prop.
Variable os_eq : OS -> OS -> Prop.
Hypothesis copt_init_proper : forall p p', p =v= p' -> S_eq (copt_init p) (copt_init p').
Hypothesis copt_apply_proper : forall g g' s s' p p', g =v= g' -> S_eq s s' -> p =v= p' ->
  S_eq (fst (copt_apply g s p)) (fst (copt_apply g' s' p')) /\ snd (copt_apply g s p) =v= snd (copt_apply g' s' p').
Hypothesis copt_apply_length : forall g s p, length g = length p -> length (snd (copt_apply g s p)) = length p.
Hypothesis grad_proper : forall p p' b u, p =v= p' -> grad p b u =v= grad p' b u.
Hypothesis grad_length : forall p b u, length (grad p b u) = length p.
Hypothesis sopt_proper : forall g g' s s' p p', g =v= g' -> os_eq s s' -> p =v= p' ->
  os_eq (fst (sopt g s p)) (fst (sopt g' s' p')) /\ snd (sopt g s p) =v= snd (sopt g' s' p').

(* FedProx with proximal weight 0 = FedAvg, round after round *)
Theorem C12_fedprox_mu0_eq_fedavg : forall mu (cohorts : list (list client)) p p' os os',
  mu == 0 -> Forall (fun cl => NoDup (map c_id cl)) cohorts -> p =v= p' -> os_eq os os' ->
  exists q s dgs q' s' dgs',
    fedprox_runs grad split copt_init copt_apply sopt mu (p, os) cohorts = Some (q, s, dgs) /\
    fedavg_runs grad split copt_init copt_apply sopt (p', os') cohorts = Some (q', s', dgs') /\
    q =v= q' /\ os_eq s s' /\ Forall2 (fun dg dg' => map fst dg = map fst dg') dgs dgs'.
Proof.
  exact (fedprox_mu0_runs_eq_fedavg grad split copt_init copt_apply sopt S_eq os_eq copt_init_proper copt_apply_proper
           copt_apply_length grad_proper grad_length sopt_proper).
Qed.

(* HypCluster with a single cluster = FedAvg on the same clients with the key
   jax.random.split(rng)[1], in every round that saw an example -- or in every round at all
   when the server optimizer maps the zero gradient to an unchanged state (plain SGD) *)
Theorem C12_hypcluster_one_cluster_eq_fedavg : forall (cohorts : list (list client)) p p' os os',
  Forall (fun cl => NoDup (map c_id cl)) cohorts -> p =v= p' -> os_eq os os' ->
  (Forall (fun cl => (0 < total_examples cl)%Z) cohorts \/
   (forall g s q, g =v= vzero (length q) -> snd (sopt g s q) =v= q /\ os_eq (fst (sopt g s q)) s)) ->
  (forall a, os_eq a a) -> (forall a b, os_eq a b -> os_eq b a) -> (forall a b c, os_eq a b -> os_eq b c -> os_eq a c) ->
  exists q s q' s' dgs,
    iter_rounds (hypcluster grad split split_pair copt_init copt_apply sopt (fun _ => O)) [(p, os)] cohorts = Some [(q, s)] /\
    fedavg_runs grad split copt_init copt_apply sopt (p', os') (map (map (rekey split_pair)) cohorts) = Some (q', s', dgs) /\
    q =v= q' /\ os_eq s s'.
Proof.
  exact (hypcluster_runs_eq_fedavg grad split split_pair copt_init copt_apply sopt S_eq os_eq copt_init_proper copt_apply_proper
           copt_apply_length grad_proper grad_length sopt_proper).
Qed.

(* the base / client optimizer is plain SGD with learning rate eta *)
Variable eta : Q.
Hypothesis copt_is_sgd : forall g s p, length g = length p -> snd (copt_apply g s p) =v= vadd p (vscale (- eta) g).

(* MimeLite(SGD eta, server learning rate 1) = FedAvg(SGD eta clients, SGD(1.0) server), round after round *)
Theorem C12_mimelite_sgd_lr1_eq_fedavg : forall (cohorts : list (list mclient)) p p' s os,
  (forall g o q, length g = length q -> snd (sopt g o q) =v= vsub q g) ->
  Forall (fun cl => NoDup (map c_id (map fst cl))) cohorts -> p =v= p' ->
  exists q s1 q' os1 dgs,
    iter_rounds (mimelite grad split copt_apply 1) (p, s) cohorts = Some (q, s1) /\
    fedavg_runs grad split copt_init copt_apply sopt (p', os) (map (map fst) cohorts) = Some (q', os1, dgs) /\ q =v= q'.
Proof.
  exact (mimelite_runs_eq_fedavg grad split copt_init copt_apply sopt S_eq copt_init_proper copt_apply_proper
           copt_apply_length grad_proper grad_length eta copt_is_sgd).
Qed.

(* Mime(SGD eta), one local step per client with examples: every round is
   p - (server_lr * eta) * c  with c = server_grads, ... *)
Theorem C12_mime_sgd_one_step_is_fullbatch_step : forall slr (cohorts : list (list mclient)) p s,
  Forall (fun cl => NoDup (map c_id (map fst cl)) /\ Forall one_step_client cl /\ (0 < total_examples (map fst cl))%Z) cohorts ->
  exists q s1, iter_rounds (mime grad split copt_apply slr) (p, s) cohorts = Some (q, s1) /\
               fullbatch_chain grad split eta slr p cohorts q.
Proof. exact (mime_runs_fullbatch grad split copt_apply copt_apply_length grad_length eta copt_is_sgd). Qed.

(* the round the guard above excludes: no example and no training batch -> parameters unchanged *)
Theorem C12_mime_empty_round_keeps_params : forall slr p s (clients : list mclient),
  NoDup (map c_id (map fst clients)) -> Forall (fun mc : mclient => c_batches (fst mc) = []) clients ->
  (total_examples (map fst clients) <= 0)%Z ->
  exists q s1, mime grad split copt_apply slr (p, s) clients = Some (q, s1) /\ q =v= p.
Proof. exact (mime_empty_round_keeps_params grad split copt_apply (mime_step grad split copt_apply) true). Qed.

(* ... and c is the gradient over the whole cohort: the mean of the per-batch gradients
   weighted by their numbers of real examples *)
Theorem C12_mime_control_variate_is_cohort_gradient : forall p (clients : list mclient),
  sg_q grad split p clients =v= wmean_batch (length p) (cohort_batch_grads grad split p clients).
Proof. exact (sg_q_is_cohort_gradient grad split grad_length). Qed.
End C12.

(* Regularised objective (grad = mean example gradient g0 + regulariser gradient rg): the
   control variate c of C12_mime_sgd_one_step_is_fullbatch_step, instantiated with that grad,
   is the cohort mean of the example gradients plus the regulariser gradient exactly once;
   so a Mime round is  p - (server_lr * eta) * (mean example gradient + rg p) *)
Theorem C12_mime_fullbatch_gradient_includes_regularizer :
  forall {K U B : Type} (g0 : list Q -> B -> U -> list Q) (rg : list Q -> list Q) (split : K -> K * U),
  (forall p b u, length (g0 p b u) = length p) -> (forall p, length (rg p) = length p) ->
  forall p (clients : list (mclient (K := K) (B := B))),
  0 < wtot (cohort_batch_grads g0 split p clients) ->
  sg_q (reg_grad g0 rg) split p clients =v=
  vadd (wmean_batch (length p) (cohort_batch_grads g0 split p clients)) (rg p).
Proof. exact (@sg_q_regularized). Qed.

(* ---- T: the round code as it is today.  gen/Gen_fed_avg, Gen_fed_prox, Gen_apfl, Gen_mime,
   Gen_mime_lite, Gen_hyp_cluster are translated on this run from the apply functions, their
   server_update, the client_init / client_step / client_final triples, mime's full-gradient
   pass, hyp_cluster's trainer and expectation_step.  Each translated apply computes the round
   skeleton the theorems above are about (clients given as the code's (id, dataset, rng)
   tuples; fed_prox with grad_fn = the gradient of the FedProx objective, prox_grad). ---- *)
Theorem C12_source_fedavg_is_skeleton :
  forall {K U B S OS : Type} (grad : list Q -> B -> U -> list Q) (split : K -> K * U) (copt_init : list Q -> S)
         (copt_apply : list Q -> S -> list Q -> S * list Q) (sopt : list Q -> OS -> list Q -> OS * list Q)
         st (clients : list (client (K := K) (B := B))),
  Gen_fed_avg.apply grad split copt_init copt_apply sopt fst snd st (map as_tuple clients) =
  option_map reshape (fedavg grad split copt_init copt_apply sopt st clients).
Proof. exact (@gen_fedavg_is_skeleton). Qed.

Theorem C12_source_fedprox_is_skeleton :
  forall {K U B S OS : Type} (grad : list Q -> B -> U -> list Q) (split : K -> K * U) (copt_init : list Q -> S)
         (copt_apply : list Q -> S -> list Q -> S * list Q) (sopt : list Q -> OS -> list Q -> OS * list Q) mu
         st (clients : list (client (K := K) (B := B))),
  Gen_fed_prox.apply (prox_grad grad mu) split copt_init copt_apply sopt fst snd st (map as_tuple clients) =
  option_map reshape (fedprox grad split copt_init copt_apply sopt mu st clients).
Proof. exact (@gen_fedprox_is_skeleton). Qed.

Theorem C12_source_apfl_global_is_skeleton :
  forall {K U B S OS : Type} (grad : list Q -> B -> U -> list Q) (split3 : K -> K * U * U) (copt_init : list Q -> S)
         (copt_apply : list Q -> S -> list Q -> S * list Q) (sopt : list Q -> OS -> list Q -> OS * list Q)
         st (clients : list (client (K := K) (B := B))),
  Gen_apfl.apply grad split3 copt_init copt_apply sopt fst snd st (map as_tuple clients) =
  option_map reshape (apfl_global grad split3 copt_init copt_apply sopt st clients).
Proof. exact (@gen_apfl_is_skeleton). Qed.

Theorem C12_source_mime_is_skeleton :
  forall {K U B S : Type} (grad : list Q -> B -> U -> list Q) (split : K -> K * U)
         (copt_apply : list Q -> S -> list Q -> S * list Q) slr st (clients : list (mclient (K := K) (B := B))),
  option_map fst (Gen_mime.apply grad (grad_padded grad) (@snd B Z) split copt_apply slr m_len m_srb m_padded st (map as_mtuple clients)) =
  mime grad split copt_apply slr st clients.
Proof. exact (@gen_mime_is_skeleton). Qed.

Theorem C12_source_mimelite_is_skeleton :
  forall {K U B S : Type} (grad : list Q -> B -> U -> list Q) (split : K -> K * U)
         (copt_apply : list Q -> S -> list Q -> S * list Q) slr st (clients : list (mclient (K := K) (B := B))),
  option_map fst (Gen_mime_lite.apply grad split copt_apply slr m_len m_srb m_padded
                    (Gen_mime.grads_for_each_client (grad_padded grad) (@snd B Z) split) st (map as_mtuple clients)) =
  mimelite grad split copt_apply slr st clients.
Proof. exact (@gen_mimelite_is_skeleton). Qed.

Theorem C12_source_hypcluster_one_cluster_is_skeleton :
  forall {K U B S OS : Type} (grad : list Q -> B -> U -> list Q) (split : K -> K * U) (split_pair : K -> K * K)
         (copt_init : list Q -> S) (copt_apply : list Q -> S -> list Q -> S * list Q)
         (sopt : list Q -> OS -> list Q -> OS * list Q) p os (clients : list (client (K := K) (B := B))),
  Gen_hyp_cluster.apply grad split split_pair copt_init copt_apply sopt fst snd (fun _ _ _ => O) ([p], [os]) (map as_tuple clients) =
  option_map hc_reshape (hypcluster grad split split_pair copt_init copt_apply sopt (fun _ => O) [(p, os)] clients).
Proof. exact (@gen_hypcluster_is_skeleton). Qed.

(* constructors: init, the wiring of the parts, and the FedProx objective.  The translated proximal penalty
   0.5 * mu * |server_params - params|^2 expands exactly as  penalty(p) + < mu (p - s), h > + 0.5 mu |h|^2,
   i.e. its gradient is the term prox_grad adds (that jax.grad returns the gradient stays trusted) *)
Theorem C12_source_inits_and_wiring : forall {S OS : Type} (sinit : list Q -> OS) (binit : list Q -> S) p,
  (Gen_fed_prox.init sinit p = (p, sinit p) /\ Gen_apfl.init sinit p = (p, sinit p) /\
   Gen_mime.init binit p = (p, binit p) /\ Gen_mime_lite.init binit p = (p, binit p)) /\
  (Gen_fed_prox.fed_prox_wiring = true /\ Gen_apfl.apfl_wiring = true /\ Gen_hyp_cluster.hyp_cluster_wiring = true /\
   Gen_mime.mime_one_grad_fn_for_both_passes = true /\ Gen_mime_lite.mimelite_one_grad_fn_for_both_passes = true).
Proof. exact (fun S OS sinit binit p => conj (gen_inits sinit binit p) gen_wiring). Qed.

Theorem C12_fedprox_penalty_gradient : forall mu p s h, length s = length p -> length h = length p ->
  Gen_fed_prox.proximal_penalty mu (vadd p h) s ==
  Gen_fed_prox.proximal_penalty mu p s + vdot (vscale mu (vsub p s)) h + (1 # 2) * mu * sumsq h.
Proof. exact prox_penalty_expansion. Qed.

Theorem C12_sources_are_process_independent :
  Gen_fed_prox.process_independent = true /\ Gen_apfl.process_independent = true /\ Gen_mime.process_independent = true /\
  Gen_mime_lite.process_independent = true /\ Gen_hyp_cluster.process_independent = true.
Proof. exact gen_process_independent. Qed.

(* the guards of the reductions are satisfiable (non-trivial instances) *)
Example C12_mime_guard_satisfiable :
  let cl : list (mclient (K := key) (B := list example)) :=
    [(mkClient 4%Z 2%Z [0] [[([1; 0], 1); ([0; 1], 1)]], [([([1; 0], 1); ([0; 1], 1)], 2%Z)]);
     (mkClient 1%Z 0%Z [] [], [])] in
  NoDup (map c_id (map fst cl)) /\ Forall one_step_client cl /\ (0 < total_examples (map fst cl))%Z.
Proof.
  cbv zeta. split; [repeat constructor; cbn; intuition discriminate|]. split; [|reflexivity].
  constructor; [right; split; [reflexivity|eexists; reflexivity]|]. constructor; [left; split; reflexivity|constructor].
Qed.

Example C12_key_free_gradient_exists : forall p b (u u' : Q), (fun w batch (_ : Q) => batch_grad w batch 0) p b u = (fun w batch (_ : Q) => batch_grad w batch 0) p b u'.
Proof. reflexivity. Qed.

(* ---- the instance evaluated by the correspondence check satisfies the hypotheses ----
   its gradient is ls_grad_reg reg = batch gradient of the least-squares loss + 2*reg*w
   (fedjax.grad(per_example_loss, l2_regularizer(reg)); reg = 0: no regularizer) *)
Theorem C12_ls_gradient_is_regularized : forall reg p b u,
  ls_grad_reg reg p b u =v= reg_grad (fun w batch nu => batch_grad w batch nu) (fun w => vscale (2 * reg) w) p b u.
Proof. exact ls_grad_reg_is_reg_grad. Qed.

Notation lsclient := (client (K := key) (B := list example)).
Notation lsmclient := (mclient (K := key) (B := list example)).

Theorem C12_ls_fedprox_mu0_eq_fedavg : forall reg co so mu (cohorts : list (list lsclient)) p os,
  mu == 0 -> Forall (fun cl => NoDup (map c_id cl)) cohorts ->
  exists q s dgs q' s' dgs',
    fedprox_runs (ls_grad_reg reg) split_key ls_copt_init (ls_copt_apply co) (ls_sopt so) mu (p, os) cohorts = Some (q, s, dgs) /\
    fedavg_runs (ls_grad_reg reg) split_key ls_copt_init (ls_copt_apply co) (ls_sopt so) (p, os) cohorts = Some (q', s', dgs') /\
    q =v= q' /\ s =v= s' /\ Forall2 (fun dg dg' => map fst dg = map fst dg') dgs dgs'.
Proof. exact ls_fedprox_mu0_runs. Qed.

Theorem C12_ls_hypcluster_eq_fedavg : forall reg co so (cohorts : list (list lsclient)) p os,
  Forall (fun cl => NoDup (map c_id cl)) cohorts -> Forall (fun cl => (0 < total_examples cl)%Z) cohorts ->
  exists q s q' s' dgs,
    iter_rounds (hypcluster (ls_grad_reg reg) split_key ls_split_pair ls_copt_init (ls_copt_apply co) (ls_sopt so) (fun _ => O)) [(p, os)] cohorts
      = Some [(q, s)] /\
    fedavg_runs (ls_grad_reg reg) split_key ls_copt_init (ls_copt_apply co) (ls_sopt so) (p, os) (map (map (rekey ls_split_pair)) cohorts)
      = Some (q', s', dgs) /\ q =v= q' /\ s =v= s'.
Proof. exact ls_hypcluster_runs. Qed.

Theorem C12_ls_hypcluster_eq_fedavg_plain_sgd_server : forall reg co so (cohorts : list (list lsclient)) p os,
  o_mom so == 0 -> Forall (fun cl => NoDup (map c_id cl)) cohorts ->
  exists q s q' s' dgs,
    iter_rounds (hypcluster (ls_grad_reg reg) split_key ls_split_pair ls_copt_init (ls_copt_apply co) (ls_sopt so) (fun _ => O)) [(p, os)] cohorts
      = Some [(q, s)] /\
    fedavg_runs (ls_grad_reg reg) split_key ls_copt_init (ls_copt_apply co) (ls_sopt so) (p, os) (map (map (rekey ls_split_pair)) cohorts)
      = Some (q', s', dgs) /\ q =v= q'.
Proof. exact ls_hypcluster_runs_plain. Qed.

Theorem C12_ls_mimelite_sgd_lr1_eq_fedavg : forall reg co (cohorts : list (list lsmclient)) p s os,
  o_mom co == 0 -> Forall (fun cl => NoDup (map c_id (map fst cl))) cohorts ->
  exists q s1 q' os1 dgs,
    iter_rounds (mimelite (ls_grad_reg reg) split_key (ls_copt_apply co) 1) (p, s) cohorts = Some (q, s1) /\
    fedavg_runs (ls_grad_reg reg) split_key ls_copt_init (ls_copt_apply co) (ls_sopt (mkSgd 1 0 false)) (p, os) (map (map fst) cohorts)
      = Some (q', os1, dgs) /\ q =v= q'.
Proof. exact ls_mimelite_runs. Qed.

Theorem C12_ls_mime_sgd_one_step_is_fullbatch_step : forall reg co slr (cohorts : list (list lsmclient)) p s,
  o_mom co == 0 ->
  Forall (fun cl => NoDup (map c_id (map fst cl)) /\ Forall one_step_client cl /\ (0 < total_examples (map fst cl))%Z) cohorts ->
  exists q s1, iter_rounds (mime (ls_grad_reg reg) split_key (ls_copt_apply co) slr) (p, s) cohorts = Some (q, s1) /\
    fullbatch_chain (ls_grad_reg reg) split_key (o_lr co) slr p cohorts q.
Proof. exact ls_mime_runs. Qed.

(* The guard of C12_hypcluster_one_cluster_eq_fedavg is needed: with a momentum server
   optimizer and a second round that saw no example the two algorithms differ (known finding
   hypcluster-empty-round-skips-server-optimizer) *)
Theorem C12_hypcluster_eq_fedavg_unguarded_refuted :
  exists co so cohorts p os q s q' s' dgs,
    Forall (fun cl => NoDup (map c_id cl)) cohorts /\
    iter_rounds (hypcluster (ls_grad_reg 0) split_key ls_split_pair ls_copt_init (ls_copt_apply co) (ls_sopt so) (fun _ => O)) [(p, os)] cohorts
      = Some [(q, s)] /\
    fedavg_runs (ls_grad_reg 0) split_key ls_copt_init (ls_copt_apply co) (ls_sopt so) (p, os) (map (map (rekey ls_split_pair)) cohorts)
      = Some (q', s', dgs) /\ ~ q =v= q'.
Proof. exact hypcluster_unguarded_refuted. Qed.

Print Assumptions C12_fedprox_is_fedavg_on_prox_loss.
Print Assumptions C12_apfl_global_eq_fedavg.
Print Assumptions C12_apfl_global_eq_fedavg_multi_round.
Print Assumptions C12_hypcluster_empty_round_keeps_state.
Print Assumptions C12_fedprox_mu0_eq_fedavg.
Print Assumptions C12_hypcluster_one_cluster_eq_fedavg.
Print Assumptions C12_mimelite_sgd_lr1_eq_fedavg.
Print Assumptions C12_mime_sgd_one_step_is_fullbatch_step.
Print Assumptions C12_mime_empty_round_keeps_params.
Print Assumptions C12_mime_control_variate_is_cohort_gradient.
Print Assumptions C12_mime_fullbatch_gradient_includes_regularizer.
Print Assumptions C12_source_fedavg_is_skeleton.
Print Assumptions C12_source_fedprox_is_skeleton.
Print Assumptions C12_source_apfl_global_is_skeleton.
Print Assumptions C12_source_mime_is_skeleton.
Print Assumptions C12_source_mimelite_is_skeleton.
Print Assumptions C12_source_hypcluster_one_cluster_is_skeleton.
Print Assumptions C12_source_inits_and_wiring.
Print Assumptions C12_fedprox_penalty_gradient.
Print Assumptions C12_sources_are_process_independent.
Print Assumptions C12_ls_gradient_is_regularized.
Print Assumptions C12_ls_fedprox_mu0_eq_fedavg.
Print Assumptions C12_ls_hypcluster_eq_fedavg.
Print Assumptions C12_ls_hypcluster_eq_fedavg_plain_sgd_server.
Print Assumptions C12_ls_mimelite_sgd_lr1_eq_fedavg.
Print Assumptions C12_ls_mime_sgd_one_step_is_fullbatch_step.
Print Assumptions C12_hypcluster_eq_fedavg_unguarded_refuted.
