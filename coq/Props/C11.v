(* C11 -- Stochastic quantizers are unbiased, bounded, finite and accounted.
   Property theorems only; every proof is `exact <lemma>` (Proofs/C11_*.v).
   `usq`, `bsq`, `tern`, `drive_leaf`, `usq_agg` are the NanQ models evaluated by the
   correspondence check (Model/C11_Model.v); `lift v = map Some v` is a finite vector, so
   every "= lift out" below also says: no NaN / Inf.  The uniform draw of coordinate i is
   the oracle argument u_i; "P[upper level] = t" is stated as: the output is the upper
   level exactly for u_i <= t (resp. < t for the binary quantizer), the uniform law on
   [0,1) being the definition of jax.random.uniform. *)
From Coq Require Import ZArith QArith Qcanon Qabs Qminmax List Bool.
From FV Require Import Common.CMonoid Common.NanQ Common.NanVec Common.KeyPath Common.QVec Common.WMean gen.Gen_compression gen.Gen_walsh_hadamard
  gen.Gen_tree_util Model.C07_Model Proofs.C07_Proofs Model.C11_Model Proofs.C11_Proofs Proofs.C11_Quant Proofs.C11_Agg Proofs.C11_Gen Proofs.C18_Proofs Proofs.C11_Rot Proofs.C11_RotNorm.
Import ListNotations.
Local Open Scope Q_scope.

(* every coordinate of uniform_stochastic_quantize is one of the two neighbouring levels
   lvl kf <= x <= lvl kc (kc = kf or kf + 1) of the (L-1)-step grid between min and max *)
Theorem C11_usq_neighbouring_levels : forall (v : list Q) (L : Z) (u : list Q) (i : nat),
  v <> [] -> (2 <= L)%Z -> (i < length v)%nat -> length u = length v ->
  let m := qmin v in let M := qmax v in let x := nth i v 0 in
  exists (kf kc : Z) (out : list Q),
    (0 <= kf <= kc)%Z /\ (kc <= L - 1)%Z /\ (kc = kf \/ kc = kf + 1)%Z /\
    lvl m M L kf <= x <= lvl m M L kc /\
    usq (lift v) L u = lift out /\ length out = length v /\
    (nth i out 0 == lvl m M L kf \/ nth i out 0 == lvl m M L kc) /\
    m <= nth i out 0 <= M /\ Qabs (nth i out 0 - x) <= step_of m M L.
Proof.
  exact (fun v L u i Hv HL Hi Hu =>
    match usq_coord_spec v L i Hv HL Hi with
    | ex_intro _ kf (ex_intro _ kc (ex_intro _ t (conj K1 (conj K2 (conj K3 (conj Ht (conj Hx (conj G1 (conj G2 (conj Hub Hout)))))))))) =>
      match Hout u Hu with
      | ex_intro _ out (conj E (conj Hl (conj O1 O2))) =>
        let Hy := match Qlt_le_dec t (nth i u 0) with left H => or_introl (O1 H) | right H => or_intror (O2 H) end in
        ex_intro _ kf (ex_intro _ kc (ex_intro _ out
          (conj K1 (conj K2 (conj K3 (conj Hx (conj E (conj Hl (conj Hy
            (usq_coord_bounds v L i kf kc (nth i out 0) Hv HL K1 K2 K3 Hx Hy))))))))))
      end
    end).
Qed.

(* unbiased: a threshold t (independent of the draws) with (1-t)*lower + t*upper == x, and
   the set of draws giving the upper level is exactly [0, t] *)
Theorem C11_usq_unbiased : forall (v : list Q) (L : Z) (i : nat),
  v <> [] -> (2 <= L)%Z -> (i < length v)%nat ->
  let m := qmin v in let M := qmax v in let x := nth i v 0 in
  exists (kf kc : Z) (t : Q),
    (0 <= kf <= kc)%Z /\ (kc <= L - 1)%Z /\ (kc = kf \/ kc = kf + 1)%Z /\ 0 <= t < 1 /\
    lvl m M L kf <= x <= lvl m M L kc /\
    (kc = kf -> t == 0 /\ x == lvl m M L kf) /\
    (kc = (kf + 1)%Z -> 0 < t /\ lvl m M L kf < x < lvl m M L kc) /\
    (1 - t) * lvl m M L kf + t * lvl m M L kc == x /\
    forall u, length u = length v ->
      exists out, usq (lift v) L u = lift out /\ length out = length v /\
        (t < nth i u 0 -> nth i out 0 == lvl m M L kf) /\
        (nth i u 0 <= t -> nth i out 0 == lvl m M L kc).
Proof. exact usq_coord_spec. Qed.

(* vectors already on the grid, constant vectors and all-zero vectors pass through
   unchanged, for EVERY draw *)
Theorem C11_grid_constant_zero_identity :
  (forall (v : list Q) (L : Z) (i : nat) (k : Z) (u : list Q),
     v <> [] -> (2 <= L)%Z -> (i < length v)%nat -> length u = length v ->
     nth i v 0 == lvl (qmin v) (qmax v) L k ->
     exists out, usq (lift v) L u = lift out /\ length out = length v /\ nth i out 0 == nth i v 0) /\
  (forall (v : list Q) (L : Z) (u : list Q) (c : Q),
     v <> [] -> (2 <= L)%Z -> length u = length v -> Forall (fun x => x == c) v ->
     exists out, usq (lift v) L u = lift out /\ length out = length v /\ Forall (fun y => y == c) out).
Proof. exact (conj usq_identity_on_grid usq_identity_constant). Qed.

(* binary quantizer: levels {min, max}, (1-t)*min + t*max == x, max exactly for u_i < t;
   coordinates equal to min or max are unchanged for every draw in [0,1) *)
Theorem C11_bsq_levels_unbiased_identity : forall (v : list Q) (i : nat),
  v <> [] -> (i < length v)%nat ->
  let m := qmin v in let M := qmax v in let x := nth i v 0 in
  exists t, 0 <= t <= 1 /\ (1 - t) * m + t * M == x /\
    forall u, length u = length v ->
      exists out, bsq (lift v) u = lift out /\ length out = length v /\
        (t <= nth i u 0 -> nth i out 0 = m) /\ (nth i u 0 < t -> nth i out 0 = M) /\
        (0 <= nth i u 0 < 1 -> x == m \/ x == M -> nth i out 0 == x).
Proof. exact bsq_coord_spec. Qed.

(* TernGrad: the clipped input xc (clipped at tern_clip * sigma, tern_clip = 5/2 translated
   from the source), s = the largest clipped magnitude; outputs in {0, s * sign xc} with
   P[nonzero] = t and t * (s * sign xc) == xc *)
Theorem C11_terngrad_levels : forall (sigma : Q) (v : list Q) (i : nat) (u : list Q),
  v <> [] -> (i < length v)%nat -> length u = length v ->
  let vc := map (tern_clipped_q sigma) v in let s := qmax (map Qabs vc) in let xc := nth i vc 0 in
  exists out, tern sigma (lift v) u = lift out /\ length out = length v /\ 0 <= s /\
    (nth i out 0 == 0 \/ nth i out 0 == s * qsign xc) /\
    (qsign xc = 0 \/ qsign xc = 1 \/ qsign xc = -1 # 1).
Proof.
  exact (fun sigma v i u Hv Hi Hu =>
    match tern_coord_spec sigma v i Hv Hi with
    | conj Hs (conj _ (ex_intro _ t (conj _ (conj _ Hout)))) =>
      match Hout u Hu with
      | ex_intro _ out (conj E (conj Hl (conj O1 O2))) =>
        ex_intro _ out (conj E (conj Hl (conj Hs (conj
          (match Qlt_le_dec (nth i u 0) t with left H => or_intror (O2 H) | right H => or_introl (O1 H) end)
          (let xc := nth i (map (tern_clipped_q sigma) v) 0 in
           match Q_dec xc 0 with
           | inleft (left H) => or_intror (or_intror (proj2 (proj2 (qsign_spec xc)) H))
           | inleft (right H) => or_intror (or_introl (proj1 (qsign_spec xc) H))
           | inright H => or_introl (proj1 (proj2 (qsign_spec xc)) H)
           end)))))
      end
    end).
Qed.

Theorem C11_terngrad_unbiased_clipped :
  (forall sigma x, 0 <= sigma ->
     tern_clipped_q sigma x == Qmax (- (tern_clip * sigma)) (Qmin x (tern_clip * sigma))) /\
  tern_clip == 5 # 2 /\
  (forall (sigma : Q) (v : list Q) (i : nat), v <> [] -> (i < length v)%nat ->
     let vc := map (tern_clipped_q sigma) v in let s := qmax (map Qabs vc) in let xc := nth i vc 0 in
     0 <= s /\ Qabs xc <= s /\
     exists t, 0 <= t <= 1 /\ t * (s * qsign xc) == xc /\
       forall u, length u = length v ->
         exists out, tern sigma (lift v) u = lift out /\ length out = length v /\
           (t <= nth i u 0 -> nth i out 0 == 0) /\ (nth i u 0 < t -> nth i out 0 == s * qsign xc)).
Proof. exact (conj tern_clipped_q_spec (conj (Qeq_refl _) tern_coord_spec)). Qed.

(* no quantizer produces NaN / Inf on finite input, DRIVE included (all-zero leaf stays zero) *)
Theorem C11_never_nan :
  (forall v L u, v <> [] -> (2 <= L)%Z -> usq (lift v) L u = lift (usq_q v L u)) /\
  (forall v u, v <> [] -> bsq (lift v) u = lift (bsq_q v u)) /\
  (forall sigma v u, v <> [] -> tern sigma (lift v) u = lift (tern_q sigma v u)) /\
  (forall x, drive_leaf (lift x) = lift (drive_q x)) /\
  (forall x, Forall (fun a => a == 0) x -> Forall (fun y => y == 0) (drive_q x)).
Proof. exact (conj usq_lift (conj bsq_lift (conj tern_lift (conj drive_lift drive_zero_leaf)))). Qed.

(* the aggregator returns the weighted mean (translated tree_mean) of the per-client quantised trees *)
Theorem C11_aggregate_is_wmean_of_quantised : forall L cl us n,
  (2 <= L)%Z -> cl <> [] -> clients_ok n cl us ->
  exists v, usq_agg L (lift_clients cl) us = Some (vlift v) /\
            v =v= wmean_batch n (map swap (usq_clients_q L cl us)).
Proof. exact usq_agg_is_wmean. Qed.

(* ... hence coordinate-wise within the largest per-client grid step of the exact weighted mean *)
Theorem C11_aggregate_error_bound : forall L cl us n e,
  (2 <= L)%Z -> cl <> [] -> clients_ok n cl us -> 0 <= e ->
  Forall (fun c => 0 <= snd c /\ steps_le L e (fst c)) cl ->
  exists v, usq_agg L (lift_clients cl) us = Some (vlift v) /\
    vclose e (wmean_batch n (map (fun c => (snd c, concat (fst c))) cl)) v.
Proof. exact usq_agg_error_bound. Qed.

(* T: the quantizer bodies translated from compression.py on this run ARE the model functions
   of the theorems above (rng = the vector of its uniform draws; jnp.std = the parameter sigma) *)
Theorem C11_translated_quantizers_are_model :
  (forall v L u, gen_usq v (NanQ.of_Z L) (lift u) None None = usq v L u) /\
  (forall v u, gen_bsq v (lift u) None None = bsq v u) /\
  (forall sigma v u, gen_tern (fun _ => Some sigma) v (lift u) = tern sigma v u) /\
  (forall x, gen_drive_leaf x = drive_leaf x).
Proof. exact (conj gen_usq_is_model (conj gen_bsq_is_model (conj gen_tern_is_model gen_drive_is_model))). Qed.

(* T: the PRNG plumbing translated from the four apply() functions and the *_pytree functions
   (which split index becomes the next state, which key seeds the per-client hk.PRNGSequence, which
   key each quantizer / rotation / inverse rotation receives, leaf l gets split index l) is the path model *)
Theorem C11_translated_keys_are_model : forall t c l,
  usq_pytree_leaf_key (usq_agg_quant_key (iter_state usq_agg_next_state t) c) l = usq_key t c l /\
  tern_pytree_leaf_key (tern_agg_quant_key (iter_state tern_agg_next_state t) c) l = tern_key t c l /\
  (rot_pytree_leaf_key (drive_agg_rot_key (iter_state drive_agg_next_state t) c) l = drive_key t c l /\
   inv_pytree_leaf_key (drive_agg_inv_key (iter_state drive_agg_next_state t) c) l = drive_key t c l) /\
  (usq_pytree_leaf_key (rusq_agg_quant_key (iter_state rusq_agg_next_state t) c) l = rusq_key t c l /\
   rot_pytree_leaf_key (rusq_agg_rot_key (iter_state rusq_agg_next_state t) c) l = rusq_rot_key t l /\
   inv_pytree_leaf_key (rusq_agg_inv_key (iter_state rusq_agg_next_state t) c) l = rusq_rot_key t l) /\
  iter_state usq_agg_next_state t = usq_state t /\ iter_state tern_agg_next_state t = tern_state t /\
  iter_state drive_agg_next_state t = drive_state t /\ iter_state rusq_agg_next_state t = rusq_state t.
Proof.
  exact (fun t c l => conj (usq_key_gen t c l) (conj (tern_key_gen t c l) (conj (drive_key_gen t c l) (conj (rusq_key_gen t c l)
    (conj (usq_state_gen t) (conj (tern_state_gen t) (conj (drive_state_gen t) (rusq_state_gen t)))))))).
Qed.

(* no key used for drawing / rotating is a proper prefix of another one *)
Theorem C11_keys_prefix_free :
  (forall t c l t' c' l' X, usq_key t c l ++ X = usq_key t' c' l' -> X = []) /\
  (forall t c l t' c' l' X, tern_key t c l ++ X = tern_key t' c' l' -> X = []) /\
  (forall t c l t' c' l' X, drive_key t c l ++ X = drive_key t' c' l' -> X = []) /\
  (forall t c l t' c' l' X, rusq_key t c l ++ X = rusq_key t' c' l' -> X = []) /\
  (forall t l t' l' X, rusq_rot_key t l ++ X = rusq_rot_key t' l' -> X = []) /\
  (forall t l t' c' l' X, rusq_rot_key t l ++ X <> rusq_key t' c' l' /\ rusq_key t' c' l' ++ X <> rusq_rot_key t l).
Proof.
  exact (conj usq_key_prefix_free (conj usq_key_prefix_free (conj drive_key_prefix_free (conj rusq_key_prefix_free
        (conj rusq_rot_key_prefix_free rusq_rot_quant_prefix_free))))).
Qed.

(* TernGrad aggregator: weighted mean of the per-client ternarised trees, coordinate-wise within
   e of the weighted mean of the clipped inputs whenever e bounds every leaf's level s *)
Theorem C11_terngrad_aggregate : forall n e (cl : list tclient),
  cl <> [] -> Forall (tclient_ok n) cl -> 0 <= e ->
  Forall (fun c => 0 <= snd c /\ Forall (fun x => tern_leaf_s x <= e) (fst c)) cl ->
  exists v,
    tern_agg (lift_clients (map (fun c => (map tl_leaf (fst c), snd c)) cl))
             (map (fun c => map tl_s (fst c)) cl) (map (fun c => map tl_u (fst c)) cl) = Some (vlift v) /\
    v =v= wmean_batch n (map swap (map tern_client_q cl)) /\
    vclose e (wmean_batch n (map tern_client_ref cl)) v.
Proof. exact tern_agg_spec. Qed.

(* rotated aggregators (rotated uniform, DRIVE): for leaves the Q model can rotate (non-empty, padded size 2^K with K even
   -- sqrt(2^K) rational -- and K <= 56) the per-client pipelines are DEFINED and SIZE-PRESERVING, and the aggregator returns
   the weighted mean of the per-client pipeline outputs qcl (same weights, same leaf sizes) *)
Theorem C11_rotated_aggregates_are_wmean :
  (forall n (cl : list (list (list Q) * Q)) (signs : list (list (list bool))),
     cl <> [] -> sizes_ok n cl ->
     Forall2 (fun c sg => Forall2 (fun leaf (_ : list bool) => rot_leaf_ok (length leaf)) (fst c) sg) cl signs ->
     exists (qcl : list (list (list Q) * Q)) v,
       drive_agg signs (lift_clients cl) = Some (vlift v) /\
       v =v= wmean_batch n (map (fun c => (snd c, concat (fst c))) qcl) /\
       Forall2 (fun c q => snd q = snd c /\ Forall2 (fun l l' => length l' = length l) (fst c) (fst q)) cl qcl) /\
  (forall n L (signs : list (list bool)) (cl : list (list (list Q) * Q)) (us : list (list (list Q))),
     (2 <= L)%Z -> cl <> [] -> sizes_ok n cl ->
     Forall2 (fun c u => length signs = length (fst c) /\ Forall2 rusq_leaf_ok (fst c) u) cl us ->
     exists (qcl : list (list (list Q) * Q)) v,
       rusq_agg L signs (lift_clients cl) us = Some (vlift v) /\
       v =v= wmean_batch n (map (fun c => (snd c, concat (fst c))) qcl) /\
       Forall2 (fun c q => snd q = snd c /\ Forall2 (fun l l' => length l' = length l) (fst c) (fst q)) cl qcl).
Proof. exact (conj drive_agg_is_wmean rusq_agg_is_wmean). Qed.

(* squared-norm error of the rotated pipelines.  PROVED (per client leaf, any finite length-preserving quantiser f
   in the rotated space -- uniform or DRIVE): the error after the inverse rotation is at most the error f makes in the
   rotated space, sum (w - x)^2 <= sum (f(y) - y)^2 (isometry of H D / sqrt d + cropping; uses C18 linearity,
   involution, Parseval over Qc).
   MISSING for the aggregate-level bound "|| aggregate - exact weighted mean ||^2 <= max_c || f(y_c) - y_c ||^2":
   the convexity lemma  sumsq (wmean_batch n cl) <= max_c sumsq (snd c)  for weights >= 0 with positive total
   (Jensen for the squared norm; Common/WMean.v only has the coordinate-wise hull / error lemmas), and the assembly
   sum_{j<d} (f(y)_j - y_j)^2 <= d * step^2 from the coordinate-wise C11_usq_neighbouring_levels. *)
Theorem C11_rotated_aggregate_error_bound_partial : forall f (fq : list Q -> list Q) (s : list bool) (xq : list Q),
  rot_leaf_ok (length xq) -> length s = length xq ->
  (forall y, length y = (2 ^ rdim (length xq))%nat -> f (lift y) = lift (fq y) /\ length (fq y) = length y) ->
  exists y w, qrot s xq = Some y /\ through_rotation f s (lift xq) = Some (lift w) /\ length w = length xq /\
    Qcle (RingVec.sumsq (Q2Qc 0) Qcplus Qcmult (RingVec.vsub Qcminus (q2c w) (q2c xq)))
         (RingVec.sumsq (Q2Qc 0) Qcplus Qcmult (RingVec.vsub Qcminus (q2c (fq y)) (q2c y))).
Proof. exact through_rotation_error. Qed.

(* keys: the split path used for (round t, client c, leaf l) determines (t, c, l), for all
   four aggregators and all histories; rotation keys of the rotated quantizer are distinct
   per (round, leaf) and never coincide with a quantisation key; the state key is never drawn from *)
Theorem C11_keys_distinct :
  (forall t c l t' c' l', usq_key t c l = usq_key t' c' l' -> t = t' /\ c = c' /\ l = l') /\
  (forall t c l t' c' l', tern_key t c l = tern_key t' c' l' -> t = t' /\ c = c' /\ l = l') /\
  (forall t c l t' c' l', drive_key t c l = drive_key t' c' l' -> t = t' /\ c = c' /\ l = l') /\
  (forall t c l t' c' l', rusq_key t c l = rusq_key t' c' l' -> t = t' /\ c = c' /\ l = l') /\
  (forall t l t' l', rusq_rot_key t l = rusq_rot_key t' l' -> t = t' /\ l = l') /\
  (forall t l t' c' l', rusq_rot_key t l <> rusq_key t' c' l') /\
  (forall t t' c l, usq_state t <> usq_key t' c l).
Proof.
  exact (conj usq_key_inj (conj usq_key_inj (conj drive_key_inj (conj rusq_key_inj
        (conj rusq_rot_key_inj (conj rusq_rot_vs_quant usq_state_not_key)))))).
Qed.

(* the keys of one round (call order of the harness' `draw-count` / `keys-reused` oracle keys): exactly one per
   (client, leaf) and pairwise distinct, for all four aggregators *)
Theorem C11_round_keys : forall t clients leaves,
  length (round_keys usq_key t clients leaves) = (clients * leaves)%nat /\
  (NoDup (round_keys usq_key t clients leaves) /\ NoDup (round_keys tern_key t clients leaves) /\
   NoDup (round_keys drive_key t clients leaves) /\ NoDup (round_keys rusq_key t clients leaves)).
Proof. exact (fun t c l => conj (round_keys_length usq_key t c l) (round_keys_all_distinct t c l)). Qed.

(* after r rounds the counter is r times the documented per-round formula
   a * log2(base) + b  (the triples are translated from compression.py on this run) *)
Theorem C11_bits_formula : forall L P n r,
  bits_after usq_bits L P n r = (L, r * P, r * (64 * n))%Z /\
  bits_after rusq_bits L P n r = (L, r * P, r * (64 * n))%Z /\
  bits_after tern_bits L P n r = (3, r * P, r * (64 * n))%Z /\
  bits_after drive_bits L P n r = (1, 0, r * (P + 64 * n))%Z.
Proof. exact (fun L P n r => conj (bits_usq L P n r) (conj (bits_rusq L P n r) (conj (bits_tern L P n r) (bits_drive L P n r)))). Qed.

(* non-vacuity *)
Example C11_example :
  usq (lift [0; 1; 2]) 3 [1 # 2; 1 # 2; 1 # 2] = lift (usq_q [0; 1; 2] 3 [1 # 2; 1 # 2; 1 # 2]) /\
  Forall2 Qeq (usq_q [0; 3 # 4; 2] 3 [1 # 2; 1 # 2; 9 # 10]) [0; 1; 2] /\
  Forall2 Qeq (usq_q [0; 3 # 4; 2] 3 [1 # 2; 4 # 5; 0]) [0; 0; 2] /\
  Forall2 Qeq (drive_q [0; 0; 0]) [0; 0; 0] /\
  usq_key 2 1 0 = [0; 0; 1; 0; 1; 0]%nat /\ rusq_key 1 0 2 = [0; 0; 0; 1; 1; 2]%nat /\
  clients_ok 3 [([[0; 1]; [2]], 1); ([[1; 1]; [0]], 3)] [[[0; 0]; [0]]; [[0; 0]; [0]]].
Proof.
  split; [apply usq_lift; discriminate|].
  repeat split; try (vm_compute; repeat constructor; reflexivity).
  all: repeat constructor; try discriminate; reflexivity.
Qed.

(* the hypotheses of the aggregate theorems are satisfiable by non-trivial instances *)
Example C11_hypotheses_examples :
  rot_leaf_ok 3 /\ rot_leaf_ok 35 /\ rot_leaf_ok 16 /\ ~ rot_leaf_ok 2 /\
  rusq_leaf_ok [1; 2; 3] [0; 1 # 2; 1 # 4; 3 # 4] /\
  sizes_ok 4 [([[1; 2; 3]; [4]], 1); ([[0; 0; 1]; [5]], 2)] /\
  tclient_ok 3 ([([1; -1], [0; 1 # 2], 1); ([3], [1 # 4], 0)], 2) /\
  (exists v, drive_agg [[[true; false; true]]] (lift_clients [([[1; 2; 3]], 1)]) = Some (vlift v)).
Proof.
  unfold rot_leaf_ok, rusq_leaf_ok, sizes_ok, tclient_ok.
  repeat split; try (vm_compute; reflexivity); try (vm_compute; discriminate); try (repeat constructor; fail).
  - intros (_ & _ & H). vm_compute in H. discriminate.
  - repeat constructor; vm_compute; try reflexivity; discriminate.
  - exists [7 # 6; 7 # 6; 7 # 2]. vm_compute. reflexivity.
Qed.

Print Assumptions C11_usq_neighbouring_levels.
Print Assumptions C11_usq_unbiased.
Print Assumptions C11_grid_constant_zero_identity.
Print Assumptions C11_bsq_levels_unbiased_identity.
Print Assumptions C11_terngrad_levels.
Print Assumptions C11_terngrad_unbiased_clipped.
Print Assumptions C11_never_nan.
Print Assumptions C11_aggregate_is_wmean_of_quantised.
Print Assumptions C11_aggregate_error_bound.
Print Assumptions C11_translated_quantizers_are_model.
Print Assumptions C11_translated_keys_are_model.
Print Assumptions C11_keys_prefix_free.
Print Assumptions C11_terngrad_aggregate.
Print Assumptions C11_rotated_aggregates_are_wmean.
Print Assumptions C11_rotated_aggregate_error_bound_partial.
Print Assumptions C11_round_keys.
Print Assumptions C11_keys_distinct.
Print Assumptions C11_bits_formula.
