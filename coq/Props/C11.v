(* C11 -- Stochastic quantizers are unbiased, bounded, finite and accounted.
   Property theorems only; every proof is `exact <lemma>` (Proofs/C11_Proofs.v). *)
From Coq Require Import ZArith QArith Qabs List Bool.
From FV Require Import Common.NanQ gen.Gen_compression Model.C11_Model Proofs.C11_Proofs.
Import ListNotations.

(* keys: the split path used for (round t, client c, leaf l) determines (t, c, l), for all
   four aggregators and all histories; rotation keys of the rotated quantizer are distinct
   per (round, leaf) and never coincide with a quantisation key; the state key is never drawn from *)
Theorem C11_keys_distinct :
  (forall t c l t' c' l', usq_key t c l = usq_key t' c' l' -> t = t' /\ c = c' /\ l = l') /\
  (forall t c l t' c' l', tern_key t c l = tern_key t' c' l' -> t = t' /\ c = c' /\ l = l') /\
  (forall t c l t' c' l', drive_key t c l = drive_key t' c' l' -> t = t' /\ c = c' /\ l = l') /\
  (forall t c l t' c' l', rusq_key t c l = rusq_key t' c' l' -> t = t' /\ c = c' /\ l = l') /\
  (forall t l t' l', rusq_rot_key t l = rusq_rot_key t' l' -> t = t' /\ l = l') /\
  (forall t l t' c' l', rusq_rot_key t l <> rusq_key t' c' l') /\
  (forall t t' c l, usq_state t <> usq_key t' c l).
Proof.
  exact (conj usq_key_inj (conj usq_key_inj (conj drive_key_inj (conj rusq_key_inj
        (conj rusq_rot_key_inj (conj rusq_rot_vs_quant usq_state_not_key)))))).
Qed.

(* after r rounds the counter is r times the documented per-round formula
   a * log2(base) + b  (the triples are translated from compression.py on this run) *)
Theorem C11_bits_formula : forall L P n r,
  bits_after usq_bits L P n r = (L, r * P, r * (64 * n))%Z /\
  bits_after rusq_bits L P n r = (L, r * P, r * (64 * n))%Z /\
  bits_after tern_bits L P n r = (3, r * P, r * (64 * n))%Z /\
  bits_after drive_bits L P n r = (1, 0, r * (P + 64 * n))%Z.
Proof. exact (fun L P n r => conj (bits_usq L P n r) (conj (bits_rusq L P n r) (conj (bits_tern L P n r) (bits_drive L P n r)))). Qed.

Print Assumptions C11_keys_distinct.
Print Assumptions C11_bits_formula.
