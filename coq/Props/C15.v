(* C15 -- Centralised streams over many clients neither lose nor duplicate.
   Property theorems only; every proof is `exact <lemma>` (Proofs/C15_Proofs.v).
   The functions are the hand-written mirrors in Model/C15_Model.v that the
   correspondence check evaluates against the real fedjax functions on every run;
   `pick` is the translated _pick_final_batch_size (shared with C03), and every modelled
   function is proved equal to the pieces translated on this run from its source text
   (C15_translated_is_model, C15_translated_shuffle_is_model, C15_translated_repeatable_is_model).
   `draws_ok B draws` (every randint draw d satisfies -B <= d) holds for every oracle that
   respects NumPy's contract 0 <= d < B; C15_buffered_shuffle_sound needs no hypothesis at all.
   Quantification: every row type A, every per-example preprocessor f, every
   sequence of client datasets (any sizes, empty ones included), every batch size
   >= 1, every bucket count, every buffer size >= 1, EVERY oracle (Lehmer code of the
   initial shuffle, list of randint draws), every base iterable. *)
From Coq Require Import ZArith List Bool Permutation.
From FV Require Import Common.ListX Common.PySem Common.Batch Model.C03_Model Proofs.C03_Proofs
  Model.C15_Model gen.Gen_client_datasets_multi gen.Gen_federated_data_c15
  gen.Gen_in_memory_federated_data_c15 gen.Gen_sqlite_federated_data_c15 Proofs.C15_Proofs.
Import ListNotations.
Local Open Scope Z_scope.

Section C15.
Context {A : Type} (zero : A) (f : A -> A).

(* stripped batches = concatenation of the datasets in client order and row order *)
Theorem C15_padded_concat : forall (bs nb : Z) (ds : list (cds A)), 1 <= bs -> consistentb ds = true ->
  exists out, padded_batch_client_datasets zero (map f) bs nb ds = PDone out /\
    concat (map real_rows out) = map f (all_rows ds).
Proof. exact (padded_concat zero f). Qed.

(* every batch except the last is full: batch_size rows, all real *)
Theorem C15_all_full_but_last : forall (bs nb : Z) (ds : list (cds A)), 1 <= bs -> consistentb ds = true ->
  exists out, padded_batch_client_datasets zero (map f) bs nb ds = PDone out /\
    forall pre' b post, out = pre' ++ b :: post -> post <> [] ->
      b_mask b = repeat true (Z.to_nat bs) /\ length (b_rows b) = Z.to_nat bs /\
      length (real_rows b) = Z.to_nat bs.
Proof. exact (padded_all_full_but_last zero f). Qed.

(* the carry-over buffer never exceeds batch_size, after every prefix of the clients
   (the code comment's strict `<` is not an invariant, see C15_buffer_full_reachable) *)
Theorem C15_buffer_invariant : forall (bs : Z) (ds rest : list (cds A)), 1 <= bs ->
  consistentb (ds ++ rest) = true ->
  exists st, pfold (map f) bs pinit ds = SNext st /\
    0 <= p_bufsize st <= bs /\ p_bufsize st = Z.of_nat (length (concat (p_buf st))).
Proof. exact (@padded_buffer_invariant A f). Qed.

(* the last batch has the size the bucket rule picks for its number of real rows, its
   mask is true exactly on a prefix holding them, the padded rows are the zero row *)
Theorem C15_last_padded_by_bucket_rule : forall (bs nb : Z) (ds : list (cds A)), 1 <= bs ->
  consistentb ds = true ->
  exists out, padded_batch_client_datasets zero (map f) bs nb ds = PDone out /\
    forall pre' b, out = pre' ++ [b] ->
      exists r, pick_ok (Z.of_nat (length (real_rows b))) bs nb r /\ wf_padded zero (Z.to_nat r) b.
Proof. exact (padded_last_bucket_rule zero f). Qed.

(* a dataset whose preprocessor object or feature set differs from the first one's
   makes both functions raise ValueError ... *)
Theorem C15_mismatch_rejected : forall (bs nb : Z) (ds : list (cds A)), 1 <= bs -> consistentb ds = false ->
  exists out, padded_batch_client_datasets zero (map f) bs nb ds = PValueError out.
Proof. exact (padded_mismatch_rejected zero f). Qed.

Theorem C15_mismatch_rejected_shuffle : forall (bs B : Z) code draws (ds : list (cds A)), 1 <= B ->
  draws_ok B draws -> consistentb ds = false ->
  exists out, buffered_shuffle_batch_client_datasets (map f) bs B code draws ds = Some (out, true).
Proof. exact (@shuffle_batch_mismatch_rejected A f). Qed.

(* ... and what was yielded before the error is exactly what the consistent prefix yields *)
Theorem C15_mismatch_after_prefix : forall (bs : Z) (good : list (cds A)) d0 d rest, 1 <= bs ->
  consistentb (d0 :: good) = true -> meta_ok (d_pre d0) (d_feat d0) d = false ->
  exists st, pfold (map f) bs pinit (d0 :: good) = SNext st /\
             pfold (map f) bs pinit ((d0 :: good) ++ d :: rest) = SRaise (p_out st).
Proof. exact (@pfold_mismatch A (map f)). Qed.

(* shuffle + batch: every (client,row) item is emitted exactly once; all batches but
   the last have batch_size rows, none is empty *)
Theorem C15_shuffle_batch_exactly_once : forall (bs B : Z) code draws (ds : list (cds A)),
  1 <= bs -> 1 <= B -> draws_ok B draws -> consistentb ds = true ->
  exists out, buffered_shuffle_batch_client_datasets (map f) bs B code draws ds = Some (out, false) /\
    Permutation (concat out) (map f (all_rows ds)) /\
    Forall (fun b => (1 <= length b <= Z.to_nat bs)%nat) out /\
    (forall pre' b post, out = pre' ++ b :: post -> post <> [] -> length b = Z.to_nat bs).
Proof. exact (@shuffle_batch_exactly_once A f). Qed.
End C15.

(* (T) padded_batch_client_datasets as translated from the source on this run -- initial
   state, full mask, loop body with its nested while, epilogue -- is the model above *)
Theorem C15_translated_is_model : forall {A} (zero : A) (pre : list A -> list A) bs nb (ds : list (cds A)),
  gen_padded_batch_client_datasets zero pre bs nb ds = padded_batch_client_datasets zero pre bs nb ds /\
  (forall st d, pbcd_step pre (S (length (d_rows d))) bs (pbcd_full_mask bs) st d = pstep pre bs st d) /\
  (forall st, pbcd_finish zero pre bs nb (pbcd_full_mask bs) st = pfinish zero pre bs nb st) /\
  pbcd_init = pinit (A:=A).
Proof.
  exact (fun A zero pre bs nb ds =>
    conj (translated_is_model zero pre bs nb ds)
      (conj (gen_step_spec pre bs) (conj (gen_finish_spec zero pre bs nb) gen_init_spec))).
Qed.

(* (T) buffered_shuffle and buffered_shuffle_batch_client_datasets as translated on this run
   (fill / shuffle / loop body / drain; gen_items body, batching loop body, final flush) *)
Theorem C15_translated_shuffle_is_model : forall {A} (pre : list A -> list A) bs B code draws (src : list A) (ds : list (cds A)),
  gen_buffered_shuffle B code draws src = buffered_shuffle B code draws src false /\
  (forall (st : list A * list Z * list A) i, bshuf_step B st i = bstep B st i) /\
  gen_shuffle_batch pre bs B code draws ds = buffered_shuffle_batch_client_datasets pre bs B code draws ds /\
  (forall pp pf items (d : cds A), gi_step_gen pp pf items d = gi_step pp pf items d) /\
  (forall st item, bl_step_gen pre bs st item = bl_step pre bs st item).
Proof.
  exact (fun A pre bs B code draws src ds =>
    conj (gen_buffered_shuffle_spec B code draws src) (conj (gen_bstep_spec B)
      (conj (gen_shuffle_batch_spec pre bs B code draws ds) (conj gen_gi_step_spec (gen_bl_step_spec pre bs))))).
Qed.

(* (T) RepeatableIterator.__init__ / __next__ as translated on this run *)
Theorem C15_translated_repeatable_is_model : forall {A} container (base : list A) (s : rit (A:=A)),
  rit_init_gen container base = rit_init container base /\ rit_next_gen s = rit_next s /\
  rit_iter_gen s = rit_iter s.
Proof. exact (fun A container base s => conj (gen_rit_init_spec container base) (conj (gen_rit_next_spec s) (gen_rit_iter_spec s))). Qed.

(* buffered shuffling: WHENEVER it returns, for every buffer size and EVERY oracle, the
   output is a permutation of the input ... *)
Theorem C15_buffered_shuffle_sound : forall {A} (B : Z) code draws (src out : list A),
  buffered_shuffle B code draws src false = SOk out -> Permutation src out.
Proof. exact @buffered_shuffle_sound. Qed.

(* ... and it returns for every buffer size >= 1 and every oracle with usable draws *)
Theorem C15_buffered_shuffle_perm : forall {A} (B : Z) code draws (src : list A), 1 <= B -> draws_ok B draws ->
  exists out, buffered_shuffle B code draws src false = SOk out /\ Permutation src out.
Proof. exact @buffered_shuffle_perm. Qed.

(* FederatedData.shuffled_clients (in-memory, subset, SQLite: the translated pass of each is
   buffered_shuffle over the clients): every pass of the stream is a permutation of the
   clients -- each client exactly once per pass when ids are distinct *)
Theorem C15_shuffled_pass_visits_each_once : forall {A} (B : Z) (clients : list A) oracles, 1 <= B ->
  NoDup clients -> Forall (fun o => draws_ok B (snd o)) oracles ->
  (forall code draws,
     in_memory_shuffled_clients_pass B code draws clients = buffered_shuffle B code draws clients false /\
     subset_shuffled_clients_pass B code draws clients = buffered_shuffle B code draws clients false /\
     sqlite_shuffled_clients_pass B code draws clients = buffered_shuffle B code draws clients false) /\
  exists passes, shuffled_clients_passes B oracles clients = Some passes /\
    length passes = length oracles /\
    Forall (fun p => NoDup p /\ length p = length clients /\ forall x, In x p <-> In x clients) passes.
Proof.
  exact (fun A B clients oracles HB Hnd Hd =>
    conj (fun code draws => gen_shuffled_clients_pass_spec B code draws clients)
         (shuffled_passes_nodup B clients oracles HB Hnd Hd)).
Qed.

(* shuffle_repeat_batch_federated_data (an infinite stream; its body is checked structurally by
   the translator and composes the pieces above): after the first B + k items of the item
   stream have been consumed, exactly k items were yielded and B are buffered, together a
   permutation of what was consumed (nothing lost, duplicated or foreign), and the yielded
   items never change when more of the stream is consumed *)
Theorem C15_shuffle_repeat_prefix_exact : forall {A} (B : Z) code draws (prefix more : list A), 1 <= B ->
  draws_ok B draws -> (Z.to_nat B <= length prefix)%nat ->
  let n := Z.to_nat B in
  exists out buf, bshuf_loop B (skipn n prefix) draws (apply_code code (firstn n prefix)) [] = Some (out, buf) /\
    Permutation prefix (out ++ buf) /\ length out = (length prefix - n)%nat /\ length buf = n /\
    (forall out2 buf2, bshuf_loop B (skipn n (prefix ++ more)) draws (apply_code code (firstn n (prefix ++ more))) []
                       = Some (out2, buf2) -> exists later, out2 = out ++ later).
Proof. exact @stream_prefix_exact. Qed.

(* any number n of __next__ calls on a RepeatableIterator over a base producing `base`
   (builtin container or one-shot iterable, empty included) observes the first pass
   again and again: items, StopIteration, items, StopIteration, ... *)
Theorem C15_repeatable_replays_first_pass : forall {A} (container : bool) (base : list A) n m, (n <= m)%nat ->
  rit_trace n (rit_init container base) = firstn n (passes (S m) base).
Proof. exact @repeatable_replays. Qed.

(* ... wherever iter(it) is called in between (a new for loop after a break, islice then list,
   next then list): a pass consumed in pieces is still one pass *)
Theorem C15_repeatable_split_passes : forall {A} (container : bool) (base : list A) (ops : list bool) m,
  (count_occ Bool.bool_dec ops true <= m)%nat ->
  rit_run ops (rit_init container base) = firstn (count_occ Bool.bool_dec ops true) (passes (S m) base).
Proof. exact @repeatable_split_passes. Qed.

Theorem C15_repeatable_whole_passes : forall {A} (container : bool) (base : list A) k,
  rit_trace (k * S (length base)) (rit_init container base) = passes k base.
Proof. exact @repeatable_whole_passes. Qed.

(* non-vacuity, and the corner cases the proofs had to handle *)
Example C15_example :
  padded_batch_client_datasets 0 (map (fun x => 2 * x + 1)) 3 2 (mk_datasets 0 [(7, 1, 5%nat); (7, 1, 1%nat); (7, 1, 0%nat); (7, 1, 7%nat)])
  = PDone [mk_batch [3; 5; 7] [true; true; true]; mk_batch [9; 11; 13] [true; true; true];
           mk_batch [15; 17; 19] [true; true; true]; mk_batch [21; 23; 25] [true; true; true];
           mk_batch [27] [true]]
  /\ consistentb (mk_datasets 0 [(7, 1, 5%nat); (7, 1, 1%nat); (7, 1, 0%nat); (7, 1, 7%nat)]) = true
  /\ consistentb (mk_datasets 0 [(7, 1, 5%nat); (8, 1, 1%nat)]) = false
  /\ buffered_shuffle 4 [3; 1; 0; 0]%nat [3; 0; 0; 0; 1; 1] (idx 10) false = SOk [3; 4; 5; 6; 7; 1; 8; 9; 0; 2].
Proof. vm_compute. repeat split. Qed.

(* the hypotheses of the theorems above are satisfiable by non-trivial instances: recorded NumPy
   draws (0 <= d < B) are usable, ids 0..4 are distinct, a 3-client stream is consistent *)
Example C15_hypotheses_example :
  draws_ok 4 [3; 0; 0; 0; 1; 1] /\ draws_ok 4 [-4; 2] /\ NoDup (idx 5) /\
  Forall (fun o => draws_ok 3 (snd o)) [([2; 0]%nat, [1; 2; 0]); ([0; 1]%nat, [2; 2])] /\
  consistentb (mk_datasets 0 [(7, 1, 2%nat); (7, 1, 0%nat); (7, 1, 4%nat)]) = true.
Proof.
  split; [repeat constructor; discriminate|]. split; [repeat constructor; discriminate|].
  split; [exact (NoDup_idx 5)|]. split; [repeat constructor; discriminate|reflexivity].
Qed.

(* buf_size = batch_size IS reachable (client of exactly batch_size rows) ... *)
Example C15_buffer_full_reachable :
  exists st, pfold (map (fun x : Z => x)) 2 pinit (mk_datasets 0 [(0, 0, 2%nat)]) = SNext st /\ p_bufsize st = 2.
Proof. eexists. split; [vm_compute; reflexivity|reflexivity]. Qed.

(* ... and trailing empty clients produce one all-padding batch of batch_size rows *)
Example C15_all_padding_batch :
  padded_batch_client_datasets 0 (map (fun x : Z => x)) 2 3 (mk_datasets 0 [(0, 0, 2%nat); (0, 0, 0%nat); (0, 0, 0%nat)])
  = PDone [mk_batch [1; 2] [true; true]; mk_batch [0; 0] [false; false]].
Proof. vm_compute. reflexivity. Qed.

Print Assumptions C15_padded_concat.
Print Assumptions C15_all_full_but_last.
Print Assumptions C15_buffer_invariant.
Print Assumptions C15_last_padded_by_bucket_rule.
Print Assumptions C15_mismatch_rejected.
Print Assumptions C15_mismatch_rejected_shuffle.
Print Assumptions C15_mismatch_after_prefix.
Print Assumptions C15_shuffle_batch_exactly_once.
Print Assumptions C15_translated_is_model.
Print Assumptions C15_translated_shuffle_is_model.
Print Assumptions C15_translated_repeatable_is_model.
Print Assumptions C15_buffered_shuffle_sound.
Print Assumptions C15_buffered_shuffle_perm.
Print Assumptions C15_shuffled_pass_visits_each_once.
Print Assumptions C15_shuffle_repeat_prefix_exact.
Print Assumptions C15_repeatable_replays_first_pass.
Print Assumptions C15_repeatable_split_passes.
Print Assumptions C15_repeatable_whole_passes.
