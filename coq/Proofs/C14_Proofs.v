(* C14 proofs about Model/C14_Model.v *)
From Coq Require Import ZArith QArith List Bool Lia Sorting.Sorted Sorting.Permutation.
From FV Require Import Common.ListX Common.PySem Model.C14_Model.
Import ListNotations.
Local Open Scope Z_scope.

(* ---------- the order on extended scores ---------- *)
Definition ext_lt (a b : ext) : Prop :=
  match a, b with
  | NInf, NInf => False
  | NInf, _ => True
  | Fin _, NInf => False
  | Fin x, Fin y => x < y
  | Fin _, PInf => True
  | PInf, _ => False
  end.
Definition ext_le (a b : ext) : Prop := ~ ext_lt b a.

Lemma ext_ltb_lt a b : ext_ltb a b = true <-> ext_lt a b.
Proof. destruct a, b; cbn; try tauto; try (split; [discriminate|tauto]). apply Z.ltb_lt. Qed.
Lemma ext_ltb_nlt a b : ext_ltb a b = false <-> ~ ext_lt a b.
Proof. rewrite <- ext_ltb_lt. destruct (ext_ltb a b); split; congruence. Qed.
Lemma ext_leb_le a b : ext_leb a b = true <-> ext_le a b.
Proof. unfold ext_leb, ext_le. rewrite negb_true_iff. apply ext_ltb_nlt. Qed.

Ltac ext_cases := intros; repeat match goal with x : ext |- _ => destruct x end; cbn in *; try tauto; try lia; try congruence.

Lemma ext_lt_irrefl a : ~ ext_lt a a. Proof. unfold not; ext_cases. Qed.
Lemma ext_lt_trans a b c : ext_lt a b -> ext_lt b c -> ext_lt a c. Proof. ext_cases. Qed.
Lemma ext_le_lt_trans a b c : ext_le a b -> ext_lt b c -> ext_lt a c. Proof. unfold ext_le; ext_cases. Qed.
Lemma ext_le_trans a b c : ext_le a b -> ext_le b c -> ext_le a c. Proof. unfold ext_le; ext_cases. Qed.
Lemma ext_le_refl a : ext_le a a. Proof. apply ext_lt_irrefl. Qed.
Lemma ext_lt_le a b : ext_lt a b -> ext_le a b. Proof. unfold ext_le; ext_cases. Qed.
Lemma ext_le_cases a b : ext_le a b -> ext_lt a b \/ a = b.
Proof. unfold ext_le; destruct a, b; cbn; try tauto; intros H. destruct (Z.eq_dec z z0); [right; congruence|left; lia]. Qed.
Lemma ext_lt_total a b : ext_lt a b \/ a = b \/ ext_lt b a.
Proof. destruct a, b; cbn; try tauto. destruct (Z.lt_trichotomy z z0) as [H|[H|H]]; [tauto|right; left; congruence|tauto]. Qed.
Lemma ext_ltb_neg a b : ext_ltb (ext_neg a) (ext_neg b) = ext_ltb b a.
Proof. destruct a, b; cbn; try reflexivity. destruct (z0 <? z) eqn:E; [apply Z.ltb_lt in E; apply Z.ltb_lt; lia|apply Z.ltb_ge in E; apply Z.ltb_ge; lia]. Qed.
Lemma ext_leb_neg a b : ext_leb (ext_neg a) (ext_neg b) = ext_leb b a.
Proof. unfold ext_leb. now rewrite ext_ltb_neg. Qed.

(* ---------- argmax ---------- *)
Lemma argmax_v_cons x r : r <> [] ->
  argmax_v (x :: r) = if ext_ltb x (fst (argmax_v r)) then (fst (argmax_v r), S (snd (argmax_v r))) else (x, O).
Proof. destruct r; [contradiction|reflexivity]. Qed.

Lemma argmax_v_spec : forall l, l <> [] ->
  (snd (argmax_v l) < length l)%nat /\
  nth (snd (argmax_v l)) l NInf = fst (argmax_v l) /\
  (forall i, (i < length l)%nat -> ext_le (nth i l NInf) (fst (argmax_v l))) /\
  (forall i, (i < snd (argmax_v l))%nat -> ext_lt (nth i l NInf) (fst (argmax_v l))).
Proof.
  induction l as [|x r IH]; intros Hne; [contradiction|].
  destruct r as [|y r'].
  - cbn. split; [lia|]. split; [reflexivity|]. split.
    + intros [|i] Hi; [apply ext_le_refl|lia].
    + intros i Hi; lia.
  - assert (Hr : y :: r' <> []) by discriminate. specialize (IH Hr).
    rewrite argmax_v_cons by exact Hr.
    remember (y :: r') as r. destruct IH as (Hlen & Hnth & Hmax & Hfirst).
    destruct (ext_ltb x (fst (argmax_v r))) eqn:E.
    + apply ext_ltb_lt in E. cbn [fst snd length nth]. split; [|split; [|split]].
      * lia.
      * exact Hnth.
      * intros [|i] Hi; [now apply ext_lt_le|apply Hmax; lia].
      * intros [|i] Hi; [exact E|apply Hfirst; lia].
    + apply ext_ltb_nlt in E. cbn [fst snd length nth]. split; [|split; [|split]].
      * lia.
      * reflexivity.
      * intros [|i] Hi; [apply ext_le_refl|].
        eapply ext_le_trans; [apply Hmax; lia|exact E].
      * intros i Hi; lia.
Qed.

(* ---------- stable argsort ---------- *)
Definition plt (p q : ext * nat) : Prop :=
  ext_lt (fst p) (fst q) \/ (fst p = fst q /\ (snd p < snd q)%nat).

Lemma plt_trans p q r : plt p q -> plt q r -> plt p r.
Proof.
  unfold plt. intros [H1|[H1 H1']] [H2|[H2 H2']].
  - left; eapply ext_lt_trans; eassumption.
  - left; now rewrite <- H2.
  - left; now rewrite H1.
  - right; split; [congruence|lia].
Qed.

Lemma ins_perm p l : Permutation (ins p l) (p :: l).
Proof.
  induction l as [|q r IH]; cbn; [reflexivity|].
  destruct (ext_leb (fst p) (fst q)); [reflexivity|].
  rewrite IH. apply perm_swap.
Qed.

Lemma ins_hdrel q p r : plt q p -> HdRel plt q r -> HdRel plt q (ins p r).
Proof.
  intros Hqp Hr. destruct r as [|q' r']; cbn; [constructor; exact Hqp|].
  destruct (ext_leb (fst p) (fst q')); constructor; [exact Hqp|]. now inversion Hr.
Qed.

Lemma ins_sorted p l : Sorted plt l -> (forall q, In q l -> (snd p < snd q)%nat) -> Sorted plt (ins p l).
Proof.
  induction l as [|q r IH]; intros Hs Hidx; cbn; [repeat constructor|].
  destruct (ext_leb (fst p) (fst q)) eqn:E.
  - constructor; [exact Hs|]. constructor. apply ext_leb_le in E.
    destruct (ext_le_cases _ _ E) as [H|H]; [left; exact H|right; split; [exact H|apply Hidx; now left]].
  - inversion Hs; subst. constructor.
    + apply IH; [assumption|]. intros q' Hq'. apply Hidx. now right.
    + apply ins_hdrel; [|assumption]. left. unfold ext_leb in E. apply negb_false_iff in E. now apply ext_ltb_lt in E.
Qed.

Lemma sort_pairs_cons a x r : sort_pairs a (x :: r) = ins (x, a) (sort_pairs (S a) r).
Proof. reflexivity. Qed.

Lemma sort_pairs_perm : forall keys a, Permutation (sort_pairs a keys) (combine keys (seq a (length keys))).
Proof.
  induction keys as [|x r IH]; intros a; [reflexivity|].
  rewrite sort_pairs_cons, ins_perm. cbn [length seq combine]. constructor. apply IH.
Qed.

Lemma in_combine_seq : forall (keys : list ext) a k i, In (k, i) (combine keys (seq a (length keys))) ->
  (a <= i < a + length keys)%nat /\ nth (i - a) keys NInf = k.
Proof.
  induction keys as [|x r IH]; intros a k i H; [contradiction|].
  cbn [length seq combine] in H. destruct H as [H|H].
  - injection H as <- <-. rewrite Nat.sub_diag. cbn. split; [lia|reflexivity].
  - apply IH in H. destruct H as [H1 H2]. split; [cbn [length]; lia|].
    replace (i - a)%nat with (S (i - S a)) by lia. exact H2.
Qed.

Lemma sort_pairs_sorted : forall keys a, Sorted plt (sort_pairs a keys).
Proof.
  induction keys as [|x r IH]; intros a; [constructor|].
  rewrite sort_pairs_cons. apply ins_sorted; [apply IH|].
  intros [k i] Hq. eapply Permutation_in in Hq; [|apply sort_pairs_perm].
  apply in_combine_seq in Hq. cbn. lia.
Qed.

Lemma map_snd_combine {A B} : forall (l1 : list A) (l2 : list B), length l1 = length l2 -> map snd (combine l1 l2) = l2.
Proof. induction l1 as [|x l1 IH]; intros [|y l2] H; cbn in *; try lia; [reflexivity|]. f_equal. apply IH. lia. Qed.

Lemma argsort_perm keys : Permutation (argsort keys) (seq 0 (length keys)).
Proof.
  unfold argsort. rewrite (sort_pairs_perm keys 0), map_snd_combine; [reflexivity|now rewrite seq_length].
Qed.

Lemma argsort_length keys : length (argsort keys) = length keys.
Proof. rewrite (Permutation_length (argsort_perm keys)). apply seq_length. Qed.

(* the order in which argsort lists the indices: by key, equal keys by increasing index *)
Definition ilt (keys : list ext) (i j : nat) : Prop :=
  ext_lt (nth i keys NInf) (nth j keys NInf) \/ (nth i keys NInf = nth j keys NInf /\ (i < j)%nat).

Lemma argsort_sorted keys : StronglySorted (ilt keys) (argsort keys).
Proof.
  unfold argsort.
  assert (Hs : StronglySorted plt (sort_pairs 0 keys)).
  { apply Sorted_StronglySorted; [intros p q r; apply plt_trans|apply sort_pairs_sorted]. }
  assert (Hk : forall p, In p (sort_pairs 0 keys) -> fst p = nth (snd p) keys NInf).
  { intros [k i] Hp. eapply Permutation_in in Hp; [|apply sort_pairs_perm].
    apply in_combine_seq in Hp. cbn. rewrite Nat.sub_0_r in Hp. symmetry; tauto. }
  induction Hs as [|p l Hl IH Hall]; cbn; constructor.
  - apply IH. intros q Hq. apply Hk. now right.
  - apply Forall_forall. intros j Hj. apply in_map_iff in Hj. destruct Hj as (q & <- & Hq).
    rewrite Forall_forall in Hall. specialize (Hall q Hq). unfold ilt, plt in *.
    rewrite <- (Hk p (or_introl eq_refl)), <- (Hk q (or_intror Hq)). exact Hall.
Qed.

(* head of the descending order = first index of the maximum *)
Lemma sort_pairs_hd : forall r a, r <> [] ->
  exists tl, sort_pairs a (map ext_neg r) = (ext_neg (fst (argmax_v r)), (a + snd (argmax_v r))%nat) :: tl.
Proof.
  induction r as [|x r IH]; intros a Hne; [contradiction|].
  cbn [map]. rewrite sort_pairs_cons.
  destruct r as [|y r'].
  - cbn. rewrite Nat.add_0_r. eexists; reflexivity.
  - assert (Hr : y :: r' <> []) by discriminate.
    rewrite argmax_v_cons by exact Hr.
    destruct (IH (S a) Hr) as [tl Htl]. remember (y :: r') as r. rewrite Htl.
    cbn [ins fst]. rewrite ext_leb_neg. unfold ext_leb.
    destruct (ext_ltb x (fst (argmax_v r))); cbn [negb fst snd].
    + eexists. f_equal. f_equal. lia.
    + rewrite Nat.add_0_r. eexists; reflexivity.
Qed.

Lemma argsort_neg_hd s : s <> [] -> exists tl, argsort (map ext_neg s) = argmax s :: tl.
Proof.
  intros H. destruct (sort_pairs_hd s 0%nat H) as [tl Htl]. unfold argsort. rewrite Htl. cbn. eexists; reflexivity.
Qed.

(* ---------- top-k ---------- *)
Lemma top1_eq_accuracy s t : s <> [] -> topk_correct 1 s t = acc_correct s t.
Proof.
  intros H. unfold topk_correct, acc_correct.
  destruct (argsort_neg_hd s H) as [tl ->].
  change (py_slice (argmax s :: tl) 0 (Z.max 1 0)) with [argmax s].
  cbn [existsb]. rewrite orb_false_r. now rewrite Z.eqb_sym.
Qed.

Lemma topk_lt_one_is_zero k s t : k < 1 -> topk_correct k s t = 0.
Proof.
  intros H. unfold topk_correct, py_slice. replace (Z.max k 0) with 0 by lia. reflexivity.
Qed.

Lemma topk_ge_classes_is_one k s t : Z.of_nat (length s) <= k -> 0 <= t < Z.of_nat (length s) ->
  topk_correct k s t = 1.
Proof.
  intros Hk Ht. unfold topk_correct, py_slice. cbn [skipn Z.to_nat].
  rewrite firstn_all2 by (rewrite argsort_length, map_length; lia).
  assert (Hin : In (Z.to_nat t) (argsort (map ext_neg s))).
  { eapply Permutation_in; [symmetry; apply argsort_perm|]. rewrite map_length. apply in_seq. lia. }
  assert (E : existsb (fun i => Z.of_nat i =? t) (argsort (map ext_neg s)) = true).
  { apply existsb_exists. exists (Z.to_nat t). split; [exact Hin|apply Z.eqb_eq; lia]. }
  now rewrite E.
Qed.

(* ---------- MeanStat.new ---------- *)
Lemma mean_new_pos a w : 0 < w -> mean_new a w = (a, w).
Proof. intros H. unfold mean_new. replace (Z.max 0 w) with w by lia. destruct (w =? 0) eqn:E; [apply Z.eqb_eq in E; lia|reflexivity]. Qed.
Lemma mean_new_zero a : mean_new a 0 = (0, 0). Proof. reflexivity. Qed.
Lemma mean_newQ_zero a : mean_newQ a 0 = (0%Q, 0). Proof. reflexivity. Qed.

(* ---------- target weights ---------- *)
Definition mem (t : Z) (l : list Z) : bool := existsb (Z.eqb t) l.

Lemma fold_weight_zero t masked : fold_left (fun w mv => w * b2z (negb (t =? mv))) masked 0 = 0.
Proof. induction masked as [|m r IH]; cbn; [reflexivity|exact IH]. Qed.

Lemma fold_weight_spec t masked : forall w,
  fold_left (fun w mv => w * b2z (negb (t =? mv))) masked w = if mem t masked then 0 else w.
Proof.
  unfold mem. induction masked as [|m r IH]; intros w; cbn; [reflexivity|].
  destruct (t =? m); cbn.
  - rewrite Z.mul_0_r. apply fold_weight_zero.
  - rewrite Z.mul_1_r. apply IH.
Qed.

Lemma target_weight_spec masked t : target_weight masked t = if mem t masked then 0 else 1.
Proof. apply fold_weight_spec. Qed.

Lemma mem_In t l : mem t l = true <-> In t l.
Proof.
  unfold mem. rewrite existsb_exists. split.
  - intros (x & Hx & E). apply Z.eqb_eq in E. now subst.
  - intros H. exists t. split; [exact H|apply Z.eqb_refl].
Qed.

Lemma weights_all_masked masked targets : Forall (fun t => In t masked) targets ->
  weights masked targets = map (fun _ => 0) targets.
Proof.
  unfold weights. induction 1 as [|t r Ht _ IH]; cbn; [reflexivity|].
  rewrite IH, target_weight_spec. apply mem_In in Ht. now rewrite Ht.
Qed.

Lemma zsum_zeros {A} (l : list A) : zsum (map (fun _ => 0) l) = 0.
Proof. induction l; cbn; [reflexivity|exact IHl]. Qed.
Lemma any_weight_zeros {A} (l : list A) : any_weight (map (fun _ => 0) l) = 0.
Proof. unfold any_weight. induction l; cbn; [reflexivity|exact IHl]. Qed.

Lemma map2_cons {A B C} (f : A -> B -> C) x l1 y l2 : map2 f (x :: l1) (y :: l2) = f x y :: map2 f l1 l2.
Proof. reflexivity. Qed.
Lemma map2_nil_r {A B C} (f : A -> B -> C) l : map2 f l [] = [].
Proof. destruct l; reflexivity. Qed.

Lemma map2_zero_weights {A B} (f : A -> Z -> B) (z : B) : (forall v, f v 0 = z) ->
  forall (vals : list A) {T} (ts : list T), Forall (fun p => p = z) (map2 f vals (map (fun _ => 0) ts)).
Proof.
  intros Hf. induction vals as [|v vals IH]; intros T [|t ts]; cbn; try constructor.
  - apply Hf.
  - apply (IH T ts).
Qed.

(* a fully masked sequence gives the zero statistic in every component *)
Lemma seq_stat_all_masked pp vals {T} (ts : list T) :
  Forall (fun p => p = (0, 0)) (seq_stat pp vals (map (fun _ => 0) ts)).
Proof.
  unfold seq_stat. destruct pp.
  - apply map2_zero_weights. intros v. now rewrite Z.mul_0_r.
  - constructor; [|constructor]. rewrite zsum_zeros. reflexivity.
Qed.

Lemma seq_statQ_all_masked pp vals {T} (ts : list T) :
  Forall (fun p => p = (0%Q, 0)) (seq_statQ pp vals (map (fun _ => 0) ts)).
Proof.
  unfold seq_statQ. destruct pp.
  - apply map2_zero_weights. intros v. reflexivity.
  - constructor; [|constructor]. rewrite zsum_zeros. reflexivity.
Qed.

(* values at positions of weight 0 are irrelevant *)
Lemma map2_weight_irrelevant {A B} (g : A -> Z -> B) (d : A) :
  (forall v v', g v 0 = g v' 0) ->
  forall ws vals vals', length vals = length vals' ->
  (forall i, nth i ws 0 <> 0 -> nth i vals d = nth i vals' d) ->
  map2 g vals ws = map2 g vals' ws.
Proof.
  intros Hg. induction ws as [|w ws IH]; intros vals vals' Hlen Hv.
  - now rewrite !map2_nil_r.
  - destruct vals as [|v vals], vals' as [|v' vals']; cbn in Hlen; try lia; [reflexivity|].
    rewrite !map2_cons. f_equal.
    + destruct (Z.eq_dec w 0) as [->|Hw]; [apply Hg|]. pose proof (Hv 0%nat Hw) as E. cbn in E. now rewrite E.
    + apply IH; [lia|]. intros i Hi. apply (Hv (S i) Hi).
Qed.

Lemma seq_stat_masked_irrelevant pp ws vals vals' : length vals = length vals' ->
  (forall i, nth i ws 0 <> 0 -> nth i vals 0 = nth i vals' 0) ->
  seq_stat pp vals ws = seq_stat pp vals' ws.
Proof.
  intros Hlen Hv. unfold seq_stat. destruct pp.
  - apply (map2_weight_irrelevant _ 0); try assumption. intros v v'. now rewrite !Z.mul_0_r.
  - rewrite (map2_weight_irrelevant Z.mul 0 (fun v v' => eq_trans (Z.mul_0_r v) (eq_sym (Z.mul_0_r v'))) ws vals vals' Hlen Hv).
    reflexivity.
Qed.

(* ---------- OOV rate ---------- *)
Lemma fold_oov_one t oovs : fold_left (fun o v => Z.max o (b2z (t =? v))) oovs 1 = 1.
Proof. induction oovs as [|v r IH]; cbn; [reflexivity|]. destruct (t =? v); cbn; exact IH. Qed.

Lemma target_oov_spec oovs t : target_oov oovs t = b2z (mem t oovs).
Proof.
  unfold target_oov, mem. induction oovs as [|v r IH]; cbn; [reflexivity|].
  destruct (t =? v); cbn; [apply fold_oov_one|exact IH].
Qed.

Lemma map2_map_map {A B C D} (h : B -> C -> D) (f : A -> B) (g : A -> C) l :
  map2 h (map f l) (map g l) = map (fun x => h (f x) (g x)) l.
Proof. induction l as [|x l IH]; cbn; [reflexivity|]. rewrite <- IH. reflexivity. Qed.

Lemma zsum_indicator {A} (p : A -> bool) l : zsum (map (fun x => b2z (p x)) l) = Z.of_nat (length (filter p l)).
Proof.
  induction l as [|x l IH]; [reflexivity|]. cbn [map zsum fold_right filter].
  change (b2z (p x) + zsum (map (fun x => b2z (p x)) l) = Z.of_nat (length (if p x then x :: filter p l else filter p l))).
  rewrite IH. destruct (p x); cbn [b2z length]; lia.
Qed.

Lemma oov_counts oovs masked targets :
  m_seq_oov oovs masked false targets =
  [mean_new (Z.of_nat (length (filter (fun t => negb (mem t masked) && mem t oovs) targets)))
            (Z.of_nat (length (filter (fun t => negb (mem t masked)) targets)))].
Proof.
  unfold m_seq_oov, seq_stat, weights. rewrite map2_map_map. f_equal. f_equal.
  - rewrite <- zsum_indicator. f_equal. apply map_ext. intros t.
    rewrite target_oov_spec, target_weight_spec. destruct (mem t masked), (mem t oovs); reflexivity.
  - rewrite <- zsum_indicator. f_equal. apply map_ext. intros t.
    rewrite target_weight_spec. destruct (mem t masked); reflexivity.
Qed.

(* ---------- confusion matrix ---------- *)
Definition trace (m : list (list Z)) : Z := zsum (map (fun i => nth i (nth i m []) 0) (seq 0 (length m))).
Definition total (m : list (list Z)) : Z := zsum (map zsum m).

Ltac breflect := repeat match goal with
  | H : (_ =? _)%nat = true |- _ => apply Nat.eqb_eq in H
  | H : (_ =? _)%nat = false |- _ => apply Nat.eqb_neq in H
  | H : (_ <=? _)%nat = true |- _ => apply Nat.leb_le in H
  | H : (_ <=? _)%nat = false |- _ => apply Nat.leb_gt in H
  | H : (_ <? _)%nat = true |- _ => apply Nat.ltb_lt in H
  | H : (_ <? _)%nat = false |- _ => apply Nat.ltb_ge in H
  | H : (_ =? _) = true |- _ => apply Z.eqb_eq in H
  | H : (_ =? _) = false |- _ => apply Z.eqb_neq in H
  | H : (_ <=? _) = true |- _ => apply Z.leb_le in H
  | H : (_ <=? _) = false |- _ => apply Z.leb_gt in H
  | H : (_ <? _) = true |- _ => apply Z.ltb_lt in H
  | H : (_ <? _) = false |- _ => apply Z.ltb_ge in H
  end.
Ltac bcases := repeat match goal with
  | |- context [(?x =? ?y)%nat] => destruct (x =? y)%nat eqn:?
  | |- context [(?x <=? ?y)%nat] => destruct (x <=? y)%nat eqn:?
  | |- context [(?x <? ?y)%nat] => destruct (x <? y)%nat eqn:?
  | |- context [(?x =? ?y)] => destruct (x =? y) eqn:?
  | |- context [(?x <=? ?y)] => destruct (x <=? y) eqn:?
  | |- context [(?x <? ?y)] => destruct (x <? y) eqn:?
  end.
Ltac bsolve := bcases; cbn [andb orb negb b2z]; breflect; try reflexivity; try lia.

Lemma zsum_col : forall n a b p,
  zsum (map (fun c => b2z (b && (c =? p)%nat)) (seq a n)) = b2z (b && (a <=? p)%nat && (p <? a + n)%nat).
Proof.
  induction n as [|n IH]; intros a b p.
  - cbn [seq map zsum fold_right]. destruct b; [|reflexivity]. bsolve.
  - cbn [seq map]. change (b2z (b && (a =? p)%nat) + zsum (map (fun c => b2z (b && (c =? p)%nat)) (seq (S a) n)) = b2z (b && (a <=? p)%nat && (p <? a + S n)%nat)).
    rewrite IH. destruct b; [|reflexivity]. bsolve.
Qed.

Lemma zsum_row : forall n a t,
  zsum (map (fun r => b2z (Z.of_nat r =? t)) (seq a n)) = b2z ((Z.of_nat a <=? t) && (t <? Z.of_nat (a + n))).
Proof.
  induction n as [|n IH]; intros a t.
  - cbn [seq map zsum fold_right]. bsolve.
  - cbn [seq map]. change (b2z (Z.of_nat a =? t) + zsum (map (fun r => b2z (Z.of_nat r =? t)) (seq (S a) n)) = b2z ((Z.of_nat a <=? t) && (t <? Z.of_nat (a + S n)))).
    rewrite IH. bsolve.
Qed.

Lemma confusion_total nc s t : (argmax s < nc)%nat -> 0 <= t < Z.of_nat nc -> total (confusion nc s t) = 1.
Proof.
  intros Hp Ht. unfold total, confusion. rewrite map_map.
  erewrite map_ext; [|intros r; apply zsum_col].
  replace (0 <=? argmax s)%nat with true by (symmetry; apply Nat.leb_le; lia).
  replace (argmax s <? 0 + nc)%nat with true by (symmetry; apply Nat.ltb_lt; lia).
  erewrite map_ext; [|intros r; rewrite !andb_true_r; reflexivity].
  rewrite zsum_row.
  replace (Z.of_nat 0 <=? t) with true by (symmetry; apply Z.leb_le; lia).
  replace (t <? Z.of_nat (0 + nc)) with true by (symmetry; apply Z.ltb_lt; lia). reflexivity.
Qed.

Lemma nth_map_seq {A} (f : nat -> A) n i d : (i < n)%nat -> nth i (map f (seq 0 n)) d = f i.
Proof.
  intros H. rewrite (nth_indep _ d (f 0%nat)) by (rewrite map_length, seq_length; exact H).
  rewrite map_nth. now rewrite seq_nth.
Qed.

Lemma confusion_cell nc s t r c : (r < nc)%nat -> (c < nc)%nat ->
  nth c (nth r (confusion nc s t) []) 0 = b2z ((Z.of_nat r =? t) && (c =? argmax s)%nat).
Proof.
  intros Hr Hc. unfold confusion. rewrite nth_map_seq by exact Hr. now rewrite nth_map_seq by exact Hc.
Qed.

Lemma confusion_length nc s t : length (confusion nc s t) = nc.
Proof. unfold confusion. now rewrite map_length, seq_length. Qed.

Lemma confusion_trace nc s t : (argmax s < nc)%nat -> 0 <= t < Z.of_nat nc -> trace (confusion nc s t) = acc_correct s t.
Proof.
  intros Hp Ht. unfold trace. rewrite confusion_length.
  transitivity (zsum (map (fun i => b2z ((Z.of_nat (argmax s) =? t) && (i =? argmax s)%nat)) (seq 0 nc))).
  - f_equal. apply map_ext_in. intros i Hi. apply in_seq in Hi. rewrite confusion_cell by lia.
    destruct (i =? argmax s)%nat eqn:E; [apply Nat.eqb_eq in E; now subst|now rewrite !andb_false_r].
  - rewrite zsum_col.
    replace (0 <=? argmax s)%nat with true by (symmetry; apply Nat.leb_le; lia).
    replace (argmax s <? 0 + nc)%nat with true by (symmetry; apply Nat.ltb_lt; lia).
    rewrite !andb_true_r. unfold acc_correct. now rewrite Z.eqb_sym.
Qed.

Lemma argmax_lt (s : list ext) : s <> [] -> (argmax s < length s)%nat.
Proof. intros H. apply (argmax_v_spec s H). Qed.

(* ---------- per-domain ---------- *)
Lemma per_domain_length {A} nd dom (zero x : A) : length (per_domain nd dom zero x) = nd.
Proof. unfold per_domain. now rewrite map_length, seq_length. Qed.

Lemma per_domain_nth {A} nd dom (zero x : A) d : (d < nd)%nat ->
  nth d (per_domain nd dom zero x) zero = if Z.of_nat d =? dom then x else zero.
Proof. intros H. unfold per_domain. now rewrite nth_map_seq. Qed.

Lemma nth_map2 {A} (f : A -> A -> A) (z : A) : forall l1 l2 d, length l1 = length l2 -> (d < length l1)%nat ->
  nth d (map2 f l1 l2) z = f (nth d l1 z) (nth d l2 z).
Proof.
  induction l1 as [|x l1 IH]; intros [|y l2] d Hl Hd; cbn in *; try lia.
  destruct d; [reflexivity|]. apply IH; lia.
Qed.

Lemma map2_length {A B C} (f : A -> B -> C) l1 l2 : length (map2 f l1 l2) = Nat.min (length l1) (length l2).
Proof. unfold map2. now rewrite map_length, combine_length. Qed.

Section PerDomain.
Context {A : Type} (merge : A -> A -> A) (zero : A).
Hypothesis merge_zero_r : forall x, merge x zero = x.

(* statistics accumulated over a list of (domain id, base statistic) with PerDomainMetric *)
Definition pd_accumulate (nd : nat) (exs : list (Z * A)) (acc : list A) : list A :=
  fold_left (fun acc e => map2 merge acc (per_domain nd (fst e) zero (snd e))) exs acc.

Lemma pd_accumulate_cons nd e exs acc :
  pd_accumulate nd (e :: exs) acc = pd_accumulate nd exs (map2 merge acc (per_domain nd (fst e) zero (snd e))).
Proof. reflexivity. Qed.

Lemma pd_accumulate_length nd exs : forall acc, length acc = nd -> length (pd_accumulate nd exs acc) = nd.
Proof.
  induction exs as [|e exs IH]; intros acc H; [exact H|]. rewrite pd_accumulate_cons. apply IH.
  rewrite map2_length, per_domain_length, H. apply Nat.min_id.
Qed.

Lemma pd_accumulate_nth nd d : (d < nd)%nat -> forall exs acc, length acc = nd ->
  nth d (pd_accumulate nd exs acc) zero =
  fold_left merge (map snd (filter (fun e => Z.of_nat d =? fst e) exs)) (nth d acc zero).
Proof.
  intros Hd. induction exs as [|e exs IH]; intros acc Hacc; [reflexivity|].
  rewrite pd_accumulate_cons.
  rewrite IH by (rewrite map2_length, per_domain_length, Hacc; apply Nat.min_id).
  rewrite nth_map2 by (rewrite ?per_domain_length; lia).
  rewrite per_domain_nth by exact Hd. cbn [filter].
  destruct (Z.of_nat d =? fst e); cbn [map fold_left]; [reflexivity|now rewrite merge_zero_r].
Qed.
End PerDomain.

(* ---------- metric-level statements used by Props/C14.v ---------- *)
Lemma m_top1_eq_accuracy s t : s <> [] -> m_topk 1 s t = m_accuracy s t.
Proof.
  intros H. unfold m_topk, m_accuracy. rewrite top1_eq_accuracy; [reflexivity|].
  destruct s; [contradiction|discriminate].
Qed.

Lemma map2_ext_in_l {A B C} (f g : A -> B -> C) : forall l1 l2,
  Forall (fun x => forall y, f x y = g x y) l1 -> map2 f l1 l2 = map2 g l1 l2.
Proof.
  induction l1 as [|x l1 IH]; intros [|y l2] H; try reflexivity.
  inversion H; subst. rewrite !map2_cons. f_equal; [auto|apply IH; assumption].
Qed.

Lemma m_seq_top1_eq_accuracy masked lm pp targets scores :
  Forall (fun row => mask_scores lm row <> []) scores ->
  m_seq_token_topk 1 masked lm pp targets scores = m_seq_token_acc masked lm pp targets scores.
Proof.
  intros H. unfold m_seq_token_topk, m_seq_token_acc. f_equal.
  apply map2_ext_in_l. eapply Forall_impl; [|exact H]. intros row Hrow t. now apply top1_eq_accuracy.
Qed.

Lemma argmax_spec s : s <> [] ->
  (argmax s < length s)%nat /\
  (forall i, (i < length s)%nat -> ext_le (nth i s NInf) (nth (argmax s) s NInf)) /\
  (forall i, (i < argmax s)%nat -> ext_lt (nth i s NInf) (nth (argmax s) s NInf)).
Proof.
  intros H. destruct (argmax_v_spec s H) as (H1 & H2 & H3 & H4). unfold argmax. rewrite H2. tauto.
Qed.

(* descending order with ties by increasing index *)
Definition dlt (s : list ext) (i j : nat) : Prop :=
  ext_lt (nth j s NInf) (nth i s NInf) \/ (nth i s NInf = nth j s NInf /\ (i < j)%nat).

Lemma ext_lt_neg a b : ext_lt (ext_neg a) (ext_neg b) <-> ext_lt b a.
Proof. rewrite <- !ext_ltb_lt. now rewrite ext_ltb_neg. Qed.
Lemma ext_neg_inj a b : ext_neg a = ext_neg b -> a = b.
Proof. destruct a, b; cbn; try congruence. intros H. injection H as H. f_equal. lia. Qed.

Lemma nth_map_neg s i : (i < length s)%nat -> nth i (map ext_neg s) NInf = ext_neg (nth i s NInf).
Proof.
  intros H. change NInf with (ext_neg PInf) at 1. rewrite map_nth. f_equal. now apply nth_indep.
Qed.

Lemma StronglySorted_impl_in {A} (R R' : A -> A -> Prop) l :
  (forall x y, In x l -> In y l -> R x y -> R' x y) -> StronglySorted R l -> StronglySorted R' l.
Proof.
  intros H Hs. induction Hs as [|x l Hl IH Hall]; constructor.
  - apply IH. intros a b Ha Hb. apply H; now right.
  - apply Forall_forall. intros y Hy. rewrite Forall_forall in Hall. apply H; [now left|now right|auto].
Qed.

Lemma argsort_desc_sorted s : StronglySorted (dlt s) (argsort (map ext_neg s)).
Proof.
  eapply StronglySorted_impl_in; [|apply argsort_sorted].
  intros i j Hi Hj. 
  assert (Hin : forall x, In x (argsort (map ext_neg s)) -> (x < length s)%nat).
  { intros x Hx. eapply Permutation_in in Hx; [|apply argsort_perm]. rewrite map_length in Hx. apply in_seq in Hx. lia. }
  apply Hin in Hi. apply Hin in Hj. unfold ilt, dlt. rewrite !nth_map_neg by assumption.
  intros [H|[H1 H2]]; [left; now apply ext_lt_neg|right; split; [now apply ext_neg_inj|exact H2]].
Qed.

Lemma argsort_desc_perm s : Permutation (argsort (map ext_neg s)) (seq 0 (length s)).
Proof. rewrite <- (map_length ext_neg s). apply argsort_perm. Qed.

Lemma m_topk_ge_classes k s t : Z.of_nat (length s) <= k -> 0 <= t < Z.of_nat (length s) -> m_topk k s t = (1, 1).
Proof.
  intros Hk Ht. unfold m_topk. rewrite topk_ge_classes_is_one; [reflexivity|now rewrite map_length|now rewrite map_length].
Qed.

Lemma m_topk_lt_one k s t : k < 1 -> m_topk k s t = (0, 1).
Proof. intros H. unfold m_topk. now rewrite topk_lt_one_is_zero. Qed.

Lemma map2_Forall {A B C} (f : A -> B -> C) (P : C -> Prop) : (forall x y, P (f x y)) ->
  forall l1 l2, Forall P (map2 f l1 l2).
Proof. intros H. induction l1 as [|x l1 IH]; intros [|y l2]; cbn; constructor; [apply H|apply IH]. Qed.

Lemma zsum_mul_zero_vals : forall vals ws, Forall (fun v => v = 0) vals -> zsum (map2 Z.mul vals ws) = 0.
Proof.
  induction vals as [|v vals IH]; intros [|w ws] H; try reflexivity.
  inversion H; subst. rewrite map2_cons. cbn [zsum fold_right]. change (0 * w + zsum (map2 Z.mul vals ws) = 0).
  rewrite IH by assumption. lia.
Qed.

Lemma mean_new_fst_zero w : fst (mean_new 0 w) = 0.
Proof. unfold mean_new. cbn. now destruct (Z.max 0 w =? 0). Qed.

Lemma seq_stat_zero_vals pp : forall vals ws, Forall (fun v => v = 0) vals ->
  Forall (fun p => fst p = 0) (seq_stat pp vals ws).
Proof.
  intros vals ws H. unfold seq_stat. destruct pp.
  - revert ws. induction H as [|v vals Hv _ IH]; intros [|w ws]; try constructor.
    + subst. rewrite Z.mul_0_l. apply mean_new_fst_zero.
    + apply IH.
  - constructor; [|constructor]. rewrite zsum_mul_zero_vals by exact H. apply mean_new_fst_zero.
Qed.

Lemma m_seq_topk_lt_one k masked lm pp targets scores : k < 1 ->
  Forall (fun p => fst p = 0) (m_seq_token_topk k masked lm pp targets scores).
Proof.
  intros H. unfold m_seq_token_topk. apply seq_stat_zero_vals.
  apply map2_Forall. intros row t. now apply topk_lt_one_is_zero.
Qed.

Lemma m_confusion_inv nc s t m : m_confusion nc s t = Some m -> 0 <= t < nc ->
  nc = Z.of_nat (length s) /\ m = confusion (length s) (map Fin s) t /\ (argmax (map Fin s) < length s)%nat.
Proof.
  unfold m_confusion. intros H Ht. destruct (nc =? Z.of_nat (length s)) eqn:E; [|discriminate].
  apply Z.eqb_eq in E. injection H as <-. subst nc. rewrite Nat2Z.id. repeat split.
  rewrite <- (map_length Fin s). apply argmax_lt. destruct s; [cbn in Ht; lia|discriminate].
Qed.

Lemma m_confusion_one_count nc s t m : m_confusion nc s t = Some m -> 0 <= t < nc ->
  total m = 1 /\
  forall r c, (r < Z.to_nat nc)%nat -> (c < Z.to_nat nc)%nat ->
    nth c (nth r m []) 0 = if (Z.of_nat r =? t) && (c =? argmax (map Fin s))%nat then 1 else 0.
Proof.
  intros H Ht. destruct (m_confusion_inv _ _ _ _ H Ht) as (-> & -> & Hp). rewrite Nat2Z.id. split.
  - now apply confusion_total.
  - intros r c Hr Hc. now rewrite confusion_cell.
Qed.

Lemma m_confusion_trace nc s t m : m_confusion nc s t = Some m -> 0 <= t < nc ->
  (trace m, total m) = m_accuracy s t.
Proof.
  intros H Ht. destruct (m_confusion_inv _ _ _ _ H Ht) as (-> & -> & Hp).
  rewrite confusion_trace, confusion_total by assumption. unfold m_accuracy. now rewrite mean_new_pos by lia.
Qed.

Lemma trace_total_additive_example : trace [[1; 0]; [0; 1]] = 2 /\ total [[1; 0]; [0; 1]] = 2.
Proof. split; reflexivity. Qed.

(* sequence metrics: masked targets carry weight 0; a fully masked sequence is the zero statistic *)
Lemma sequence_weights masked :
  (forall t, target_weight masked t = if mem t masked then 0 else 1) /\
  (forall pp ws vals vals', length vals = length vals' ->
     (forall i, nth i ws 0 <> 0 -> nth i vals 0 = nth i vals' 0) ->
     seq_stat pp vals ws = seq_stat pp vals' ws) /\
  (forall targets, Forall (fun t => In t masked) targets ->
     (forall lm pp scores, Forall (fun p => p = (0, 0)) (m_seq_token_acc masked lm pp targets scores)) /\
     (forall k lm pp scores, Forall (fun p => p = (0, 0)) (m_seq_token_topk k masked lm pp targets scores)) /\
     (forall oovs pp, Forall (fun p => p = (0, 0)) (m_seq_oov oovs masked pp targets)) /\
     (forall pp ce, Forall (fun p => p = (0%Q, 0)) (m_seq_token_ce masked pp targets ce)) /\
     (forall ce, m_seq_ce masked targets ce = (0%Q, 0)) /\
     m_seq_token_count masked targets = 0 /\
     m_seq_count masked targets = 0 /\
     (forall eos, m_seq_trunc eos masked targets = (0, 0)) /\
     m_seq_length masked targets = (0, 0)).
Proof.
  split; [apply target_weight_spec|]. split; [intros; now apply seq_stat_masked_irrelevant|].
  intros targets H. pose proof (weights_all_masked masked targets H) as W.
  unfold m_seq_token_acc, m_seq_token_topk, m_seq_oov, m_seq_token_ce, m_seq_ce, m_seq_token_count,
    m_seq_count, m_seq_trunc, m_seq_length. rewrite W.
  repeat split; intros; try apply seq_stat_all_masked; try apply seq_statQ_all_masked;
    rewrite ?any_weight_zeros, ?zsum_zeros; try reflexivity.

Qed.

Lemma oov_any_value oovs masked :
  (forall t, target_oov oovs t = if mem t oovs then 1 else 0) /\
  (forall targets, m_seq_oov oovs masked false targets =
     [mean_new (Z.of_nat (length (filter (fun t => negb (mem t masked) && mem t oovs) targets)))
               (Z.of_nat (length (filter (fun t => negb (mem t masked)) targets)))]) /\
  (forall targets, map snd (m_seq_oov oovs masked true targets) = map (fun t => if mem t masked then 0 else 1) targets) /\
  (forall targets, map fst (m_seq_oov oovs masked true targets) =
     map (fun t => if negb (mem t masked) && mem t oovs then 1 else 0) targets).
Proof.
  split; [intros t; rewrite target_oov_spec; now destruct (mem t oovs)|].
  split; [apply oov_counts|].
  unfold m_seq_oov, seq_stat, weights. split; intros targets; rewrite map2_map_map, map_map; apply map_ext; intros t;
    rewrite target_oov_spec, target_weight_spec; destruct (mem t masked), (mem t oovs); reflexivity.
Qed.

(* ====================================================================== *)
(* The functions translated from metrics.py (gen/Gen_metrics_eval.v) equal *)
(* the hand-written specifications m_* above.                              *)
(* ====================================================================== *)
Lemma map2_map_l' {A A' B C} (f : A' -> B -> C) (g : A -> A') l1 l2 :
  map2 f (map g l1) l2 = map2 (fun a b => f (g a) b) l1 l2.
Proof. revert l2. induction l1 as [|a l1 IH]; intros [|b l2]; try reflexivity. rewrite map_cons, !map2_cons. f_equal. apply IH. Qed.
Lemma map2_map_r' {A B B' C} (f : A -> B' -> C) (g : B -> B') l1 l2 :
  map2 f l1 (map g l2) = map2 (fun a b => f a (g b)) l1 l2.
Proof. revert l2. induction l1 as [|a l1 IH]; intros [|b l2]; try reflexivity. rewrite map_cons, !map2_cons. f_equal. apply IH. Qed.
Lemma map_map2' {A B C D} (g : C -> D) (f : A -> B -> C) l1 l2 :
  map g (map2 f l1 l2) = map2 (fun a b => g (f a b)) l1 l2.
Proof. revert l2. induction l1 as [|a l1 IH]; intros [|b l2]; try reflexivity. rewrite !map2_cons, map_cons. f_equal. apply IH. Qed.
Lemma map2_swap {A B C} (f : A -> B -> C) l1 l2 : map2 f l1 l2 = map2 (fun b a => f a b) l2 l1.
Proof. revert l2. induction l1 as [|a l1 IH]; intros [|b l2]; try reflexivity. rewrite !map2_cons. f_equal. apply IH. Qed.
Lemma map2_map2_r {A B C D} (f : C -> B -> D) (g : A -> B -> C) l1 l2 :
  map2 f (map2 g l1 l2) l2 = map2 (fun a b => f (g a b) b) l1 l2.
Proof. revert l2. induction l1 as [|a l1 IH]; intros [|b l2]; try reflexivity. rewrite !map2_cons. f_equal. apply IH. Qed.
Lemma map2_ext' {A B C} (f g : A -> B -> C) l1 l2 : (forall a b, f a b = g a b) -> map2 f l1 l2 = map2 g l1 l2.
Proof. intros H. revert l2. induction l1 as [|a l1 IH]; intros [|b l2]; try reflexivity. rewrite !map2_cons, H. f_equal. apply IH. Qed.
Lemma map2_same_map {A B C} (f : B -> C -> B) (g : A -> B) (h : A -> C) l :
  map2 f (map g l) (map h l) = map (fun x => f (g x) (h x)) l.
Proof. apply map2_map_map. Qed.

Lemma any_b_map {A} (f : A -> bool) l : any_b (map f l) = existsb f l.
Proof. unfold any_b. induction l as [|x l IH]; cbn; [reflexivity|]. now rewrite IH. Qed.
Lemma all_b_map {A} (f : A -> bool) l : all_b (map f l) = forallb f l.
Proof. unfold all_b. induction l as [|x l IH]; cbn; [reflexivity|]. now rewrite IH. Qed.
Lemma py_slice_map {A B} (f : A -> B) l a b : py_slice (map f l) a b = map f (py_slice l a b).
Proof. unfold py_slice. now rewrite skipn_map, firstn_map. Qed.

(* get_target_weight: the loop over masked values on whole arrays = per-target fold *)
Lemma fold_vec_weight T : forall ms (f : Z -> Z),
  fold_left (fun W mv => map2 (fun w b => w * b2z b) W (map negb (map (fun x => x =? mv) T))) ms (map f T) =
  map (fun t => fold_left (fun w mv => w * b2z (negb (t =? mv))) ms (f t)) T.
Proof.
  induction ms as [|m ms IH]; intros f; [reflexivity|].
  cbn [fold_left]. rewrite map_map, map2_same_map. apply (IH (fun t => f t * b2z (negb (t =? m)))).
Qed.

Lemma gen_get_target_weight_spec T ms : gen_get_target_weight T ms = weights ms T.
Proof. unfold gen_get_target_weight, weights, target_weight. apply (fold_vec_weight T ms (fun _ => 1)). Qed.

Lemma fold_vec_oov T : forall vs (f : Z -> Z),
  fold_left (fun O v => map2 (fun o b => Z.max o (b2z b)) O (map (fun x => x =? v) T)) vs (map f T) =
  map (fun t => fold_left (fun o v => Z.max o (b2z (t =? v))) vs (f t)) T.
Proof.
  induction vs as [|v vs IH]; intros f; [reflexivity|].
  cbn [fold_left]. rewrite map2_same_map. apply (IH (fun t => Z.max (f t) (b2z (t =? v)))).
Qed.

Lemma topk_correct_gen k s t :
  b2z (any_b (map (fun x => x =? t) (py_slice (argsort_z (map ext_neg s)) 0 (Z.max k 0)))) = topk_correct k s t.
Proof.
  unfold topk_correct, argsort_z. rewrite py_slice_map, map_map, any_b_map. reflexivity.
Qed.

Lemma masked_pred lm P :
  match lm with Some lm_ => add_mask_mat P lm_ | None => fin_mat P end = map (mask_scores lm) P.
Proof. destruct lm; reflexivity. Qed.

Lemma seq_stat_gen (pp : bool) vals ws :
  (if pp then map2 mean_new (map2 Z.mul vals ws) ws else [mean_new (zsum (map2 Z.mul vals ws)) (zsum ws)]) =
  seq_stat pp vals ws.
Proof. unfold seq_stat. destruct pp; [|reflexivity]. apply map2_map2_r. Qed.

Lemma gen_cross_entropy_spec t p ce : gen_cross_entropy t p ce = m_cross_entropy ce.
Proof. reflexivity. Qed.
Lemma gen_accuracy_spec t s : gen_accuracy t s = m_accuracy s t.
Proof. reflexivity. Qed.
Lemma gen_topk_spec k t s : gen_topk k t s = m_topk k s t.
Proof. unfold gen_topk, m_topk, fin_vec. now rewrite topk_correct_gen. Qed.

Lemma gen_seq_token_ce_spec masked pp T P ce : gen_seq_token_ce masked pp T P ce = m_seq_token_ce masked pp T ce.
Proof.
  unfold gen_seq_token_ce, m_seq_token_ce, seq_statQ. rewrite gen_get_target_weight_spec.
  destruct pp; [|reflexivity]. apply map2_map2_r.
Qed.
Lemma gen_seq_ce_spec masked T P ce : gen_seq_ce masked T P ce = m_seq_ce masked T ce.
Proof. unfold gen_seq_ce, m_seq_ce. now rewrite gen_get_target_weight_spec. Qed.

Lemma gen_seq_token_acc_spec masked lm pp T P :
  gen_seq_token_acc masked lm pp T P = m_seq_token_acc masked lm pp T P.
Proof.
  unfold gen_seq_token_acc, m_seq_token_acc. cbv zeta. rewrite masked_pred, gen_get_target_weight_spec, seq_stat_gen.
  f_equal. rewrite map_map2', map2_map_r', map2_map_r', map2_swap. reflexivity.
Qed.

Lemma gen_seq_token_topk_spec k masked lm pp T P :
  gen_seq_token_topk k masked lm pp T P = m_seq_token_topk k masked lm pp T P.
Proof.
  unfold gen_seq_token_topk, m_seq_token_topk. cbv zeta. rewrite masked_pred, gen_get_target_weight_spec, seq_stat_gen.
  f_equal. unfold rows_any_eq. rewrite !map_map, map_map2', map2_map_l'.
  apply map2_ext'. intros row t. apply topk_correct_gen.
Qed.

Lemma gen_seq_token_count_spec masked T : gen_seq_token_count masked T = m_seq_token_count masked T.
Proof. unfold gen_seq_token_count, m_seq_token_count. now rewrite gen_get_target_weight_spec. Qed.
Lemma gen_seq_count_spec masked T : gen_seq_count masked T = m_seq_count masked T.
Proof. unfold gen_seq_count, m_seq_count. now rewrite gen_get_target_weight_spec. Qed.
Lemma gen_seq_trunc_spec eos masked T : gen_seq_trunc eos masked T = m_seq_trunc eos masked T.
Proof.
  unfold gen_seq_trunc, m_seq_trunc. cbv zeta. rewrite gen_get_target_weight_spec, map_map, all_b_map. reflexivity.
Qed.
Lemma gen_seq_oov_spec oovs masked pp T : gen_seq_oov oovs masked pp T = m_seq_oov oovs masked pp T.
Proof.
  unfold gen_seq_oov, m_seq_oov. cbv zeta. rewrite gen_get_target_weight_spec, seq_stat_gen. f_equal.
  apply (fold_vec_oov T oovs (fun _ => 0)).
Qed.
Lemma gen_seq_length_spec masked T : gen_seq_length masked T = m_seq_length masked T.
Proof. unfold gen_seq_length, m_seq_length. now rewrite gen_get_target_weight_spec. Qed.

Lemma map2_seq_repeat {A B} (f : nat -> A -> B) (x : A) n : forall a,
  map2 f (seq a n) (repeat x n) = map (fun i => f i x) (seq a n).
Proof. induction n as [|n IH]; intros a; [reflexivity|]. cbn [seq repeat map]. rewrite map2_cons. f_equal. apply IH. Qed.

Lemma mat_set_zeros n t p : mat_set (zeros_mat (Z.of_nat n) (Z.of_nat n)) t (Z.of_nat p) 1 =
  map (fun r => map (fun c => b2z ((Z.of_nat r =? t) && (c =? p)%nat)) (seq 0 n)) (seq 0 n).
Proof.
  unfold mat_set, zeros_mat. rewrite !Nat2Z.id, repeat_length, map2_seq_repeat.
  apply map_ext. intros r. rewrite repeat_length, map2_seq_repeat. apply map_ext. intros c.
  destruct (Z.of_nat r =? t); [|reflexivity]. cbn [andb].
  destruct (c =? p)%nat eqn:E.
  - apply Nat.eqb_eq in E. subst. now rewrite Z.eqb_refl.
  - apply Nat.eqb_neq in E. destruct (Z.of_nat c =? Z.of_nat p) eqn:E'; [apply Z.eqb_eq in E'; lia|reflexivity].
Qed.

Lemma gen_confusion_spec nc t s : gen_confusion nc t s = m_confusion nc s t.
Proof.
  unfold gen_confusion, m_confusion. destruct (nc =? Z.of_nat (length s)) eqn:E; [|reflexivity].
  apply Z.eqb_eq in E. subst nc. cbn [negb]. f_equal. unfold argmax_z, fin_vec. rewrite mat_set_zeros, Nat2Z.id. reflexivity.
Qed.

(* the correspondence evaluates exactly the specification functions *)
Definition eval_base_spec (c : base_case) : result :=
  match c with
  | KCE ce => scalarQ (m_cross_entropy ce)
  | KAcc s t => scalarZ (m_accuracy s t)
  | KTopK k s t => scalarZ (m_topk k s t)
  | KSeqTokCE masked pp targets ce => seqQ pp (m_seq_token_ce masked pp targets ce)
  | KSeqCE masked targets ce => scalarQ (m_seq_ce masked targets ce)
  | KSeqTokAcc masked lm pp targets scores => seqZ pp (m_seq_token_acc masked lm pp targets scores)
  | KSeqTokTopK k masked lm pp targets scores => seqZ pp (m_seq_token_topk k masked lm pp targets scores)
  | KTokCount masked targets => RSum [] [zq (m_seq_token_count masked targets)]
  | KSeqCount masked targets => RSum [] [zq (m_seq_count masked targets)]
  | KTrunc eos masked targets => scalarZ (m_seq_trunc eos masked targets)
  | KOOV oovs masked pp targets => seqZ pp (m_seq_oov oovs masked pp targets)
  | KLen masked targets => scalarZ (m_seq_length masked targets)
  | KConf nc s t => match m_confusion nc s t with Some m => RSum [nc; nc] (map zq (concat m)) | None => RErr end
  | KGridTopK cmax => let g := grid_topk (fun k t s => m_topk k s t) (fun t s => m_accuracy s t) cmax in RSum [Z.of_nat (length g)] (map zq g)
  | KGridSeq lmax =>
      let g := grid_seq m_seq_trunc m_seq_length m_seq_token_count m_seq_count lmax in
      RSum [Z.of_nat (length g)] (map zq g)
  end.

Lemma flat_map_ext' {A B} (f g : A -> list B) l : (forall x, f x = g x) -> flat_map f l = flat_map g l.
Proof. intros H. induction l as [|x l IH]; cbn; [reflexivity|]. now rewrite H, IH. Qed.

Lemma grid_topk_spec cmax : grid_topk gen_topk gen_accuracy cmax = grid_topk (fun k t s => m_topk k s t) (fun t s => m_accuracy s t) cmax.
Proof.
  unfold grid_topk. apply flat_map_ext'. intros c. apply flat_map_ext'. intros s. apply flat_map_ext'. intros t.
  rewrite gen_accuracy_spec. f_equal. apply map_ext. intros k. now rewrite gen_topk_spec.
Qed.

Lemma grid_seq_spec lmax : grid_seq gen_seq_trunc gen_seq_length gen_seq_token_count gen_seq_count lmax =
  grid_seq m_seq_trunc m_seq_length m_seq_token_count m_seq_count lmax.
Proof.
  unfold grid_seq. apply flat_map_ext'. intros l. apply flat_map_ext'. intros ts.
  now rewrite gen_seq_trunc_spec, gen_seq_length_spec, gen_seq_token_count_spec, gen_seq_count_spec.
Qed.

Lemma eval_base_is_spec c : eval_base c = eval_base_spec c.
Proof.
  destruct c; cbn [eval_base eval_base_spec];
    rewrite ?gen_topk_spec, ?gen_seq_token_ce_spec, ?gen_seq_ce_spec, ?gen_seq_token_acc_spec,
      ?gen_seq_token_topk_spec, ?gen_seq_token_count_spec, ?gen_seq_count_spec, ?gen_seq_trunc_spec,
      ?gen_seq_oov_spec, ?gen_seq_length_spec, ?gen_confusion_spec, ?grid_topk_spec, ?grid_seq_spec; reflexivity.
Qed.

Lemma gen_per_domain_spec {A} nd dom (zero x : A) : gen_per_domain nd dom zero x = per_domain nd dom zero x.
Proof. unfold gen_per_domain, per_domain, one_hot_b. rewrite map_map. reflexivity. Qed.

Lemma translated_metrics_are_model :
  (forall T ms, gen_get_target_weight T ms = weights ms T) /\
  (forall t p ce, gen_cross_entropy t p ce = m_cross_entropy ce) /\
  (forall t s, gen_accuracy t s = m_accuracy s t) /\
  (forall k t s, gen_topk k t s = m_topk k s t) /\
  (forall masked pp T P ce, gen_seq_token_ce masked pp T P ce = m_seq_token_ce masked pp T ce) /\
  (forall masked T P ce, gen_seq_ce masked T P ce = m_seq_ce masked T ce) /\
  (forall masked lm pp T P, gen_seq_token_acc masked lm pp T P = m_seq_token_acc masked lm pp T P) /\
  (forall k masked lm pp T P, gen_seq_token_topk k masked lm pp T P = m_seq_token_topk k masked lm pp T P) /\
  (forall masked T, gen_seq_token_count masked T = m_seq_token_count masked T) /\
  (forall masked T, gen_seq_count masked T = m_seq_count masked T) /\
  (forall eos masked T, gen_seq_trunc eos masked T = m_seq_trunc eos masked T) /\
  (forall oovs masked pp T, gen_seq_oov oovs masked pp T = m_seq_oov oovs masked pp T) /\
  (forall masked T, gen_seq_length masked T = m_seq_length masked T) /\
  (forall nc t s, gen_confusion nc t s = m_confusion nc s t) /\
  (forall c, eval_base c = eval_base_spec c) /\
  (forall (A : Type) nd dom (zero x : A), gen_per_domain nd dom zero x = per_domain nd dom zero x).
Proof.
  repeat split; intros; try apply gen_per_domain_spec;
    first [apply gen_get_target_weight_spec | apply gen_topk_spec | apply gen_seq_token_ce_spec | apply gen_seq_ce_spec
          | apply gen_seq_token_acc_spec | apply gen_seq_token_topk_spec | apply gen_seq_token_count_spec
          | apply gen_seq_count_spec | apply gen_seq_trunc_spec | apply gen_seq_oov_spec | apply gen_seq_length_spec
          | apply gen_confusion_spec | apply eval_base_is_spec | reflexivity].
Qed.

(* ====================================================================== *)
(* top-k as a rank condition: the target is counted iff fewer than k        *)
(* classes precede it in (decreasing score, increasing index) order.        *)
(* ====================================================================== *)
Definition ext_eqb (a b : ext) : bool :=
  match a, b with NInf, NInf | PInf, PInf => true | Fin x, Fin y => x =? y | _, _ => false end.
Lemma ext_eqb_eq a b : ext_eqb a b = true <-> a = b.
Proof.
  destruct a, b; cbn; split; intros H; try discriminate; try reflexivity.
  - apply Z.eqb_eq in H. now subst.
  - injection H as ->. apply Z.eqb_refl.
Qed.

(* class i precedes class j *)
Definition dltb (s : list ext) (i j : nat) : bool :=
  ext_ltb (nth j s NInf) (nth i s NInf) || (ext_eqb (nth i s NInf) (nth j s NInf) && (i <? j)%nat).
Lemma dltb_dlt s i j : dltb s i j = true <-> dlt s i j.
Proof.
  unfold dltb, dlt. rewrite orb_true_iff, andb_true_iff, ext_ltb_lt, ext_eqb_eq, Nat.ltb_lt. reflexivity.
Qed.
(* number of classes that precede class t *)
Definition rank (s : list ext) (t : nat) : nat := length (filter (fun j => dltb s j t) (seq 0 (length s))).

Lemma dlt_irrefl s i : ~ dlt s i i.
Proof. unfold dlt. intros [H|[_ H]]; [now apply ext_lt_irrefl in H|lia]. Qed.
Lemma dlt_asym s i j : dlt s i j -> ~ dlt s j i.
Proof.
  unfold dlt. intros [H|[H1 H2]] [H'|[H1' H2']].
  - apply (ext_lt_irrefl (nth i s NInf)). eapply ext_lt_trans; eassumption.
  - rewrite H1' in H. now apply ext_lt_irrefl in H.
  - rewrite H1 in H'. now apply ext_lt_irrefl in H'.
  - lia.
Qed.

Lemma SS_app_cross {A} (R : A -> A -> Prop) l1 l2 : StronglySorted R (l1 ++ l2) ->
  (forall x y, In x l1 -> In y l2 -> R x y) /\ StronglySorted R l2.
Proof.
  induction l1 as [|a l1 IH]; cbn; intros H.
  - split; [intros x y []|exact H].
  - inversion H as [|? ? Hs Hall]; subst. destruct (IH Hs) as [I1 I2]. split; [|exact I2].
    intros x y [<-|Hx] Hy.
    + rewrite Forall_forall in Hall. apply Hall. apply in_or_app. now right.
    + now apply I1.
Qed.

Lemma filter_perm_length {A} (f : A -> bool) l l' : Permutation l l' -> length (filter f l) = length (filter f l').
Proof.
  induction 1 as [|x l l' _ IH|x y l|l l' l'' _ IH1 _ IH2]; cbn.
  - reflexivity.
  - destruct (f x); cbn; now rewrite IH.
  - destruct (f x), (f y); reflexivity.
  - now rewrite IH1.
Qed.
Lemma filter_all_true {A} (f : A -> bool) l : (forall x, In x l -> f x = true) -> filter f l = l.
Proof. induction l as [|x l IH]; cbn; intros H; [reflexivity|]. rewrite (H x) by now left. f_equal. apply IH. intros; apply H; now right. Qed.
Lemma filter_all_false {A} (f : A -> bool) l : (forall x, In x l -> f x = false) -> filter f l = [].
Proof. induction l as [|x l IH]; cbn; intros H; [reflexivity|]. rewrite (H x) by now left. apply IH. intros; apply H; now right. Qed.

Lemma existsb_nat_In t l : existsb (fun i => Z.of_nat i =? Z.of_nat t) l = true <-> In t l.
Proof.
  rewrite existsb_exists. split.
  - intros (x & Hx & E). apply Z.eqb_eq in E. apply Nat2Z.inj in E. now subst.
  - intros H. exists t. split; [exact H|apply Z.eqb_refl].
Qed.

Lemma In_firstn {A} (x : A) n l : In x (firstn n l) -> In x l.
Proof. intros H. rewrite <- (firstn_skipn n l). apply in_or_app. now left. Qed.

Lemma topk_is_rank k s t : (t < length s)%nat ->
  topk_correct k s (Z.of_nat t) = b2z (Z.of_nat (rank s t) <? k).
Proof.
  intros Ht. unfold topk_correct, py_slice. cbn [Z.to_nat skipn]. rewrite Z.sub_0_r.
  set (L := argsort (map ext_neg s)).
  pose proof (argsort_desc_perm s) as HP. fold L in HP.
  pose proof (argsort_desc_sorted s) as HS. fold L in HS.
  assert (Hin : In t L) by (eapply Permutation_in; [symmetry; exact HP|apply in_seq; lia]).
  assert (HND : NoDup L) by (eapply Permutation_NoDup; [symmetry; exact HP|apply seq_NoDup]).
  destruct (in_split _ _ Hin) as (l1 & l2 & EL).
  assert (Hrank : rank s t = length l1).
  { unfold rank. rewrite (filter_perm_length _ _ _ (Permutation_sym HP)), EL.
    rewrite EL in HS. destruct (SS_app_cross _ _ _ HS) as [Hcross Hs2].
    inversion Hs2 as [|? ? _ Hall]; subst. rewrite Forall_forall in Hall.
    rewrite filter_app. cbn [filter].
    rewrite (filter_all_true _ l1) by (intros x Hx; apply dltb_dlt; apply Hcross; [exact Hx|now left]).
    assert (E0 : dltb s t t = false).
    { destruct (dltb s t t) eqn:E; [|reflexivity]. apply dltb_dlt in E. now apply dlt_irrefl in E. }
    rewrite E0, (filter_all_false _ l2).
    - now rewrite app_nil_r.
    - intros y Hy. destruct (dltb s y t) eqn:E; [|reflexivity]. apply dltb_dlt in E.
      exfalso. apply (dlt_asym s t y); [apply Hall; exact Hy|exact E]. }
  rewrite Hrank. rewrite EL in HND. apply NoDup_remove_2 in HND.
  destruct (Z.of_nat (length l1) <? k) eqn:Ek.
  - apply Z.ltb_lt in Ek.
    assert (E : existsb (fun i => Z.of_nat i =? Z.of_nat t) (firstn (Z.to_nat (Z.max k 0)) L) = true).
    { apply existsb_nat_In. rewrite EL, firstn_app. apply in_or_app. right.
      replace (Z.to_nat (Z.max k 0) - length l1)%nat with (S (Z.to_nat (Z.max k 0) - length l1 - 1)) by lia.
      now left. }
    now rewrite E.
  - apply Z.ltb_ge in Ek.
    assert (E : existsb (fun i => Z.of_nat i =? Z.of_nat t) (firstn (Z.to_nat (Z.max k 0)) L) = false).
    { destruct (existsb _ _) eqn:E; [|reflexivity]. apply existsb_nat_In in E. exfalso.
      rewrite EL, firstn_app in E. replace (Z.to_nat (Z.max k 0) - length l1)%nat with 0%nat in E by lia.
      cbn [firstn] in E. rewrite app_nil_r in E. apply HND. apply in_or_app. left. eapply In_firstn; exact E. }
    now rewrite E.
Qed.
