(* C02 proofs: every for_each_client backend equals the sequential fold. *)
From Coq Require Import ZArith List Bool Lia Permutation Sorted Arith.
From FV Require Import Common.ListX Common.PySem Common.Chunk Common.C02Lib gen.Gen_for_each_client Model.C02_Model.
Import ListNotations.
Local Open Scope Z_scope.

(* ------------------------------------------------------------------------ *)
(* generic list facts *)

Lemma split_map {A B C} (g : A -> B * C) (l : list A) :
  split (map g l) = (map (fun x => fst (g x)) l, map (fun x => snd (g x)) l).
Proof.
  induction l as [|x l IH]; cbn [map split]; [reflexivity|].
  rewrite IH. destruct (g x); reflexivity.
Qed.

Lemma map3_map {E A B C D} (f : A -> B -> C -> D) (a : E -> A) (b : E -> B) (c : E -> C) (l : list E) :
  map3 f (map a l) (map b l) (map c l) = map (fun e => f (a e) (b e) (c e)) l.
Proof. induction l as [|x l IH]; cbn [map map3]; [reflexivity|now rewrite IH]. Qed.

Lemma nth_error_map' {A B} (f : A -> B) (l : list A) i :
  nth_error (map f l) i = option_map f (nth_error l i).
Proof. revert i; induction l; intros [|i]; cbn; auto. Qed.

Lemma map_nth_seq {A} (l : list A) d :
  map (fun i => nth i l d) (seq 0 (length l)) = l.
Proof.
  induction l as [|x l IH]; cbn [length seq map]; [reflexivity|].
  cbn [nth]. f_equal. rewrite <- seq_shift, map_map. exact IH.
Qed.

Lemma flat_map_nth_error_seq {A B} (G : A -> list B) (l : list A) :
  flat_map (fun i => match nth_error l i with Some c => G c | None => [] end) (seq 0 (length l))
  = flat_map G l.
Proof.
  induction l as [|x l IH]; cbn [length seq flat_map]; [reflexivity|].
  cbn [nth_error]. f_equal. rewrite <- seq_shift, flat_map_concat_map, map_map, <- flat_map_concat_map.
  exact IH.
Qed.

Lemma flat_map_nil_on {A B} (F : A -> list B) (l : list A) :
  (forall x, In x l -> F x = []) -> flat_map F l = [].
Proof.
  induction l as [|x l IH]; intros H; cbn [flat_map]; [reflexivity|].
  rewrite (H x) by (left; reflexivity). rewrite IH by (intros; apply H; right; assumption). reflexivity.
Qed.

Lemma flat_map_singleton_map {A B} (g : A -> B) (l : list A) : flat_map (fun x => [g x]) l = map g l.
Proof. induction l; cbn; congruence. Qed.

Lemma py_range_step1 : forall n a, py_range a (a + Z.of_nat n) 1 = map (fun i => a + Z.of_nat i) (seq 0 n).
Proof.
  induction n as [|n IH]; intros a.
  - rewrite py_range_nil by lia. reflexivity.
  - rewrite py_range_unfold by lia.
    assert (a <? a + Z.of_nat (S n) = true) as -> by (apply Z.ltb_lt; lia).
    cbn [seq map]. f_equal; [f_equal; lia|].
    replace (a + Z.of_nat (S n)) with ((a + 1) + Z.of_nat n) by lia. rewrite IH.
    rewrite <- seq_shift, map_map. apply map_ext. intros i. lia.
Qed.

Lemma py_range_0 m : 0 <= m -> py_range 0 m 1 = map Z.of_nat (seq 0 (Z.to_nat m)).
Proof.
  intros H. replace m with (0 + Z.of_nat (Z.to_nat m)) at 1 by lia. rewrite py_range_step1.
  apply map_ext. intros; lia.
Qed.

Lemma StronglySorted_firstn {A} (R : A -> A -> Prop) n l : StronglySorted R l -> StronglySorted R (firstn n l).
Proof.
  revert l; induction n as [|n IH]; intros l H; cbn [firstn]; [constructor|].
  destruct l as [|x l]; [constructor|]. inversion H; subst. constructor; [now apply IH|now apply Forall_firstn].
Qed.

Lemma StronglySorted_skipn {A} (R : A -> A -> Prop) n l : StronglySorted R l -> StronglySorted R (skipn n l).
Proof.
  revert l; induction n as [|n IH]; intros l H; cbn [skipn]; [exact H|].
  destruct l as [|x l]; [constructor|]. inversion H; subst. now apply IH.
Qed.

(* the generated output-splitting loop (append in a loop, [reverse,] pop / yield) yields,
   in some order, the flat_map over the lane indices.  Stated up to Permutation: the
   yield order is not part of the property, so the proof does not depend on whether the
   code reverses before popping. *)
Definition emit_flat {Id Out R} (ids : list (option Id)) (mask : list bool) (nb : list Z) (out : list Out)
    (res : list (list R)) : list (option Id * Out * list R) :=
  flat_map (fun i =>
    match nth_error mask i, nth_error ids i, nth_error out i, nth_error nb i with
    | Some m, Some id, Some o, Some n =>
        if pmap_skip m then [] else [(id, o, pmap_truncate (lane_results i res) n)]
    | _, _, _, _ => []
    end) (seq 0 (length ids)).

Lemma pmap_emit_spec {Id Out R} (ids : list (option Id)) mask nb (out : list Out) (res : list (list R)) :
  Permutation (pmap_emit ids mask nb out res) (emit_flat ids mask nb out res).
Proof.
  unfold pmap_emit, emit_flat. cbv zeta. rewrite fold_left_append_flat_map. cbn [app].
  rewrite Nat2Z.id, pop_yield_all.
  erewrite map_ext; [rewrite map_id|intros [[a b] c]; reflexivity].
  repeat rewrite <- Permutation_rev.
  rewrite py_range_0 by lia. rewrite Nat2Z.id.
  rewrite flat_map_concat_map, map_map, <- flat_map_concat_map.
  apply Permutation_refl'. apply flat_map_ext_in'. intros i _. rewrite !Nat2Z.id. reflexivity.
Qed.

(* ------------------------------------------------------------------------ *)
(* the stable sort *)
Section SortFacts.
Context {A : Type} (key : A -> Z).

Lemma insert_stable_perm rev x l : Permutation (insert_stable key rev x l) (x :: l).
Proof.
  induction l as [|y l IH]; cbn [insert_stable]; [reflexivity|].
  destruct (after key rev x y); [|reflexivity].
  rewrite IH. apply perm_swap.
Qed.

Lemma sort_by_perm rev l : Permutation (sort_by key rev l) l.
Proof.
  induction l as [|x l IH]; cbn [sort_by fold_right]; [reflexivity|].
  fold (sort_by key rev l). rewrite insert_stable_perm. now constructor.
Qed.

(* reverse=True: descending keys *)
Definition desc (a b : A) : Prop := key b <= key a.

Lemma insert_desc_sorted x l : StronglySorted desc l -> StronglySorted desc (insert_stable key true x l).
Proof.
  induction l as [|y l IH]; intros H; cbn [insert_stable].
  - repeat constructor.
  - inversion H as [|? ? Hs Hf]; subst. unfold after.
    destruct (key x <? key y) eqn:E.
    + apply Z.ltb_lt in E. constructor; [now apply IH|].
      eapply Permutation_Forall; [symmetry; apply insert_stable_perm|].
      constructor; [unfold desc; lia|exact Hf].
    + apply Z.ltb_ge in E. constructor; [exact H|]. constructor; [exact E|].
      eapply Forall_impl; [|exact Hf]. unfold desc. intros; lia.
Qed.

Lemma sort_by_desc l : StronglySorted desc (sort_by key true l).
Proof.
  induction l as [|x l IH]; cbn [sort_by fold_right]; [constructor|]. now apply insert_desc_sorted.
Qed.
End SortFacts.

(* ------------------------------------------------------------------------ *)
Section Generic.
Context {Id Sh Cin S B R Out : Type}.
Variable init : Sh -> Cin -> S.
Variable step : S -> B -> S * R.
Variable final : Sh -> S -> Out.
Variable zero_r : R -> R.
Variable zero_b : B -> B.
Variable zero_cin : Cin -> Cin.

Notation next := (next step).
Notation step_results := (step_results step).
Notation lane_step := (lane_step step zero_r).
Notation lane_fold := (lane_fold step zero_r).
Notation p_loop_body := (p_loop_body step zero_r).
Notation pclient := (@pclient Id Cin B).
Notation client := (@client Id Cin B).

(* ---- jit / debug: the accumulator loop is the fold ---- *)
Lemma loop_body_fold : forall bs s acc,
  fold_left (loop_body step) bs (s, acc) = (fold_left next bs s, acc ++ step_results s bs).
Proof.
  induction bs as [|b bs IH]; intros s acc; cbn [fold_left step_results].
  - now rewrite app_nil_r.
  - unfold loop_body at 2. unfold C02_Model.next at 2. unfold C02_Model.next at 2.
    destruct (step s b) as [s' r] eqn:E. cbn [fst snd].
    rewrite IH. rewrite <- app_assoc. reflexivity.
Qed.

(* the generated loops are the accumulator fold *)
Lemma fold_left_ext_eq {A E} (f g : A -> E -> A) : (forall a b, f a b = g a b) ->
  forall l a, fold_left f l a = fold_left g l a.
Proof. intros H. induction l as [|x l IH]; intros a; cbn [fold_left]; [reflexivity|]. rewrite H. apply IH. Qed.

Lemma jit_run_client_gen_fold (i : Sh -> Cin -> S) sh bs cin :
  jit_run_client_gen i step final sh bs cin
  = let (st, rs) := fold_left (loop_body step) bs (i sh cin, []) in (final sh st, rs).
Proof.
  unfold jit_run_client_gen. cbv zeta.
  rewrite (fold_left_ext_eq _ (loop_body step)) by (intros [st rs] b; unfold loop_body; destruct (step st b); reflexivity).
  destruct (fold_left _ bs (i sh cin, [])). reflexivity.
Qed.

Lemma debug_run_client_gen_fold sh bs cin :
  debug_run_client_gen init step final sh bs cin
  = let (st, rs) := fold_left (loop_body step) bs (init sh cin, []) in (final sh st, rs).
Proof.
  unfold debug_run_client_gen. cbv zeta.
  rewrite (fold_left_ext_eq _ (loop_body step)) by (intros [st rs] b; unfold loop_body; destruct (step st b); reflexivity).
  destruct (fold_left _ bs (init sh cin, [])). reflexivity.
Qed.

Lemma debug_equals_seq sh (clients : list client) :
  debug_run init step final sh clients = map (run_seq init step final sh) clients.
Proof.
  unfold debug_run. apply map_ext. intros [[id bs] cin]. rewrite debug_run_client_gen_fold, loop_body_fold. reflexivity.
Qed.

Lemma jit_equals_seq (copy : S -> S) sh (clients : list client) : (forall s, copy s = s) ->
  jit_run init step final copy sh clients = map (run_seq init step final sh) clients.
Proof.
  intros Hc. unfold jit_run. apply map_ext. intros [[id bs] cin]. unfold jit_run_client.
  rewrite jit_run_client_gen_fold, Hc, loop_body_fold. reflexivity.
Qed.

(* ---- one lane: masked steps are invisible ---- *)
Lemma lane_fold_app : forall c1 c2 s,
  lane_fold s (c1 ++ c2) =
  let (s1, r1) := lane_fold s c1 in let (s2, r2) := lane_fold s1 c2 in (s2, r1 ++ r2).
Proof.
  induction c1 as [|[b m] c1 IH]; intros c2 s; cbn [app C02_Model.lane_fold].
  - destruct (lane_fold s c2); reflexivity.
  - destruct (lane_step s b m) as [s' r]. rewrite IH.
    destruct (lane_fold s' c1) as [s1 r1]. destruct (lane_fold s1 c2) as [s2 r2]. reflexivity.
Qed.

Lemma lane_fold_real : forall bs s,
  lane_fold s (map (fun b => (b, true)) bs) = (fold_left next bs s, step_results s bs).
Proof.
  induction bs as [|b bs IH]; intros s; cbn [map C02_Model.lane_fold fold_left C02_Model.step_results]; [reflexivity|].
  unfold C02_Model.lane_step, C02_Model.next, pmap_select_state. destruct (step s b) as [s' r]. cbn [fst snd].
  fold (C02_Model.next step). rewrite IH. reflexivity.
Qed.

Lemma lane_fold_padding : forall k s pad,
  lane_fold s (repeat (pad, false) k) = (s, repeat (zero_r (snd (step s pad))) k).
Proof.
  induction k as [|k IH]; intros s pad; cbn [repeat C02_Model.lane_fold]; [reflexivity|].
  unfold C02_Model.lane_step, pmap_select_state. destruct (step s pad) as [s' r] eqn:E. rewrite IH, E. reflexivity.
Qed.

Lemma step_results_length : forall bs s, length (step_results s bs) = length bs.
Proof. induction bs as [|b bs IH]; intros s; cbn; [reflexivity|now rewrite IH]. Qed.

(* a lane fed `batches ++ padding` ends in the state of the unpadded fold; its
   results are those of the unpadded fold followed by one (zeroed) result per
   padding batch -- for ANY step function and any padding batch *)
Lemma masked_steps_invisible bs k pad s :
  lane_fold s (map (fun b => (b, true)) bs ++ repeat (pad, false) k)
  = (fold_left next bs s,
     step_results s bs ++ repeat (zero_r (snd (step (fold_left next bs s) pad))) k).
Proof. rewrite lane_fold_app, lane_fold_real, lane_fold_padding. reflexivity. Qed.

Lemma truncate_app {A} (l extra : list A) : pmap_truncate (l ++ extra) (Z.of_nat (length l)) = l.
Proof.
  unfold pmap_truncate, py_slice. cbn [skipn Z.to_nat]. replace (Z.to_nat (Z.of_nat (length l) - 0)) with (length l) by lia.
  rewrite firstn_app, Nat.sub_diag, firstn_all. cbn [firstn]. apply app_nil_r.
Qed.

Lemma step_results_truncated bs k pad s :
  pmap_truncate (snd (lane_fold s (map (fun b => (b, true)) bs ++ repeat (pad, false) k))) (Z.of_nat (length bs))
  = step_results s bs.
Proof.
  rewrite masked_steps_invisible. cbn [snd]. rewrite <- (step_results_length bs s). apply truncate_app.
Qed.

(* ---- lock-step rows = independent lanes ---- *)
Section Lanes.
Context {C X : Type} (beta : X -> C -> B) (mu : X -> C -> bool).
Definition col (c : C) (xs : list X) : list (B * bool) := map (fun x => (beta x c, mu x c)) xs.
Definition rows (pb : list C) (xs : list X) : list (list B * list bool) :=
  map (fun x => (map (beta x) pb, map (mu x) pb)) xs.

Lemma lane_results_app i (a b : list (list R)) : lane_results i (a ++ b) = lane_results i a ++ lane_results i b.
Proof. unfold lane_results. apply flat_map_app. Qed.

Lemma rows_are_lanes : forall xs (pb : list C) (sigma : C -> S) acc,
  let res := fold_left p_loop_body (rows pb xs) (map sigma pb, acc) in
  fst res = map (fun c => fst (lane_fold (sigma c) (col c xs))) pb /\
  forall i c, nth_error pb i = Some c ->
    lane_results i (snd res) = lane_results i acc ++ snd (lane_fold (sigma c) (col c xs)).
Proof.
  induction xs as [|x xs IH]; intros pb sigma acc; cbn [rows map fold_left col].
  - cbn [fst snd C02_Model.lane_fold]. split; [reflexivity|]. intros. now rewrite app_nil_r.
  - assert (Hstep : p_loop_body (map sigma pb, acc) (map (beta x) pb, map (mu x) pb)
        = (map (fun e => fst (lane_step (sigma e) (beta x e) (mu x e))) pb,
           acc ++ [map (fun e => snd (lane_step (sigma e) (beta x e) (mu x e))) pb])).
    { unfold C02_Model.p_loop_body. rewrite map3_map, split_map. reflexivity. }
    rewrite Hstep. fold (rows pb xs).
    specialize (IH pb (fun e => fst (lane_step (sigma e) (beta x e) (mu x e)))
                   (acc ++ [map (fun e => snd (lane_step (sigma e) (beta x e) (mu x e))) pb])).
    cbv zeta in IH. destruct IH as [IH1 IH2]. split.
    + rewrite IH1. apply map_ext. intros c. cbn [C02_Model.lane_fold].
      destruct (lane_step (sigma c) (beta x c) (mu x c)) as [s' r]. cbn [fst].
      fold (col c xs). destruct (lane_fold s' (col c xs)); reflexivity.
    + intros i c Hi. rewrite (IH2 i c Hi). rewrite lane_results_app, <- app_assoc. f_equal.
      unfold lane_results at 1. cbn [flat_map]. rewrite nth_error_map', Hi. cbn [option_map opt_list app].
      cbn [C02_Model.lane_fold].
      destruct (lane_step (sigma c) (beta x c) (mu x c)) as [s' r]. cbn [fst snd].
      fold (col c xs). destruct (lane_fold s' (col c xs)); reflexivity.
Qed.
End Lanes.


(* ---- _blockify + block run ---- *)
Notation result := (option Id * Out * list R)%type.
Notation cellf := (@cell Id Cin B).
Notation realf := (fun (j : Z) (c : pclient) => blockify_batch_is_real j (nbatches c)).

Definition run_pc (sh : Sh) (c : pclient) : result :=
  (pc_id c, final sh (fold_left next (pc_batches c) (init sh (pc_cin c))),
   step_results (init sh (pc_cin c)) (pc_batches c)).

Lemma nbatches_nonneg (c : pclient) : 0 <= nbatches c.
Proof. unfold nbatches. lia. Qed.

Lemma map_const_repeat {A E} (v : E) (l : list A) : map (fun _ => v) l = repeat v (length l).
Proof. induction l; cbn; congruence. Qed.

(* the column of client c in a block padded to M batches *)
Lemma column_shape (pad : B) (c : pclient) M : nbatches c <= M ->
  col (cellf pad) realf c (blockify_batch_range M)
  = map (fun b => (b, true)) (pc_batches c) ++ repeat (pad, false) (Z.to_nat M - length (pc_batches c)).
Proof.
  intros H. pose proof (nbatches_nonneg c) as H0. unfold nbatches in *. unfold blockify_batch_range.
  rewrite py_range_0 by lia. unfold col. rewrite map_map.
  set (L := length (pc_batches c)) in *.
  replace (Z.to_nat M) with (L + (Z.to_nat M - L))%nat by lia.
  rewrite seq_app, map_app. f_equal.
  - rewrite <- (map_nth_seq (pc_batches c) pad) at 1. fold L. rewrite map_map.
    apply map_ext_in. intros i Hi. apply in_seq in Hi.
    unfold cell, blockify_batch_is_real, nbatches. fold L.
    assert (Z.of_nat i <? Z.of_nat L = true) as -> by (apply Z.ltb_lt; lia).
    now rewrite Nat2Z.id.
  - replace (L + (Z.to_nat M - L) - L)%nat with (Z.to_nat M - L)%nat by lia.
    rewrite <- (seq_length (Z.to_nat M - L) (0 + L)) at 2. rewrite <- map_const_repeat.
    apply map_ext_in. intros i Hi. apply in_seq in Hi.
    unfold cell, blockify_batch_is_real, nbatches. fold L.
    assert (Z.of_nat i <? Z.of_nat L = false) as -> by (apply Z.ltb_ge; lia). reflexivity.
Qed.

Lemma masked_batches_shape (pb : list pclient) c0 rest : pb = c0 :: rest ->
  (nbatches c0 = 0 /\ masked_batches zero_b pb = []) \/
  (exists pad, masked_batches zero_b pb = rows (cellf pad) realf pb (blockify_batch_range (nbatches c0))).
Proof.
  intros E. unfold masked_batches. subst pb. cbn [map hd]. unfold blockify_has_batches.
  destruct (nbatches c0 >? 0) eqn:Hpos.
  - right. assert (Hgt : nbatches c0 > 0) by (apply Z.gtb_lt in Hpos; lia).
    destruct c0 as [[id0 bs0] cin0]. destruct bs0 as [|b0 bs0]; [cbn in Hgt; lia|].
    exists (zero_b b0). reflexivity.
  - left. split; [|reflexivity].
    rewrite Z.gtb_ltb in Hpos. apply Z.ltb_ge in Hpos. pose proof (nbatches_nonneg c0). lia.
Qed.

(* what a block run computes, lane by lane *)
Lemma block_run_spec (pb : list pclient) c0 rest (sigma : pclient -> S) :
  pb = c0 :: rest -> Forall (fun c => nbatches c <= nbatches c0) pb ->
  let res := fold_left p_loop_body (masked_batches zero_b pb) (map sigma pb, []) in
  fst res = map (fun c => fold_left next (pc_batches c) (sigma c)) pb /\
  forall i c, nth_error pb i = Some c ->
    pmap_truncate (lane_results i (snd res)) (nbatches c) = step_results (sigma c) (pc_batches c).
Proof.
  intros E Hmax. cbv zeta. rewrite Forall_forall in Hmax.
  destruct (masked_batches_shape pb c0 rest E) as [[Hz ->]|[pad ->]].
  - (* no client of the block has a batch *)
    cbn [fold_left fst snd].
    assert (Hall : forall c, In c pb -> pc_batches c = []).
    { intros c Hc. specialize (Hmax c Hc). pose proof (nbatches_nonneg c).
      unfold nbatches in *. destruct (pc_batches c); [reflexivity|cbn [length] in *; lia]. }
    split.
    + apply map_ext_in. intros c Hc. now rewrite (Hall c Hc).
    + intros i c Hi. unfold nbatches. rewrite (Hall c (nth_error_In _ _ Hi)). reflexivity.
  - destruct (rows_are_lanes (cellf pad) realf (blockify_batch_range (nbatches c0)) pb sigma []) as [H1 H2].
    split.
    + rewrite H1. apply map_ext_in. intros c Hc.
      rewrite column_shape by (now apply Hmax).
      rewrite masked_steps_invisible. reflexivity.
    + intros i c Hi. rewrite (H2 i c Hi). cbn [lane_results flat_map app].
      assert (Hc : In c pb) by (eapply nth_error_In; eassumption).
      rewrite column_shape by (now apply Hmax).
      unfold nbatches at 1. apply step_results_truncated.
Qed.

Lemma nth_error_mask_true (l1 : list bool) n i :
  nth_error (l1 ++ repeat false n) i = Some true -> (i < length l1)%nat.
Proof.
  intros H. destruct (Nat.lt_ge_cases i (length l1)) as [Hl|Hl]; [exact Hl|].
  rewrite nth_error_app2 in H by exact Hl. apply nth_error_In in H. apply repeat_spec in H. discriminate.
Qed.

Lemma run_block_unfold sh (blk : @block Id Cin B) :
  run_block init step final zero_r sh blk
  = let (p_state, p_res) := fold_left p_loop_body (blk_mb blk) (map (init sh) (blk_cin blk), []) in
    (map (final sh) p_state, p_res).
Proof.
  unfold run_block, pmap_run_block_gen. cbv zeta.
  rewrite (fold_left_ext_eq _ p_loop_body)
    by (intros [st rs] [pb pm]; unfold C02_Model.p_loop_body; destruct (split (map3 lane_step st pb pm)); reflexivity).
  destruct (fold_left _ (blk_mb blk) _). reflexivity.
Qed.

Lemma emit_block_flat sh (blk : @block Id Cin B) :
  Permutation (emit_block init step final zero_r sh blk)
    (let (p_out, p_res) := run_block init step final zero_r sh blk in
     emit_flat (blk_id blk) (blk_mask blk) (blk_nb blk) p_out p_res).
Proof. unfold emit_block. destruct (run_block init step final zero_r sh blk). apply pmap_emit_spec. Qed.

(* one block: exactly the real clients' sequential results, nothing for padding *)
Lemma emit_make_block sh D (blk : list pclient) c0 rest :
  blk = c0 :: rest -> Forall (fun c => nbatches c <= nbatches c0) blk ->
  Permutation (emit_block init step final zero_r sh (make_block zero_b zero_cin D blk)) (map (run_pc sh) blk).
Proof.
  intros E Hmax. unfold make_block.
  assert (Epad : pad_block zero_cin D blk =
    (blk ++ repeat (None, [], zero_cin (pc_cin c0)) (Z.to_nat (blockify_num_padding (Z.of_nat (length blk)) D)),
     map (fun _ => true) blk ++ repeat false (Z.to_nat (blockify_num_padding (Z.of_nat (length blk)) D))))
    by (subst blk; reflexivity).
  rewrite Epad. clear Epad.
  set (n := Z.to_nat (blockify_num_padding (Z.of_nat (length blk)) D)).
  match goal with |- context [repeat ?p n] => set (padc := p) end.
  remember (blk ++ repeat padc n) as pb eqn:Hpb.
  assert (Epb : pb = c0 :: (rest ++ repeat padc n)) by (rewrite Hpb, E; reflexivity).
  assert (Hlen : length pb = (length blk + n)%nat) by (rewrite Hpb, app_length, repeat_length; reflexivity).
  assert (Hmax' : Forall (fun c => nbatches c <= nbatches c0) pb).
  { rewrite Hpb. apply Forall_app. split; [exact Hmax|]. apply Forall_forall. intros c Hc.
    apply repeat_spec in Hc. subst c. pose proof (nbatches_nonneg c0). unfold nbatches at 1, padc. cbn. lia. }
  rewrite emit_block_flat.
  match goal with |- Permutation ?a ?b => assert (Heq : a = b); [|rewrite Heq; reflexivity] end.
  unfold emit_flat. rewrite run_block_unfold. cbn [blk_id blk_mask blk_nb blk_mb blk_cin].
  rewrite map_map.
  destruct (block_run_spec pb c0 _ (fun c => init sh (pc_cin c)) Epb Hmax') as [H1 H2].
  destruct (fold_left p_loop_body (masked_batches zero_b pb) (map (fun c => init sh (pc_cin c)) pb, []))
    as [p_state p_res] eqn:Eres.
  cbn [fst snd] in H1, H2. subst p_state. rewrite map_map.
  rewrite map_length, Hlen, seq_app, flat_map_app.
  rewrite (flat_map_nil_on _ (seq (0 + length blk) n)).
  2:{ intros i Hi. apply in_seq in Hi.
      destruct (nth_error (map (fun _ : pclient => true) blk ++ repeat false n) i) as [m|] eqn:Em; [|reflexivity].
      destruct m. { apply nth_error_mask_true in Em. rewrite map_length in Em. lia. }
      repeat (match goal with |- context [match nth_error ?l i with _ => _ end] => destruct (nth_error l i) end);
        reflexivity. }
  rewrite app_nil_r.
  rewrite <- (flat_map_singleton_map (run_pc sh) blk), <- (flat_map_nth_error_seq (fun c => [run_pc sh c]) blk).
  apply flat_map_ext_in'. intros i Hi. apply in_seq in Hi.
  destruct (nth_error blk i) as [c|] eqn:Ec; [|apply nth_error_None in Ec; lia].
  assert (Ec' : nth_error pb i = Some c) by (rewrite Hpb, nth_error_app1 by lia; exact Ec).
  rewrite nth_error_app1 by (rewrite map_length; lia).
  rewrite !nth_error_map', Ec', Ec. cbn [option_map]. unfold pmap_skip. cbn [negb].
  rewrite (H2 i c Ec'). reflexivity.
Qed.

Lemma blocks_emit sh (D : nat) : (1 <= D)%nat -> forall fuel (l : list pclient),
  StronglySorted (desc nbatches) l -> (length l <= fuel)%nat ->
  Permutation
    (flat_map (emit_block init step final zero_r sh) (map (make_block zero_b zero_cin (Z.of_nat D)) (chunks_f fuel D l)))
    (map (run_pc sh) l).
Proof.
  intros HD. induction fuel as [|f IH]; intros l Hs Hl.
  - destruct l; [reflexivity|cbn in Hl; lia].
  - cbn [chunks_f]. destruct l as [|x l']; [reflexivity|].
    cbn [map flat_map].
    transitivity (map (run_pc sh) (firstn D (x :: l')) ++ map (run_pc sh) (skipn D (x :: l'))).
    2:{ rewrite <- map_app, firstn_skipn. reflexivity. }
    apply Permutation_app.
    + destruct D as [|d]; [lia|]. cbn [firstn].
      apply (emit_make_block sh _ _ x (firstn d l')); [reflexivity|].
      inversion Hs as [|? ? _ Hf]; subst. constructor; [lia|]. apply Forall_firstn. exact Hf.
    + apply IH; [now apply StronglySorted_skipn | rewrite skipn_length; cbn [length] in *; lia].
Qed.

Lemma pmap_run_sorted sh D (clients : list client) : 1 <= D ->
  Permutation (pmap_run init step final zero_r zero_b zero_cin D sh clients)
    (map (run_pc sh)
        (sort_by nbatches blockify_sort_reverse (map (fun c : client => let '(id, bs, cin) := c in (Some id, bs, cin)) clients))).
Proof.
  intros HD. unfold pmap_run, blockify, blockify_blocks. cbv zeta.
  rewrite slices_are_chunks0 by exact HD. unfold chunks.
  replace D with (Z.of_nat (Z.to_nat D)) at 1 by lia.
  apply blocks_emit; [lia|change blockify_sort_reverse with true; apply sort_by_desc|lia].
Qed.

(* the pmap backend yields a permutation of the sequential results *)
Lemma pmap_equals_seq sh D (clients : list client) : 1 <= D ->
  Permutation (pmap_run init step final zero_r zero_b zero_cin D sh clients)
              (map (run_seq init step final sh) clients).
Proof.
  intros HD. rewrite pmap_run_sorted by exact HD.
  rewrite (Permutation_map (run_pc sh) (sort_by_perm nbatches blockify_sort_reverse _)).
  rewrite map_map. apply Permutation_refl'. apply map_ext. intros [[id bs] cin]. reflexivity.
Qed.

(* in particular: exactly the input ids, each as often as it occurs in the input, and
   never the id None of a padding client *)
Lemma pmap_ids sh D (clients : list client) : 1 <= D ->
  Permutation (map (fun r : result => fst (fst r)) (pmap_run init step final zero_r zero_b zero_cin D sh clients))
              (map (fun c : client => Some (fst (fst c))) clients).
Proof.
  intros HD. rewrite (Permutation_map _ (pmap_equals_seq sh D clients HD)). rewrite map_map.
  apply Permutation_refl'. apply map_ext. intros [[id bs] cin]. reflexivity.
Qed.

Lemma pmap_result_lengths sh D (clients : list client) : 1 <= D ->
  Forall (fun r : result => exists c, In c clients /\ r = run_seq init step final sh c /\
                                      length (snd r) = length (snd (fst c)))
         (pmap_run init step final zero_r zero_b zero_cin D sh clients).
Proof.
  intros HD. apply Forall_forall. intros r Hr.
  apply (Permutation_in _ (pmap_equals_seq sh D clients HD)) in Hr. apply in_map_iff in Hr.
  destruct Hr as [c [<- Hc]]. exists c. repeat split; [exact Hc|].
  destruct c as [[id bs] cin]. cbn. apply step_results_length.
Qed.

End Generic.

(* ------------------------------------------------------------------------ *)
(* thread-local backend choice *)

Lemma run_thread_cons o ops s :
  run_thread s (o :: ops) =
  (fst (run_thread (fst (exec_op o s)) ops),
   match snd (exec_op o s) with
   | Some v => v :: snd (run_thread (fst (exec_op o s)) ops)
   | None => snd (run_thread (fst (exec_op o s)) ops)
   end).
Proof. cbn [run_thread]. destruct (exec_op o s) as [s' r]. cbn [fst snd]. destruct (run_thread s' ops). reflexivity. Qed.

Lemma run_sched_cons t o rest g :
  run_sched g ((t, o) :: rest) =
  (fst (run_sched (gupd g t (fst (exec_op o (g t)))) rest),
   match snd (exec_op o (g t)) with
   | Some v => (t, v) :: snd (run_sched (gupd g t (fst (exec_op o (g t)))) rest)
   | None => snd (run_sched (gupd g t (fst (exec_op o (g t)))) rest)
   end).
Proof. cbn [run_sched]. destruct (exec_op o (g t)) as [s' r]. cbn [fst snd]. destruct (run_sched (gupd g t s') rest). reflexivity. Qed.

(* whatever the interleaving, thread t's reads and final state are those of t's own
   operations run alone from t's own initial state *)
Lemma thread_scoped : forall sched g t,
  reads_of t (snd (run_sched g sched)) = snd (run_thread (g t) (ops_of t sched)) /\
  fst (run_sched g sched) t = fst (run_thread (g t) (ops_of t sched)).
Proof.
  induction sched as [|[u o] rest IH]; intros g t.
  - split; reflexivity.
  - rewrite run_sched_cons. cbn [fst snd]. unfold ops_of. cbn [filter fst].
    destruct (IH (gupd g u (fst (exec_op o (g u)))) t) as [IH1 IH2].
    destruct (Nat.eqb u t) eqn:E.
    + apply Nat.eqb_eq in E. subst u. cbn [map snd]. fold (ops_of t rest).
      rewrite run_thread_cons. cbn [fst snd].
      unfold gupd in IH1, IH2. rewrite Nat.eqb_refl in IH1, IH2.
      split; [|exact IH2].
      destruct (snd (exec_op o (g t))) as [v|]; [|exact IH1].
      unfold reads_of. cbn [filter fst]. rewrite Nat.eqb_refl. cbn [map snd]. f_equal. exact IH1.
    + fold (ops_of t rest). unfold gupd in IH1, IH2. rewrite Nat.eqb_sym, E in IH1, IH2.
      split; [|exact IH2].
      destruct (snd (exec_op o (g u))) as [v|]; [|exact IH1].
      unfold reads_of. cbn [filter fst]. rewrite E. exact IH1.
Qed.

Lemma thread_scoped_indep sched1 sched2 g1 g2 t :
  ops_of t sched1 = ops_of t sched2 -> g1 t = g2 t ->
  reads_of t (snd (run_sched g1 sched1)) = reads_of t (snd (run_sched g2 sched2)) /\
  fst (run_sched g1 sched1) t = fst (run_sched g2 sched2) t.
Proof.
  intros Ho Hg. destruct (thread_scoped sched1 g1 t) as [A1 A2]. destruct (thread_scoped sched2 g2 t) as [B1 B2].
  rewrite A1, A2, B1, B2, Ho, Hg. split; reflexivity.
Qed.

Lemma run_thread_app_fst : forall a b s,
  fst (run_thread s (a ++ b)) = fst (run_thread (fst (run_thread s a)) b).
Proof.
  induction a as [|o a IH]; intros b s; [reflexivity|].
  cbn [app]. rewrite !run_thread_cons. cbn [fst]. apply IH.
Qed.

Lemma simple_keeps_stack o s : is_simple o = true -> ts_stack (fst (exec_op o s)) = ts_stack s.
Proof. destruct o; cbn; try discriminate; try reflexivity. Qed.

(* the generated context-manager exit restores the saved value, also on exception *)
Lemma ctx_exit_restores old cur : ctx_exit old cur = old /\ ctx_exit_on_exception = true.
Proof. split; reflexivity. Qed.
Lemma ctx_enter_saves b cur : ctx_enter b cur = (b, cur).
Proof. reflexivity. Qed.

Lemma exit_pops ex s old st : is_exit ex = true -> ts_stack s = old :: st ->
  fst (exec_op ex s) = mk_ts old st.
Proof.
  intros He Hs. destruct (ctx_exit_restores old (ts_cur s)) as [H1 H2].
  destruct ex; try discriminate; cbn [exec_op]; rewrite Hs; rewrite ?H2, H1; reflexivity.
Qed.

Lemma balanced_keeps_stack ops : balanced ops -> forall s, ts_stack (fst (run_thread s ops)) = ts_stack s.
Proof.
  induction 1 as [|o ops Ho _ IH|b body ex rest _ IHb Hex _ IHr]; intros s.
  - reflexivity.
  - rewrite run_thread_cons. cbn [fst]. rewrite IH. now apply simple_keeps_stack.
  - rewrite run_thread_cons. cbn [fst exec_op]. rewrite run_thread_app_fst, run_thread_cons. cbn [fst].
    rewrite IHr.
    rewrite (exit_pops ex _ (ts_cur s) (ts_stack s) Hex); [reflexivity|]. rewrite IHb. reflexivity.
Qed.

(* a context block restores the whole thread state it was entered in: whatever the
   (well-nested) body does -- Set included -- and whether it is left normally or by
   an exception *)
Lemma restored_on_exit b body ex s : balanced body -> is_exit ex = true ->
  fst (run_thread s (BEnter b :: body ++ [ex])) = s.
Proof.
  intros Hb Hex. rewrite run_thread_cons. cbn [fst exec_op]. rewrite run_thread_app_fst, run_thread_cons.
  cbn [run_thread fst].
  rewrite (exit_pops ex _ (ts_cur s) (ts_stack s) Hex); [destruct s; reflexivity|].
  rewrite (balanced_keeps_stack body Hb). reflexivity.
Qed.

(* ------------------------------------------------------------------------ *)
(* ownership: the jit backend never deletes (donates) a caller buffer and never uses
   a deleted one *)
Section Ownership.
Local Open Scope nat_scope.

(* the donation sites found by the translator *)
Lemma init_donates_nothing : donated jit_init_donates 0%Z = false /\ donated jit_init_donates 1%Z = false.
Proof. split; reflexivity. Qed.
Lemma step_donates_state_only : donated jit_step_donates 0%Z = true /\ donated jit_step_donates 1%Z = false.
Proof. split; reflexivity. Qed.
Lemma final_donates_state_only : donated jit_final_donates 0%Z = false /\ donated jit_final_donates 1%Z = true.
Proof. split; reflexivity. Qed.
Lemma init_copies : jit_init_copies = true.
Proof. reflexivity. Qed.

Lemma alive_iff st b : alive st b = true <-> ~ In b (os_dead st).
Proof.
  unfold alive. rewrite negb_true_iff. split.
  - intros H Hin. assert (existsb (Nat.eqb b) (os_dead st) = true); [|congruence].
    apply existsb_exists. exists b. split; [exact Hin|apply Nat.eqb_refl].
  - intros H. destruct (existsb (Nat.eqb b) (os_dead st)) eqn:E; [|reflexivity].
    apply existsb_exists in E. destruct E as [x [Hx Ex]]. apply Nat.eqb_eq in Ex. subst x. contradiction.
Qed.

Lemma forallb_alive st x : forallb (alive st) x = true <-> Forall (fun b => ~ In b (os_dead st)) x.
Proof.
  rewrite forallb_forall, Forall_forall. split; intros H b Hb; apply alive_iff; apply H; exact Hb.
Qed.

Lemma alloc_outputs_spec fw don shape a b : forall n,
  n <= snd (alloc_outputs fw don shape a b n) /\
  Forall (fun x => (n <= x < snd (alloc_outputs fw don shape a b n)) \/
                   (fw && negb (donated don 0%Z) = true /\ In x a) \/
                   (fw && negb (donated don 1%Z) = true /\ In x b))
         (fst (alloc_outputs fw don shape a b n)).
Proof.
  induction shape as [|o rest IH]; intros n; cbn [alloc_outputs fst snd]; [split; [lia|constructor]|].
  set (keep := match o with
               | OFresh => None
               | OFromA j => if fw && negb (donated don 0%Z) then nth_error a j else None
               | OFromB j => if fw && negb (donated don 1%Z) then nth_error b j else None
               end).
  assert (Hk : forall buf, keep = Some buf ->
            (fw && negb (donated don 0%Z) = true /\ In buf a) \/ (fw && negb (donated don 1%Z) = true /\ In buf b)).
  { intros buf E. unfold keep in E. destruct o as [|j|j]; [discriminate| |].
    - destruct (fw && negb (donated don 0%Z)) eqn:F; [|discriminate]. left. split; [reflexivity|]. eapply nth_error_In; eassumption.
    - destruct (fw && negb (donated don 1%Z)) eqn:F; [|discriminate]. right. split; [reflexivity|]. eapply nth_error_In; eassumption. }
  destruct keep as [buf|].
  - destruct (IH n) as [H1 H2]. destruct (alloc_outputs fw don rest a b n) as [out n'] eqn:E. cbn [fst snd] in *.
    split; [exact H1|]. constructor; [right; now apply Hk|exact H2].
  - destruct (IH (Datatypes.S n)) as [H1 H2]. destruct (alloc_outputs fw don rest a b (Datatypes.S n)) as [out n'] eqn:E.
    cbn [fst snd] in *. split; [lia|]. constructor; [left; lia|].
    eapply Forall_impl; [|exact H2]. cbn beta. intros x [Hx|Hx]; [left; lia|right; exact Hx].
Qed.

Definition os_wf (st : ostore) : Prop := Forall (fun d => d < os_next st) (os_dead st).
(* buffers created during the call (ids >= N), allocated and not deleted *)
Definition owned (N : nat) (st : ostore) (x : bufs) : Prop :=
  Forall (fun b => N <= b < os_next st /\ ~ In b (os_dead st)) x.
(* no buffer below N has been deleted since st0 *)
Definition safe (N : nat) (st0 st : ostore) : Prop :=
  N <= os_next st /\ os_wf st /\ forall b, b < N -> In b (os_dead st) -> In b (os_dead st0).
Definition caller_ok (N : nat) (st0 : ostore) (x : bufs) : Prop :=
  Forall (fun b => b < N /\ ~ In b (os_dead st0)) x.
Definition no_from_b (shape : list osrc) : Prop :=
  Forall (fun o => match o with OFromB _ => False | _ => True end) shape.

Lemma caller_alive N st0 st x : safe N st0 st -> caller_ok N st0 x -> Forall (fun b => ~ In b (os_dead st)) x.
Proof.
  intros [_ [_ Hs]] Hc. eapply Forall_impl; [|exact Hc]. cbn beta. intros b [Hb Ha] Hin. apply Ha. now apply Hs.
Qed.

Lemma owned_alive N st x : owned N st x -> Forall (fun b => ~ In b (os_dead st)) x.
Proof. intros H. eapply Forall_impl; [|exact H]. cbn beta. tauto. Qed.

(* jit_client_init: donates nothing; its result may alias shared / client input *)
Lemma init_call fw N st0 st shape shared cin :
  safe N st0 st -> caller_ok N st0 shared -> caller_ok N st0 cin ->
  exists state0 st', jcall fw jit_init_donates shape shared cin st = Some (state0, st') /\ safe N st0 st' /\
                     os_dead st' = os_dead st.
Proof.
  intros Hs Hsh Hci. unfold jcall.
  rewrite (proj2 (forallb_alive st shared) (caller_alive N st0 st _ Hs Hsh)).
  rewrite (proj2 (forallb_alive st cin) (caller_alive N st0 st _ Hs Hci)). cbn [andb].
  destruct (alloc_outputs_spec fw jit_init_donates shape shared cin (os_next st)) as [H1 _].
  destruct (alloc_outputs fw jit_init_donates shape shared cin (os_next st)) as [out n'] eqn:E. cbn [fst snd] in H1.
  destruct init_donates_nothing as [-> ->]. cbn [app].
  exists out, (mk_os n' (os_dead st)). split; [reflexivity|]. split; [|reflexivity].
  destruct Hs as [Hn [Hwf Hd]]. split; [cbn; lia|]. split; [|exact Hd].
  unfold os_wf in *. cbn [os_next os_dead]. eapply Forall_impl; [|exact Hwf]. cbn beta. intros; lia.
Qed.

Lemma copy_owned N st0 st x : safe N st0 st ->
  safe N st0 (snd (copy_bufs x st)) /\ owned N (snd (copy_bufs x st)) (fst (copy_bufs x st)).
Proof.
  intros [Hn [Hwf Hd]]. unfold copy_bufs. cbn [fst snd]. split.
  - split; [cbn; lia|]. split; [|exact Hd]. unfold os_wf in *. cbn [os_next os_dead].
    eapply Forall_impl; [|exact Hwf]. cbn beta. intros; lia.
  - unfold owned. cbn [os_next os_dead]. apply Forall_forall. intros b Hb. apply in_seq in Hb.
    split; [lia|]. intros Hin. unfold os_wf in Hwf. rewrite Forall_forall in Hwf. specialize (Hwf b Hin). lia.
Qed.

(* a call that donates `state` (and nothing else) and whose outputs are fresh or taken
   from `state`: deletes only owned buffers, returns owned buffers *)
Lemma donating_call fw N st0 st don shape (state other : bufs) (state_first : bool) :
  (if state_first then donated don 0%Z = true /\ donated don 1%Z = false
   else donated don 0%Z = false /\ donated don 1%Z = true) ->
  safe N st0 st -> owned N st state -> caller_ok N st0 other ->
  exists out st', (if state_first then jcall fw don shape state other st else jcall fw don shape other state st)
                  = Some (out, st') /\ safe N st0 st' /\
    Forall (fun x => (N <= x < os_next st' /\ ~ In x (os_dead st')) \/
                     (fw = true /\ In x other)) out.
Proof.
  intros Hdon Hs Hst Hot.
  pose proof (owned_alive N st state Hst) as Ast. pose proof (caller_alive N st0 st other Hs Hot) as Aot.
  destruct Hs as [Hn [Hwf Hd]].
  assert (Hnew : forall n' x, os_next st <= x < n' -> N <= x < n' /\ ~ In x (state ++ os_dead st)).
  { intros n' x Hx. split; [lia|]. intros Hin. apply in_app_or in Hin. destruct Hin as [Hin|Hin].
    - unfold owned in Hst. rewrite Forall_forall in Hst. specialize (Hst x Hin). lia.
    - unfold os_wf in Hwf. rewrite Forall_forall in Hwf. specialize (Hwf x Hin). lia. }
  assert (Hsafe : forall n', os_next st <= n' -> safe N st0 (mk_os n' (state ++ os_dead st))).
  { intros n' Hle. split; [cbn; lia|]. split.
    - unfold os_wf. cbn [os_next os_dead]. apply Forall_app. split.
      + unfold owned in Hst. eapply Forall_impl; [|exact Hst]. cbn beta. intros; lia.
      + unfold os_wf in Hwf. eapply Forall_impl; [|exact Hwf]. cbn beta. intros; lia.
    - cbn [os_dead]. intros b Hb Hin. apply in_app_or in Hin. destruct Hin as [Hin|Hin]; [|now apply Hd].
      unfold owned in Hst. rewrite Forall_forall in Hst. specialize (Hst b Hin). lia. }
  destruct state_first; destruct Hdon as [D0 D1]; unfold jcall.
  - rewrite (proj2 (forallb_alive st state) Ast), (proj2 (forallb_alive st other) Aot). cbn [andb].
    destruct (alloc_outputs_spec fw don shape state other (os_next st)) as [H1 H2].
    destruct (alloc_outputs fw don shape state other (os_next st)) as [out n'] eqn:E. cbn [fst snd] in H1, H2.
    rewrite D0, D1 in *. cbn [app]. exists out, (mk_os n' (state ++ os_dead st)).
    split; [reflexivity|]. split; [now apply Hsafe|].
    eapply Forall_impl; [|exact H2]. cbn beta. cbn [os_next os_dead].
    intros x [Hx|[[Hx _]|[Hx Hin]]].
    + left. now apply Hnew.
    + rewrite andb_false_r in Hx. discriminate.
    + right. split; [|exact Hin]. destruct fw; [reflexivity|discriminate].
  - rewrite (proj2 (forallb_alive st state) Ast), (proj2 (forallb_alive st other) Aot). cbn [andb].
    destruct (alloc_outputs_spec fw don shape other state (os_next st)) as [H1 H2].
    destruct (alloc_outputs fw don shape other state (os_next st)) as [out n'] eqn:E. cbn [fst snd] in H1, H2.
    rewrite D0, D1 in *. cbn [app]. rewrite app_nil_r || idtac.
    exists out, (mk_os n' (state ++ os_dead st)).
    split; [reflexivity|]. split; [now apply Hsafe|].
    eapply Forall_impl; [|exact H2]. cbn beta. cbn [os_next os_dead].
    intros x [Hx|[[Hx Hin]|[Hx _]]].
    + left. now apply Hnew.
    + right. split; [|exact Hin]. destruct fw; [reflexivity|discriminate].
    + rewrite andb_false_r in Hx. discriminate.
Qed.

Lemma alloc_no_from_b fw don shape a b : no_from_b shape -> forall n,
  alloc_outputs fw don shape a b n = alloc_outputs fw don shape a [] n.
Proof.
  induction 1 as [|o rest Ho _ IH]; intros n; cbn [alloc_outputs]; [reflexivity|].
  destruct o as [|j|j]; [| |contradiction].
  - now rewrite IH.
  - destruct (fw && negb (donated don 0%Z)); [destruct (nth_error a j)|]; now rewrite ?IH.
Qed.

Lemma step_call fw N st0 st shape state batch :
  (fw = true -> no_from_b shape) ->
  safe N st0 st -> owned N st state -> caller_ok N st0 batch ->
  exists state' st', jcall fw jit_step_donates shape state batch st = Some (state', st') /\
                     safe N st0 st' /\ owned N st' state'.
Proof.
  intros Hnb Hs Hst Hb.
  destruct (donating_call fw N st0 st jit_step_donates shape state batch true step_donates_state_only Hs Hst Hb)
    as [out [st' [E [Hs' Hout]]]].
  exists out, st'. split; [exact E|]. split; [exact Hs'|].
  destruct fw.
  - (* forwarding runtime: the step must not return its batch *)
    specialize (Hnb eq_refl).
    unfold jcall in E. destruct (forallb (alive st) state && forallb (alive st) batch); [|discriminate].
    rewrite (alloc_no_from_b true jit_step_donates shape state batch Hnb) in E.
    destruct (alloc_outputs_spec true jit_step_donates shape state [] (os_next st)) as [H1 H2].
    destruct (alloc_outputs true jit_step_donates shape state [] (os_next st)) as [out' n'] eqn:E'.
    cbn [fst snd] in H1, H2. injection E as <- <-.
    unfold owned. cbn [os_next os_dead]. destruct step_donates_state_only as [D0 D1]. rewrite D0, D1 in *. cbn [app].
    apply Forall_forall. intros x Hx. rewrite Forall_forall in H2. destruct (H2 x Hx) as [Hr|[[Hf _]|[_ []]]].
    + split; [destruct Hs as [Hn _]; lia|]. intros Hin. apply in_app_or in Hin. destruct Hin as [Hin|Hin].
      * unfold owned in Hst. rewrite Forall_forall in Hst. specialize (Hst x Hin). lia.
      * destruct Hs as [_ [Hwf _]]. unfold os_wf in Hwf. rewrite Forall_forall in Hwf. specialize (Hwf x Hin). lia.
    + discriminate.
  - eapply Forall_impl; [|exact Hout]. cbn beta. intros x [Hx|[Hx _]]; [exact Hx|discriminate].
Qed.

Lemma steps_ok fw N st0 p : (fw = true -> no_from_b (op_step p)) -> forall batches state st,
  safe N st0 st -> owned N st state -> Forall (caller_ok N st0) batches ->
  exists state' st', own_steps fw p state batches st = Some (state', st') /\ safe N st0 st' /\ owned N st' state'.
Proof.
  intros Hnb. induction batches as [|b rest IH]; intros state st Hs Hst Hb; cbn [own_steps].
  - exists state, st. auto.
  - inversion Hb as [|? ? Hb1 Hb2]; subst.
    destruct (step_call fw N st0 st (op_step p) state b Hnb Hs Hst Hb1) as [state' [st' [E [Hs' Hst']]]].
    rewrite E. now apply IH.
Qed.

Lemma client_ok fw N st0 p shared batches cin st :
  (fw = true -> no_from_b (op_step p)) ->
  safe N st0 st -> caller_ok N st0 shared -> Forall (caller_ok N st0) batches -> caller_ok N st0 cin ->
  exists st', own_client fw jit_init_copies p shared (batches, cin) st = Some st' /\ safe N st0 st'.
Proof.
  intros Hnb Hs Hsh Hb Hci. unfold own_client.
  destruct (init_call fw N st0 st (op_init p) shared cin Hs Hsh Hci) as [state0 [st1 [E [Hs1 _]]]]. rewrite E.
  rewrite init_copies.
  destruct (copy_owned N st0 st1 state0 Hs1) as [Hs2 Ho2].
  destruct (copy_bufs state0 st1) as [state st2]. cbn [fst snd] in Hs2, Ho2.
  destruct (steps_ok fw N st0 p Hnb batches state st2 Hs2 Ho2 Hb) as [state' [st3 [E3 [Hs3 Ho3]]]]. rewrite E3.
  destruct (donating_call fw N st0 st3 jit_final_donates (op_final p) state' shared false final_donates_state_only Hs3 Ho3 Hsh)
    as [out [st4 [E4 [Hs4 _]]]].
  rewrite E4. exists st4. split; [reflexivity|exact Hs4].
Qed.

Lemma run_ok fw N st0 p shared : (fw = true -> no_from_b (op_step p)) -> caller_ok N st0 shared ->
  forall clients st, safe N st0 st ->
  Forall (fun c => Forall (caller_ok N st0) (fst c) /\ caller_ok N st0 (snd c)) clients ->
  exists st', own_run fw jit_init_copies p shared clients st = Some st' /\ safe N st0 st'.
Proof.
  intros Hnb Hsh. induction clients as [|[batches cin] rest IH]; intros st Hs Hc; cbn [own_run].
  - exists st. auto.
  - inversion Hc as [|? ? [Hb Hci] Hrest]; subst. cbn [fst snd] in Hb, Hci.
    destruct (client_ok fw N st0 p shared batches cin st Hnb Hs Hsh Hb Hci) as [st' [E Hs']]. rewrite E. now apply IH.
Qed.

Lemma Forall_concat_inv {A} (P : A -> Prop) (ls : list (list A)) : Forall P (concat ls) -> Forall (Forall P) ls.
Proof.
  induction ls as [|l ls IH]; intros H; [constructor|]. cbn [concat] in H. apply Forall_app in H.
  destruct H. constructor; [assumption|now apply IH].
Qed.

(* The jit backend completes without touching a deleted buffer and leaves every caller
   buffer (shared input, client inputs, batches) alive, for every program, provided --
   on a runtime that forwards pass-through outputs -- client_step does not return its
   batch as (part of) the new state. *)
Theorem caller_buffers_not_donated fw p shared clients st :
  (fw = true -> no_from_b (op_step p)) ->
  os_wf st ->
  Forall (fun b => b < os_next st /\ alive st b = true) (caller_bufs shared clients) ->
  own_ok fw jit_init_copies p shared clients st = true.
Proof.
  intros Hnb Hwf Hc. set (N := os_next st).
  assert (Hc' : caller_ok N st (caller_bufs shared clients)).
  { eapply Forall_impl; [|exact Hc]. cbn beta. intros b [Hb Ha]. split; [exact Hb|now apply alive_iff]. }
  unfold caller_bufs, caller_ok in Hc'. apply Forall_app in Hc'. destruct Hc' as [Hsh Hcl].
  assert (Hcl' : Forall (fun c => Forall (caller_ok N st) (fst c) /\ caller_ok N st (snd c)) clients).
  { clear - Hcl. induction clients as [|c rest IH]; [constructor|]. cbn [flat_map] in Hcl.
    apply Forall_app in Hcl. destruct Hcl as [Hc Hr]. apply Forall_app in Hc. destruct Hc as [Hb Hi].
    constructor; [|now apply IH]. split; [|exact Hi]. now apply Forall_concat_inv. }
  assert (Hs : safe N st st) by (split; [unfold N; lia|split; [exact Hwf|auto]]).
  destruct (run_ok fw N st p shared Hnb Hsh clients st Hs Hcl') as [st' [E Hs']].
  unfold own_ok. rewrite E. apply forallb_alive.
  eapply (caller_alive N st st'); [exact Hs'|]. unfold caller_ok.
  apply Forall_app. split; [exact Hsh|exact Hcl].
Qed.

End Ownership.

(* the structure of the backend-choice code the thread model mirrors, as recognised in
   the source on this run *)
Lemma backend_choice_anchored :
  backend_choice_thread_local = true /\ backend_get_installs_default = true /\
  ctx_saves_field = true /\ ctx_sets_in_try = true /\ ctx_restores_old_in_finally = true.
Proof. repeat split; reflexivity. Qed.

(* ------------------------------------------------------------------------ *)
(* the statements of Props/C02.v that combine several lemmas *)

Lemma thread_scoped_full sched1 sched2 g1 g2 t :
  ops_of t sched1 = ops_of t sched2 -> g1 t = g2 t ->
  reads_of t (snd (run_sched g1 sched1)) = snd (run_thread (g1 t) (ops_of t sched1)) /\
  reads_of t (snd (run_sched g1 sched1)) = reads_of t (snd (run_sched g2 sched2)) /\
  fst (run_sched g1 sched1) t = fst (run_sched g2 sched2) t.
Proof.
  intros Ho Hg. split; [exact (proj1 (thread_scoped sched1 g1 t))|].
  exact (thread_scoped_indep sched1 sched2 g1 g2 t Ho Hg).
Qed.

Lemma restored_on_exit_full b body ex s :
  balanced body -> is_exit ex = true ->
  fst (run_thread s (BEnter b :: body ++ [ex])) = s /\
  snd (exec_op BGet (fst (run_thread s (BEnter b :: body ++ [ex])))) = snd (exec_op BGet s).
Proof. intros Hb He. rewrite (restored_on_exit b body ex s Hb He). split; reflexivity. Qed.

Lemma no_copy_refuted :
  exists p shared clients st, no_from_b (op_step p) /\ os_wf st /\
    Forall (fun b => (b < os_next st)%nat /\ alive st b = true) (caller_bufs shared clients) /\
    own_ok true false p shared clients st = false.
Proof.
  exists (mk_oprog [OFromA 0%nat] [OFresh] [OFromB 0%nat]), [0%nat], [([[1%nat]], [2%nat])], (mk_os 3 []).
  repeat split; try (vm_compute; reflexivity); repeat constructor.
Qed.

Lemma step_alias_refuted :
  exists p shared clients st, os_wf st /\
    Forall (fun b => (b < os_next st)%nat /\ alive st b = true) (caller_bufs shared clients) /\
    own_ok true jit_init_copies p shared clients st = false.
Proof.
  exists (mk_oprog [OFresh] [OFromB 0%nat] [OFromB 0%nat]), [0%nat], [([[1%nat]; [2%nat]], [3%nat])], (mk_os 4 []).
  repeat split; try (vm_compute; reflexivity); repeat constructor.
Qed.

Lemma model_anchored :
  backend_choice_thread_local = true /\ backend_get_installs_default = true /\
  ctx_saves_field = true /\ ctx_sets_in_try = true /\ ctx_restores_old_in_finally = true /\
  jit_init_copies = true /\ jit_init_donates = [] /\ jit_step_donates = [0] /\ jit_final_donates = [1] /\
  blockify_sort_reverse = true /\ jit_run_is_sequential_loop = true /\ debug_run_is_sequential_loop = true /\
  api_binds_via_get = true /\ api_passes_step_results_through = true /\ api_drops_unit_step_results = true /\
  pmap_inputs_are_stacked_copies = true /\ module_has_no_nondeterminism_source = true.
Proof. repeat split; reflexivity. Qed.

(* ------------------------------------------------------------------------ *)
(* Wave 4: what the translated backend-choice code computes *)
Lemma choice_code_translated :
  (forall b cur, ctx_enter b cur = (b, cur)) /\
  (forall old cur, ctx_exit old cur = old) /\
  ctx_exit_on_exception = true /\
  (forall d cur, choice_get d cur =
     (Some (match cur with Some b => b | None => d end), Some (match cur with Some b => b | None => d end))).
Proof. repeat split. intros d [b|]; reflexivity. Qed.

(* a REAL client whose id is the value None (ClientId is any hashable; here Id := option Z)
   is a client like any other: its triple is yielded with id Some None, which is different
   from the id None of a padding client *)
Lemma real_none_id_kept :
  let init (sh cin : Z) := sh + cin in
  let step (s b : Z) := (s + b, s) in
  let final (sh s : Z) := s in
  let zero (_ : Z) := 0 in
  let clients : list (option Z * list Z * Z) := [(None, [1; 2], 10); (Some (-1), [], 20); (Some 7, [5], 30)] in
  let out := pmap_run init step final zero zero zero 2 100 clients in
  length out = 3%nat /\ In (Some None, 113, [110; 111]) out /\ In (Some (Some (-1)), 120, []) out /\
  In (Some (Some 7), 135, [130]) out /\ ~ In None (map (fun r => fst (fst r)) out).
Proof. vm_compute. intuition; try discriminate. Qed.

(* the hypotheses of the theorems are satisfiable by non-trivial instances *)
Lemma hypotheses_inhabited :
  balanced [BSet (Some 2); BEnter (Some 3); BGet; BEnter None; BSet (Some 2); BExitExc; BEnterBad; BExit; BGet] /\
  os_wf (mk_os 5 [3%nat; 1%nat]) /\ no_from_b [OFresh; OFromA 1%nat] /\
  Forall (fun b => (b < os_next (mk_os 5 [3%nat]))%nat /\ alive (mk_os 5 [3%nat]) b = true)
         (caller_bufs [0%nat] [([[1%nat]; [2%nat]], [4%nat])]).
Proof.
  repeat split.
  - apply bal_simple; [reflexivity|].
    apply (bal_with (Some 3) [BGet; BEnter None; BSet (Some 2); BExitExc; BEnterBad] BExit [BGet]).
    + apply bal_simple; [reflexivity|].
      apply (bal_with None [BSet (Some 2)] BExitExc [BEnterBad]); [|reflexivity|].
      * apply bal_simple; [reflexivity|constructor].
      * apply bal_simple; [reflexivity|constructor].
    + reflexivity.
    + apply bal_simple; [reflexivity|constructor].
  - repeat constructor.
  - repeat constructor.
  - vm_compute. repeat constructor.
Qed.
